import RF.Model.Shape
import RF.Model.Comment
import RF.Model.Newline
/-!
# Model of the missed-span writer (`/repo/src/missed_spans.rs`) and of `close_block` (`visitor.rs`)

The text between two nodes that rustfmt formats itself ("missing" text: white space, comments, and code
it failed to format) is written by `FmtVisitor::format_missing*`:

  * `format_missing`, `format_missing_with_indent`, `format_missing_no_indent` (`:38-75`)  → `formatMissing`,
    `formatMissingIndent`
  * `format_missing_inner` (`:77-114`)                                                      → `formatMissingInner`
  * `push_vertical_spaces` (`:116-137`)          → `Vis.pushVerticalSpaces` (the arithmetic is `RF.Newline.pushVerticalSpaces`)
  * `write_snippet`, `write_snippet_inner` (`:139-227`)                                     → `writeSnippet`, `wsiLoop`
  * `process_comment` (`:229-324`)                                                          → `processComment`
  * `process_missing_code` (`:326-369`)                                                     → `processMissingCode`
  * `count_lf_crlf` (`utils.rs:323-336`), `is_last_comment_block` (`comment.rs:145`)
  * `FmtVisitor::close_block` (`visitor.rs:254-370`)                                        → `closeBlock`
    (`mk_sp` swaps inverted ends; `snippet_in_between` is taken from the span's own snippet, of which it
    is a part)

Texts are `List Char`; **every position is a byte offset into the UTF-8 text**, as in the code
(`utf8Len` of the characters in front of it).  A Rust slice `&s[a..b]` panics when `a` or `b` is not on a
character boundary or out of range: `sliceBytes?`, `dropBytes?`, `takeBytes?` answer `none` exactly
then, and `none` travels to the result (`none` = the Rust code panics).  The other panics modelled:
`assert!(start < end)` of `format_missing_inner`, and the division by zero inside
`Indent::to_string` / `Indent::from_width` when `hard_tabs` is set with `tab_spaces = 0`
(`RF.Model.Shape`).

`rewrite_comment` is a parameter (`Env.rc`), as in `RF.Model.Lists`; `unicode_str_width` (read by
`last_line_width(&self.buffer)`) is a parameter too (`Env.width`).  The driver instantiates them with
`RF.Lists.rewriteCommentLight` (normalize_comments = wrap_comments = false) and `RF.Lists.strWidth`.

Restrictions (said once): `file_lines` is the all-lines set (every `within_file_lines_range` is true, every
`out_of_file_lines_range!` false; `SnippetStatus::cur_line` is then written but never read — it is kept
in the model and cannot be observed from outside); `emit_mode` is not `Coverage`
(`transform_missing_snippet` is the identity); positions are relative to the start of the file's text
(`SnippetProvider::start_pos`, `Env.base`): a position in front of it (`checked_sub` → `unwrap` panic)
is not representable.

What `push_str` receives is also recorded as a list of tagged pieces (`Vis.log`); the tags say which
statement pushed the text and carry no behaviour (every read of the buffer reads `Vis.buffer`).
-/
namespace RF.Missed
open RF.Shape RF.Comment RF.CharClasses

/-- `rewrite_comment(orig, block_style, shape, config)`; `none` = `Err(_)`. -/
abbrev Rc := List Char → Bool → Shape → Option (List Char)

/-- Which statement pushed a piece of text. -/
inductive Tag where
  /-- the `"\n".repeat(newline_count)` of `push_vertical_spaces` -/
  | vspace
  /-- other fixed white space: indentation, `"\n"`, `" "` -/
  | blank
  /-- what `rewrite_comment` returned (or the comment as written when it failed / was not asked) -/
  | comment
  /-- text copied by `process_missing_code`, the `;` of `format_missing`, code copied by `close_block` -/
  | code
  /-- `last_snippet` (or its `trim_end`) pushed by the closure of `format_missing*` -/
  | last
  deriving DecidableEq, Repr

structure Piece where
  tag : Tag
  text : List Char
  deriving DecidableEq, Repr

def render (ps : List Piece) : List Char := ps.flatMap (·.text)

/-- Everything the writer reads and does not change. -/
structure Env where
  /-- hard_tabs, tab_spaces, max_width, comment_width -/
  config : Config
  /-- blank_lines_lower_bound, blank_lines_upper_bound -/
  lower : Nat
  upper : Nat
  /-- `style_edition >= StyleEdition::Edition2024` -/
  ed2024 : Bool
  /-- `snippet_provider.start_pos()`: where the file's text starts in the source map -/
  base : Nat
  /-- `snippet_provider.entire_snippet()` -/
  big : List Char
  rc : Rc
  /-- `unicode_str_width` -/
  width : List Char → Nat

/-- The fields of `FmtVisitor` the writer touches, plus the log. -/
structure Vis where
  buffer : List Char
  lineNumber : Nat
  /-- `last_pos`, relative to `Env.base` -/
  lastPos : Nat
  blockIndent : Indent
  log : List Piece
  deriving Repr

/-- `FmtVisitor::push_str` (`visitor.rs:737-740`). -/
def Vis.push (v : Vis) (tag : Tag) (s : List Char) : Vis :=
  { v with
    buffer := v.buffer ++ s
    lineNumber := v.lineNumber + RF.Newline.countNewlines s
    log := v.log ++ [⟨tag, s⟩] }

/-- `self.block_indent.to_string(config)`; `none` = panic. -/
def indentStr? (env : Env) (ind : Indent) : Option (List Char) :=
  match ind.to_string env.config with
  | .ok s => some s
  | .error _ => none

/-- `indent.to_string_with_newline(config)`; `none` = panic. -/
def indentNl? (env : Env) (ind : Indent) : Option (List Char) :=
  match ind.to_string_with_newline env.config with
  | .ok s => some s
  | .error _ => none

/-- `&s[a..b]` with byte offsets; `none` when `a > b`, `b > len`, or one of them is inside a character. -/
def sliceBytes? (s : List Char) (a b : Nat) : Option (List Char) :=
  match takeBytes? b s with
  | none => none
  | some p => dropBytes? a p

/-- `s.rsplitn(2, '\n').next()`: the text behind the last `\n`. -/
def lastLine (s : List Char) : List Char := (s.reverse.takeWhile (· != '\n')).reverse

/-- `last_line_width(&self.buffer)` (`utils.rs:207`). -/
def lastLineWidth (env : Env) (buffer : List Char) : Nat := env.width (lastLine buffer)

/-- `count_lf_crlf` (`utils.rs:323-336`), a loop over the bytes with the flag `is_crlf`: a `\n` counts as
CRLF when the flag is set, and **the flag is not cleared by a `\n`** (so `\r\n\n` counts two CRLF).  A
byte that is neither `\r` nor `\n` clears the flag; the bytes of a multi-byte character are such bytes. -/
def countLfCrlf : Bool → List Char → Nat × Nat
  | _, [] => (0, 0)
  | isCrlf, c :: cs =>
    if c = '\r' then countLfCrlf true cs
    else if c = '\n' then
      let (lf, crlf) := countLfCrlf isCrlf cs
      if isCrlf then (lf, crlf + 1) else (lf + 1, crlf)
    else countLfCrlf false cs

/-- `is_last_comment_block` (`comment.rs:145-147`). -/
def isLastCommentBlock (s : List Char) : Bool := endsWith (trimEnd s) ['*', '/']

/-- `SnippetStatus` (`missed_spans.rs:14-21`); byte offsets into the snippet. -/
structure Status where
  line_start : Nat
  last_wspace : Option Nat
  cur_line : Nat
  deriving DecidableEq, Repr

/-- `FmtVisitor::push_vertical_spaces` (`:116-137`). -/
def Vis.pushVerticalSpaces (v : Vis) (env : Env) (newlineCount : Nat) : Vis :=
  v.push .vspace (List.replicate
    (RF.Newline.pushVerticalSpaces (RF.Newline.trailingNewlines v.buffer) newlineCount env.lower env.upper)
    '\n')

/-! ## process_missing_code (`:326-369`) -/

/-- The `for (mut i, c) in subslice.char_indices()` loop; `i` = byte offset in `snippet` of the head of
what is left of `subslice`.  Third arm: a blank that follows a blank *clears* `last_wspace`. -/
def pmcLoop (snippet : List Char) : Nat → List Char → Status → Vis → Option (Status × Vis)
  | _, [], st, v => some (st, v)
  | i, c :: rest, st, v =>
    if c = '\n' then
      match st.last_wspace with
      | some lw =>
        match sliceBytes? snippet st.line_start lw with
        | none => none
        | some s =>
          pmcLoop snippet (i + 1) rest
            { line_start := i + 1, last_wspace := none, cur_line := st.cur_line + 1 }
            ((v.push .code s).push .code ['\n'])
      | none =>
        match sliceBytes? snippet st.line_start (i + 1) with
        | none => none
        | some s =>
          pmcLoop snippet (i + 1) rest
            { line_start := i + 1, last_wspace := none, cur_line := st.cur_line + 1 }
            (v.push .code s)
    else if isWs c && st.last_wspace.isNone then
      pmcLoop snippet (i + c.utf8Size) rest { st with last_wspace := some i } v
    else
      pmcLoop snippet (i + c.utf8Size) rest { st with last_wspace := none } v

/-- `process_missing_code(status, snippet, subslice, offset, file_name)`. -/
def processMissingCode (env : Env) (snippet subslice : List Char) (offset : Nat) (st : Status)
    (v : Vis) : Option (Status × Vis) :=
  match pmcLoop snippet offset subslice st v with
  | none => none
  | some (st1, v1) =>
    match sliceBytes? snippet st1.line_start (utf8Len subslice + offset) with
    | none => none
    | some rem =>
      let remaining := trim rem
      if !remaining.isEmpty then
        match indentStr? env v1.blockIndent with
        | none => none
        | some ind =>
          some ({ st1 with line_start := utf8Len subslice + offset },
            (v1.push .blank ind).push .code remaining)
      else some (st1, v1)

/-! ## process_comment (`:229-324`) -/

/-- `[' ', '\t'].contains(c)` -/
def isSpaceTab (c : Char) : Bool := c == ' ' || c == '\t'

/-- The `rewrite_comment(..).unwrap_or_else(|_| String::from(..))` of the missed-span writer. -/
def rcOr (env : Env) (orig : List Char) (shape : Shape) : List Char :=
  (env.rc orig false shape).getD orig

/-- The tail of `process_comment` (`:302-323`): the line break after the comment. -/
def commentTail (snippet subslice : List Char) (offset : Nat) (st : Status) (v : Vis) :
    Option (Status × Vis) :=
  let lineStart := offset + utf8Len subslice
  let st1 : Status := { st with last_wspace := none, line_start := lineStart }
  let done (v : Vis) : Option (Status × Vis) :=
    some ({ st1 with cur_line := st1.cur_line + RF.Newline.countNewlines subslice }, v)
  if lineStart ≤ utf8Len snippet then
    match dropBytes? lineStart snippet with
    | none => none
    | some tail =>
      match tail.find? (fun c => !isSpaceTab c) with
      | some c =>
        if c = '\n' ∨ c = '\r' then
          if !isLastCommentBlock subslice then done (v.push .blank ['\n']) else done v
        else done (v.push .blank ['\n'])
      | none => done (v.push .blank ['\n'])
  else done v

/-- `last_char.map_or(true, |rev_c| ['{', '\n'].contains(&rev_c))` -/
def fixIndentOf (lastChar : Option Char) : Bool :=
  match lastChar with
  | none => true
  | some c => c == '{' || c == '\n'

/-- The head of `process_comment` (`:237-264`): what is pushed in front of the comment, the
`comment_indent` and `on_same_line`.  `bigPrefix` is `&big_snippet[..(offset + big_diff)]`. -/
def commentHead (env : Env) (snippet bigPrefix : List Char) (v : Vis) : Option (Vis × Indent × Bool) :=
  let lastChar := bigPrefix.reverse.find? (fun c => !isSpaceTab c)
  if fixIndentOf lastChar then
    let v1 := if lastChar = some '{' then v.push .blank ['\n'] else v
    match indentStr? env v1.blockIndent with
    | none => none
    | some ind => some (v1.push .blank ind, v1.blockIndent, false)
  else if env.ed2024 && !(snippet.head? == some '\n') then
    some (v.push .blank [' '], v.blockIndent, true)
  else
    let v1 := v.push .blank [' ']
    match Indent.from_width env.config (lastLineWidth env v1.buffer) with
    | .error _ => none
    | .ok ci => some (v1, ci, false)

/-- How a comment slice is written, shared by `process_comment` (`:274-300`) and `close_block`
(`visitor.rs:288-311`, `:339-343`): through `rewrite_comment` with `shape`, or — `onSameLine`, style
edition 2024 — the first line as it stands and the other lines, behind `nlIndent`, rewritten. -/
def commentLines (env : Env) (subslice : List Char) (v1 : Vis) (nlIndent : Indent) (shape : Shape)
    (onSameLine : Bool) : Option Vis :=
  if onSameLine then
    match findChar (· == '\n') subslice with
    | none => some (v1.push .comment subslice)
    | some off =>
      if off + 1 = utf8Len subslice then
        (takeBytes? off subslice).map (v1.push .comment)
      else
        match takeBytes? off subslice, indentNl? env nlIndent, dropBytes? (off + 1) subslice with
        | some firstLine, some nl, some rest =>
          -- behind a line comment a comment of its own starts: its indentation is dropped
          let otherLines := if startsWith subslice ['/', '/'] then trimStart rest else rest
          some (((v1.push .comment firstLine).push .blank nl).push .comment (rcOr env otherLines shape))
        | _, _, _ => none
  else some (v1.push .comment (rcOr env subslice shape))

/-- The middle of `process_comment` (`:266-300`): the comment itself. -/
def commentBody (env : Env) (subslice : List Char) (v1 : Vis) (commentIndent : Indent)
    (onSameLine : Bool) : Option Vis :=
  let commentWidth := min env.config.comment_width (env.config.max_width - v1.blockIndent.width)
  commentLines env subslice v1 commentIndent (Shape.legacy commentWidth commentIndent) onSameLine

/-- `process_comment(status, snippet, big_snippet, offset, subslice)`; `bigPrefix` is
`&big_snippet[..(offset + big_diff)]`. -/
def processComment (env : Env) (snippet bigPrefix subslice : List Char) (offset : Nat) (st : Status)
    (v : Vis) : Option (Status × Vis) :=
  match commentHead env snippet bigPrefix v with
  | none => none
  | some (v1, commentIndent, onSameLine) =>
    match commentBody env subslice v1 commentIndent onSameLine with
    | none => none
    | some v2 => commentTail snippet subslice offset st v2

/-! ## write_snippet_inner (`:157-227`) -/

/-- Which closure `format_missing_inner` was given. -/
inductive Last where
  /-- `format_missing`: `this.push_str(last_snippet)` -/
  | plain
  /-- `format_missing_indent(end, should_indent)` -/
  | indent (shouldIndent : Bool)
  deriving DecidableEq, Repr

/-- `process_last_snippet(this, last_snippet, snippet)`. -/
def processLast (env : Env) (k : Last) (v : Vis) (lastSnippet snippet : List Char) : Option Vis :=
  match k with
  | .plain => some (v.push .last lastSnippet)
  | .indent shouldIndent =>
    let v1 := v.push .last (trimEnd lastSnippet)
    let v2 := if lastSnippet = snippet ∧ !v1.buffer.isEmpty then v1.push .blank ['\n'] else v1
    if shouldIndent then
      match indentStr? env v2.blockIndent with
      | none => none
      | some ind => some (v2.push .blank ind)
    else some v2

/-- Position behind the last `\n` of a blank slice: `subslice.rfind('\n').map_or(0, |p| p + 1)`. -/
def afterLastNl (subslice : List Char) : Nat :=
  match rfindChar (· == '\n') subslice with
  | some p => p + 1
  | none => 0

/-- One turn of the loop over `CommentCodeSlices::new(snippet)`. -/
def wsiStep (env : Env) (snippet : List Char) (bigDiff : Nat) (sl : Slice) (st : Status) (v : Vis) :
    Option (Status × Vis) :=
  let (lf, crlf) := countLfCrlf false sl.text
  let newlineCount := lf + crlf
  if sl.kind = .comment then
    match takeBytes? (sl.start + bigDiff) env.big with
    | none => none
    | some bigPrefix => processComment env snippet bigPrefix sl.text sl.start st v
  else if (trim sl.text).isEmpty && newlineCount > 0 then
    some ({ st with
            cur_line := st.cur_line + newlineCount
            line_start := sl.start + afterLastNl sl.text },
          v.pushVerticalSpaces env newlineCount)
  else processMissingCode env snippet sl.text sl.start st v

def wsiLoop (env : Env) (snippet : List Char) (bigDiff : Nat) :
    List Slice → Status → Vis → Option (Status × Vis)
  | [], st, v => some (st, v)
  | sl :: rest, st, v =>
    match wsiStep env snippet bigDiff sl st v with
    | none => none
    | some (st1, v1) => wsiLoop env snippet bigDiff rest st1 v1

/-- `psess.line_of_byte_pos(pos)`: 1 + the number of `\n` in front of byte `pos`. -/
def lineOfBytePos : List Char → Nat → Nat
  | [], _ => 1
  | c :: cs, pos =>
    if pos = 0 then 1 else (if c = '\n' then 1 else 0) + lineOfBytePos cs (pos - c.utf8Size)

/-- `write_snippet(span, process_last_snippet)` with `span = start..start+len(snippet)`. -/
def writeSnippet (env : Env) (k : Last) (start : Nat) (snippet : List Char) (v : Vis) : Option Vis :=
  match commentCodeSlices? snippet with
  | none => none
  | some slices =>
    match wsiLoop env snippet start slices ⟨0, none, lineOfBytePos env.big start⟩ v with
    | none => none
    | some (st, v1) =>
      match dropBytes? st.line_start snippet with
      | none => none
      | some lastSnippet => processLast env k v1 lastSnippet snippet

/-! ## format_missing_inner, format_missing, format_missing_with_indent (`:38-114`) -/

def formatMissingInner (env : Env) (k : Last) (end_ : Nat) (v : Vis) : Option Vis :=
  let start := v.lastPos
  if start = end_ then
    if !v.buffer.isEmpty then processLast env k v [] [] else some v
  else if ¬ start < end_ then none -- assert!(start < end)
  else
    let v := { v with lastPos := end_ }
    match sliceBytes? env.big start end_ with
    | none => none
    | some snippet =>
      -- `start == BytePos(0) && end.0 as usize == snippet.len() && snippet.trim().is_empty()`:
      -- absolute positions, so the second conjunct follows from the first
      if env.base + start = 0 ∧ (trim snippet).isEmpty then some v
      else if (trim snippet).isEmpty then
        processLast env k (v.pushVerticalSpaces env (RF.Newline.countNewlines snippet)) [] snippet
      else writeSnippet env k start snippet v

/-- `format_missing(end)`.  `mk_sp(self.last_pos, end)` is `Span::new`, which swaps its ends when they
are inverted, so the `;` test looks at `end..last_pos` then. -/
def formatMissing (env : Env) (end_ : Nat) (v : Vis) : Option Vis :=
  let lo := min v.lastPos end_
  let hi := max v.lastPos end_
  match sliceBytes? env.big lo hi with
  | none => none
  | some missing =>
    if trim missing = [';'] then some { (v.push .code [';']) with lastPos := end_ }
    else formatMissingInner env .plain end_ v

/-- `format_missing_with_indent(end)` (`shouldIndent = true`), `format_missing_no_indent(end)`. -/
def formatMissingIndent (env : Env) (shouldIndent : Bool) (end_ : Nat) (v : Vis) : Option Vis :=
  formatMissingInner env (.indent shouldIndent) end_ v

/-! ## close_block (`visitor.rs:254-370`): the text between the last statement and the closing brace -/

/-- `skip_normal`: blank, or nothing but `;` once trimmed. -/
def skipNormal (s : List Char) : Bool := (trim s).isEmpty || (trim s).all (· == ';')

/-- `Indent::block_unindent`; `none` = panic (cannot happen: the subtraction is guarded). -/
def blockUnindent? (env : Env) (ind : Indent) : Option Indent :=
  match ind.block_unindent env.config with
  | .ok i => some i
  | .error _ => none

/-- The loop state of `close_block`: `last_hi` (relative to the span's start), `unindented`,
`prev_ends_with_newline`, `extra_newline`. -/
structure CbState where
  lastHi : Nat
  unindented : Bool
  prevNl : Bool
  extraNl : Bool
  deriving DecidableEq, Repr

/-- `if !unindented && unindent_comment && !align_to_right { unindented = true; block_unindent }`. -/
def cbUnindent (env : Env) (unindentComment alignToRight : Bool) (cs : CbState) (v : Vis) :
    Option (Bool × Vis) :=
  if !cs.unindented && unindentComment && !alignToRight then
    (blockUnindent? env v.blockIndent).map fun i => (true, { v with blockIndent := i })
  else some (cs.unindented, v)

/-- Below style edition 2024 (or a comment on a line of its own), `visitor.rs:313-337`: whether the
comment stays on the line, what is pushed in front of it, and the shape `rewrite_comment` gets. -/
def cbOldHead (env : Env) (between : List Char) (sameLine extraNl : Bool) (shape0 : Shape) (v : Vis) :
    Option (Vis × Shape) :=
  -- `comment_shape.visual_indent(offset_len).sub_width_opt(offset_len)`
  let (sameLine, shape) :=
    if sameLine then
      let offsetLen := 1 + (lastLineWidth env v.buffer - v.blockIndent.width)
      match (shape0.visual_indent offsetLen).sub_width_opt offsetLen with
      | some shp => (true, shp)
      | none => (false, shape0)
    else (false, shape0)
  if sameLine then some (v.push .blank [' '], shape)
  else
    let v := if RF.Newline.countNewlines between ≥ 2 || extraNl then v.push .blank ['\n'] else v
    (indentNl? env v.blockIndent).map fun nl => (v.push .blank nl, shape)

/-- The `Comment` arm of the loop: `sub` is the comment slice at byte `offset` of `commentSnippet`. -/
def cbComment (env : Env) (commentSnippet : List Char) (unindentComment alignToRight : Bool)
    (offset : Nat) (sub : List Char) (cs : CbState) (v : Vis) : Option (CbState × Vis) :=
  match cbUnindent env unindentComment alignToRight cs v with
  | none => none
  | some (unindented, v) =>
    match sliceBytes? commentSnippet cs.lastHi offset with
    | none => none
    | some between =>
      let sameLine := !(between.contains '\n')
      let shape0 := (Shape.indented v.blockIndent env.config).comment env.config
      let written : Option Vis :=
        if env.ed2024 && sameLine then
          commentLines env sub (v.push .blank [' ']) v.blockIndent shape0 true
        else
          match cbOldHead env between sameLine cs.extraNl shape0 v with
          | none => none
          | some (v, shape) => commentLines env sub v v.blockIndent shape false
      match written with
      | none => none
      | some v =>
        some ({ lastHi := offset + utf8Len sub, unindented := unindented,
                prevNl := sub.getLast? == some '\n', extraNl := false }, v)

/-- One turn of the loop over `CommentCodeSlices::new(comment_snippet)`. -/
def cbStep (env : Env) (commentSnippet : List Char) (unindentComment alignToRight : Bool) (sl : Slice)
    (cs : CbState) (v : Vis) : Option (CbState × Vis) :=
  if sl.kind = .comment then
    cbComment env commentSnippet unindentComment alignToRight sl.start sl.text cs v
  else if skipNormal sl.text then
    -- `continue`: `prev_ends_with_newline` and `last_hi` stay
    some ({ cs with extraNl := cs.prevNl && sl.text.contains '\n' }, v)
  else
    match indentNl? env v.blockIndent with
    | none => none
    | some nl =>
      some ({ cs with lastHi := sl.start + utf8Len sl.text, prevNl := sl.text.getLast? == some '\n',
                      extraNl := false },
        (v.push .blank nl).push .code (trim sl.text))

def cbLoop (env : Env) (commentSnippet : List Char) (unindentComment alignToRight : Bool) :
    List Slice → CbState → Vis → Option (CbState × Vis)
  | [], cs, v => some (cs, v)
  | sl :: rest, cs, v =>
    match cbStep env commentSnippet unindentComment alignToRight sl cs v with
    | none => none
    | some (cs1, v1) => cbLoop env commentSnippet unindentComment alignToRight rest cs1 v1

/-- `close_block(span, unindent_comment)` with `span = lo..hi` (relative to the file's text).
`last_pos` is not touched (the caller sets it). -/
def closeBlock (env : Env) (lo hi : Nat) (unindentComment : Bool) (v : Vis) : Option Vis :=
  match sliceBytes? env.big (min lo hi) (max lo hi) with
  | none => none
  | some commentSnippet =>
    let alignToRight :=
      if unindentComment && containsComment commentSnippet then
        let firstLines := commentSnippet.takeWhile (· != '/')
        decide (lastLineWidth env firstLines > lastLineWidth env commentSnippet)
      else false
    match commentCodeSlices? commentSnippet with
    | none => none
    | some slices =>
      match cbLoop env commentSnippet unindentComment alignToRight slices ⟨0, false, false, false⟩ v with
      | none => none
      | some (cs, v) =>
        let ind := if cs.unindented then v.blockIndent.blockIndent env.config else v.blockIndent
        match blockUnindent? env ind with
        | none => none
        | some ind =>
          let v := { v with blockIndent := ind }
          match indentNl? env v.blockIndent with
          | none => none
          | some nl => some ((v.push .blank nl).push .code ['}'])

/-! ## Decidable oracles over what was written (used by the theorems and on the real code's output) -/

/-- A text without its white space. -/
def squeeze (s : List Char) : List Char := s.filter (fun c => !isWs c)

/-- The gap is made of white space and comments only (what a well-formed source has between two nodes):
every `Normal` slice of `CommentCodeSlices` is white space. -/
def isBlankGap (snippet : List Char) : Bool :=
  match commentCodeSlices? snippet with
  | some sl => sl.all (fun s => s.kind == .comment || s.text.all isWs)
  | none => false

/-- The comment slices of a gap, in order. -/
def commentTexts (snippet : List Char) : List (List Char) :=
  match commentCodeSlices? snippet with
  | some sl => (sl.filter (·.kind == .comment)).map (·.text)
  | none => []

/-- Nothing but white space is added or lost: the non-blank characters written are those of the gap. -/
def contentOk (snippet delta : List Char) : Bool := squeeze delta == squeeze snippet

/-- `out` has `x` as a substring: what follows its leftmost occurrence. -/
def dropThrough (x : List Char) : List Char → Option (List Char)
  | [] => if x.isEmpty then some [] else none
  | c :: cs => if startsWith (c :: cs) x then some ((c :: cs).drop x.length) else dropThrough x cs

/-- The texts occur in `out` as disjoint substrings, in this order. -/
def occursInOrder : List (List Char) → List Char → Bool
  | [], _ => true
  | x :: xs, out =>
    match dropThrough x out with
    | some rest => occursInOrder xs rest
    | none => false

/-- Every comment of the gap is written (its non-blank characters, in order, disjoint). -/
def commentsEmitted (snippet delta : List Char) : Bool :=
  occursInOrder ((commentTexts snippet).map squeeze) (squeeze delta)

/-- Only white space and the comments are written. -/
def onlyBlanksAndComments (snippet delta : List Char) : Bool :=
  squeeze delta == ((commentTexts snippet).map squeeze).flatten

/-- What `close_block` must write, blanks aside: the comments and the code of the snippet — without the
slices that hold nothing but `;` — and the closing brace. -/
def closeContent (snippet : List Char) : List Char :=
  match commentCodeSlices? snippet with
  | some sl =>
    (sl.map fun s => if s.kind == .comment then squeeze s.text
      else if skipNormal s.text then [] else squeeze s.text).flatten ++ ['}']
  | none => ['}']

def closeContentOk (snippet delta : List Char) : Bool := squeeze delta == closeContent snippet

/-- A `\n` that is not inside a block comment or a string: `Normal`, or the end of a line comment. -/
def isOuterNl (k : Kind) (c : Char) : Bool := c == '\n' && (k == .normal || k == .endComment)

/-- Longest run of outer `\n` that reaches into the part behind the first `n0` characters, with the
number of its characters that lie in front of that point: scan state `(i, run, inBefore)`. -/
def worstRunGo (n0 : Nat) : Nat → Nat → Nat → List (Kind × Char) → List (Nat × Nat)
  | _, run, inb, [] => if run > inb then [(run, inb)] else []
  | i, run, inb, (k, c) :: rest =>
    if isOuterNl k c then worstRunGo n0 (i + 1) (run + 1) (if i < n0 then inb + 1 else inb) rest
    else (if run > inb then [(run, inb)] else []) ++ worstRunGo n0 (i + 1) 0 0 rest

/-- Blank-line discipline of the written text: every run of line breaks outside comments that the
writer added to has at most `upper + 1` of them, or no more than were already in the buffer. -/
def clampOk (before delta : List Char) (upper : Nat) : Bool :=
  (worstRunGo before.length 0 0 0 (classes (before ++ delta))).all
    (fun r => r.1 ≤ max r.2 (upper + 1))

end RF.Missed
