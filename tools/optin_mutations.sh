#!/bin/bash
# hand-made changes to the repo worktree (never committed), each tried against `rfverif optin --tier quick`
cd /tmp/hw/optin/verif && . ../env.sh
R=/tmp/hw/optin/repo
try() {
  name=$1; file=$2; from=$3; to=$4
  python3 - "$R/$file" "$from" "$to" <<'PY'
import sys
p,a,b=sys.argv[1:4]
s=open(p).read()
assert a in s, "pattern not found: "+a
open(p,'w').write(s.replace(a,b,1))
PY
  if [ $? -ne 0 ]; then echo "$name: PATTERN NOT FOUND"; return; fi
  (cd harness && cargo build --offline 2>&1 | grep -E "^error" -A6 | head -8)
  OPTIN_DUMP=/tmp/hw/optin/mut/$name.txt ./.build/target/debug/rfverif optin --tier quick --seed 3 --out /tmp/hw/optin/mut/out_$name >/dev/null 2>&1
  python3 - "$name" <<'PY'
import json,sys,collections
n=sys.argv[1]
r=json.load(open(f'/tmp/hw/optin/mut/out_{n}/result.json'))
ops=collections.Counter((x['kind'],x['op']) for x in r['disagreements']+r['oracle_failures'])
sigs=collections.Counter(x.get('sig') for x in r['direct_failures'])
ex=(r['disagreements']+r['oracle_failures']+r['direct_failures'])[:1]
print(n,'dis',r['disagreements_total'],'ora',r['oracle_failures_total'],'dir',r['direct_failures_total'],dict(ops),dict(sigs),[p['id'] for p in r['probes'] if p['fails'] and 'FIX' in p['id']])
for x in ex: print('   e.g.',str(x.get('desc') or x.get('src'))[:160])
PY
  git -C $R checkout -q -- $file
}
try m1_wild_ge1 src/patterns.rs "if condense && wildcard_suffix_len >= 2 {" "if condense && wildcard_suffix_len >= 1 {"
try m2_try_cast src/macros.rs "operand.precedence() < ExprPrecedence::Unambiguous || !operand.attrs.is_empty();" "operand.precedence() < ExprPrecedence::Cast || !operand.attrs.is_empty();"
try m3_paren_post src/expr.rs "                && pre_comment.is_empty()
                && post_comment.is_empty()" "                && pre_comment.is_empty()"
try m4_extern_system src/utils.rs "if abi.symbol_unescaped == sym::C && !explicit_abi" "if (abi.symbol_unescaped == sym::C || abi.symbol_unescaped.as_str() == \"system\") && !explicit_abi"
try m5_arm_comma src/matches.rs "        if let ast::BlockCheckMode::Default = block.rules {
            \"\"
        } else {
            \",\"
        }" "        let _ = block;
        \"\""
try m6_semi_loop src/utils.rs "            ast::ExprKind::While(..) | ast::ExprKind::Loop(..) | ast::ExprKind::ForLoop { .. } => {
                false
            }" "            ast::ExprKind::While(..) | ast::ExprKind::Loop(..) => false,"
try m7_derive_gap src/attr.rs "if count_newlines(snippet) >= 2 || snippet.contains('/') {" "if count_newlines(snippet) >= 3 || snippet.contains('/') {"
try m8_vis_kw src/utils.rs "let is_keyword = |s: &str| s == \"crate\" || s == \"self\" || s == \"super\";" "let is_keyword = |s: &str| s == \"crate\" || s == \"self\" || s.starts_with(\"super\");"
try m9_pipe src/matches.rs "MatchArmLeadingPipe::Preserve if !has_leading_pipe => (0, \"\")," "MatchArmLeadingPipe::Preserve if has_leading_pipe => (0, \"\"),"
try m10_doc_lines src/attr/doc_comment.rs "let mut lines = self.literal.lines().peekable();" "let mut lines = self.literal.split('\\\\n').peekable();"
try m11_trailing_semi src/utils.rs "        ast::ExprKind::Ret(..) | ast::ExprKind::Continue(..) | ast::ExprKind::Break(..) => {
            context.config.trailing_semicolon()
        }" "        ast::ExprKind::Ret(..) | ast::ExprKind::Break(..) => context.config.trailing_semicolon(),"
try m12_dot_range src/expr.rs "ast::ExprKind::Unary(_, ref expr) | ast::ExprKind::AddrOf(_, _, ref expr) => {" "ast::ExprKind::Unary(_, ref expr) => {"
(cd harness && cargo build --offline 2>&1 | grep -E "^error" -A6 | head -8)
git -C $R status --short
echo DONE
