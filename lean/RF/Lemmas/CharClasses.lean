import RF.Model.CharClasses
/-!
Lemmas about the `CharClasses` model: the panic arms of `CharClasses::next` are not reachable
from `Status.normal`, so the total functions agree with the literal partial ones; the iterator
returns the characters of the input unchanged and in order.
-/
namespace RF.Lemmas.CharClasses
open RF.CharClasses

/-- The invariant that keeps `CharClasses::next` away from its assertions: comment depths are
positive where the code assumes so, and the two one-character "opening"/"closing" states are
followed by the character they assert. -/
def Ok : Status → List Char → Prop
  | .blockComment d, _ => 1 ≤ d
  | .stringInBlockComment d, _ => 1 ≤ d
  | .blockCommentOpening d, rest => 1 ≤ d ∧ rest.head? = some '*'
  | .blockCommentClosing _, rest => rest.head? = some '/'
  | .rawStringSuffix n, _ => 1 ≤ n
  | _, _ => True

theorem step?_ok (st : Status) (c : Char) (rest : List Char) (h : Ok st (c :: rest)) :
    ∃ st' k, step? st c rest = some (st', k) ∧ Ok st' rest := by
  cases st <;> simp only [Ok, List.head?_cons, Option.some.injEq] at h <;>
    simp only [step?] <;> (repeat' split) <;> simp_all [Ok] <;> omega

theorem run?_of_ok : ∀ (s : List Char) (st : Status), Ok st s →
    run? st s = some (run st s, endStatus st s)
  | [], _, _ => rfl
  | c :: rest, st, h => by
    obtain ⟨st', k, hs, hok⟩ := step?_ok st c rest h
    have ih := run?_of_ok rest st' hok
    simp [run?, run, endStatus, step, hs, ih]

/-- Started in `Status.normal`, `CharClasses::next` never hits an assertion or an underflow:
the literal model with panics returns exactly what the total model returns. -/
theorem run?_normal (s : List Char) :
    run? .normal s = some (run .normal s, endStatus .normal s) :=
  run?_of_ok s .normal trivial

theorem classes?_eq (s : List Char) : classes? s = some (classes s) := by
  simp [classes?, classes, run?_normal]

/-- The iterator yields every character of the input, in order, exactly once. -/
theorem run_map_snd : ∀ (s : List Char) (st : Status), (run st s).map (·.2) = s
  | [], _ => rfl
  | c :: rest, st => by simp [run, run_map_snd rest]

theorem classes_map_snd (s : List Char) : (classes s).map (·.2) = s := run_map_snd s .normal

theorem classes_length (s : List Char) : (classes s).length = s.length := by
  have := congrArg List.length (classes_map_snd s)
  simpa using this

end RF.Lemmas.CharClasses
