import RF.Model.OptRewrites
import RF.Lemmas.Literal
/-!
Helper lemmas for `RF/Props/OptRewrites.lean` (the opt-in rewrite decisions, model `RF/Model/OptRewrites.lean`).
-/
namespace RF.Lemmas.OptRewrites
open RF.Opt

/-! ### §1 an initialiser whose rendering looks like an identifier -/

theorem all_append_false {p : Char → Bool} {a b : List Char} {c : Char} (hc : p c = false) :
    (a ++ c :: b).all p = false := by
  simp [List.all_append, hc]

theorem identLike_all {s : Str} (h : identLike s = true) : s.all isIdentChar = true := by
  simp [identLike] at h; simpa using h.2

theorem identLike_ne_nil {s : Str} (h : identLike s = true) : s ≠ [] := by
  intro hs; subst hs; simp [identLike] at h

theorem not_identLike_of_mem {s : Str} {c : Char} (hm : c ∈ s) (hc : isIdentChar c = false) :
    identLike s = false := by
  cases h : identLike s with
  | false => rfl
  | true =>
    have := identLike_all h
    rw [List.all_eq_true] at this
    have := this c hm
    simp [hc] at this

theorem renderSegs_cons_cons (s t : Seg) (r : List Seg) :
    renderSegs (s :: t :: r) = s.render ++ [':', ':'] ++ renderSegs (t :: r) := rfl

/-- a path renders to something that looks like an identifier only if it is one plain segment -/
theorem path_identLike {g : Bool} {segs : List Seg} (h : identLike (Init.path g segs).render = true) :
    g = false ∧ ∃ i, segs = [⟨i, none⟩] ∧ (Init.path g segs).render = i := by
  cases g with
  | true =>
    exfalso
    have : identLike (Init.path true segs).render = false :=
      not_identLike_of_mem (c := ':') (by simp [Init.render]) (by decide)
    simp [this] at h
  | false =>
    refine ⟨rfl, ?_⟩
    match segs with
    | [] => simp [Init.render, renderSegs, identLike] at h
    | [⟨i, none⟩] => exact ⟨i, rfl, by simp [Init.render, renderSegs, Seg.render]⟩
    | [⟨i, some a⟩] =>
      exfalso
      have : identLike (Init.path false [⟨i, some a⟩]).render = false :=
        not_identLike_of_mem (c := ':') (by simp [Init.render, renderSegs, Seg.render]) (by decide)
      simp [this] at h
    | s :: t :: r =>
      exfalso
      have : identLike (Init.path false (s :: t :: r)).render = false :=
        not_identLike_of_mem (c := ':') (by simp [Init.render, renderSegs_cons_cons]) (by decide)
      simp [this] at h

/-- **what the text comparison of `rewrite_field` amounts to**: an initialiser that is not a literal and whose rendering
looks like an identifier is the one-segment path of that name, without generic arguments, `::`, parentheses, attributes
or operators -/
theorem render_identLike {e : Init} (hl : e.isLit = false) (h : identLike e.render = true) :
    e = .path false [⟨e.render, none⟩] := by
  cases e with
  | path g segs =>
    obtain ⟨hg, i, hs, hr⟩ := path_identLike h
    subst hg; subst hs; rw [hr]
  | lit t => simp [Init.isLit] at hl
  | paren e =>
    have : identLike (Init.paren e).render = false :=
      not_identLike_of_mem (c := '(') (by simp [Init.render]) (by decide)
    simp [this] at h
  | field e n =>
    have : identLike (Init.field e n).render = false :=
      not_identLike_of_mem (c := '.') (by simp [Init.render]) (by decide)
    simp [this] at h
  | attr a e =>
    have : identLike (Init.attr a e).render = false :=
      not_identLike_of_mem (c := '[') (by simp [Init.render]) (by decide)
    simp [this] at h
  | cast e ty =>
    have : identLike (Init.cast e ty).render = false :=
      not_identLike_of_mem (c := ' ') (by simp [Init.render]) (by decide)
    simp [this] at h
  | addrOf e =>
    have : identLike (Init.addrOf e).render = false :=
      not_identLike_of_mem (c := '&') (by simp [Init.render]) (by decide)
    simp [this] at h
  | try_ e =>
    have : identLike (Init.try_ e).render = false :=
      not_identLike_of_mem (c := '?') (by simp [Init.render]) (by decide)
    simp [this] at h
  | neg e =>
    have : identLike (Init.neg e).render = false :=
      not_identLike_of_mem (c := '-') (by simp [Init.render]) (by decide)
    simp [this] at h
  | call e =>
    have : identLike (Init.call e).render = false :=
      not_identLike_of_mem (c := '(') (by simp [Init.render]) (by decide)
    simp [this] at h
  | mac n =>
    have : identLike (Init.mac n).render = false :=
      not_identLike_of_mem (c := '!') (by simp [Init.render]) (by decide)
    simp [this] at h

end RF.Lemmas.OptRewrites
