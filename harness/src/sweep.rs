//! Measurement tool (not a registered check): runs the whole-formatter oracles over job families and
//! prints how dirty each family is on the current tree.  Used to choose the families of the checks.
use std::collections::BTreeMap;
use std::time::Duration;

use crate::corpus::{self, Program};
use crate::gen::*;
use crate::pool::{self, Job, Status};
use crate::util::*;

pub fn families(which: &str, seed: u64, limit: usize) -> Vec<(String, Program)> {
    let mut rng = Rng::new(seed);
    let mut res = vec![];
    let target = corpus::programs(&["tests/target"]);
    let source = corpus::programs(&["tests/source"]);
    match which {
        "target" => for p in target { res.push(("target".into(), p)); },
        "source" => for p in source { res.push(("source".into(), p)); },
        "src" => for p in corpus::programs(&["src"]) { res.push(("src".into(), p)); },
        "target-width" => for p in &target { for w in WIDTHS_QUICK { let mut q = p.clone(); q.cfg = merge_cfg(&q.cfg, &[("max_width".into(), w.to_string())]); res.push((format!("w{}", w), q)); } },
        "source-width" => for p in &source { for w in WIDTHS_QUICK { let mut q = p.clone(); q.cfg = merge_cfg(&q.cfg, &[("max_width".into(), w.to_string())]); res.push((format!("w{}", w), q)); } },
        "target-opt" => { let singles = option_singles(); for p in &target { for (k, v) in &singles { let mut q = p.clone(); q.cfg = merge_cfg(&q.cfg, &[(k.clone(), v.clone())]); res.push((format!("{}={}", k, v), q)); } } },
        "source-opt" => { let singles = option_singles(); for p in &source { for (k, v) in &singles { let mut q = p.clone(); q.cfg = merge_cfg(&q.cfg, &[(k.clone(), v.clone())]); res.push((format!("{}={}", k, v), q)); } } },
        "relayout" => for p in &target { for k in 0..3 { let mut q = p.clone(); let mut r = rng.fork(); q.src = relayout(&p.src, &mut r); q.name = format!("{}#relayout{}", p.name, k); res.push(("relayout".into(), q)); } },
        "mutate" => for p in &source { for k in 0..3 { let mut q = p.clone(); let mut r = rng.fork(); q.src = mutate(&p.src, &mut r); q.name = format!("{}#mut{}", p.name, k); res.push(("mutate".into(), q)); } },
        _ => {}
    }
    if limit > 0 && res.len() > limit {
        // deterministic subsample
        let mut idx: Vec<usize> = (0..res.len()).collect();
        for i in 0..limit { let j = i + rng.below(idx.len() - i); idx.swap(i, j); }
        idx.truncate(limit);
        idx.sort();
        res = idx.into_iter().map(|i| res[i].clone()).collect();
    }
    res
}

pub fn run(which: &str, seed: u64, limit: usize, timeout_s: u64) -> i32 {
    let fam = families(which, seed, limit);
    let jobs: Vec<Job> = fam.iter().map(|(_, p)| Job { src: p.src.clone(), cfg: p.cfg.clone(), file_lines: None }).collect();
    let t0 = std::time::Instant::now();
    let r1 = pool::run_jobs(&jobs, jobs_n(), Duration::from_secs(timeout_s));
    // second pass on clean outputs
    let mut idx2 = vec![];
    let mut jobs2 = vec![];
    for (i, r) in r1.iter().enumerate() {
        if r.clean() {
            idx2.push(i);
            jobs2.push(Job { src: r.out.clone(), cfg: fam[i].1.cfg.clone(), file_lines: None });
        }
    }
    let r2 = pool::run_jobs(&jobs2, jobs_n(), Duration::from_secs(timeout_s));
    let mut stats: BTreeMap<String, BTreeMap<&'static str, u64>> = BTreeMap::new();
    let mut bump = |tag: &str, k: &'static str| { *stats.entry(tag.to_string()).or_default().entry(k).or_insert(0) += 1; *stats.entry("ALL".to_string()).or_default().entry(k).or_insert(0) += 1; };
    let mut examples: Vec<String> = vec![];
    for (i, r) in r1.iter().enumerate() {
        let tag = &fam[i].0;
        bump(tag, "jobs");
        match &r.status {
            Status::Ok => bump(tag, if r.clean() { "clean" } else { "flags" }),
            Status::Err(_) => bump(tag, "err"),
            Status::Panic(m) => { bump(tag, "PANIC"); std::fs::create_dir_all("/verif/work/sweeps/cases").ok(); std::fs::write(format!("/verif/work/sweeps/cases/panic_{}.rs", i), &fam[i].1.src).ok(); examples.push(format!("PANIC {} [{}] {}", fam[i].1.name, cfg_text(&fam[i].1.cfg), m)); }
            Status::Timeout => bump(tag, "timeout"),
            Status::Died(m) => { bump(tag, "DIED"); examples.push(format!("DIED {} [{}] {}", fam[i].1.name, cfg_text(&fam[i].1.cfg), m)); }
            Status::BadConfig(_) => bump(tag, "badconfig"),
            Status::Infra(_) => bump(tag, "infra"),
        }
        if r.clean() {
            let o = &r.out;
            let ends_ok = o.is_empty() || (o.ends_with('\n') && !o.ends_with("\n\n") && !o.ends_with("\n\r\n"));
            if !ends_ok { bump(tag, "BAD-FINAL-NEWLINE"); examples.push(format!("FINALNL {} [{}]", fam[i].1.name, cfg_text(&fam[i].1.cfg))); }
            if o.starts_with('\n') || o.starts_with("\r\n") { bump(tag, "LEADING-BLANK"); examples.push(format!("LEADBLANK {} [{}]", fam[i].1.name, cfg_text(&fam[i].1.cfg))); }
        }
    }
    for (k, r) in r2.iter().enumerate() {
        let i = idx2[k];
        let tag = &fam[i].0;
        match &r.status {
            Status::Ok if r.out == r1[i].out && r.clean() => bump(tag, "idempotent"),
            Status::Ok if r.out == r1[i].out => bump(tag, "same-but-flags-2nd"),
            Status::Ok => { bump(tag, "NOT-IDEMPOTENT"); examples.push(format!("NONIDEM {} [{}]", fam[i].1.name, cfg_text(&fam[i].1.cfg))); }
            Status::Timeout => bump(tag, "timeout2"),
            other => { bump(tag, "2nd-pass-failed"); examples.push(format!("2ND {} [{}] {:?}", fam[i].1.name, cfg_text(&fam[i].1.cfg), other)); }
        }
    }
    for (tag, m) in &stats {
        println!("{:<40} {:?}", tag, m);
    }
    for e in examples.iter().take(400) {
        println!("{}", e);
    }
    println!("{} jobs in {:?}", jobs.len(), t0.elapsed());
    0
}

fn jobs_n() -> usize { jobs() }
