#!/usr/bin/env python3
"""translator:c15_state — inventory of the state that outlives one formatted input: the fields of
`Session` and `ReportedErrors`, and every static / thread_local / OnceLock / atomic in src/ ->
RF/Gen/State.lean.  C15's frame theorem assumes the formatter reads none of it; a new entry changes the
generated lists and the theorem `state_inventory_is_pinned` stops checking."""
import os, re, sys
sys.path.insert(0, os.path.dirname(os.path.abspath(__file__)))
from common import *

NAME = "c15_state"


def struct_fields(src, name, fname):
    m = re.search(r"struct\s+" + name + r"\b[^{;]*\{", src)
    if not m:
        refuse(NAME, f"{fname}: struct {name} not found")
    body, _ = block_after(src, m.start())
    fields = []
    for line in body.split(","):
        mm = re.search(r"(?:pub(?:\([^)]*\))?\s+)?(\w+)\s*:\s*(.+)$", line.strip(), re.S)
        if mm:
            fields.append((mm.group(1), " ".join(mm.group(2).split())))
    return fields


def main():
    a = args()
    lib = strip_rust_comments(read(a.repo, "src/lib.rs", NAME))
    fm = strip_rust_comments(read(a.repo, "src/formatting.rs", NAME))
    sess = struct_fields(lib, "Session", "src/lib.rs")
    rep = struct_fields(fm, "ReportedErrors", "src/formatting.rs")
    statics = []
    for root, _, files in os.walk(os.path.join(a.repo, "src")):
        if "/test" in root.replace(a.repo, ""):
            continue
        for f in sorted(files):
            if not f.endswith(".rs") or f == "verif_hooks.rs":
                continue
            rel = os.path.relpath(os.path.join(root, f), a.repo)
            s = cut_tests(strip_rust_comments(open(os.path.join(root, f)).read()))
            s_nostr = re.sub(r'r#*"(?:.|\n)*?"#*|"(?:[^"\\]|\\.)*"', '""', s)
            for m in re.finditer(r"^\s*(?:pub(?:\([^)]*\))?\s+)?static\s+(mut\s+)?(\w+)\s*:\s*([^=;]+)", s_nostr, re.M):
                statics.append((rel, m.group(2), ("mut " if m.group(1) else "") + " ".join(m.group(3).split())))
            for m in re.finditer(r"\b(thread_local!|lazy_static!\s*\{|static_regex!)", s_nostr):
                kind = m.group(1).rstrip(" {")
                if kind == "lazy_static!" or kind == "thread_local!":
                    statics.append((rel, kind, "macro"))
                elif not re.search(r"macro_rules!\s*static_regex", s_nostr[max(0, m.start() - 30):m.end() + 5]):
                    statics.append((rel, "static_regex!", "OnceLock<Regex> cache of a literal pattern"))
    statics.sort()
    # how the accumulating Session fields are touched inside `impl Session` (formatting.rs, lib.rs)
    uses = set()
    for rel, text in (("src/formatting.rs", fm), ("src/lib.rs", lib)):
        text = cut_tests(text)
        for m in re.finditer(r"impl\s*<[^{]*>\s*(?:\w+\s+for\s+)?Session\s*<[^{]*\{", text):
            body, _ = block_after(text, m.end() - 1)
            for u in re.finditer(r"\bself\s*\.\s*(source_file|errors)\b(\s*\.\s*(\w+))?", body):
                uses.add((rel, u.group(1), u.group(3) or "<whole>"))
    uses = sorted(uses)
    # the loop of bin/main.rs `format` over the paths of the command line: every binding that is alive across
    # iterations (bound in the function body before / outside the `for file in files` loop)
    mainrs = strip_rust_comments(read(a.repo, "src/bin/main.rs", NAME))
    m = re.search(r"\bfn\s+format\s*\(", mainrs)
    if not m:
        refuse(NAME, "src/bin/main.rs: fn format not found")
    brace = mainrs.find("{", mainrs.find(")", m.end()))
    # skip the return type: the body is the first `{` after `-> Result<i32>`
    arrow = mainrs.find("->", m.end())
    if arrow != -1 and arrow < brace:
        brace = mainrs.find("{", arrow)
    fbody, _ = block_after(mainrs, brace)
    lm = re.search(r"\bfor\s+(\w+)\s+in\s+files\b[^{]*\{", fbody)
    if not lm:
        refuse(NAME, "src/bin/main.rs: `for <x> in files` loop of fn format not found")
    loop_body, loop_end = block_after(fbody, lm.end() - 1)
    outside = fbody[:lm.start()] + fbody[loop_end:]
    # bindings at the function's own nesting depth outside the loop
    cli_bindings = []
    depth = 0
    i = 0
    pre = fbody[:lm.start()]
    for mm in re.finditer(r"[{}]|\blet\s+(mut\s+)?(\(([^)]*)\)|\w+)", pre):
        t = mm.group(0)
        if t == "{":
            depth += 1
        elif t == "}":
            depth -= 1
        elif depth == 0:
            names = re.findall(r"\w+", mm.group(3)) if mm.group(3) is not None else [mm.group(2)]
            for nme in names:
                if nme != "mut":
                    cli_bindings.append((nme, bool(mm.group(1)) or ("mut " + nme) in (mm.group(3) or "")))
    # calls made in the loop body that take no per-file argument are suspicious too; what is pinned is the callee list
    loop_calls = sorted(set(re.findall(r"\b([a-z_][\w:]*)\s*\(", loop_body)) - {"if", "let", "match", "while", "for", "return", "Some", "Ok", "Err", "println", "eprintln"})
    def lst(xs):
        return "[" + ", ".join(xs) + "]"
    q = lambda s: '"' + s.replace("\\", "\\\\").replace('"', '\\"') + '"'
    L = ["/- GENERATED by translate/c15_state.py from src/lib.rs, src/formatting.rs and a scan of src/**.  Do not edit. -/",
         "namespace RF.Gen.State\n",
         "/-- fields of `pub struct Session` (name, type) -/",
         "def sessionFields : List (String × String) := " + lst(f"({q(n)}, {q(t)})" for n, t in sess) + "\n",
         "/-- fields of `struct ReportedErrors` -/",
         "def reportedErrorsFields : List String := " + lst(q(n) for n, _ in rep) + "\n",
         "/-- every `static`, `thread_local!`, `lazy_static!`, `static_regex!` site outside tests: (file, name, type) -/",
         "def statics : List (String × String × String) := " + lst(f"({q(f)}, {q(n)}, {q(t)})" for f, n, t in statics) + "\n",
         "/-- how the two accumulating `Session` fields are touched inside `impl Session`: (file, field, method or sub-field) -/",
         "def sessionUses : List (String × String × String) := " + lst(f"({q(f)}, {q(n)}, {q(t)})" for f, n, t in uses) + "\n",
         "/-- bin/main.rs `format`: the bindings alive across the iterations of the loop over the command line: (name, mutable) -/",
         "def cliLoopBindings : List (String × Bool) := " + lst(f"({q(n)}, {'true' if mu else 'false'})" for n, mu in cli_bindings) + "\n",
         "/-- bin/main.rs `format`: the functions and methods called inside the loop body -/",
         "def cliLoopCalls : List String := " + lst(q(c) for c in loop_calls) + "\n",
         "end RF.Gen.State\n"]
    changed = write_if_changed(os.path.join(a.out, "State.lean"), "\n".join(L))
    print(f"c15_state: ok ({'rewritten' if changed else 'unchanged'}); session fields {[n for n, _ in sess]}; {len(statics)} static sites")


if __name__ == "__main__":
    main()
