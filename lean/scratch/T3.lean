import RF.Lemmas.TokEquiv
namespace RF.Tok

def clsDelim (t : Tok) : Bool := t.isOpen || t.isClose
def clsTry (t : Tok) : Bool := t.isI kwTry || t.isP '!' || t.isP '?' || clsDelim t
def clsAbi (t : Tok) : Bool := isAbiC t
def clsVis (t : Tok) : Bool := t.isI kwIn || t.isP ':'
def clsEmpty (t : Tok) : Bool := t.isP '<' || t.isP '>' || t.isI kwFor || t.isI kwWhere || t.isP ':'
def clsPipe (t : Tok) : Bool := t.isP '|'
def clsBlock (t : Tok) : Bool := clsDelim t || t.isP ','
def clsSemi (t : Tok) : Bool := t.isP ';'
def clsComma (t : Tok) : Bool := t.isP ','

theorem actLocal_drop (S : Tok → Bool) (t : Tok) (h : S t = true) : ActLocal S t { out := [] } :=
  ⟨by simp [outside_cons, h], by simp, by simp⟩

theorem isO_isOpen {t : Tok} {c} (h : t.isO c = true) : t.isOpen = true := by
  simp [Tok.isO, Tok.isOpen] at *; exact h.1
theorem isC_isClose {t : Tok} {c} (h : t.isC c = true) : t.isClose = true := by
  simp [Tok.isC, Tok.isClose] at *; exact h.1

macro "rule_cases" h:ident : tactic =>
  `(tactic| (repeat' (split at $h:ident)) <;> (try (cases $h:ident; done)))

theorem ruleAbi_local : RuleLocal clsAbi ruleAbi := by
  intro enc lo p2 p1 t rest a h
  unfold ruleAbi at h
  rule_cases h
  all_goals (simp only [drop_, Option.some.injEq] at h; subst h; apply actLocal_drop; simp_all [clsAbi])

theorem ruleVis_local : RuleLocal clsVis ruleVis := by
  intro enc lo p2 p1 t rest a h
  unfold ruleVis at h
  rule_cases h
  all_goals (simp only [drop_, Option.some.injEq] at h; subst h; apply actLocal_drop; simp_all [clsVis])

theorem ruleEmpty_local : RuleLocal clsEmpty ruleEmpty := by
  intro enc lo p2 p1 t rest a h
  unfold ruleEmpty at h
  rule_cases h
  all_goals (simp only [drop_, Option.some.injEq] at h; subst h; apply actLocal_drop; simp_all [clsEmpty])

theorem rulePipe_local : RuleLocal clsPipe rulePipe := by
  intro enc lo p2 p1 t rest a h
  unfold rulePipe at h
  rule_cases h
  all_goals (simp only [drop_, Option.some.injEq] at h; subst h; apply actLocal_drop; simp_all [clsPipe])

theorem ruleSemi_local : RuleLocal clsSemi ruleSemi := by
  intro enc lo p2 p1 t rest a h
  unfold ruleSemi at h
  rule_cases h
  all_goals (simp only [drop_, Option.some.injEq] at h; subst h; apply actLocal_drop; simp_all [clsSemi])

theorem ruleComma_local : RuleLocal clsComma ruleComma := by
  intro enc lo p2 p1 t rest a h
  unfold ruleComma at h
  rule_cases h
  all_goals (simp only [drop_, Option.some.injEq] at h; subst h; apply actLocal_drop; simp_all [clsComma])


theorem clsDelim_of_open {t : Tok} (h : t.isOpen = true) : clsDelim t = true := by simp [clsDelim, h]
theorem clsDelim_close : ∀ c : Tok, c.isClose = true → clsDelim c = true := by intro c h; simp [clsDelim, h]

theorem ruleVec_local : RuleLocal clsDelim ruleVec := by
  intro enc lo p2 p1 t rest a h
  unfold ruleVec at h
  rule_cases h
  rename_i hc
  simp only [Option.some.injEq] at h; subst h
  simp only [Bool.and_eq_true] at hc
  refine ⟨?_, ?_, by simp⟩
  · have := hc.1.1
    simp [outside_cons, clsDelim, this]; simp [mkO, Tok.isOpen]
  · intro o ho; simp at ho; subst ho
    exact ⟨by simp [outside_cons, clsDelim, mkC, Tok.isClose], clsDelim_close⟩

theorem ruleTry_local : RuleLocal clsTry ruleTry := by
  intro enc lo p2 p1 t rest a h
  unfold ruleTry at h
  rule_cases h
  · simp only [drop_, Option.some.injEq] at h; subst h; apply actLocal_drop; simp_all [clsTry]
  · simp only [drop_, Option.some.injEq] at h; subst h; apply actLocal_drop; simp_all [clsTry]
  · rename_i hc
    simp only [Option.some.injEq] at h; subst h
    simp only [Bool.and_eq_true] at hc
    refine ⟨?_, ?_, by simp⟩
    · simp [outside_cons, clsTry, clsDelim, isO_isOpen hc.1.1]
    · intro o ho; simp at ho; subst ho
      exact ⟨by simp [outside_cons, clsTry, mkP, Tok.isP], fun c h => by simp [clsTry, clsDelim, h]⟩

theorem paren_act_local {t : Tok} (h : t.isO '(' = true) :
    ActLocal clsDelim t { out := [], close := some [] } :=
  ⟨by simp [outside_cons, clsDelim, isO_isOpen h], by
    intro o ho; simp at ho; subst ho; exact ⟨rfl, clsDelim_close⟩, by simp⟩

theorem ruleParen_local : RuleLocal clsDelim ruleParen := by
  intro enc lo p2 p1 t rest a h
  unfold ruleParen at h
  rule_cases h
  all_goals (cases h; apply paren_act_local; simp_all)

theorem ruleLitParen_local : RuleLocal clsDelim ruleLitParen := by
  intro enc lo p2 p1 t rest a h
  unfold ruleLitParen at h
  rule_cases h
  all_goals (cases h; apply paren_act_local; simp_all)

theorem ruleClosureParen_local : RuleLocal clsDelim ruleClosureParen := by
  intro enc lo p2 p1 t rest a h
  unfold ruleClosureParen at h
  rule_cases h
  all_goals (cases h; apply paren_act_local; simp_all)

end RF.Tok
