import RF.Model.Comment
import RF.Lemmas.CharClasses
/-!
Lemmas about the comment model (`RF.Comment`): the slice iterators partition their input, the
`_ => panic!()` arm of `UngroupedCommentCodeSlices` and the `&subslice[..2]` of `CommentCodeSlices`
are never reached, `CommentReducer` depends only on the stripped lines of a comment, the safety net.
-/
namespace RF.Lemmas.Comment
open RF.CharClasses RF.Comment RF.Lemmas.CharClasses

/-! ## `takeCode` / `takeComment` split their input -/

theorem takeCode_split : ∀ l : List (Kind × Char),
    (takeCode l).1 ++ (takeCode l).2.map (·.2) = l.map (·.2)
  | [] => rfl
  | (k, c) :: rest => by
    unfold takeCode
    split
    · simp
    · simp [takeCode_split rest]

theorem takeComment_split : ∀ l : List (Kind × Char),
    (takeComment l).1 ++ (takeComment l).2.map (·.2) = l.map (·.2)
  | [] => rfl
  | (k, c) :: rest => by
    unfold takeComment
    split
    · simp [takeComment_split rest]
    · simp

theorem takeCode_length : ∀ l : List (Kind × Char), (takeCode l).2.length ≤ l.length
  | [] => by simp [takeCode]
  | (k, c) :: rest => by
    unfold takeCode
    split
    · simp
    · have := takeCode_length rest
      simp; omega

theorem takeComment_length : ∀ l : List (Kind × Char), (takeComment l).2.length ≤ l.length
  | [] => by simp [takeComment]
  | (k, c) :: rest => by
    unfold takeComment
    split
    · have := takeComment_length rest
      simp; omega
    · simp

/-- With enough fuel, the slices `ungroupedGo` returns concatenate to the characters it was given. -/
theorem ungroupedGo_concat : ∀ (fuel off : Nat) (l : List (Kind × Char)) (items : List Slice),
    l.length ≤ fuel → ungroupedGo fuel off l = some items →
    items.flatMap (·.text) = l.map (·.2)
  | 0, _, l, items, hl, h => by
    have : l = [] := List.length_eq_zero_iff.mp (by omega)
    subst this
    simp [ungroupedGo] at h
    subst h; rfl
  | fuel + 1, off, [], items, _, h => by
    simp [ungroupedGo] at h
    subst h; rfl
  | fuel + 1, off, (k, c) :: rest, items, hl, h => by
    simp only [List.length_cons] at hl
    have code : ∀ kind, (ungroupedGo fuel (off + utf8Len (c :: (takeCode rest).1)) (takeCode rest).2).map
        (⟨kind, off, c :: (takeCode rest).1⟩ :: ·) = some items →
        items.flatMap (·.text) = ((k, c) :: rest).map (·.2) := by
      intro kind h
      simp only [Option.map_eq_some_iff] at h
      obtain ⟨tl, htl, rfl⟩ := h
      have h1 := takeCode_length rest
      have h2 := takeCode_split rest
      have ih := ungroupedGo_concat fuel _ _ tl (by omega) htl
      simp only [List.flatMap_cons, ih, List.map_cons, List.cons_append]
      rw [h2]
    cases k with
    | normal => exact code _ (by simpa [ungroupedGo] using h)
    | inString => exact code _ (by simpa [ungroupedGo] using h)
    | startComment =>
      simp only [ungroupedGo, Option.map_eq_some_iff] at h
      obtain ⟨tl, htl, rfl⟩ := h
      have h1 := takeComment_length rest
      have h2 := takeComment_split rest
      have ih := ungroupedGo_concat fuel _ _ tl (by omega) htl
      simp only [List.flatMap_cons, ih, List.map_cons, List.cons_append]
      rw [h2]
    | _ => simp [ungroupedGo] at h

/-! ## The kind sequence `CharClasses` emits

Code characters (`Normal`, `InString`) until a `StartComment`, then characters inside the comment
until an `EndComment` (or the end of the text), and so on: the regular language below.  This is
what keeps `UngroupedCommentCodeSlices::next` away from its `_ => panic!()` arm. -/

/-- `KindsOk inComment ks`: `ks` is a suffix of such a sequence (`inComment` = a comment is open). -/
def KindsOk : Bool → List Kind → Prop
  | _, [] => True
  | false, k :: ks =>
    (k = .normal ∨ k = .inString) ∧ KindsOk false ks ∨ k = .startComment ∧ KindsOk true ks
  | true, k :: ks =>
    (k = .inComment ∨ k = .inStringCommented) ∧ KindsOk true ks ∨ k = .endComment ∧ KindsOk false ks

/-- The states in which a comment is open. -/
def commentState : Status → Bool
  | .blockComment _ | .stringInBlockComment _ | .blockCommentOpening _
  | .blockCommentClosing _ | .lineComment => true
  | _ => false

theorem step_kind (st : Status) (c : Char) (rest : List Char) (h : Ok st (c :: rest)) :
    Ok (step st c rest).1 rest ∧
    (commentState st = false →
      ((step st c rest).2 = .normal ∨ (step st c rest).2 = .inString) ∧
        commentState (step st c rest).1 = false ∨
      (step st c rest).2 = .startComment ∧ commentState (step st c rest).1 = true) ∧
    (commentState st = true →
      ((step st c rest).2 = .inComment ∨ (step st c rest).2 = .inStringCommented) ∧
        commentState (step st c rest).1 = true ∨
      (step st c rest).2 = .endComment ∧ commentState (step st c rest).1 = false) := by
  cases st <;> simp only [Ok, List.head?_cons, Option.some.injEq] at h <;>
    simp only [step, step?, commentState] <;> (repeat' split) <;> simp_all [Ok] <;> omega

theorem run_kindsOk : ∀ (s : List Char) (st : Status), Ok st s →
    KindsOk (commentState st) ((run st s).map (·.1))
  | [], _, _ => by simp [run, KindsOk]
  | c :: rest, st, h => by
    obtain ⟨hok, h1, h2⟩ := step_kind st c rest h
    have ih := run_kindsOk rest (step st c rest).1 hok
    simp only [run, List.map_cons]
    cases hs : commentState st
    · rcases h1 hs with ⟨hk, hn⟩ | ⟨hk, hn⟩
      · rw [hn] at ih; exact Or.inl ⟨hk, ih⟩
      · rw [hn] at ih; exact Or.inr ⟨hk, ih⟩
    · rcases h2 hs with ⟨hk, hn⟩ | ⟨hk, hn⟩
      · rw [hn] at ih; exact Or.inl ⟨hk, ih⟩
      · rw [hn] at ih; exact Or.inr ⟨hk, ih⟩

theorem classes_kindsOk (s : List Char) : KindsOk false ((classes s).map (·.1)) :=
  run_kindsOk s .normal trivial

/-! ## `UngroupedCommentCodeSlices` never reaches `panic!()` -/

theorem takeCode_kinds : ∀ l : List (Kind × Char), KindsOk false (l.map (·.1)) →
    (takeCode l).2 = [] ∨
      ∃ c rest, (takeCode l).2 = (.startComment, c) :: rest ∧ KindsOk true (rest.map (·.1))
  | [], _ => Or.inl rfl
  | (k, c) :: rest, h => by
    simp only [List.map_cons, KindsOk] at h
    rcases h with ⟨hk, hr⟩ | ⟨hk, hr⟩
    · have : k.isComment = false := by rcases hk with rfl | rfl <;> rfl
      simp only [takeCode, this]
      exact takeCode_kinds rest hr
    · subst hk
      exact Or.inr ⟨c, rest, by simp [takeCode, Kind.isComment], hr⟩

theorem takeComment_kinds : ∀ l : List (Kind × Char), KindsOk true (l.map (·.1)) →
    KindsOk false ((takeComment l).2.map (·.1))
  | [], _ => by simp [takeComment, KindsOk]
  | (k, c) :: rest, h => by
    simp only [List.map_cons, KindsOk] at h
    rcases h with ⟨hk, hr⟩ | ⟨hk, hr⟩
    · have : k.insideComment = true := by rcases hk with rfl | rfl <;> rfl
      simp only [takeComment, this]
      exact takeComment_kinds rest hr
    · subst hk
      simpa [takeComment, Kind.insideComment] using hr

theorem ungroupedGo_isSome : ∀ (fuel off : Nat) (l : List (Kind × Char)),
    KindsOk false (l.map (·.1)) → (ungroupedGo fuel off l).isSome
  | 0, _, _, _ => rfl
  | _ + 1, _, [], _ => rfl
  | fuel + 1, off, (k, c) :: rest, h => by
    simp only [List.map_cons, KindsOk] at h
    have code : KindsOk false (rest.map (·.1)) →
        ((ungroupedGo fuel (off + utf8Len (c :: (takeCode rest).1)) (takeCode rest).2).map
          (⟨.normal, off, c :: (takeCode rest).1⟩ :: ·)).isSome := by
      intro hr
      rcases takeCode_kinds rest hr with h0 | ⟨c', r', h1, h2⟩
      · simp [h0, ungroupedGo_isSome fuel _ [] (by simp [KindsOk])]
      · rw [h1]
        have := ungroupedGo_isSome fuel (off + utf8Len (c :: (takeCode rest).1))
          ((.startComment, c') :: r') (by simpa [KindsOk] using h2)
        simpa using this
    rcases h with ⟨hk, hr⟩ | ⟨hk, hr⟩
    · rcases hk with rfl | rfl <;> simpa [ungroupedGo] using code hr
    · subst hk
      have := ungroupedGo_isSome fuel (off + utf8Len (c :: (takeComment rest).1))
        (takeComment rest).2 (takeComment_kinds rest hr)
      simpa [ungroupedGo] using this

/-- `UngroupedCommentCodeSlices` returns slices for every text (no panic) … -/
theorem ungrouped_isSome (s : List Char) : (ungrouped? s).isSome :=
  ungroupedGo_isSome _ _ _ (classes_kindsOk s)

/-- … and they concatenate to the text. -/
theorem ungrouped_concat (s : List Char) (items : List Slice) (h : ungrouped? s = some items) :
    items.flatMap (·.text) = s := by
  have := ungroupedGo_concat s.length 0 (classes s) items (by simp [classes_length]) h
  simpa [classes_map_snd] using this

/-! ## `CommentCodeSlices` -/

/-- A text that begins with a comment opener. -/
def Opener (rest : List Char) : Prop :=
  ∃ c2 t, rest = '/' :: c2 :: t ∧ (c2 = '/' ∨ c2 = '*')

theorem step_startComment (st : Status) (c : Char) (rest : List Char)
    (h : (step st c rest).2 = .startComment) : Opener (c :: rest) := by
  cases st <;> simp only [step, step?] at h <;> (repeat' split at h) <;>
    simp_all [Opener]

/-- The first comment character after a run of code characters is a `StartComment`, and the text
has a comment opener there. -/
theorem run_first_comment : ∀ (s : List Char) (st : Status) (pre : List (Kind × Char))
    (k0 : Kind) (c0 : Char) (post : List (Kind × Char)),
    Ok st s → commentState st = false → run st s = pre ++ (k0, c0) :: post →
    (∀ x ∈ pre, x.1.isComment = false) → k0.isComment = true →
    Opener (s.drop pre.length)
  | [], _, pre, _, _, _, _, _, h, _, _ => by
    simp [run] at h
  | c :: rest, st, [], k0, c0, post, hok, hcs, h, _, hk => by
    simp only [run, List.nil_append, List.cons.injEq, Prod.mk.injEq] at h
    obtain ⟨hok', h1, _⟩ := step_kind st c rest hok
    rcases h1 hcs with ⟨hk', _⟩ | ⟨hk', _⟩
    · rw [h.1.1] at hk'
      rcases hk' with rfl | rfl <;> simp [Kind.isComment] at hk
    · simpa using step_startComment st c rest hk'
  | c :: rest, st, (k, c') :: pre, k0, c0, post, hok, hcs, h, hpre, hk => by
    simp only [run, List.cons_append, List.cons.injEq, Prod.mk.injEq] at h
    obtain ⟨hok', h1, _⟩ := step_kind st c rest hok
    have hkc : k.isComment = false := hpre (k, c') (by simp)
    rcases h1 hcs with ⟨_, hn⟩ | ⟨hk', _⟩
    · have := run_first_comment rest _ pre k0 c0 post hok' hn h.2
        (fun x hx => hpre x (by simp [hx])) hk
      simpa using this
    · rw [h.1.1] at hk'
      subst hk'
      simp [Kind.isComment] at hkc

/-- The `for` loop when a Normal slice is sought (`last_slice_kind == Comment`): no connector, so
it stops at the first comment character. -/
theorem ccsScan_comment : ∀ (l : List (Kind × Char)) (i : Nat),
    (∃ pre k0 c0 post, l = pre ++ (k0, c0) :: post ∧ (∀ x ∈ pre, x.1.isComment = false) ∧
      k0.isComment = true ∧
      ccsScan .comment false i none l = .broke (i + pre.length) none (!post.isEmpty)) ∨
    ((∀ x ∈ l, x.1.isComment = false) ∧ ccsScan .comment false i none l = .finished none)
  | [], i => Or.inr ⟨by simp, rfl⟩
  | (k, c) :: rest, i => by
    cases hk : k.isComment
    · rcases ccsScan_comment rest (i + 1) with ⟨pre, k0, c0, post, h1, h2, h3, h4⟩ | ⟨h1, h2⟩
      · refine Or.inl ⟨(k, c) :: pre, k0, c0, post, by simp [h1], ?_, h3, ?_⟩
        · intro x hx
          rcases List.mem_cons.mp hx with rfl | hx
          · exact hk
          · exact h2 x hx
        · simp only [ccsScan, Kind.toCodeCharKind, hk]
          simp [h4]; omega
      · refine Or.inr ⟨?_, ?_⟩
        · intro x hx
          rcases List.mem_cons.mp hx with rfl | hx
          · exact hk
          · exact h1 x hx
        · simp only [ccsScan, Kind.toCodeCharKind, hk]
          simp [h2]
    · refine Or.inl ⟨[], k, c, rest, rfl, by simp, hk, ?_⟩
      simp [ccsScan, Kind.toCodeCharKind, hk]


theorem ccsNext_comment (rest : List Char) :
    ∃ n, ccsNext? .comment rest = some n ∧ (rest.drop n = [] ∨ Opener (rest.drop n)) := by
  have hne : (CodeCharKind.comment == CodeCharKind.normal) = false := by decide
  rcases ccsScan_comment (classes rest) 0 with ⟨pre, k0, c0, post, h1, h2, h3, h4⟩ | ⟨_, h2⟩
  · have hop : Opener (rest.drop pre.length) :=
      run_first_comment rest .normal pre k0 c0 post trivial rfl h1 h2 h3
    unfold ccsNext?
    simp only [hne, Bool.false_eq_true, if_false, h4, Nat.zero_add, Option.getD_none]
    by_cases hz : (pre.length == 0 && !!post.isEmpty) = true
    · exact ⟨rest.length, by rw [if_pos hz], Or.inl (by simp)⟩
    · exact ⟨pre.length, by rw [if_neg hz], Or.inr hop⟩
  · refine ⟨rest.length, ?_, Or.inl (by simp)⟩
    unfold ccsNext?
    simp only [hne, Bool.false_eq_true, if_false, h2]

/-- Lower bound on the indices the `for` loop returns. -/
def ScanGe (lo : Nat) : Scan → Prop
  | .broke k fw _ => lo ≤ k ∧ ∀ j, fw = some j → lo ≤ j
  | .finished fw => ∀ j, fw = some j → lo ≤ j

theorem ccsScan_bounds (lk : CodeCharKind) (ss : Bool) : ∀ (l : List (Kind × Char)) (i : Nat)
    (fw : Option Nat) (lo : Nat), lo ≤ i → (∀ j, fw = some j → lo ≤ j) →
    ScanGe lo (ccsScan lk ss i fw l)
  | [], i, fw, lo, _, hfw => by simpa [ccsScan, ScanGe] using hfw
  | (k, c) :: rest, i, fw, lo, hi, hfw => by
    unfold ccsScan
    generalize (lk == CodeCharKind.normal && ss && (c == ' ' || c == '\t')) = conn
    have hfw1 : ∀ j, (if (conn && fw.isNone) = true then some i else fw) = some j → lo ≤ j := by
      intro j hj
      split at hj
      · simp at hj; omega
      · exact hfw j hj
    simp only []
    split
    · exact ⟨hi, hfw1⟩
    · apply ccsScan_bounds lk ss rest (i + 1) _ lo (by omega)
      intro j hj
      split at hj
      · exact hfw1 j hj
      · simp at hj

theorem ccsNext_normal (rest : List Char) (h : Opener rest) :
    ∃ n, ccsNext? .normal rest = some n ∧ 2 ≤ n := by
  obtain ⟨c2, t, rfl, hc2⟩ := h
  have hss : prefixIsSlashSlash? ('/' :: c2 :: t) = some (c2 == '/') := by
    rcases hc2 with rfl | rfl <;> simp [prefixIsSlashSlash?] <;> decide
  have hcl : ∃ l2, classes ('/' :: c2 :: t) = (.startComment, '/') :: (.inComment, c2) :: l2 := by
    rcases hc2 with rfl | rfl
    · exact ⟨run .lineComment t, by simp [classes, run, step, step?]⟩
    · exact ⟨run (.blockComment 1) t, by simp [classes, run, step, step?]⟩
  obtain ⟨l2, hl2⟩ := hcl
  have hc2b : (c2 == ' ' || c2 == '\t') = false := by rcases hc2 with rfl | rfl <;> decide
  have hscan : ccsScan .normal (c2 == '/') 0 none ((.startComment, '/') :: (.inComment, c2) :: l2)
      = ccsScan .normal (c2 == '/') 2 none l2 := by
    simp [ccsScan, Kind.toCodeCharKind, Kind.isComment, hc2b]
  have hb := ccsScan_bounds .normal (c2 == '/') l2 2 none 2 (by omega) (by simp)
  unfold ccsNext?
  have hnn : (CodeCharKind.normal == CodeCharKind.normal) = true := by decide
  simp only [hnn, if_true, hss, hl2, hscan]
  cases hsc : ccsScan .normal (c2 == '/') 2 none l2 with
  | broke k fw more =>
    rw [hsc] at hb
    have hli : 2 ≤ fw.getD k := by
      cases fw with
      | none => simpa using hb.1
      | some w => simpa using hb.2 w rfl
    have : (fw.getD k == 0 && !more) = false := by
      have : (fw.getD k == 0) = false := by simp; omega
      simp [this]
    exact ⟨fw.getD k, by simp [this], hli⟩
  | finished fw =>
    rw [hsc] at hb
    cases fw with
    | none => exact ⟨_, rfl, by simp⟩
    | some w => exact ⟨w, rfl, hb w rfl⟩


/-- What `CommentCodeSlices` can hold between two calls of `next`: after a Normal slice the rest is
empty or begins with a comment opener. -/
def CcsInv (lk : CodeCharKind) (rest : List Char) : Prop :=
  lk = .normal → rest = [] ∨ Opener rest

/-- Calls of `next` still needed (upper bound). -/
def ccsMeasure (lk : CodeCharKind) (rest : List Char) : Nat :=
  if rest = [] then 0 else 2 * rest.length + (if lk = .comment then 1 else 0)

/-- One `next` from a reachable state: no panic, the invariant is kept, the measure decreases. -/
theorem ccsNext_step (lk : CodeCharKind) (rest : List Char) (hne : rest ≠ []) (hinv : CcsInv lk rest) :
    ∃ n, ccsNext? lk rest = some n ∧ CcsInv (flipKind lk) (rest.drop n) ∧
      ccsMeasure (flipKind lk) (rest.drop n) + 1 ≤ ccsMeasure lk rest := by
  have hpos : 0 < rest.length := List.length_pos_iff.mpr hne
  cases lk with
  | comment =>
    obtain ⟨n, hn, hinv'⟩ := ccsNext_comment rest
    refine ⟨n, hn, fun _ => hinv', ?_⟩
    simp only [ccsMeasure, flipKind, hne, if_false]
    split
    · simp
    · simp only [List.length_drop]
      simp; omega
  | normal =>
    rcases hinv rfl with h | h
    · exact absurd h hne
    · obtain ⟨n, hn, h2⟩ := ccsNext_normal rest h
      refine ⟨n, hn, fun h => by simp [flipKind] at h, ?_⟩
      simp only [ccsMeasure, flipKind, hne, if_false]
      split
      · simp; omega
      · rename_i hd
        have : n < rest.length := by
          by_cases hc : n < rest.length
          · exact hc
          · exact absurd (List.drop_eq_nil_of_le (by omega)) hd
        simp only [List.length_drop]
        simp; omega

/-- Kinds alternate, starting with `k`. -/
def Alternates : CodeCharKind → List Slice → Prop
  | _, [] => True
  | k, s :: t => s.kind = k ∧ Alternates (flipKind k) t

/-- Every slice starts where the previous one ended (byte offsets). -/
def Contiguous : Nat → List Slice → Prop
  | _, [] => True
  | off, s :: t => s.start = off ∧ Contiguous (off + utf8Len s.text) t

theorem ccsGo_spec : ∀ (fuel : Nat) (lk : CodeCharKind) (off : Nat) (rest : List Char),
    CcsInv lk rest → ccsMeasure lk rest ≤ fuel →
    ∃ items, ccsGo fuel lk off rest = some items ∧ items.flatMap (·.text) = rest ∧
      Alternates (flipKind lk) items ∧ Contiguous off items
  | 0, lk, off, rest, _, hm => by
    have : rest = [] := by
      by_cases hne : rest = []
      · exact hne
      · have : 0 < rest.length := List.length_pos_iff.mpr hne
        simp [ccsMeasure, hne] at hm
        omega
    subst this
    exact ⟨[], rfl, rfl, trivial, trivial⟩
  | fuel + 1, lk, off, rest, hinv, hm => by
    by_cases hne : rest = []
    · subst hne
      exact ⟨[], rfl, rfl, trivial, trivial⟩
    · obtain ⟨n, hn, hinv', hdec⟩ := ccsNext_step lk rest hne hinv
      obtain ⟨tl, htl, hcat, halt, hcont⟩ :=
        ccsGo_spec fuel (flipKind lk) (off + utf8Len (rest.take n)) (rest.drop n) hinv' (by omega)
      refine ⟨⟨flipKind lk, off, rest.take n⟩ :: tl, ?_, ?_, ⟨rfl, halt⟩, ⟨rfl, hcont⟩⟩
      · have : rest.isEmpty = false := by simpa using hne
        simp [ccsGo, this, hn, htl]
      · simp [hcat]


/-- `CommentCodeSlices::new(s)` collected: no panic, the slices concatenate to `s`, their kinds
alternate starting with `Normal`, and each starts at the byte where the previous one ended. -/
theorem slices_spec (s : List Char) :
    ∃ items, commentCodeSlices? s = some items ∧ items.flatMap (·.text) = s ∧
      Alternates .normal items ∧ Contiguous 0 items := by
  apply ccsGo_spec (2 * s.length + 2) .comment 0 s (fun h => by simp at h)
  simp only [ccsMeasure]
  split <;> simp <;> omega

theorem ungroupedGo_contiguous : ∀ (fuel off : Nat) (l : List (Kind × Char)) (items : List Slice),
    ungroupedGo fuel off l = some items → Contiguous off items
  | 0, _, _, items, h => by
    simp [ungroupedGo] at h; subst h; trivial
  | _ + 1, _, [], items, h => by
    simp [ungroupedGo] at h; subst h; trivial
  | fuel + 1, off, (k, c) :: rest, items, h => by
    cases k <;> simp only [ungroupedGo, Option.map_eq_some_iff, reduceCtorEq] at h
    all_goals
      obtain ⟨tl, htl, rfl⟩ := h
      exact ⟨rfl, ungroupedGo_contiguous fuel _ _ tl htl⟩


/-! ## `CommentReducer` -/

theorem reduce_ws (blk : Bool) : ∀ (ws : List Char) (st : RState), (∀ c ∈ ws, isWs c = true) →
    reduce blk st ws = []
  | [], _, _ => by simp [reduce]
  | c :: rest, st, h => by
    have hc : isWs c = true := h c (by simp)
    have ih := fun st' => reduce_ws blk rest st' (fun x hx => h x (by simp [hx]))
    cases st <;> simp [reduce, hc, ih] <;> split <;> simp [ih]

theorem isPad_isWs {c : Char} (h : isPad c = true) : isWs c = true := by
  simp [isPad] at h; exact h.1

theorem isPad_ne_nl {c : Char} (h : isPad c = true) : c ≠ '\n' := by
  simp [isPad] at h; exact h.2

theorem reduce_pad_prefix (blk : Bool) : ∀ (ps x : List Char) (st : RState),
    st ≠ .afterStar → (∀ c ∈ ps, isPad c = true) → reduce blk st (ps ++ x) = reduce blk st x
  | [], _, _, _, _ => rfl
  | c :: rest, x, st, hst, h => by
    have hc := h c (by simp)
    have ih := reduce_pad_prefix blk rest x st hst (fun y hy => h y (by simp [hy]))
    cases st with
    | firstLine => simp [reduce, isPad_isWs hc, isPad_ne_nl hc, ih]
    | lineStart => simp [reduce, isPad_isWs hc, ih]
    | afterStar => exact absurd rfl hst

def lineEnd (blk : Bool) : RState → RState
  | .firstLine => if blk then .lineStart else .firstLine
  | _ => .lineStart

def after (blk : Bool) : RState → List Char → RState
  | st, [] => st
  | .firstLine, c :: rest =>
    if c = '\n' then after blk (if blk then .lineStart else .firstLine) rest else after blk .firstLine rest
  | .lineStart, c :: rest =>
    if isWs c then after blk .lineStart rest
    else if c = '*' then after blk .afterStar rest else after blk .lineStart rest
  | .afterStar, _ :: rest => after blk .lineStart rest

theorem reduce_append (blk : Bool) : ∀ (a b : List Char) (st : RState),
    reduce blk st (a ++ b) = reduce blk st a ++ reduce blk (after blk st a) b
  | [], _, _ => by simp [reduce, after]
  | c :: rest, b, st => by
    cases st <;> simp only [List.cons_append, reduce, after] <;> (repeat' split) <;>
      simp [reduce_append blk rest b]

theorem isWs_nl : isWs '\n' = true := by decide

/-- Trailing blanks and the newline: whatever the state, the next line starts in `lineEnd`. -/
theorem reduce_pads_nl (blk : Bool) : ∀ (q y : List Char) (s : RState),
    (∀ c ∈ q, isPad c = true) → reduce blk s (q ++ '\n' :: y) = reduce blk (lineEnd blk s) y
  | [], y, s, _ => by
    cases s <;> simp [reduce, lineEnd, isWs_nl]
  | c :: rest, y, s, h => by
    have hc := h c (by simp)
    have ih := fun s' => reduce_pads_nl blk rest y s' (fun x hx => h x (by simp [hx]))
    cases s with
    | firstLine => simp [reduce, isPad_isWs hc, isPad_ne_nl hc, ih]
    | lineStart => simp [reduce, isPad_isWs hc, ih]
    | afterStar => simp [reduce, isPad_isWs hc, ih, lineEnd]

theorem lineEnd_after (blk : Bool) : ∀ (core : List Char) (st : RState),
    (∀ c ∈ core, c ≠ '\n') → lineEnd blk (after blk st core) = lineEnd blk st
  | [], _, _ => rfl
  | c :: rest, st, h => by
    have hc : c ≠ '\n' := h c (by simp)
    have ih := fun s' => lineEnd_after blk rest s' (fun x hx => h x (by simp [hx]))
    cases st <;> simp only [after, hc, if_false] <;> (repeat' split) <;>
      first | exact ih _ | (rw [ih]; rfl)

theorem mem_takeWhile_imp {p : Char → Bool} : ∀ {l : List Char} {c : Char},
    c ∈ l.takeWhile p → p c = true
  | [], _, h => by simp at h
  | x :: xs, c, h => by
    simp only [List.takeWhile] at h
    split at h
    · rcases List.mem_cons.mp h with rfl | h
      · assumption
      · exact mem_takeWhile_imp h
    · simp at h

theorem mem_of_mem_dropWhile {p : Char → Bool} : ∀ {l : List Char} {c : Char},
    c ∈ l.dropWhile p → c ∈ l
  | [], _, h => by simp at h
  | x :: xs, c, h => by
    simp only [List.dropWhile] at h
    split at h
    · exact List.mem_cons_of_mem _ (mem_of_mem_dropWhile h)
    · exact h

/-- A line = leading blanks, its stripped form, trailing blanks. -/
theorem line_decomp (l : List Char) : ∃ p q, l = p ++ stripLine l ++ q ∧
    (∀ c ∈ p, isPad c = true) ∧ (∀ c ∈ q, isPad c = true) := by
  refine ⟨l.takeWhile isPad, ((l.dropWhile isPad).reverse.takeWhile isPad).reverse, ?_, ?_, ?_⟩
  · have h1 : l = l.takeWhile isPad ++ l.dropWhile isPad := (List.takeWhile_append_dropWhile).symm
    have h2 : (l.dropWhile isPad).reverse = (l.dropWhile isPad).reverse.takeWhile isPad ++
        (l.dropWhile isPad).reverse.dropWhile isPad := (List.takeWhile_append_dropWhile).symm
    have h3 := congrArg List.reverse h2
    simp only [List.reverse_reverse, List.reverse_append] at h3
    simp only [stripLine, List.append_assoc]
    rw [← h3]; exact h1
  · intro c hc; exact mem_takeWhile_imp hc
  · intro c hc
    rw [List.mem_reverse] at hc
    exact mem_takeWhile_imp hc

theorem stripLine_no_nl {l : List Char} (h : ∀ c ∈ l, c ≠ '\n') : ∀ c ∈ stripLine l, c ≠ '\n' := by
  intro c hc
  apply h
  simp only [stripLine, List.mem_reverse] at hc
  exact mem_of_mem_dropWhile (List.mem_reverse.mp (mem_of_mem_dropWhile hc))

theorem reduce_line (blk : Bool) (l y : List Char) (st : RState) (hst : st ≠ .afterStar)
    (hl : ∀ c ∈ l, c ≠ '\n') :
    reduce blk st (l ++ '\n' :: y) = reduce blk st (stripLine l) ++ reduce blk (lineEnd blk st) y := by
  obtain ⟨p, q, hd, hp, hq⟩ := line_decomp l
  have : l ++ '\n' :: y = p ++ (stripLine l ++ (q ++ '\n' :: y)) := by
    conv => lhs; rw [hd]
    simp
  rw [this, reduce_pad_prefix blk p _ st hst hp, reduce_append, reduce_pads_nl blk q y _ hq,
    lineEnd_after blk _ st (stripLine_no_nl hl)]

theorem reduce_last_line (blk : Bool) (l : List Char) (st : RState) (hst : st ≠ .afterStar) :
    reduce blk st l = reduce blk st (stripLine l) := by
  obtain ⟨p, q, hd, hp, hq⟩ := line_decomp l
  have : l = p ++ (stripLine l ++ q) := by
    conv => lhs; rw [hd]
    simp
  conv => lhs; rw [this]
  rw [reduce_pad_prefix blk p _ st hst hp, reduce_append,
    reduce_ws blk q _ (fun c hc => isPad_isWs (hq c hc))]
  simp


/-- Lines joined by `'\n'` (inverse of `splitNl`). -/
def joinNl : List (List Char) → List Char
  | [] => []
  | [l] => l
  | l :: l2 :: ls => l ++ '\n' :: joinNl (l2 :: ls)

theorem splitNl_ne_nil : ∀ s : List Char, splitNl s ≠ []
  | [] => by simp [splitNl]
  | c :: cs => by
    have := splitNl_ne_nil cs
    unfold splitNl
    split
    · simp
    · split <;> simp

theorem joinNl_splitNl : ∀ s : List Char, joinNl (splitNl s) = s
  | [] => rfl
  | c :: cs => by
    have ih := joinNl_splitNl cs
    have hne := splitNl_ne_nil cs
    unfold splitNl
    split
    · rename_i h; exact absurd h hne
    · rename_i l ls h
      rw [h] at ih
      split
      · rename_i hc
        subst hc
        simp [joinNl, ih]
      · cases ls with
        | nil => simp [joinNl] at ih ⊢; exact ih
        | cons l2 ls => simp [joinNl] at ih ⊢; exact ih

theorem splitNl_no_nl : ∀ (s : List Char), ∀ l ∈ splitNl s, ∀ c ∈ l, c ≠ '\n'
  | [], l, hl, c, hc => by
    simp [splitNl] at hl; subst hl; simp at hc
  | x :: xs, l, hl, c, hc => by
    have ih := splitNl_no_nl xs
    unfold splitNl at hl
    split at hl
    · simp at hl; subst hl
      rename_i h; exact absurd h (splitNl_ne_nil xs)
    · rename_i l0 ls h
      rw [h] at ih
      split at hl
      · rcases List.mem_cons.mp hl with rfl | hl
        · simp at hc
        · exact ih l hl c hc
      · rename_i hx
        rcases List.mem_cons.mp hl with rfl | hl
        · rcases List.mem_cons.mp hc with rfl | hc
          · exact hx
          · exact ih l0 (by simp) c hc
        · exact ih l (by simp [hl]) c hc

/-- `CommentReducer` sees only the stripped lines: two texts whose lines agree up to leading and
trailing blanks yield the same characters (from a state a text can start in). -/
theorem reduce_lines (blk : Bool) : ∀ (ls ls' : List (List Char)) (st : RState),
    st ≠ .afterStar → (∀ l ∈ ls, ∀ c ∈ l, c ≠ '\n') → (∀ l ∈ ls', ∀ c ∈ l, c ≠ '\n') →
    ls.map stripLine = ls'.map stripLine →
    reduce blk st (joinNl ls) = reduce blk st (joinNl ls')
  | [], [], _, _, _, _, _ => rfl
  | [], _ :: _, _, _, _, _, h => by simp at h
  | _ :: _, [], _, _, _, _, h => by simp at h
  | [l], [l'], st, hst, _, _, h => by
    simp only [List.map_cons, List.map_nil, List.cons.injEq, and_true] at h
    simp only [joinNl]
    rw [reduce_last_line blk l st hst, reduce_last_line blk l' st hst, h]
  | [_], _ :: _ :: _, _, _, _, _, h => by simp at h
  | _ :: _ :: _, [_], _, _, _, _, h => by simp at h
  | l :: l2 :: ls, l' :: l2' :: ls', st, hst, h1, h2, h => by
    simp only [List.map_cons, List.cons.injEq] at h
    have hle : lineEnd blk st ≠ .afterStar := by
      cases st <;> simp [lineEnd] <;> split <;> simp
    have ih := reduce_lines blk (l2 :: ls) (l2' :: ls') (lineEnd blk st) hle
      (fun x hx => h1 x (by simp [hx])) (fun x hx => h2 x (by simp [hx]))
      (by simp [h.2.1, h.2.2])
    simp only [joinNl]
    rw [reduce_line blk l _ st hst (h1 l (by simp)), reduce_line blk l' _ st hst (h2 l' (by simp)),
      h.1, ih]

/-- The payload of a comment body depends only on `normComment`-style stripped lines. -/
theorem reduce_strip_invariant (blk : Bool) (a b : List Char)
    (h : (splitNl a).map stripLine = (splitNl b).map stripLine) :
    reduce blk .firstLine a = reduce blk .firstLine b := by
  have := reduce_lines blk (splitNl a) (splitNl b) .firstLine (by simp)
    (splitNl_no_nl a) (splitNl_no_nl b) h
  rwa [joinNl_splitNl, joinNl_splitNl] at this


/-- A line comment's payload: the non-blank characters. -/
theorem reduce_line_comment : ∀ (s : List Char) , reduce false .firstLine s = s.filter (fun c => !isWs c)
  | [] => rfl
  | c :: rest => by
    have ih := reduce_line_comment rest
    by_cases hn : c = '\n'
    · subst hn; simp [reduce, ih, isWs_nl]
    · by_cases hw : isWs c = true <;> simp [reduce, hn, hw, ih]

/-- Without a `*` in the text, a block comment's payload is the non-blank characters too. -/
theorem reduce_no_star (blk : Bool) : ∀ (s : List Char) (st : RState), (∀ c ∈ s, c ≠ '*') →
    reduce blk st s = s.filter (fun c => !isWs c)
  | [], _, _ => by simp [reduce]
  | c :: rest, st, h => by
    have hc : c ≠ '*' := h c (by simp)
    have ih := fun st' => reduce_no_star blk rest st' (fun x hx => h x (by simp [hx]))
    by_cases hw : isWs c = true
    · cases st <;> simp [reduce, hw, ih] <;> split <;> simp [ih]
    · have hn : c ≠ '\n' := fun e => hw (e ▸ isWs_nl)
      cases st <;> simp [reduce, hw, hc, hn, ih]

/-- Dropping a non-blank character changes such a payload (it gets shorter). -/
theorem filter_erase_ne (x y : List Char) (c : Char) (hc : isWs c = false) :
    (x ++ c :: y).filter (fun c => !isWs c) ≠ (x ++ y).filter (fun c => !isWs c) := by
  intro h
  have := congrArg List.length h
  simp [List.filter_append, hc] at this

/-! ## The safety net -/

theorem streamsEq_true : ∀ (a b : List (Option Char)), streamsEq? a b = some true →
    a = b ∧ (sequence a).isSome
  | [], [], _ => ⟨rfl, rfl⟩
  | [], none :: _, h => by simp [streamsEq?] at h
  | [], some _ :: _, h => by simp [streamsEq?] at h
  | none :: _, _, h => by simp [streamsEq?] at h
  | some _ :: _, [], h => by simp [streamsEq?] at h
  | some _ :: _, none :: _, h => by simp [streamsEq?] at h
  | some x :: a, some y :: b, h => by
    simp only [streamsEq?] at h
    split at h
    · rename_i hxy
      obtain ⟨h1, h2⟩ := streamsEq_true a b h
      subst hxy h1
      refine ⟨rfl, ?_⟩
      simp only [sequence]
      cases hs : sequence a <;> simp_all
    · simp at h

theorem streamsEq_refl : ∀ (a : List (Option Char)), (sequence a).isSome → streamsEq? a a = some true
  | [], _ => rfl
  | none :: _, h => by simp [sequence] at h
  | some x :: a, h => by
    have : (sequence a).isSome := by
      simp only [sequence] at h
      cases hs : sequence a <;> simp_all
    simp [streamsEq?, streamsEq_refl a this]


theorem sequence_eq_some : ∀ (a : List (Option Char)) (l : List Char),
    sequence a = some l ↔ a = l.map some
  | [], l => by cases l <;> simp [sequence]
  | none :: a, l => by cases l <;> simp [sequence]
  | some c :: a, l => by
    cases l with
    | nil => simp [sequence]
    | cons x xs =>
      simp only [sequence, Option.map_eq_some_iff, List.map_cons, List.cons.injEq, Option.some.injEq]
      constructor
      · rintro ⟨t, ht, rfl, rfl⟩
        exact ⟨rfl, (sequence_eq_some a t).mp ht⟩
      · rintro ⟨rfl, h⟩
        exact ⟨xs, (sequence_eq_some a xs).mpr h, rfl, rfl⟩

/-- The comparison of the safety net says "unchanged" exactly when both payloads exist and are equal. -/
theorem changed_false_iff (orig new : List Char) :
    changedCommentContent? orig new = some false ↔
      (commentPayload? orig).isSome ∧ commentPayload? orig = commentPayload? new := by
  obtain ⟨a, ha⟩ := Option.isSome_iff_exists.mp (ungrouped_isSome orig)
  obtain ⟨b, hb⟩ := Option.isSome_iff_exists.mp (ungrouped_isSome new)
  simp only [changedCommentContent?, commentPayload?, ha, hb, Option.map_eq_some_iff]
  constructor
  · rintro ⟨r, hr, hnot⟩
    have : r = true := by cases r <;> simp_all
    subst this
    obtain ⟨h1, h2⟩ := streamsEq_true _ _ hr
    exact ⟨h2, by rw [h1]⟩
  · rintro ⟨h1, h2⟩
    obtain ⟨l, hl⟩ := Option.isSome_iff_exists.mp h1
    have e1 := (sequence_eq_some _ _).mp hl
    have e2 := (sequence_eq_some _ _).mp (h2 ▸ hl)
    refine ⟨true, ?_, rfl⟩
    rw [e2, ← e1]
    exact streamsEq_refl _ h1

/-! ## The oracle -/

theorem dropWhile_all {p : Char → Bool} : ∀ (a b : List Char), (∀ c ∈ a, p c = true) →
    (a ++ b).dropWhile p = b.dropWhile p
  | [], _, _ => rfl
  | x :: xs, b, h => by
    simp [h x (by simp), dropWhile_all xs b (fun c hc => h c (by simp [hc]))]

theorem dropWhile_append_of_exists {p : Char → Bool} : ∀ (a b : List Char),
    (∃ c ∈ a, p c = false) → (a ++ b).dropWhile p = a.dropWhile p ++ b
  | [], _, h => by simp at h
  | x :: xs, b, h => by
    cases hx : p x
    · simp [List.dropWhile, hx]
    · have : ∃ c ∈ xs, p c = false := by
        obtain ⟨c, hc, hpc⟩ := h
        rcases List.mem_cons.mp hc with rfl | hc
        · simp [hx] at hpc
        · exact ⟨c, hc, hpc⟩
      simp [List.dropWhile, hx, dropWhile_append_of_exists xs b this]

theorem dropWhile_eq_nil_of_all {p : Char → Bool} : ∀ (a : List Char), (∀ c ∈ a, p c = true) →
    a.dropWhile p = []
  | [], _ => rfl
  | x :: xs, h => by
    simp [List.dropWhile, h x (by simp), dropWhile_eq_nil_of_all xs (fun c hc => h c (by simp [hc]))]

/-- Blanks put in front of a line or after it do not change its stripped form. -/
theorem stripLine_pads (p l q : List Char) (hp : ∀ c ∈ p, isPad c = true)
    (hq : ∀ c ∈ q, isPad c = true) : stripLine (p ++ l ++ q) = stripLine l := by
  simp only [stripLine, List.append_assoc]
  rw [dropWhile_all p _ hp]
  by_cases hall : ∀ c ∈ l, isPad c = true
  · have h1 : (l ++ q).dropWhile isPad = [] :=
      dropWhile_eq_nil_of_all _ (fun c hc => by
        rcases List.mem_append.mp hc with h | h
        · exact hall c h
        · exact hq c h)
    rw [h1, dropWhile_eq_nil_of_all l hall]
  · have hex : ∃ c ∈ l, isPad c = false := by
      apply Classical.byContradiction
      intro hne
      apply hall
      intro c hc
      cases hpc : isPad c
      · exact absurd ⟨c, hc, hpc⟩ hne
      · rfl
    rw [dropWhile_append_of_exists l q hex, List.reverse_append,
      dropWhile_all q.reverse _ (fun c hc => hq c (List.mem_reverse.mp hc))]

theorem splitNl_line : ∀ (l : List Char), (∀ c ∈ l, c ≠ '\n') → splitNl l = [l]
  | [], _ => rfl
  | c :: cs, h => by
    have hc : c ≠ '\n' := h c (by simp)
    simp [splitNl, splitNl_line cs (fun x hx => h x (by simp [hx])), hc]

theorem splitNl_line_append : ∀ (l y : List Char), (∀ c ∈ l, c ≠ '\n') →
    splitNl (l ++ '\n' :: y) = l :: splitNl y
  | [], y, _ => by
    have := splitNl_ne_nil y
    cases hy : splitNl y with
    | nil => exact absurd hy this
    | cons a as => simp [splitNl, hy]
  | c :: cs, y, h => by
    have hc : c ≠ '\n' := h c (by simp)
    simp [splitNl, splitNl_line_append cs y (fun x hx => h x (by simp [hx])), hc]

theorem splitNl_joinNl : ∀ (ls : List (List Char)), ls ≠ [] → (∀ l ∈ ls, ∀ c ∈ l, c ≠ '\n') →
    splitNl (joinNl ls) = ls
  | [], h, _ => absurd rfl h
  | [l], _, h => by simpa [joinNl] using splitNl_line l (h l (by simp))
  | l :: l2 :: ls, _, h => by
    have ih := splitNl_joinNl (l2 :: ls) (by simp) (fun x hx => h x (by simp [hx]))
    simp only [joinNl]
    rw [splitNl_line_append l _ (h l (by simp)), ih]


theorem utf8Len_append : ∀ (a b : List Char), utf8Len (a ++ b) = utf8Len a + utf8Len b
  | [], _ => by simp [utf8Len]
  | c :: cs, b => by simp [utf8Len, utf8Len_append cs b]; omega

theorem utf8Size_pos (c : Char) : 0 < c.utf8Size := by
  have := Char.utf8Size_pos c
  exact this

/-- `&s[..a.len()]` of `a ++ b` is `a`. -/
theorem takeBytes_prefix : ∀ (a b : List Char), takeBytes? (utf8Len a) (a ++ b) = some a
  | [], b => by cases b <;> simp [utf8Len, takeBytes?]
  | c :: cs, b => by
    have hp := utf8Size_pos c
    have ih := takeBytes_prefix cs b
    obtain ⟨n, hn⟩ : ∃ n, utf8Len (c :: cs) = n + 1 := ⟨c.utf8Size + utf8Len cs - 1, by simp [utf8Len]; omega⟩
    rw [hn]
    simp only [List.cons_append, takeBytes?]
    have h1 : c.utf8Size ≤ n + 1 := by simp [utf8Len] at hn; omega
    have h2 : n + 1 - c.utf8Size = utf8Len cs := by simp [utf8Len] at hn; omega
    simp [h1, h2, ih]

/-- A terminated plain block comment `/*body*/`: the header and the closer are removed. -/
theorem removeCommentHeader_block (body : List Char)
    (h1 : startsWith body ['*'] = false) (h2 : startsWith body ['!'] = false) :
    removeCommentHeader? ('/' :: '*' :: (body ++ ['*', '/'])) = some body := by
  have hlen : utf8Len ('/' :: '*' :: (body ++ ['*', '/'])) = utf8Len ('/' :: '*' :: body) + 2 := by
    have : ('/' :: '*' :: (body ++ ['*', '/'])) = ('/' :: '*' :: body) ++ ['*', '/'] := by simp
    rw [this, utf8Len_append]
    have : utf8Len ['*', '/'] = 2 := by decide
    omega
  have htake : takeBytes? (utf8Len ('/' :: '*' :: body)) ('/' :: '*' :: (body ++ ['*', '/']))
      = some ('/' :: '*' :: body) := by
    have := takeBytes_prefix ('/' :: '*' :: body) ['*', '/']
    simpa using this
  have hge : 2 ≤ utf8Len ('/' :: '*' :: body) := by
    simp [utf8Len]
    have : Char.utf8Size '/' = 1 := by decide
    have : Char.utf8Size '*' = 1 := by decide
    omega
  have hs : stripBlock? 2 ('/' :: '*' :: (body ++ ['*', '/'])) = some body := by
    simp only [stripBlock?, hlen]
    have : ¬ (utf8Len ('/' :: '*' :: body) + 2 < 2 + 2) := by omega
    simp [this, htake]
  cases body with
  | nil => decide
  | cons c cs =>
    have hc1 : (c == '*') = false := by simpa [startsWith] using h1
    have hc2 : (c == '!') = false := by simpa [startsWith] using h2
    simp [removeCommentHeader?, startsWith, hc1, hc2] at hs ⊢
    exact hs


/-- Two streams without a panic event can always be compared. -/
theorem streamsEq_total : ∀ (la lb : List Char),
    ∃ r, streamsEq? (la.map some) (lb.map some) = some r
  | [], [] => ⟨true, rfl⟩
  | [], _ :: _ => ⟨false, rfl⟩
  | _ :: _, [] => ⟨false, rfl⟩
  | x :: a, y :: b => by
    simp only [List.map_cons, streamsEq?]
    split
    · exact streamsEq_total a b
    · exact ⟨false, rfl⟩

/-! ## `find_uncommented` and `get_comment_end` stay inside the text -/

/-- total size of the characters of a tagged text -/
def taggedLen (l : List (Kind × Char)) : Nat := utf8Len (l.map (·.2))

theorem findGo_bound (pat : List Char) : ∀ (l : List (Kind × Char)) (needle : List Char) (i r : Nat),
    utf8Len pat ≤ i + utf8Len needle → findGo pat needle i l = some r →
    r + utf8Len pat ≤ i + taggedLen l
  | [], needle, i, r, hinv, h => by
    cases needle with
    | nil =>
      simp only [findGo, Option.some.injEq] at h
      simp [utf8Len] at hinv
      simp [taggedLen, utf8Len]; omega
    | cons c cs => simp [findGo] at h
  | (k, b) :: rest, needle, i, r, hinv, h => by
    cases needle with
    | nil =>
      simp only [findGo, Option.some.injEq] at h
      simp [utf8Len] at hinv
      simp [taggedLen, utf8Len]; omega
    | cons c cs =>
      simp only [findGo] at h
      split at h
      · rename_i hm
        have hbc : b = c := by simp at hm; exact hm.2
        have := findGo_bound pat rest cs (i + b.utf8Size) r (by
          simp [utf8Len] at hinv ⊢; rw [hbc]; omega) h
        simp [taggedLen, utf8Len] at this ⊢; omega
      · have := findGo_bound pat rest pat (i + b.utf8Size) r (by omega) h
        simp [taggedLen, utf8Len] at this ⊢; omega

/-- `find_uncommented` returns the start of an occurrence that lies inside the text. -/
theorem findUncommented_bound (s pat : List Char) (r : Nat) (h : findUncommented s pat = some r) :
    r + utf8Len pat ≤ utf8Len s := by
  have := findGo_bound pat (classes s) pat 0 r (by omega) h
  simpa [taggedLen, classes_map_snd] using this


theorem findChar_lt (p : Char → Bool) : ∀ (s : List Char) (j : Nat), findChar p s = some j →
    j < utf8Len s
  | [], _, h => by simp [findChar] at h
  | c :: cs, j, h => by
    have hp := utf8Size_pos c
    simp only [findChar] at h
    split at h
    · simp at h; subst h; simp [utf8Len]; omega
    · simp only [Option.map_eq_some_iff] at h
      obtain ⟨j', hj', rfl⟩ := h
      have := findChar_lt p cs j' hj'
      simp [utf8Len]; omega

theorem dropBytes_len : ∀ (n : Nat) (s t : List Char), dropBytes? n s = some t →
    utf8Len t + n = utf8Len s
  | 0, s, t, h => by simp [dropBytes?] at h; subst h; rfl
  | _ + 1, [], _, h => by simp [dropBytes?] at h
  | n + 1, c :: cs, t, h => by
    simp only [dropBytes?] at h
    split at h
    · have := dropBytes_len _ cs t h
      simp [utf8Len]; omega
    · simp at h

theorem findCommentEndGo_le : ∀ (l : List (Kind × Char)) (i e : Nat),
    findCommentEndGo i l = some e → e ≤ i + taggedLen l
  | [], _, _, h => by simp [findCommentEndGo] at h
  | (k, c) :: rest, i, e, h => by
    simp only [findCommentEndGo] at h
    split at h
    · simp at h; omega
    · have := findCommentEndGo_le rest _ e h
      simp [taggedLen, utf8Len] at this ⊢; omega

theorem findCommentEnd_le (s : List Char) (e : Nat) (h : findCommentEnd s = some e) :
    e ≤ utf8Len s := by
  simp only [findCommentEnd] at h
  split at h
  · rename_i i hi
    simp at h; subst h
    have := findCommentEndGo_le (classes s) 0 _ hi
    simpa [taggedLen, classes_map_snd] using this
  · split at h
    · simp at h; omega
    · simp at h

/-- `get_comment_end` never points past the end of the gap between two list items, so
`post_snippet[..comment_end]` (the post-comment zone) and the next item's pre-snippet (the rest of
the gap) split the gap: no part of it is skipped. -/
theorem getCommentEnd_le (post sep term : List Char) (isLast : Bool) (n : Nat) (hsep : sep ≠ [])
    (h : getCommentEnd? post sep term isLast = some n) : n ≤ utf8Len post := by
  have hsl : 1 ≤ utf8Len sep := by
    cases sep with
    | nil => exact absurd rfl hsep
    | cons c cs => have := utf8Size_pos c; simp [utf8Len]; omega
  unfold getCommentEnd? at h
  split at h
  · -- is_last
    simp only [Option.some.injEq] at h
    cases hf : findUncommented post term with
    | none => simp [hf] at h; omega
    | some r =>
      have := findUncommented_bound post term r hf
      simp [hf] at h; omega
  · simp only [] at h
    split at h
    · rename_i sepIndex hs
      have hsb := findUncommented_bound post sep sepIndex hs
      have blockEnd_le : ∀ i m, (match dropBytes? i post with
          | some t => (findCommentEnd t).map fun e => Nat.max (e + i) (sepIndex + 1)
          | none => none) = some m → m ≤ utf8Len post := by
        intro i m hm
        split at hm
        · rename_i t ht
          simp only [Option.map_eq_some_iff] at hm
          obtain ⟨e, he, rfl⟩ := hm
          have h1 := findCommentEnd_le t e he
          have h2 := dropBytes_len i post t ht
          simp only [Nat.max_def]
          split <;> omega
        · simp at hm
      split at h
      · split at h
        · simp at h; omega
        · exact blockEnd_le _ _ h
      · rename_i i j hbo hnl
        have hj := findChar_lt _ post j hnl
        split at h
        · exact blockEnd_le _ _ h
        · split at h <;> simp at h <;> omega
      · rename_i j hbo hnl
        have hj := findChar_lt _ post j hnl
        split at h <;> simp at h <;> omega
      · simp at h; omega
    · split at h
      · rename_i j hnl
        have hj := findChar_lt _ post j hnl
        simp at h; omega
      · simp at h; omega


/-! ## A comment with text has a non-empty payload -/

theorem isText_not_ws {c : Char} (h : isText c = true) : isWs c = false ∧ c ≠ '*' ∧ c ≠ '/' ∧ c ≠ '!' := by
  simp [isText] at h
  exact ⟨h.1.1.1, h.1.1.2, h.1.2, h.2⟩

/-- A text character is never skipped by `CommentReducer`, whatever state it is met in. -/
theorem reduce_yields_text (blk : Bool) : ∀ (s : List Char) (st : RState) (c : Char),
    c ∈ s → isText c = true → reduce blk st s ≠ []
  | [], _, _, h, _ => by simp at h
  | x :: rest, st, c, hm, ht => by
    rcases List.mem_cons.mp hm with rfl | hm
    · obtain ⟨hw, hs, _, _⟩ := isText_not_ws ht
      have hn : c ≠ '\n' := fun e => by rw [e, isWs_nl] at hw; exact absurd hw (by decide)
      cases st <;> simp [reduce, hw, hs, hn]
    · have ih := fun st' => reduce_yields_text blk rest st' c hm ht
      cases st <;> simp only [reduce] <;> (repeat' split) <;> first | exact ih _ | simp

theorem stripBlock3 (x : Char) (hx : x.utf8Size = 1) (rest : List Char) :
    stripBlock? 3 ('/' :: '*' :: x :: (rest ++ ['*', '/'])) = some rest := by
  have e : ('/' :: '*' :: x :: (rest ++ ['*', '/'])) = ('/' :: '*' :: x :: rest) ++ ['*', '/'] := by simp
  have hlen : utf8Len ('/' :: '*' :: x :: (rest ++ ['*', '/'])) = utf8Len ('/' :: '*' :: x :: rest) + 2 := by
    rw [e, utf8Len_append]
    have : utf8Len ['*', '/'] = 2 := by decide
    omega
  have htake := takeBytes_prefix ('/' :: '*' :: x :: rest) ['*', '/']
  rw [← e] at htake
  have hge : 3 ≤ utf8Len ('/' :: '*' :: x :: rest) := by
    have h1 : Char.utf8Size '/' = 1 := by decide
    have h2 : Char.utf8Size '*' = 1 := by decide
    simp [utf8Len, h1, h2, hx]; omega
  simp only [stripBlock?, hlen]
  have : ¬ (utf8Len ('/' :: '*' :: x :: rest) + 2 < 3 + 2) := by omega
  simp [this, htake]

theorem stripBlock2 (body : List Char) :
    stripBlock? 2 ('/' :: '*' :: (body ++ ['*', '/'])) = some body := by
  have e : ('/' :: '*' :: (body ++ ['*', '/'])) = ('/' :: '*' :: body) ++ ['*', '/'] := by simp
  have hlen : utf8Len ('/' :: '*' :: (body ++ ['*', '/'])) = utf8Len ('/' :: '*' :: body) + 2 := by
    rw [e, utf8Len_append]
    have : utf8Len ['*', '/'] = 2 := by decide
    omega
  have htake := takeBytes_prefix ('/' :: '*' :: body) ['*', '/']
  rw [← e] at htake
  have hge : 2 ≤ utf8Len ('/' :: '*' :: body) := by
    have h1 : Char.utf8Size '/' = 1 := by decide
    have h2 : Char.utf8Size '*' = 1 := by decide
    simp [utf8Len, h1, h2]; omega
  simp only [stripBlock?, hlen]
  have : ¬ (utf8Len ('/' :: '*' :: body) + 2 < 2 + 2) := by omega
  simp [this, htake]

/-- What `remove_comment_header` leaves of a terminated block comment `/*body*/` keeps every text
character of the body. -/
theorem removeCommentHeader_block_text (body : List Char) :
    ∃ b', removeCommentHeader? ('/' :: '*' :: (body ++ ['*', '/'])) = some b' ∧
      ∀ c ∈ body, isText c = true → c ∈ b' := by
  cases body with
  | nil => exact ⟨[], by decide, by simp⟩
  | cons x rest =>
    by_cases hs : x = '*'
    · subst hs
      cases rest with
      | nil => exact ⟨[], by decide, by intro c hc ht; simp at hc; subst hc; simp [isText] at ht⟩
      | cons y ys =>
        by_cases hy : y = '/'
        · subst hy
          refine ⟨'*' :: '/' :: ys, ?_, fun c hc _ => hc⟩
          have := stripBlock2 ('*' :: '/' :: ys)
          simp [removeCommentHeader?, startsWith] at this ⊢
          exact this
        · refine ⟨y :: ys, ?_, ?_⟩
          · have := stripBlock3 '*' (by decide) (y :: ys)
            simp [removeCommentHeader?, startsWith, hy] at this ⊢
            exact this
          · intro c hc ht
            rcases List.mem_cons.mp hc with rfl | hc
            · simp [isText] at ht
            · exact hc
    · by_cases he : x = '!'
      · subst he
        refine ⟨rest, ?_, ?_⟩
        · have := stripBlock3 '!' (by decide) rest
          simp [removeCommentHeader?, startsWith] at this ⊢
          exact this
        · intro c hc ht
          rcases List.mem_cons.mp hc with rfl | hc
          · simp [isText] at ht
          · exact hc
      · refine ⟨x :: rest, ?_, fun c hc _ => hc⟩
        exact removeCommentHeader_block (x :: rest) (by simp [startsWith, hs]) (by simp [startsWith, he])

theorem removeCommentHeader_line_text (body : List Char) :
    ∃ b', removeCommentHeader? ('/' :: '/' :: body) = some b' ∧
      ∀ c ∈ body, isText c = true → c ∈ b' := by
  cases body with
  | nil => exact ⟨[], by decide, by simp⟩
  | cons x rest =>
    by_cases hs : x = '/'
    · subst hs
      exact ⟨rest, by simp [removeCommentHeader?, startsWith], by
        intro c hc ht
        rcases List.mem_cons.mp hc with rfl | hc
        · simp [isText] at ht
        · exact hc⟩
    · by_cases he : x = '!'
      · subst he
        exact ⟨rest, by simp [removeCommentHeader?, startsWith], by
          intro c hc ht
          rcases List.mem_cons.mp hc with rfl | hc
          · simp [isText] at ht
          · exact hc⟩
      · exact ⟨x :: rest, by simp [removeCommentHeader?, startsWith, hs, he], fun c hc _ => hc⟩


end RF.Lemmas.Comment
