import RF.Model.Proto
import RF.Model.FileLines
/-!
Line-protocol operations for `Range` / `FileLines` (C17).

Encodings
  range     `lo-hi` (decimal, inclusive; `lo > hi` is an empty range)
  ranges    ranges joined by `,`; the empty list is `_`        (the `Vec<Range>` of ONE file)
  bool      `1` / `0`

Model functions (each `<ranges>` is the raw, un-normalised list given for one file; the op first
applies `normalize_ranges` exactly like `FileLines::from_ranges`, in its overflow-checked form —
the response is `panic` when `adjacent_to` would overflow `usize` in a dev build):
  fl.normalize <ranges>                     -> ranges | panic       `normalize_ranges` for one file
  fl.contains_line <ranges> <n>             -> bool | panic         `FileLines::contains_line`
  fl.contains_range <ranges> <lo> <hi>      -> bool | panic         `FileLines::contains_range` / `contains`
  fl.intersects_range <ranges> <lo> <hi>    -> bool | panic         `FileLines::intersects`
  fl.guard <ranges|all|absent> <lo> <hi>    -> bool | panic         `out_of_file_lines_range!` for a span
                                               whose line range is lo..hi; `all` = `FileLines::all()`,
                                               `absent` = the file is not a key of the map
  fl.range.is_empty <range>                 -> bool                 `Range::is_empty`
  fl.range.contains <range> <range>         -> bool                 `Range::contains`
  fl.range.intersects <range> <range>       -> bool                 `Range::intersects`
  fl.range.adjacent <range> <range>         -> bool | panic         `Range::adjacent_to`
  fl.range.merge <range> <range>            -> range | none | panic `Range::merge`
  fl.sort <ranges>                          -> ranges               `ranges.sort()`
  fl.lookup <lo0> <hi0> <nl:0|1>            -> range                `lookup_line_range` from the 0-based
                                               `lookup_line` indices and `starts_with_newline(snippet)`
  fl.starts_with_newline <hex string>       -> bool                 `starts_with_newline`
Oracles (decidable right-hand sides of the theorems, to be evaluated on the implementation's output):
  fl.union_line <ranges> <n>                -> bool   some given range has line n      (normalize_same_lines)
  fl.union_range <ranges> <lo> <hi>         -> bool   every line of lo..hi is in some given range
                                                      (containsRange_iff_partial; vacuously `1` if lo > hi)
  fl.union_meets <ranges> <lo> <hi>         -> bool   some line of lo..hi is in some given range (guard)
  fl.sorted_disjoint <ranges>               -> bool   non-empty, ordered, gaps of at least one line
  fl.no_empty <ranges>                      -> bool   hypothesis of the `_partial` theorems
-/
namespace RF.Driver.FileLines
open RF.Proto RF.FileLines

def decRange (s : String) : Option Range :=
  match s.splitOn "-" with
  | [a, b] => do
    let a ← a.toNat?
    let b ← b.toNat?
    pure ⟨a, b⟩
  | _ => none

def decRanges (s : String) : Option (List Range) :=
  if s == "_" then some [] else (s.splitOn ",").mapM decRange

def encRange (r : Range) : String := s!"{r.lo}-{r.hi}"

def encRanges (rs : List Range) : String :=
  if rs.isEmpty then "_" else String.intercalate "," (rs.map encRange)

def encBool (b : Bool) : String := if b then "1" else "0"

def decBool (s : String) : Option Bool :=
  if s == "1" then some true else if s == "0" then some false else none

def withNorm (rs : String) (k : List Range → String) : Option String := do
  let rs ← decRanges rs
  match normalizeRangesChecked rs with
  | some n => pure (k n)
  | none => pure "panic"

def handle (op : String) (args : List String) : Option String :=
  match op, args with
  | "fl.normalize", [rs] => withNorm rs encRanges
  | "fl.contains_line", [rs, n] => do
    let n ← n.toNat?
    withNorm rs fun l => encBool (containsLine l n)
  | "fl.contains_range", [rs, lo, hi] => do
    let lo ← lo.toNat?
    let hi ← hi.toNat?
    withNorm rs fun l => encBool (containsRange l lo hi)
  | "fl.intersects_range", [rs, lo, hi] => do
    let lo ← lo.toNat?
    let hi ← hi.toNat?
    withNorm rs fun l => encBool (intersectsRange l lo hi)
  | "fl.guard", [rs, lo, hi] => do
    let lo ← lo.toNat?
    let hi ← hi.toNat?
    if rs == "all" then
      pure (encBool (outOfFileLinesRange (FileLines.all : FileLines Unit) some ⟨(), lo, hi⟩))
    else if rs == "absent" then
      pure (encBool (outOfFileLinesRange (FileLines.map ([] : List (Unit × List Range))) some ⟨(), lo, hi⟩))
    else
      withNorm rs fun l => encBool (outOfFileLinesRange (FileLines.map [((), l)]) some ⟨(), lo, hi⟩)
  | "fl.range.is_empty", [a] => do
    let a ← decRange a
    pure (encBool a.isEmpty)
  | "fl.range.contains", [a, b] => do
    let a ← decRange a
    let b ← decRange b
    pure (encBool (a.contains b))
  | "fl.range.intersects", [a, b] => do
    let a ← decRange a
    let b ← decRange b
    pure (encBool (a.intersects b))
  | "fl.range.adjacent", [a, b] => do
    let a ← decRange a
    let b ← decRange b
    match a.adjacentToChecked b with
    | some r => pure (encBool r)
    | none => pure "panic"
  | "fl.range.merge", [a, b] => do
    let a ← decRange a
    let b ← decRange b
    match a.mergeChecked b with
    | some (some r) => pure (encRange r)
    | some none => pure "none"
    | none => pure "panic"
  | "fl.sort", [rs] => do
    let rs ← decRanges rs
    pure (encRanges (sortRanges rs))
  | "fl.lookup", [lo, hi, nl] => do
    let lo ← lo.toNat?
    let hi ← hi.toNat?
    let nl ← decBool nl
    let r : LineRange Unit := lookupLineRange () lo hi nl
    pure (encRange ⟨r.lo, r.hi⟩)
  | "fl.starts_with_newline", [s] => do
    let s ← decChars s
    pure (encBool (startsWithNewline s))
  | "fl.union_line", [rs, n] => do
    let rs ← decRanges rs
    let n ← n.toNat?
    pure (encBool (containsLine rs n))
  | "fl.union_range", [rs, lo, hi] => do
    let rs ← decRanges rs
    let lo ← lo.toNat?
    let hi ← hi.toNat?
    pure (encBool (unionRange rs lo hi))
  | "fl.union_meets", [rs, lo, hi] => do
    let rs ← decRanges rs
    let lo ← lo.toNat?
    let hi ← hi.toNat?
    pure (encBool (unionMeets rs lo hi))
  | "fl.sorted_disjoint", [rs] => do
    let rs ← decRanges rs
    pure (encBool (sortedDisjoint rs))
  | "fl.no_empty", [rs] => do
    let rs ← decRanges rs
    pure (encBool (rs.all fun r => !r.isEmpty))
  | _, _ => none

end RF.Driver.FileLines
