//! C01, generated family: rarely used syntax on rarely taken layout paths.
//!
//! A FIXED, enumerable universe (no randomness in its construction):
//!   shapes x {short, long names} x {plain, inside `macro_rules!` body, inside a macro call} x widths x option sets
//! Every shape is a small complete program built from the grammar corners the fixtures hardly reach:
//! modifier keywords (`const async unsafe extern "C" fn`, `default fn`, `safe fn` in `unsafe extern`
//! blocks, `unsafe impl`, `impl !Trait`, `auto trait`), restricted visibilities, lifetimes / labels /
//! binders in every position, `use<..>` precise capturing, `~const` / `?Sized` / associated-type bounds,
//! attributes on params / fields / variants / arms / generic params / statements / struct-literal fields,
//! let-else, let chains, closures with binders and modifiers, `gen` blocks, raw borrows, patterns with
//! `ref mut` / `@` / ranges / rest, macro definitions and invocations.
//! The long-name variant pushes signatures, where clauses, chains and lists onto their vertical paths
//! at narrow widths.  `VERIF_SEED` only selects which elements a quick run takes; every element was
//! measured on the pinned tree and the dirty ones are enumerated in corpus/c01_dirty.txt.
use crate::c02::Case;
use crate::gen::*;

/// `$A`…`$F` are identifiers (short: one letter; long: 14–22 letters), `$T`/`$U` type names.
pub const SHAPES: &[(&str, &str)] = &[
    // ---------------------------------------------------------------- function qualifiers
    ("fn-quals", "pub(in crate::$A) const unsafe extern \"C\" fn $B<'a, $T: ?Sized + 'a, const N: usize>(#[$C] mut $D: &'a mut $T, $E: [u8; N]) -> &'a mut $T where $T: Clone + 'a, [u8; N]: Sized { $D }\n"),
    ("fn-async-quals", "pub(crate) async unsafe fn $A<'a, 'b: 'a>(&'a mut self, $B: &'b $T) -> Result<&'a $T, Box<dyn std::error::Error + Send + Sync + 'static>> where Self: Sized + 'b { Ok($B) }\nstruct $T;\n"),
    ("fn-const-async", "impl $T { pub const async unsafe extern \"C\" fn $A(self: Pin<&mut Self>, $B: u8) -> u8 { $B } }\n"),
    ("fn-default", "impl<$T: Clone> $A for $T { default unsafe fn $B(&self) -> Self { self.clone() } default const $C: usize = 1; default type $D = $T; pub(crate) default async fn $E(&mut self) {} }\n"),
    ("fn-variadic", "pub unsafe extern \"C\" fn $A($B: *const u8, mut $C: ...) -> ! { loop {} }\nextern \"C\" { pub fn $D($E: *const u8, ...) -> i32; }\n"),
    ("fn-extern-safe", "unsafe extern \"C\" { pub safe fn $A($B: i32) -> i32; pub unsafe fn $C($D: *mut u8); pub safe static $E: u8; pub unsafe static mut $F: u8; type $T; }\n"),
    ("fn-extern-abi", "extern \"system\" fn $A() {}\nextern fn $B() {}\nunsafe extern \"C-unwind\" fn $C() {}\npub(super) extern \"rust-call\" fn $D($E: ()) {}\n"),
    ("fn-impl-trait", "pub fn $A<'a, $T>($B: &'a $T, $C: impl for<'b> Fn(&'b $T) -> &'b $T + Send + 'a) -> impl Iterator<Item = &'a $T> + use<'a, $T> + Send where $T: 'a + Sync { std::iter::once($C($B)) }\n"),
    ("fn-ret-bounds", "fn $A<'a>($B: &'a u8) -> Box<dyn for<'b> FnMut(&'b u8, &'a u8) -> &'b u8 + Send + Sync + 'a> { Box::new(move |$C, _| $C) }\n"),
    ("fn-self-kinds", "trait $T { fn $A(self: Box<Self>); fn $B(self: &Arc<Self>) -> u8 where Self: Sized; fn $C(&'static self); fn $D(mut self) where Self: Sized {} fn $E<'a>(self: &'a mut Self) -> &'a mut Self; }\n"),
    ("fn-attr-params", "fn $A(#[cfg(unix)] $B: u8, #[cfg(not(unix))] #[allow(unused)] mut $C: u16, #[doc = \"d\"] ref $D: u8, #[$E] _: (), #[$F] (mut $T, ref mut $U): (u8, u8)) {}\n"),
    ("fn-generic-attrs", "fn $A<#[$B] 'a, #[$C] #[$D] $T: 'a + ?Sized, #[$E] const N: usize>($F: &'a $T) where #[cfg(unix)] $T: Copy, {}\n"),
    ("fn-where-hrtb", "fn $A<$T, $U>($B: $T, $C: $U) -> $U where for<'a> &'a $T: IntoIterator<Item = &'a $U> + 'a, for<'a, 'b> $U: Fn(&'a u8, &'b u8) -> &'a u8, $T: ?Sized, { $C }\n"),
    ("fn-tilde-const", "const fn $A<$T: ~const $B + ~const Destruct>($C: $T) -> u8 where $T: ~const $D<Output = u8> { $C.$E() }\nimpl<$U> const $B for $F<$U> where $U: ~const $B {}\n"),
    ("fn-assoc-bounds", "fn $A<$T: Iterator<Item: Clone + 'static, IntoIter: Send>, $U: $B<$C = u8, $D: ?Sized>>($E: $T) where $T::Item: Default {}\n"),
    ("fn-const-generics", "fn $A<const $B: usize, const $C: bool = { !true }, $T = [u8; { 1 + 2 }]>($D: [$T; $B]) -> [u8; { $B * 2 }] where [(); { $B - 1 }]: , { todo!() }\n"),
    // ---------------------------------------------------------------- impls, traits
    ("impl-neg", "impl<$T> !Send for $A<$T> {}\nunsafe impl<#[may_dangle] $T: ?Sized> Drop for $A<$T> { fn drop(&mut self) {} }\nimpl<$T> !$B for $C where $T: $D {}\n"),
    ("impl-unsafe", "pub unsafe auto trait $A {}\nunsafe impl<'a, $T: 'a + ?Sized> $A for &'a mut $T where $T: $B<'a> {}\npub(crate) unsafe trait $C<'a>: 'a + $A + ?Sized { }\n"),
    ("trait-items", "pub trait $A<'a, $T: 'a>: $B + for<'b> $C<'b> + ?Sized where Self: 'a { type $D<'x>: $E + 'x where Self: 'x; const $F: &'a str = \"s\"; type $U: ?Sized = dyn $B; fn f<'x>(&'x self) -> Self::$D<'x>; }\n"),
    ("trait-alias", "pub trait $A<'a, $T> = $B<$T> + for<'b> $C<'b> + 'a where $T: 'a;\ntrait $D = ?Sized;\n"),
    ("impl-assoc", "impl<'a, $T: 'a> $A<'a, $T> for $B<$T> where $T: Clone { type $D<'x> = &'x $T where Self: 'x; const $F: &'a str = \"t\"; fn f<'x>(&'x self) -> Self::$D<'x> { &self.0 } }\n"),
    ("impl-vis-items", "impl $A { pub(in crate::$B) const $C: u8 = 0; pub(super) unsafe fn $D() {} pub(self) type $E = u8; pub(crate) async fn $F(&self) {} }\n"),
    // ---------------------------------------------------------------- items
    ("struct-attr-fields", "#[derive(Clone)] pub(crate) struct $A<'a, $T: ?Sized + 'a = dyn $B> where $T: 'a { #[$C] pub(in crate::$D) $E: &'a mut $T, #[cfg(unix)] #[doc(hidden)] pub(super) $F: *const u8, /// doc\n $U: (), }\n"),
    ("struct-tuple", "pub struct $A<'a, $T>(#[$B] pub(in crate::$C) &'a $T, pub(crate) *mut u8, #[cfg(unix)] (), pub $D<'a>) where $T: 'a + Send;\nstruct $E;\nstruct $F {}\n"),
    ("enum-variants", "#[repr(u8)] pub enum $A<'a, $T> where $T: 'a { #[$B] $C = 1, #[cfg(unix)] $D(#[$B] pub &'a $T, u8) = 2, $E { #[$B] pub(crate) $F: &'a mut $T, } = 3, #[non_exhaustive] $U {}, }\n"),
    ("union", "#[repr(C)] pub(crate) union $A<'a, $T: Copy + 'a> where $T: Sized { pub $B: $T, #[$C] pub(super) $D: &'a u8, $E: ManuallyDrop<$F>, }\n"),
    ("statics", "pub(crate) static mut $A: [&'static str; 2] = [\"a\", \"b\"];\npub(in crate::$B) const $C: fn(u8) -> u8 = |$D| $D;\nconst _: () = ();\nstatic $E: &'static (dyn Fn() + Sync) = &|| ();\npub const unsafe fn $F() {}\n"),
    ("type-alias", "pub(crate) type $A<'a, $T: 'a + ?Sized, const N: usize = 2> where $T: Clone = &'a [$T; N];\ntype $B = unsafe extern \"C\" fn(*const u8, ...) -> !;\ntype $C = impl $D + 'static;\ntype $E<'a> = dyn for<'b> $F<'b, Output = &'a u8> + Send + 'a;\n"),
    ("mods-uses", "#[macro_use] #[cfg(unix)] pub(crate) extern crate $A as $B;\npub(in crate::$C) use self::$D::{self as $E, $F as _, *};\npub(self) mod $T;\nunsafe mod $U {}\npub(super) mod $C { #![allow(unused)] }\n"),
    ("macro-def", "macro_rules! $A { ($($B:ident),* $(,)?) => { $(pub(crate) unsafe fn $B<'a>(mut x: &'a mut u8) -> &'a mut u8 { x })* }; (@$C $D:tt) => {{ let ref mut y = $D; 'l: loop { break 'l y; } }}; }\n"),
    ("macro-2", "pub(crate) macro $A($B:ident, $($C:tt)*) { pub unsafe fn $B<'a>(x: &'a mut u8) -> &'a mut u8 { $($C)* } }\n"),
    // ---------------------------------------------------------------- statements and expressions
    ("let-else", "fn $A() { let Some(ref mut $B) = $C else { return; }; let (Ok(mut $D) | Err(mut $D)) = $E(&mut *$B, 'x') else { panic!(\"{}\", 1) }; let $F: &'static mut [u8] = &mut [] else { loop {} }; }\n"),
    ("let-chains", "fn $A() { if let Some(ref mut $B) = $C && let Ok(mut $D) = $E(&$B) && $D > 1 && let [$F, ..] = *$D { $F } else if let Some($B) | None = $C && true {} while let Some($D) = $E.next() && !$D.is_empty() {} }\n"),
    ("labels", "fn $A() { '$B: loop { '$C: while let Some(mut $D) = $E.pop() { if $D { continue '$B; } else { break '$C; } } let $F = '$D: { if true { break '$D 1; } 2 }; '$E: for &mut ref mut x in y { break '$E; } break '$B $F; } }\n"),
    ("closures", "fn $A() { let $B = for<'a, 'b> |$C: &'a u8, mut $D: &'b mut u8| -> &'a u8 { *$D = 1; $C }; let $E = async move |ref mut $C, &(mut $D, _), #[$F] $T: u8| -> u8 { $T }; let $U = static move || { yield 1; }; let z = move |mut $C| $C; let w = for<'a> move |$D: &'a u8| -> &'a u8 { $D }; let v = for<'a> async move |$D: &'a u8| -> &'a u8 { $D }; }\n"),
    ("closure-chain", "fn $A() { $B.iter_mut().filter(|&&mut ref $C| $C.$D()).map(async move |mut $C: &mut u8| -> u8 { *$C += 1; *$C }).for_each(move |ref mut $E| drop::<&mut u8>($E)); }\n"),
    ("gen-blocks", "fn $A() { let $B = gen { yield 1; }; let $C = async gen move { yield $B; }; let $D = gen move { yield &mut $C; }; let $E = unsafe { &mut *$D }; let $F = const { 1 + 1 }; let g = async move { $E.await? }; }\n"),
    ("raw-borrows", "fn $A() { let $B = &raw const $C.$D; let $E = &raw mut (*$F).0; let a = &mut *$B; let b = &&mut **$E; let c = *&raw const $C; let d = -*$B as *const u8 as usize; let e = !$C? == &mut $D; }\n"),
    ("match-arms", "fn $A() { match $B { #[$C] ref mut $D @ Some(_) if let Some(mut $E) = $D.take() => $E, #[cfg(unix)] | &mut (ref $D, mut $E) | &mut (mut $E, ref $D) => { $E }, box_ @ 0..=9 | box_ @ (10.. | ..=-1) => box_, [ref $D, rest @ .., mut $E] => rest, $F { x: ref mut y, ref z, mut w, .. } => (), -1 | 1 => {} _ => unreachable!(), } }\n"),
    ("struct-lit", "fn $A() { let $B = $C::<'static, u8> { #[$D] $E: &mut *$F, #[cfg(unix)] $D, x: 'c', ..unsafe { $T::<u8>::default() } }; let $C { ref mut $E, $D: ref $F, .. } = $B; let $U(mut a, ref b, ..) = c; }\n"),
    ("stmt-attrs", "fn $A() { #[$B] let mut $C = 1; #[cfg(unix)] #[$D] { $C += 1; } #[$E] unsafe { $F() }; #[$B] $C.$D(); #[$E] if $C {} let x = #[$B] [1, #[$D] 2]; let y = (#[$E] 1,); #[$B] return; }\n"),
    ("casts-ranges", "fn $A() { let $B = $C as *const $T as *mut $U<'static> as usize..=$D as usize; let $E = ..=$F; let a = &mut $B[..]; let b = <$T as $U<'_>>::$D::<{ 1 }>(); let c = <&mut [u8]>::$E(&mut *a, ..); let d = (1,); let e = ((),); let f = (($D,),); }\n"),
    ("jumps", "fn $A() -> u8 { loop { if $B { break; } if $C { continue; } if $D { return 1; } if $E { break 2 } if $F { return 3 } match x { _ => return 4, } } }\nfn g() { return; }\nfn h() { return }\n"),
    ("loop-semis", "fn $A() { loop {}; $B(); while $C {}; '$D: for $E in $F {}; $B(); '$E: loop { break '$E; }; if $C {}; match $C {}; unsafe {}; let x = loop { break 1; }; $B(); loop {}; }\nfn g() { while let Some($D) = $E.pop() {}; }\n"),
    ("amp-pipes", "fn $A() { let $B = $C & &$D; let $E = $C && $D; let $F = $C | |$B| $B; let a = & &$D; let b = &&$D; let c = $C || $D; let d = $C as &&$T; let e = || $C; let f = $C & & mut $D | |x: &&u8| **x; if $C && &$D == &&$E || $F {} }\n"),
    ("tuples-units", "fn $A($B: (u8,), $C: ((),), $D: (($T,), u8)) -> (u8,) { let ($E,) = $B; let (($F,),): (($T,),) = (($D.0.0,),); $U(($E,)); $U(()); $U((1, 2)); ((($E))); ($E,) }\n"),
    ("types-misc", "fn $A($B: &'static mut dyn for<'a> Fn(&'a u8) -> &'a u8, $C: *const [u8; 2], $D: *mut dyn $T, $E: for<'a, 'b> unsafe extern \"C\" fn(&'a u8, &'b mut u8) -> &'a u8, $F: impl ?Sized + for<'a> $U<'a>, g: [(); 0], h: !, i: <$T as $U<'static>>::X, j: &'_ mut (dyn $T + '_)) {}\n"),
    ("dyn-star", "fn $A($B: dyn* $T + Send, $C: &dyn* $U<'static>) -> dyn* $T { $B as dyn* $T }\n"),
    ("unsafe-binder", "fn $A($B: unsafe<'a> &'a u8, $C: unsafe<'a, 'b> fn(&'a u8, &'b u8) -> &'a u8) {}\n"),
    ("become-yeet", "fn $A($B: u8) -> u8 { if $B == 0 { become $C($B - 1); } do yeet $D; }\n"),
    ("builtin-syntax", "fn $A() { let $B = builtin # offset_of($T, $C); let $D: $T = pattern_type!(u32 is 1..); }\n"),
    ("macro-calls", "fn $A() { $B!(pub(crate) unsafe fn $C<'a>(mut x: &'a mut u8) {}); $D![$E, 'a', \"s\"; 3]; $F! { 'l: loop { break 'l; } } let x = $T!($U, |mut a: &'static mut u8| -> u8 { *a }, move || 1,); vec!(1, 2); vec!{3}; }\n"),
    ("macro-calls-items", "$A! { pub(crate) unsafe fn $B<'a>(mut x: &'a mut u8) {} }\n$C!(pub(in crate::$D) struct $E<'a>(&'a mut u8););\nimpl $F { $T!(unsafe fn $U(&mut self)); }\n"),
    ("macro-calls-exprs", "fn $A() { let $B = $C!(&mut *$D, ref_mut = &raw const $E, 'x', move |mut $F: &'static mut u8| -> u8 { *$F }); $T!(unsafe { $U(&mut $B) }, async move { $B.await? }); $C!($D => $E, $F); let y = r#try!($D.$E()); }\n"),
];

/// shapes built as products of modifiers (every subset, in the one order the grammar allows)
pub fn product_shapes() -> Vec<(String, String)> {
    let mut v: Vec<(String, String)> = vec![];
    // function qualifiers: default? const? async? unsafe? extern "C"?   (32 subsets, four per shape)
    let quals = ["default", "const", "async", "unsafe", "extern \"C\""];
    let mut fns: Vec<String> = vec![];
    for m in 0..32u32 {
        let q: Vec<&str> = quals.iter().enumerate().filter(|(i, _)| m & (1 << i) != 0).map(|(_, q)| *q).collect();
        let vis = ["", "pub ", "pub(crate) ", "pub(in crate::$A) "][(m % 4) as usize];
        fns.push(format!("{}{}{}fn $B{}<'a, $T: ?Sized + 'a>(&'a mut self, mut $C: &'a mut $T, $D: u8) -> &'a mut $T where $T: Clone + 'a {{ $C }}", vis, q.join(" "), if q.is_empty() { "" } else { " " }, m));
    }
    for (k, chunk) in fns.chunks(4).enumerate() {
        v.push((format!("fnq{}", k), format!("impl $U {{ {} }}\n", chunk.join(" "))));
    }
    // closure modifiers: for<'a>? const? static? async? move?   (the parser of the pinned toolchain decides which it takes)
    let cq = ["for<'a>", "const", "static", "async", "move"];
    let mut cls: Vec<String> = vec![];
    for m in 0..32u32 {
        let q: Vec<&str> = cq.iter().enumerate().filter(|(i, _)| m & (1 << i) != 0).map(|(_, q)| *q).collect();
        // one closure per function so that a combination the parser refuses costs only its own shape
        cls.push(format!("fn $A{}() {{ let $B = {}{}|mut $C: &u8, ref mut $D, &(ref $E, _)| -> u8 {{ *$C }}; }}\n", m, q.join(" "), if q.is_empty() { "" } else { " " }));
    }
    for (m, c) in cls.iter().enumerate() {
        if m & 2 != 0 && m & 8 != 0 {
            continue; // `const async` closures: refused by the parser of the pinned toolchain
        }
        v.push((format!("clq{}", m), c.clone()));
    }
    // visibilities x item kinds
    let viss = [("pub", "pub"), ("crate", "pub(crate)"), ("super", "pub(super)"), ("self", "pub(self)"), ("in-path", "pub(in crate::$A::$B)"), ("in-super", "pub(in super::super)"), ("in-self", "pub(in self)")];
    for (n, vis) in viss {
        v.push((format!("vis-{}", n), format!("{v} fn $C() {{}}\n{v} unsafe fn $D() {{}}\n{v} struct $T {{ {v} $E: u8, $F: u8 }}\n{v} struct $U({v} u8, u8);\n{v} enum E1 {{ A }}\n{v} union U1 {{ {v} a: u8 }}\n{v} trait T1 {{}}\n{v} unsafe trait T2 {{}}\n{v} type A1 = u8;\n{v} const C1: u8 = 0;\n{v} static S1: u8 = 0;\n{v} static mut S2: u8 = 0;\n{v} mod m1 {{}}\n{v} mod m2;\n{v} use a1::b1;\n{v} extern crate c1;\n{v} macro mac1() {{}}\nimpl $T {{ {v} fn f(&self) {{}} {v} const C: u8 = 0; {v} type X = u8; {v} unsafe fn g() {{}} }}\n", v = vis)));
    }
    // binding modes x positions
    let binds = ["x", "ref x", "mut x", "ref mut x", "x @ _", "ref x @ _", "mut x @ 1..=2", "ref mut x @ Some(_)", "&x", "&mut x", "&mut ref mut x", "box x"];
    for (k, b) in binds.iter().enumerate() {
        v.push((format!("bind{}", k), format!("fn $A({b}: $T, ({b}, _): ($T, u8)) {{ let {b} = $B; let ({b}, $C) = $D else {{ return; }}; if let Some({b}) = $E {{}} while let [{b}, ..] = $F {{}} for {b} in $B {{}} match $C {{ {b} => {{}} Some({b}) | Ok({b}) if true => {{}} $T {{ f: {b}, .. }} => {{}} }} let c = |{b}, ({b}, _): ($T, u8)| (); }}\n", b = b)));
    }
    // impl / trait headers
    let heads = ["impl", "unsafe impl", "default impl", "default unsafe impl", "impl const", "unsafe impl const"];
    for (k, h) in heads.iter().enumerate() {
        let (kw, c) = if h.ends_with("const") { (h.trim_end_matches(" const"), "const ") } else { (*h, "") };
        v.push((format!("implh{}", k), format!("{kw}<'a, $T: ?Sized + 'a, const N: usize> {c}$A<'a, $T> for $B<'a, $T, N> where $T: $C<'a> + 'a {{}}\n{kw}<$T> {c}!$D for $E<$T> {{}}\n{kw}<$T> {c}$F<$T> {{}}\n", kw = kw, c = c)));
    }
    let theads = ["trait", "unsafe trait", "auto trait", "unsafe auto trait", "pub(crate) unsafe auto trait", "pub(in crate::$F) unsafe trait"];
    for (k, h) in theads.iter().enumerate() {
        v.push((format!("traith{}", k), format!("{h} $A<'a, $T: 'a>: $B<'a> + ?Sized + 'a where Self: 'a, $T: $C {{}}\n{h} $D {{}}\n", h = h)));
    }
    v
}

fn names(long: bool) -> Vec<(&'static str, &'static str)> {
    if long {
        vec![
            ("$A", "alpha_alpha_alpha_al"),
            ("$B", "bravo_bravo_bravo"),
            ("$C", "charlie_charlie_cha"),
            ("$D", "delta_delta_delta_delt"),
            ("$E", "echo_echo_echo_ec"),
            ("$F", "foxtrot_foxtrot_fo"),
            ("$T", "TangoTangoTangoTan"),
            ("$U", "UniformUniformUni"),
        ]
    } else {
        vec![("$A", "a"), ("$B", "b"), ("$C", "c"), ("$D", "d"), ("$E", "e"), ("$F", "f"), ("$T", "T"), ("$U", "U")]
    }
}

pub fn instantiate(src: &str, long: bool) -> String {
    let mut s = src.to_string();
    for (k, v) in names(long) {
        s = s.replace(k, v);
    }
    s
}

pub const GEN_WIDTHS: &[usize] = &[20, 24, 30, 37, 45, 52, 60, 72, 100];

/// option sets of the generated family (single options that move items / signatures / where clauses /
/// lists / arms onto other layout paths)
pub fn gen_options() -> Vec<Vec<(String, String)>> {
    let s = |k: &str, v: &str| vec![(k.to_string(), v.to_string())];
    let mut v = vec![
        vec![],
        s("brace_style", "AlwaysNextLine"),
        s("brace_style", "PreferSameLine"),
        s("where_single_line", "true"),
        s("fn_params_layout", "Vertical"),
        s("fn_params_layout", "Compressed"),
        s("indent_style", "Visual"),
        s("trailing_comma", "Never"),
        s("trailing_comma", "Always"),
        s("control_brace_style", "AlwaysNextLine"),
        s("use_small_heuristics", "Max"),
        s("use_small_heuristics", "Off"),
        s("fn_single_line", "true"),
        s("empty_item_single_line", "false"),
        s("struct_lit_single_line", "false"),
        s("match_arm_leading_pipes", "Always"),
        s("match_block_trailing_comma", "true"),
        s("force_multiline_blocks", "true"),
        s("overflow_delimited_expr", "true"),
        s("type_punctuation_density", "Compressed"),
        s("space_before_colon", "true"),
        s("hard_tabs", "true"),
        s("tab_spaces", "2"),
        s("inline_attribute_width", "50"),
        s("style_edition", "2015"),
        s("style_edition", "2021"),
        s("format_macro_matchers", "true"),
        s("trailing_semicolon", "false"),
    ];
    v.push(vec![("brace_style".to_string(), "AlwaysNextLine".to_string()), ("where_single_line".to_string(), "true".to_string())]);
    v.push(vec![("indent_style".to_string(), "Visual".to_string()), ("fn_params_layout".to_string(), "Vertical".to_string())]);
    v.retain(|o| o.iter().all(|(k, val)| rustfmt_nightly::Config::is_valid_key_val(k, val)));
    v
}

/// the three contexts a shape is placed in
pub fn contexts(body: &str) -> Vec<(&'static str, String)> {
    vec![
        ("plain", body.to_string()),
        ("in-macro-def", format!("macro_rules! wrap {{\n    () => {{\n{}    }};\n}}\n", body)),
        ("in-mod-impl", format!("mod outer {{ mod inner {{ impl Wrap {{ fn wrap() {{ mod deep {{\n{}}} }} }} }} }}\n", body)),
    ]
}

/// The whole generated universe, in a fixed order.  id = `gen:<shape>:<short|long>:<context>|w<width>|<options or base>`
pub fn universe() -> Vec<Case> {
    let opts = gen_options();
    let mut v = vec![];
    let all_shapes: Vec<(String, String)> = SHAPES.iter().map(|(n, s)| (n.to_string(), s.to_string())).chain(product_shapes()).collect();
    for (name, src) in &all_shapes {
        for long in [false, true] {
            let body = instantiate(src, long);
            for (cname, text) in contexts(&body) {
                for w in GEN_WIDTHS {
                    for o in &opts {
                        let mut cfg: Vec<(String, String)> = vec![("edition".into(), "2024".into()), ("style_edition".into(), "2024".into()), ("max_width".into(), w.to_string())];
                        cfg = merge_cfg(&cfg, o);
                        let oname = if o.is_empty() { "base".to_string() } else { cfg_text(o) };
                        v.push(Case { id: format!("gen:{}:{}:{}|w{}|{}", name, if long { "long" } else { "short" }, cname, w, oname), src: text.clone(), cfg });
                    }
                }
            }
        }
    }
    v
}

// ================================================================================================
// The "fit" family: token-carrying pieces that a rewriter may fail to fit and a caller may then take
// for absent (`None` = "does not fit" read as `None` = "there is none").  Small programs, one piece
// each, with short / medium / long names, taken at EVERY max_width 20..=60 (plus a few wider ones):
// whether a piece fits depends on the exact column, so no width is skipped here.
// ================================================================================================

/// Higher-ranked binders in every position.  `$B` the binder `for<..>`, `$Q` its parameter list alone,
/// `$L` its first lifetime (without the quote).
pub const BINDER_SHAPES: &[(&str, &str)] = &[
    ("hr-alias-fn", "pub type Handler = $B fn(&'$L Conn, &'$L Req) -> bool;\n"),
    ("hr-alias-fn-short", "pub type Probe = $B fn(u8);\n"),
    ("hr-alias-fn-quals", "type U = $B unsafe extern \"C\" fn(&'$L u8) -> &'$L u8;\n"),
    ("hr-field", "pub struct Server { pub on_request: Box<dyn $B Fn(&'$L Conn) -> bool>, pub probe: $B fn(u8), t: (u8, $B fn(&'$L u8)) }\n"),
    ("hr-where", "pub fn register<F>(f: F) where F: $B Fn(&'$L Conn) -> bool, $B F: Send, $B &'$L F: Sync {}\n"),
    ("hr-params", "pub fn takes(f: &dyn $B Fn(u8), g: impl $B Fn(u8), h: $B fn(&'$L u8)) -> impl $B Fn(&'$L u8) { h }\n"),
    ("hr-bounds", "fn f<F: $B Fn(&'$L u8) + ?Sized, G: Send + $B Tr<'$L>>() {}\ntrait Q: $B Tr<'$L> { type X: $B Tr<'$L>; }\n"),
    ("hr-impl", "impl<T> Tr for T where $B T: Fn(&'$L u8), T: $B Tr<'$L> {}\nimpl<T: $B Tr<'$L>> S<T> {}\n"),
    ("hr-dyn", "type A = dyn $B Tr<'$L> + Send;\ntype C = Box<dyn $B FnMut(&'$L mut u8) + '_>;\ntype D = &'static (dyn $B Fn(&'$L u8) + Sync);\nstatic X: &dyn $B Fn(&'$L u8) = &|_| ();\n"),
    ("hr-impl-trait", "type E = impl $B Tr<'$L>;\nfn r() -> impl $B Fn(&'$L u8) -> &'$L u8 { |x| x }\nfn a(x: impl $B Tr<'$L> + Send) {}\n"),
    ("hr-closure", "fn c() { let k = $B |x: &'$L u8| -> &'$L u8 { x }; let m = $B move |x: &'$L u8| -> u8 { *x }; call($B |x: &'$L u8| -> u8 { *x }); }\n"),
    ("hr-unsafe-binder", "fn u(x: unsafe<$Q> &'$L u8, y: unsafe<$Q> fn(&'$L u8)) {}\ntype V = unsafe<$Q> &'$L u8;\n"),
    ("hr-nested", "type N = $B fn($B fn(&'$L u8)) -> Box<dyn $B Fn(&'$L u8)>;\nfn n<F>() where F: $B Fn($B fn(&'$L u8)) {}\n"),
    ("hr-trait-items", "trait T { fn m<F: $B Fn(&'$L u8)>(&self, f: F) where $B F: Send; const C: $B fn(&'$L u8); type Y: $B Tr<'$L>; }\nimpl T for S { const C: $B fn(&'$L u8) = f; }\n"),
    ("hr-expr-types", "fn e() { let a: $B fn(&'$L u8) = f; let b = x as $B fn(&'$L u8); let c = g::<$B fn(&'$L u8)>(); let d: &dyn $B Fn(&'$L u8) = &f; }\n"),
];

/// the lifetime lists of the binder variants: 1, 2, 3 lifetimes with names of 1, 4..6 and 10..13 characters
pub fn binder_variants() -> Vec<(&'static str, Vec<&'static str>)> {
    vec![
        ("1s", vec!["a"]),
        ("1m", vec!["conn"]),
        ("1l", vec!["connection_lt"]),
        ("2s", vec!["a", "b"]),
        ("2m", vec!["conn", "reqst"]),
        ("2l", vec!["connection", "request"]),
        ("3s", vec!["a", "b", "c"]),
        ("3m", vec!["conn", "reqst", "respon"]),
        ("3l", vec!["connection", "request", "response_lt"]),
    ]
}

/// One piece each.  `$L` a lifetime name (without the quote), `$I $J $K` identifiers, `$T $U $V` type / trait
/// names, `$P` a path segment, `$S` an ABI string body.
pub const PIECE_SHAPES: &[(&str, &str)] = &[
    ("pc-generics-fn", "fn f<'$L, $T: $U + '$L, const $K: usize>(x: &'$L $T) {}\n"),
    ("pc-generics-items", "struct A<'$L, $T: '$L>(&'$L $T);\nenum E<'$L, $T> { B(&'$L $T) }\ntrait Q<'$L, $T> {}\ntype Y<'$L, $T> = &'$L $T;\nunion N<'$L, $T: Copy> { a: &'$L $T }\n"),
    ("pc-generics-impl", "impl<'$L, $T: $U> $V<'$L> for $T {}\nimpl<'$L, const $K: usize> A<'$L, $K> {}\n"),
    ("pc-generics-defaults", "struct D<$T = $U, const $K: usize = 3>($T);\nfn g<$T: ?Sized>() {}\ntrait R<$T: $U = $V> {}\n"),
    ("pc-where-fn", "fn f<$T>() where $T: $U + Send, $T::Item: '$L, {}\n"),
    ("pc-where-items", "impl<$T> A<$T> where $T: $U {}\nstruct B<$T> where $T: $U;\nstruct C<$T> where $T: $U { x: $T }\ntrait Q where Self: $U {}\ntype Y<$T> where $T: $U = $T;\nenum E<$T> where $T: $U { V($T) }\n"),
    ("pc-where-lifetimes", "fn f<'$L, 'b>() where '$L: 'b, 'b: '$L + 'static, &'$L u8: $U {}\n"),
    ("pc-attr-items", "#[$I($J = \"v\")] fn f() {}\n#[$I] #[$J($K)] struct S;\n#[$I::$J] mod m {}\n#[cfg_attr($I, $J)] use a::b;\n"),
    ("pc-attr-inner", "struct S { #[$I($J)] f: u8, #[$K] g: u8 }\nenum E { #[$I] A, #[$J($K)] B(#[$I] u8) }\nfn f(#[$I] x: u8, #[$J($K)] y: u8) {}\n"),
    ("pc-attr-exprs", "fn f() { #[$I] let x = 1; #[$J($K)] g(); match x { #[$I] 1 => {} #[$J($K)] _ => {} } let s = S { #[$I] a: 1 }; let t = (#[$J] 1, 2); }\n"),
    ("pc-attr-generics", "fn f<#[$I] 'a, #[$J($K)] $T, #[$I] const N: usize>() {}\nimpl<#[$I] $T> S<$T> {}\n"),
    ("pc-abi", "extern \"$S\" fn f() {}\nunsafe extern \"$S\" { fn g(); }\ntype F = extern \"$S\" fn();\ntype G = unsafe extern \"$S\" fn(u8) -> u8;\nimpl A { pub extern \"$S\" fn h(&self) {} }\nextern \"$S\" {}\n"),
    ("pc-labels", "fn f() { '$L: loop { break '$L; } '$L: while x { continue '$L; } '$L: for i in y { break '$L; } let v = '$L: { break '$L 1 }; '$L: while let Some(z) = w {} }\n"),
    ("pc-dyn-impl", "fn f(x: &dyn $U, y: impl $U + '$L, z: Box<dyn $U + Send + '$L>) -> impl $U + '$L {}\ntype A = dyn $U;\ntype B = Box<dyn $U<$T> + '$L>;\nfn g(x: &mut dyn $U, y: *const dyn $U, z: &(dyn $U + Send)) {}\n"),
    ("pc-quals", "const fn $I() {}\nasync fn $J() {}\nunsafe fn $K() {}\nconst async unsafe extern \"C\" fn $I() {}\npub const unsafe fn $J() {}\npub(crate) async unsafe fn $K() {}\nimpl A { default fn $I() {} pub default const unsafe fn $J() {} default async fn $K() {} }\n"),
    ("pc-quals-items", "unsafe impl $U for A {}\nunsafe trait $U {}\nauto trait $V {}\npub unsafe auto trait $U {}\nimpl !$U for A {}\nimpl const $U for A {}\nunsafe mod $I {}\nunsafe extern \"C\" { safe fn $J(); unsafe fn $K(); safe static $I: u8; }\nstatic mut $J: u8 = 0;\n"),
    ("pc-vis", "pub(in $P::$P::$P) fn f() {}\npub(in $P::$P) struct S { pub(in $P::$P) a: u8 }\npub(in $P::$P::$P) struct Z(pub(in $P::$P) u8);\npub(in $P) const C: u8 = 0;\npub(in $P::$P) static D: u8 = 0;\npub(in $P::$P) type Y = u8;\npub(in $P::$P) mod m {}\npub(in $P::$P) use a::b;\npub(in $P) trait Q {}\npub(in $P::$P) enum E {}\nimpl S { pub(in $P::$P) fn g(&self) {} pub(in $P) const K: u8 = 0; }\n"),
    ("pc-refs", "fn f<'$L>(x: &'$L mut $T, y: &'$L $T, z: &'$L mut [&'$L $T]) -> &'$L mut $T { x }\nstruct S<'$L> { a: &'$L mut $T, b: Cow<'$L, $T>, c: *mut $T, d: *const $T }\nimpl<'$L> S<'$L> { fn m(&'$L self, w: &'$L mut self::$T) -> &'$L $T { w } fn n(self: &'$L mut Self) {} }\n"),
    ("pc-use-capture", "fn f<'$L, $T>(x: &'$L $T) -> impl Sized + use<'$L, $T> { x }\nfn g<'$L>() -> impl use<'$L> + Sized {}\n"),
    ("pc-patterns", "fn f() { let ref mut $I = x; let &mut ref mut $J = y; let $K @ Some(_) = z; let S { ref mut $I, $J: ref $K, .. } = s; let (mut $I, ref $J) = t; let [ref mut $K, ..] = u; if let Some(ref mut $I) = v {} match w { ref mut $J @ 1..=2 => {} &mut ref $K => {} } }\n"),
    ("pc-params", "fn f(mut $I: $T, ref $J: $T, &mut $K: &mut $T, (mut a, ref mut b): ($T, $T)) {}\nfn g() { let c = |mut $I: $T, ref mut $J, &$K| (); }\n"),
    ("pc-casts", "fn f() { let a = $I as *const $T as *mut $T; let b = &mut *$J as *mut $T as usize; let c = <$T as $U>::$K; let d = <&mut $T>::$I(); }\n"),
    ("pc-let-else", "fn f() { let Some(mut $I) = $J else { return }; let Ok(ref $K) = $J else { panic!() }; }\n"),
    ("pc-closure-quals", "fn f() { let c = async move |mut $I: &mut $T| -> $T { $I }; let d = move |$J| $J; let e = static move || { yield $K; }; let g = async || $I; let h = async move { $J }; let i = unsafe { $K }; let j = const { $I }; }\n"),
    ("pc-assoc", "trait Q { type $T<'$L>: $U + '$L where Self: '$L; const $K: &'$L str; fn $I<'$L>(&'$L self) -> Self::$T<'$L>; }\nimpl Q for A { type $T<'$L> = &'$L u8 where Self: '$L; }\n"),
    ("pc-macros", "macro_rules! $I { ($J:ident, $K:ty) => { unsafe fn $J() -> $K {} }; }\n$I!($J, mut $K);\nfn f() { $I!(ref mut $J, &mut $K); $J![mut $K; 2]; let x = $K!(unsafe { $I }); }\n"),
    ("pc-uses", "extern crate $I as $J;\nuse $P::$I as $J;\nuse $P::{self as $K, $I as _};\npub use self::$P::*;\nuse ::$P::$I;\nuse super::super::$J;\nuse crate::$P::{$I, $J::{self, $K}};\n"),
    ("pc-statics", "pub static mut $I: &'static $T = &$J;\npub const $K: &'static [&'static $T] = &[];\nstatic $J: $T = $T { $I: 1 };\nconst _: $T = $K;\n"),
    ("pc-fn-ptr", "type F = unsafe extern \"C\" fn(*const $T, ...) -> !;\ntype G = fn(&mut $T, $U) -> &mut $T;\ntype H = extern fn($I: $T, _: $U);\nfn f(g: fn($T) -> $U, h: unsafe fn(*mut $T)) {}\n"),
    ("pc-struct-lit", "fn f() { let s = $T { $I, $J: 1, ..$K }; let $T { ref mut $I, .. } = u; let v = $T::<$U> { $I: $J }; let w = $T { $I: $T { $J: $K } }; }\n"),
    ("pc-ranges", "fn f() { let r = $I..=$J; let s = ..=$J; let t = $I..; let u = $I..$J; match x { $I..=$J => {} ..=$K => {} $I.. => {} _ => {} } let v = &$I[$J..]; }\n"),
    ("pc-chains", "fn f() { let v = $I.$J()?.$K.await?.$I::<$T>()?; let w = $I?.$J?; let x = !$I.$J; let y = -*$K; let z = &&mut **$I; }\n"),
    ("pc-turbofish", "fn f() { let a = $I::<$T>(); let b = $T::<$U>::$J::<{ 1 }, $V>(); let c = <$T>::$K; let d = $I.$J::<$T, $U>(); let e: $T<$U, { 2 }> = g(); }\n"),
    ("pc-returns", "fn f() -> $T {}\nfn g() -> impl $U {}\nfn h() -> ! {}\nfn i() -> &'static mut $T {}\nfn j() -> Box<dyn $U> {}\nfn k() -> ($T, $U) {}\nfn l() -> [$T; 2] {}\nfn m() -> <$T as $U>::$V {}\n"),
    ("pc-self-params", "impl A { fn a(&self) {} fn b(&mut self) {} fn c(mut self) {} fn d(self: Box<Self>) {} fn e<'$L>(&'$L self) {} fn g<'$L>(&'$L mut self) {} fn h(self: &mut Pin<&mut Self>) {} fn i(mut self: Box<Self>) {} }\n"),
    ("pc-bounds-mods", "fn f<$T: ?Sized + ~const $U + const $V + ?$U + 'static>() {}\nfn g(x: impl ~const $U + ?Sized) {}\ntype A = dyn ?Sized + $U;\n"),
    ("pc-keywords-exprs", "fn f() { return $I; }\nfn g() { loop { break $I; } }\nfn h() { loop { continue; } }\nfn i() { let a = move || $I; let b = &raw const $J; let c = &raw mut $K; let d = unsafe { $I }; let e = async { $J }; let g = gen { yield $K; }; let m = if let Some($I) = $J && let Ok($K) = $I { 1 } else { 2 }; }\n"),
];

pub fn piece_names(size: usize) -> Vec<(&'static str, &'static str)> {
    match size {
        0 => vec![("$L", "a"), ("$I", "i"), ("$J", "j"), ("$K", "k"), ("$T", "T"), ("$U", "U"), ("$V", "V"), ("$P", "p"), ("$S", "C")],
        1 => vec![("$L", "lifetime"), ("$I", "identifi"), ("$J", "jdentifi"), ("$K", "kdentifi"), ("$T", "TypeName"), ("$U", "UraitNam"), ("$V", "VypeName"), ("$P", "pathsegm"), ("$S", "C-unwind")],
        _ => vec![
            ("$L", "lifetime_lifetime"),
            ("$I", "identifier_identif"),
            ("$J", "jdentifier_jdentif"),
            ("$K", "kdentifier_kdenti"),
            ("$T", "TypeNameTypeNameTy"),
            ("$U", "UraitNameUraitNam"),
            ("$V", "VypeNameVypeNameV"),
            ("$P", "pathsegment_paths"),
            ("$S", "system-unwind-abi-x"),
        ],
    }
}

/// every width 20..=60 and a few wider ones
pub fn fit_widths() -> Vec<usize> {
    let mut v: Vec<usize> = (20..=60).collect();
    v.extend([66, 72, 80, 100]);
    v
}

pub fn fit_options() -> Vec<Vec<(String, String)>> {
    let s = |k: &str, v: &str| vec![(k.to_string(), v.to_string())];
    let mut v = vec![
        vec![],
        s("brace_style", "AlwaysNextLine"),
        s("where_single_line", "true"),
        s("indent_style", "Visual"),
        s("fn_params_layout", "Vertical"),
        s("fn_params_layout", "Compressed"),
        s("use_small_heuristics", "Max"),
        s("use_small_heuristics", "Off"),
        s("trailing_comma", "Never"),
        s("type_punctuation_density", "Compressed"),
        s("style_edition", "2015"),
        s("tab_spaces", "2"),
    ];
    v.retain(|o| o.iter().all(|(k, val)| rustfmt_nightly::Config::is_valid_key_val(k, val)));
    v
}

/// (name, text) of every instantiated fit shape
pub fn fit_shapes() -> Vec<(String, String)> {
    let mut v = vec![];
    for (name, src) in BINDER_SHAPES {
        for (vn, lts) in binder_variants() {
            let q = lts.iter().map(|l| format!("'{}", l)).collect::<Vec<_>>().join(", ");
            let text = src.replace("$B", &format!("for<{}>", q)).replace("$Q", &q).replace("$L", lts[0]);
            v.push((format!("{}:{}", name, vn), text));
        }
    }
    for (name, src) in PIECE_SHAPES {
        for size in 0..3usize {
            let mut text = src.to_string();
            for (k, val) in piece_names(size) {
                text = text.replace(k, val);
            }
            v.push((format!("{}:{}", name, ["s", "m", "l"][size]), text));
        }
    }
    v
}

/// The fit universe, in a fixed order.  id = `fit:<shape>:<variant>:<context>|w<width>|<options or base>`
pub fn fit_universe() -> Vec<Case> {
    let opts = fit_options();
    let widths = fit_widths();
    let mut v = vec![];
    for (name, body) in fit_shapes() {
        let ctxs = vec![("plain", body.clone()), ("in-macro-def", format!("macro_rules! wrap {{\n    () => {{\n{}    }};\n}}\n", body)), ("in-mod", format!("mod outer {{ mod inner {{\n{}}} }}\n", body))];
        for (cname, text) in ctxs {
            for w in &widths {
                for o in &opts {
                    let mut cfg: Vec<(String, String)> = vec![("edition".into(), "2024".into()), ("style_edition".into(), "2024".into()), ("max_width".into(), w.to_string())];
                    cfg = merge_cfg(&cfg, o);
                    let oname = if o.is_empty() { "base".to_string() } else { cfg_text(o) };
                    v.push(Case { id: format!("fit:{}:{}|w{}|{}", name, cname, w, oname), src: text.clone(), cfg });
                }
            }
        }
    }
    v
}

// ================================================================================================
// The "near-miss" family: for every opt-in rewrite, inputs that LOOK like the thing the option rewrites but
// differ from it by one token that has to be kept (`x: x::<T>` next to `x: x`, `try!(a, b)` next to `try!(a)`,
// `((a,))` next to `((a))`, `0xABCDEFu32`, `1.0..2.0`, `#[derive(A)] #[cfg(x)] #[derive(B)]` …), in plain code,
// inside a `macro_rules!` body and inside macro call arguments, under every value of every such option.
// Small (the rewrites do not depend on the layout), so quick runs ALL of it.
// ================================================================================================

/// statement lists (placed in a fn body).  A name that starts with `e15-` is formatted under edition 2015.
pub const NM_STMT_SHAPES: &[(&str, &str)] = &[
    // use_field_init_shorthand
    ("fis-plain", "let s = S { a: a, b: b, c };"),
    ("fis-generic", "let s = S { x: x::<T>, a: a, y: y::<'static, u8>, z: z::<{ 1 }> };"),
    ("fis-raw", "let s = S { y: r#y, r#z: z, r#h: r#h, a: a };"),
    ("fis-paren-path", "let s = S { w: (w), v: v.0, t: self::t, u: ::u, q: <q>::q, k: crate::k, a: a };"),
    ("fis-attr", "let s = S { #[a] u: u, #[cfg(x)] q: q, a: a };"),
    ("fis-exprs", "let s = S { p: p?, o: o!(), n: &n, m: *m, l: l as u8, k: k(), j: j.j, 0: 0, i: -i, h: !h, g: g.await, e: e[0], d: { d }, c: c.c(), b: move || b, a: a };"),
    ("fis-nested", "let s = S { x: T { x: x }, y: [y], z: (z,), w: { w }, v: f(v), u: U { u }, a: a };"),
    ("fis-pat", "let S { x: x, y: ref y, z: mut z, w: w @ _, r#v: v, u: r#u, t: t, .. } = s; match s { S { a: a, b: _ } => {} S { a: A, b: b } => {} }"),
    ("fis-update", "let s = S { a: a, ..a }; let t = S { b: b, ..Default::default() }; let u = S::<T> { c: c }; let v = <S as T>::U { d: d };"),
    // use_try_shorthand
    ("e15-try-plain", "let a = try!(b); let c = try!(d.e(f)); let g = try!(try!(h));"),
    ("e15-try-two-args", "let a = try!(b, c);"),
    ("e15-try-near", "let a = try!(b?); let c = r#try!(d); let e = try![f]; let g = try! { h }; let i = try!(); let j = my::try!(k); let l = try!(m).n; let o = try!(p)?; let q = trying!(r); let s = try_!(t); let u = try!(v,);"),
    ("e15-try-exprs", "let a = try!(b + c); let d = try!(-e); let f = try!(g as u8); let h = try!(|| i); let j = try!(k..l); let m = try!(&n); let o = try!(p = q); let r = try!(if s { t } else { u }); let v = try!(w?.x);"),
    // condense_wildcard_suffixes
    ("wild", "match x { Foo(_, _, x @ _) => 1, Foo(a, _, _) => 2, Foo(_, _) => 3, [_, _, .., _] => 4, (_, _, ..) => 5, Foo(_, _, ..) | Bar(.., _, _) => 6, Foo(_, ref _a, _) => 7, (_, _,) => 8, S { a: _, b: _ } => 9, Foo(_) => 10, Foo(a, _) => 11, Foo(_, _, _x) => 12, Foo(_, (_, _), _) => 13, (a, _, _, _) => 14, Foo(_, _, &_) => 15, Foo(_, _, _ | _) => 16, [_, _, _] => 17, Foo(_, _, mac!()) => 18, Foo(_, __, _) => 19, _ => 20 }"),
    ("wild-let", "let (a, _, _) = t; let Foo(_, _, _) = u; let (_, _): (u8, u8) = v; let f = |(a, _, _): T, _: u8, _| a; if let Some((_, _, _)) = w {} for (_, _, _) in z {}"),
    // remove_nested_parens
    ("parens", "let b = ((a,)); let c = (a..); let d = ((a, b)); let e = (((a))); let f = ((a)..(b)); let g = (()); let h = f((a)); let i = ((a))(b); let j = (&(a)).b; let k = -(-(a)); let l = ((a) as u8); let m = ({ a }); let n = ((|| a))(); let o = ((a + b)) * c; let p = f(((a, b))); let q = ((a)?); let r = (((a.b))).c; let s = [((a))]; let t = (((), ())); let u = ((a)) = b;"),
    ("parens-attr", "let a = (#[attr] (a + b));"),
    ("parens-pat-ty", "let ((a)) = b; let c: ((u8)) = d; let (((e, f))) = g; let h: ((u8, u8)) = i; let j: (((u8),)) = k; fn l(((m)): ((u8))) {} let n: &((dyn T + Send)) = o; let p: *const ((u8)) = q; match r { ((A)) | ((B)) => {} ((C | D)) => {} }"),
    // hex_literal_case
    ("hex", "let a = 0xAB_u8; let b = 0xABCDEFu32; let c = 0xabcdef; let d = 0xAbCd_EfF_i64; let e = 0xFFusize; let f = 0xe; let g = 0x1f32; let h = 0b1010_u8; let i = 0o777; let k = 0xE+1; let l = 0xEi8; let m = 0xdead_beef_u64; let n = 0xBADF00D; let o = 0xa_b_c_d; let p = 0xfe; let q = 0xFEu8 as char; let r = x.0xa; let s = 0xcafeisize; let t = 0xC0FFEE_f;"),
    ("hex-contexts", "const A: [u8; 0xAb] = [0xcD; 0xAb]; match x { 0xaB..=0xCd => {} 0xEf | 0xfF => {} _ => {} } let y = m!(0xAb, 0xcD); let z = \"0xAb\"; let w = '\\x4a'; let v = b\"\\xAb\"; let u = \"\\u{1F60a}\";"),
    // float_literal_trailing_zero
    ("float", "let a = 1.0; let e = 1.; let g = 1.0f32; let h = 1f32; let i = 1e10; let j = 1.0e10; let k = 1_000.000_0; let l = 0.0; let m = 1.50; let n = x.0.0; let q = 1.0 as u8; let r = -1.0; let s = [1.0; 2]; let t = (1.0,); let w = 1.0_f64.sqrt(); let x2 = 1.0E-5; let y = 1_f64; let z = 2.0e+3_f32; let aa = 0.; let ab = 00.00; let ac = 1.0_; let ad = 1.e0;"),
    ("float-ranges", "let a = 1.0..2.0; let c = 1.0..=2.0; let u = 1.0..; let v = ..2.0; let w = ..=2.0; let x = 1.0 ..2.0; let y = (1.0)..(2.0); let z = 1. ..2.; for i in 0.0..1.0 {}"),
    ("float-range-ref", "let b = &1.0..2.0;"),
    ("float-range-pat", "match x { 1.0..=2.0 => {} _ => {} }"),
    ("float-range-pat2", "match x { 1.0.. => {} ..=2.0 => {} 1.0 => {} -1.0..=-0.0 => {} _ => {} } if let 1.0..=2.0 = y {}"),
    ("float-method", "let d = 1.0.method(); let e = 2.0.max(1.0); let f = 1.0 .method(); let g = (1.0).method(); let h = 1.0.0; let i = 1.0f32.method(); let j = 1.0e5.method(); let k = -1.0.abs(); let l = 1.0.x; let m = 1.0?; let n = 1.0[0]; let o = 1.0.await;"),
    // leading pipes / match_block_trailing_comma / match_arm_blocks
    ("pipes", "match x { | A | B if c => 1, | A => 2, A | B => 3, | (A | B) => 4, | [A] | [B] if d => 5, | _ if e => 6, _ => 7 } let (| A | B) = y; if let | A | B = w {} while let | Some(A) | None = v {} let f = |x| x; let g = || |y| y; matches!(u, | A | B); fn h((| A | B): E) {}"),
    ("arm-blocks", "match x { A => { a() } B => { b() }, C => c, D => { d }, E => unsafe { e }, F => if g { 1 } else { 2 }, G => match h { _ => {} } H => loop {}, I => {} J => {}, K => { k; } L => { l; }, M => async { m }, N => const { n }, O => 'a: { o }, P => { #[p] q } Q => { { r } } R => {{ s }}, S => ({ t }), T => { u }.v(), _ => { return } }"),
    // trailing_semicolon and statement blocks
    ("jumps-semis", "fn a() { return; } fn b() { return } fn c() { loop { break } } fn d() { loop { continue } } fn e() { loop { break; } } fn f() -> u8 { return 1 } fn g() { if x { return } else { return; } } fn h() { match x { _ => return } } fn i() { let c = || return; } fn j() { { x }; { y } ; z; } fn k() { loop { break 'a 1 } } fn l() { return return; } fn m() { { return }; } fn n() { x; ; y;; }"),
    ("block-semis", "{ x }; { y } z; if a { b }; if a { b } else { c }; match d { _ => {} }; loop {}; while e {}; for f in g {}; unsafe { h }; 'l: { i }; async { j }; const { k }; { l }.m(); { n }?; struct S {}; fn o() {}; mod p {}; m! { q }; m!(r); m![s]; ;"),
    // overflow_delimited_expr / vec! delimiters / empty lists
    ("overflow", "f(a, [1, 2, 3]); f(a, S { b: 1 }); f(&[1, 2]); f(vec![1, 2, 3]); f(a, |x| { x }); f(a, (1, 2)); f(a, m! { b }); f(a, &mut [b, c]); f(a, [b; 2]); f(a, ((b))); f([a], [b]); f(a, { b }); f(a, unsafe { b }); f(a, match b { _ => c });"),
    ("vec-delims", "let a = vec!(1, 2); let b = vec!{3}; let c = vec![]; let d = my::vec!(1); let e = r#vec!(1); let f = vec!(1; 2); let g = vec!(); let h = vec!{}; let i = vec!(vec!(1), vec!{2}); let j = veq!(1); let k = vec!((1, 2)); let l = vec!([1]); let m = vec!({ 1 });"),
    ("empties", "let b = c::<>(); let d: E<> = f; let g: for<> fn() = h; let l = M::<> {}; let q: &dyn for<> R<> = s; fn a<>() {} fn i<T:>() {} fn j() where {} struct K<> where; impl<> N<> for O<> where {} fn p<'a:, T: 'a +>() {} use t::{}; use u::{v::{}}; fn w<T: ?Sized +>() where T:, {}"),
    // strings
    ("strings", "let a = \"a\\\n      b\"; let b = \"x\\n\"; let c = r\"raw \\n\"; let d = b\"bytes\\x00\"; let e = c\"cstr\"; let g = \"tab\\there\"; let h = 'c'; let i = b'\\''; let j = \"\\u{1F600}\"; let k = \"trailing spaces   \"; let l = r#\"ra\"w\"#; let m = br##\"x\"#y\"##; let n = \"\\\\\\n\"; let o = \"a\\\n\\\n   b\"; let p = \"\\x41\\\"\\'\\0\"; let q = '\\u{41}'; let r = \"\";"),
    ("strings-long", "let f = \"a long string with \\n escapes and words and words and words and words and words and \\t more words \\\\ and a backslash \\\" quote and so on and on\"; let g = \"nospacesnospacesnospacesnospacesnospaces\\nnospacesnospacesnospacesnospacesnospaces\\\\nospacesnospaces\"; let h = \"ends in blanks                                                                      \";"),
];

/// item lists
pub const NM_ITEM_SHAPES: &[(&str, &str)] = &[
    ("doc-attrs", "#[doc = \"x\"]\n/// y\n#[doc = \"z\"]\nfn a() {}\n#[doc(hidden)]\n#[doc = \"x\"]\nfn b() {}\n#[doc = r\"raw\"]\nfn c() {}\n#[doc = \"multi\\nline\"]\nfn d() {}\n#[doc = \"with \\\"quote\\\"\"]\nfn e() {}\n#[doc = include_str!(\"x\")]\nfn f() {}\n#[doc = concat!(\"a\", \"b\")]\nfn g() {}\n#[cfg_attr(x, doc = \"y\")]\nfn h() {}\n#[doc = \"\"]\nfn i() {}\n#[doc = \" */ \"]\nfn j() {}\n#[doc(alias = \"x\")]\nfn l() {}\n#[doc = \"tab\\there\"]\nfn m() {}\n#[doc = \"\\u{41}\"]\nfn n() {}\n"),
    ("doc-attrs-inner", "#![doc = \"crate\"]\n//! inner\n#![doc = \"more\"]\nmod m {\n    #![doc = \"mod\"]\n}\nstruct S {\n    #[doc = \"field\"]\n    f: u8,\n}\nenum E {\n    #[doc = \"variant\"]\n    V,\n}\n"),
    ("derives", "#[derive(A)]\n#[cfg(x)]\n#[derive(B)]\nstruct S1;\n#[derive(A)]\n/// doc\n#[derive(B)]\nstruct S2;\n#[derive(A, B,)]\n#[derive()]\n#[derive(C)]\nstruct S3;\n#[derive(a::A)]\n#[derive(B)]\n#[allow(x)]\n#[derive(C)]\nstruct S4;\n#[cfg_attr(x, derive(A))]\n#[derive(B)]\nstruct S5;\n#[derive(A)]\n#[derive(A)]\nstruct S6;\n#[derive(B, A)]\n#[derive(C)]\nenum E1 {}\n#[derive = \"x\"]\n#[derive(A)]\nstruct S7;\n#[derive(A)] // c\n#[derive(B)]\nstruct S8;\n"),
    ("abi", "extern \"C\" fn a() {}\nextern fn b() {}\nextern \"Rust\" fn c() {}\nextern \"C\" {}\nextern {}\nextern \"system\" {}\ntype F = extern fn();\ntype G = extern \"C\" fn();\ntype H = unsafe extern \"Rust\" fn();\nextern \"c\" fn d() {}\nextern \"C-unwind\" fn e() {}\nunsafe extern \"C\" { fn f(); }\nunsafe extern { fn g(); }\nimpl S { extern fn h() {} pub extern \"C\" fn i() {} }\nextern crate j;\nextern \"C\" { static K: u8; }\n"),
    ("vis-near", "struct A(pub(crate) T, pub (self::T), pub(in self) T, pub (crate::T), pub(in crate) T, pub(in super) T, pub(in crate::a) T, pub (super::T), pub(self) T, pub (in_crate::T));\npub(in crate) fn b() {}\npub(in self) fn c() {}\npub(in super) fn d() {}\npub(in super::super) fn e() {}\npub(in crate::f) fn f() {}\npub(in self::g) fn g() {}\n"),
    ("impl-order", "impl S {\n    type A = u8;\n    type B = u8;\n    const C: u8 = 1;\n    const D: u8 = 2;\n    fn e() {}\n    fn f() {}\n}\nimpl T for S {\n    type A = u8;\n    const C: u8 = 1;\n    m!();\n    fn e() {}\n}\ntrait U {\n    type A;\n    const C: u8;\n    fn e();\n}\n"),
    ("macro-matchers", "macro_rules! m {\n    ($a:expr, $($b:tt)*) => { S { x: x::<T>, y: $a } };\n    ($a:ident) => {{ try!($a) }};\n    (@x $a:pat) => { match y { $a | _ => 1 } };\n    ($($a:ident),* $(,)?) => { ($($a,)*) };\n    ($a:literal) => { [0xAb, 1.0, $a] };\n    ($(#[$a:meta])* $v:vis fn $n:ident()) => { $(#[$a])* $v fn $n() {} };\n    () => {};\n}\nm!(S { x: x::<T> });\nm!((a,), ((b)), 0xAb, 1.0..2.0);\nm! { pub(in crate) fn f() }\n"),
    ("use-near", "use a::{self};\nuse b::{self as b};\nuse c::{d as d};\nuse e::{};\nuse ::f;\nuse g::{self, self as h};\nuse i::*;\nuse {j, k};\nuse l as _;\nuse m::{n::{self}};\nuse self::o;\nuse r#p::q;\nuse s::r#t;\n"),
];

pub fn nm_options() -> Vec<Vec<(String, String)>> {
    let s = |k: &str, v: &str| vec![(k.to_string(), v.to_string())];
    let mut v = vec![
        vec![],
        s("use_field_init_shorthand", "true"),
        s("use_try_shorthand", "true"),
        s("condense_wildcard_suffixes", "true"),
        s("remove_nested_parens", "false"),
        s("normalize_doc_attributes", "true"),
        s("merge_derives", "false"),
        s("force_explicit_abi", "false"),
        s("hex_literal_case", "Upper"),
        s("hex_literal_case", "Lower"),
        s("float_literal_trailing_zero", "Always"),
        s("float_literal_trailing_zero", "IfNoPostfix"),
        s("float_literal_trailing_zero", "Never"),
        s("format_macro_matchers", "true"),
        s("format_macro_bodies", "false"),
        s("reorder_impl_items", "true"),
        s("match_arm_leading_pipes", "Always"),
        s("match_arm_leading_pipes", "Preserve"),
        s("match_block_trailing_comma", "true"),
        s("match_arm_blocks", "false"),
        s("trailing_semicolon", "false"),
        s("overflow_delimited_expr", "true"),
        s("format_strings", "true"),
        s("trailing_comma", "Never"),
        s("trailing_comma", "Always"),
        s("struct_lit_single_line", "false"),
        s("use_small_heuristics", "Max"),
        s("imports_granularity", "Crate"),
        s("reorder_imports", "false"),
        s("style_edition", "2015"),
    ];
    // all opt-in token rewrites at once
    v.push(vec![
        ("use_field_init_shorthand".into(), "true".into()),
        ("use_try_shorthand".into(), "true".into()),
        ("condense_wildcard_suffixes".into(), "true".into()),
        ("normalize_doc_attributes".into(), "true".into()),
        ("hex_literal_case".into(), "Upper".into()),
        ("float_literal_trailing_zero".into(), "Never".into()),
        ("format_macro_matchers".into(), "true".into()),
        ("match_block_trailing_comma".into(), "true".into()),
        ("overflow_delimited_expr".into(), "true".into()),
    ]);
    v.retain(|o| o.iter().all(|(k, val)| rustfmt_nightly::Config::is_valid_key_val(k, val)));
    v
}

pub const NM_WIDTHS: &[usize] = &[30, 60, 100];

/// The near-miss universe, in a fixed order.  id = `nm:<shape>:<context>|w<width>|<options or base>`
pub fn nm_universe() -> Vec<Case> {
    let opts = nm_options();
    let mut v = vec![];
    let mut shapes: Vec<(String, Vec<(&'static str, String)>)> = vec![];
    for (name, body) in NM_STMT_SHAPES {
        let is_fn_list = body.starts_with("fn ");
        let plain = if is_fn_list { format!("{}\n", body) } else { format!("fn f() {{ {} }}\n", body) };
        let mut ctxs = vec![("plain", plain.clone()), ("in-macro-def", format!("macro_rules! wrap {{\n    () => {{\n{}    }};\n}}\n", plain))];
        if !is_fn_list {
            ctxs.push(("in-macro-call", format!("fn f() {{ wrap!({{ {} }}); }}\n", body)));
            ctxs.push(("in-closure-chain", format!("fn f() {{ a.b(|c| {{ {} }}).d(e, move |g| {{ {} }}); }}\n", body, body)));
        }
        shapes.push((name.to_string(), ctxs));
    }
    for (name, body) in NM_ITEM_SHAPES {
        shapes.push((name.to_string(), vec![("plain", body.to_string()), ("in-macro-def", format!("macro_rules! wrap {{\n    () => {{\n{}    }};\n}}\n", body)), ("in-mod", format!("mod outer {{\n{}}}\n", body))]));
    }
    for (name, ctxs) in shapes {
        let edition = if name.starts_with("e15-") { "2015" } else { "2024" };
        for (cname, text) in ctxs {
            for w in NM_WIDTHS {
                for o in &opts {
                    let mut cfg: Vec<(String, String)> = vec![("edition".into(), edition.into()), ("style_edition".into(), "2024".into()), ("max_width".into(), w.to_string())];
                    cfg = merge_cfg(&cfg, o);
                    let oname = if o.is_empty() { "base".to_string() } else { cfg_text(o) };
                    v.push(Case { id: format!("nm:{}:{}|w{}|{}", name, cname, w, oname), src: text.clone(), cfg });
                }
            }
        }
    }
    v
}

// ================================================================================================
// The "header" family: positions that rustfmt finds by SEARCHING THE SOURCE TEXT for a character (`{`, `(`,
// `=`, `:`, `>` … via span_after / span_before / find_uncommented / str::find).  The searched character is put
// BEFORE the intended one: in a const-generic block argument `{ N }`, an array length `[u8; { 4 + 4 }]`, a
// string or char literal inside such a block, a comment, an attribute — in every header position (generics
// and their defaults, supertraits, where clauses, impl headers, return types, type aliases, associated
// items), with an empty body, a body with items and a body holding only a comment.
// ================================================================================================

/// `$E` a brace-bearing const argument, `$B` a body for the kind of item (`$BT` trait, `$BI` impl, `$BS` struct, `$BF` fn, `$BN` enum)
pub const HDR_SHAPES: &[(&str, &str)] = &[
    ("trait-where", "pub trait W<T, const N: usize> where T: Ch<$E> $BT\n"),
    ("trait-where2", "trait P where [u8; $E]: Sized, Self: Ch<$E> + Sized $BT\n"),
    ("trait-super", "trait P<const N: usize>: Ch<$E> + Other $BT\ntrait R: Ch<$E> where Self: Other $BT\n"),
    ("trait-generics", "trait G<const N: usize = $E, T: Ch<$E> = u8> $BT\nunsafe trait H<T = [u8; $E]> where T: Copy $BT\n"),
    ("trait-alias", "trait A<const N: usize> = Ch<$E> + Other where [u8; $E]: Sized;\n"),
    ("impl-trait-for", "impl<T, const N: usize> Tr<$E> for S<T, $E> where T: Ch<$E>, [u8; $E]: Sized $BI\n"),
    ("impl-inherent", "impl<const N: usize> S<$E> where [u8; $E]: Sized $BI\nimpl S<$E> $BI\nimpl<T: Ch<$E>> S<T> $BI\n"),
    ("impl-neg-unsafe", "unsafe impl<T> Tr<$E> for [T; $E] where T: Ch<$E> $BI\nimpl<T> !Tr<$E> for S<T> where T: Ch<$E> {}\n"),
    ("struct-where", "struct S<T> where T: Ch<$E>, [T; $E]: Sized $BS\n"),
    ("struct-generics", "struct S<const N: usize = $E, T: Ch<$E> = [u8; $E]> $BS\n"),
    ("struct-tuple", "struct S<T>(T, [u8; $E]) where [T; $E]: Sized;\nstruct U<const N: usize = $E>(Ch<$E>);\nstruct V<T: Ch<$E>>(pub T) where T: Copy;\n"),
    ("struct-unit", "struct U<const N: usize = $E> where [u8; $E]: Sized;\nstruct X<T: Ch<$E>>;\n"),
    ("enum-where", "enum E<T> where T: Ch<$E>, [T; $E]: Sized $BN\nenum F<const N: usize = $E> $BN\n"),
    ("union-where", "union U<T: Copy> where T: Ch<$E>, [T; $E]: Sized $BS\n"),
    ("fn-sig", "fn f<T, const N: usize>(x: [u8; $E]) -> [u8; $E] where T: Ch<$E>, [T; $E]: Sized $BF\n"),
    ("fn-sig-ret", "fn g() -> Ch<$E> $BF\nfn h(x: Ch<$E>, y: impl Tr<$E>) -> impl Tr<$E> $BF\nfn i<T: Ch<$E>>() $BF\n"),
    ("fn-decl", "trait Q { fn m<T>(x: [u8; $E]) -> [u8; $E] where T: Ch<$E>; fn n() where Self: Ch<$E> $BF }\nextern \"C\" { fn e(x: [u8; $E]) -> [u8; $E]; }\n"),
    ("type-alias", "type A<T> where T: Ch<$E> = [T; $E];\ntype B<T: Ch<$E>> = T;\ntype C<const N: usize = $E> = [u8; $E];\ntype D = Ch<$E>;\n"),
    ("assoc-items", "trait Q { type X<T>: Ch<$E> where T: Ch<$E>; const C: [u8; $E] = [0; $E]; type Y: Ch<$E> = Z<$E>; }\nimpl Q for S { type X<T> = [T; $E] where T: Ch<$E>; const C: [u8; $E] = [0; $E]; }\n"),
    ("static-const", "const K: [u8; $E] = [0; $E];\nstatic L: Ch<$E> = Ch::<$E>::new();\nconst M: usize = $E;\n"),
    ("exprs", "fn f() { let a: [u8; $E] = [0; $E]; let b = g::<$E>(); let c = S::<$E> { x: 1 }; let d = <Ch<$E>>::new(); match e { S::<$E> { .. } => {} } if let Ch::<$E>(x) = y {} for i in z::<$E>() {} while w::<$E>() {} let k = |x: Ch<$E>| -> Ch<$E> { x }; }\n"),
    ("macro-def-body", "macro_rules! m { () => { trait W where Self: Ch<$E> $BT }; ($a:ty) => { impl Tr<$E> for $a where $a: Ch<$E> $BI }; }\n"),
];

pub const HDR_E: &[(&str, &str)] = &[
    ("n", "{ N }"),
    ("sum", "{ 4 + 4 }"),
    ("if", "{ if true { 1 } else { 2 } }"),
    ("str", "{ \"{\".len() }"),
    ("chr", "{ '{' as usize }"),
    ("cmt", "{ /* { */ 1 }"),
    ("nested", "{ { 1 } }"),
    ("plain", "N"),
];

/// bodies: (name, trait body, impl body, struct body, fn body, enum body)
pub const HDR_BODIES: &[(&str, &str, &str, &str, &str, &str)] = &[
    ("empty", "{}", "{}", "{}", "{}", "{}"),
    ("items", "{ type Item; fn get(&self, at: usize) -> Option<&Self::Item>; }", "{ type Item = u8; fn get(&self) -> u8 { 1 } }", "{ a: T, b: u8 }", "{ let x = 1; x }", "{ A(T), B }"),
    ("comment", "{ // only a comment\n}", "{ /* only a comment */ }", "{ // only a comment\n}", "{ // only a comment\n}", "{ /* only a comment */ }"),
    ("attr", "{ #![allow(x)] fn f(); }", "{ #![allow(x)] fn f() {} }", "{ #[doc = \"{\"] a: T }", "{ #![allow(x)] 1 }", "{ #[doc = \"{\"] A }"),
];

/// comments, strings and attributes that hold the searched character before the intended position
pub const HDR_COMMENT_SHAPES: &[(&str, &str)] = &[
    ("cm-trait", "trait T /* { */ where Self: Sized /* { */ { fn f(); }\ntrait U /* : */ : V /* { */ { fn f(); }\ntrait W<T /* > */> /* { */ {}\n"),
    ("cm-impl", "impl /* { */ S /* { */ { fn f() {} }\nimpl<T /* > */> Tr /* for */ for S<T> /* { */ where T: X /* { */ { fn f() {} }\n"),
    ("cm-struct", "struct S /* { */ { a: u8 }\nstruct T /* ( */ (u8);\nstruct U<T /* > */>(T) /* ; */ where T: X /* ; */;\nstruct V /* ; */;\n"),
    ("cm-enum", "enum E /* { */ { A /* ( */ (u8), B /* { */ { x: u8 }, C /* = */ = 1 }\n"),
    ("cm-fn", "fn f /* ( */ (x: u8 /* ) */) /* -> */ -> u8 /* { */ { 1 }\nfn g<T /* > */>() /* { */ where T: X /* { */ {}\nfn h(x /* : */ : u8, y: u8 /* , */) {}\n"),
    ("cm-items", "const C /* : */ : u8 /* = */ = 1;\nstatic S /* : */ : u8 /* = */ = 0;\ntype A /* = */ = u8;\ntype B<T> /* = */ where T: X /* = */ = T;\nmod m /* { */ { fn f() {} }\nextern \"C\" /* { */ { fn f(); }\nuse a /* :: */ ::b;\n"),
    ("cm-exprs", "fn f() { let x /* = */ = 1; let y /* : */ : u8 /* = */ = 2; match x /* { */ { _ /* => */ => {} } if a /* { */ { } else /* { */ { } while b /* { */ { } for i /* in */ in c /* { */ { } loop /* { */ { } let s = S /* { */ { a /* : */ : 1 }; let c = |x /* | */| /* -> */ x; g /* ( */ (1); h.i /* ( */ (2); }\n"),
    ("str-attrs", "#[doc = \"{\"]\ntrait T where Self: Sized { fn f(); }\n#[doc = \"(\"]\nstruct S(u8);\n#[cfg(feature = \"{\")]\nimpl S { fn f() {} }\n#[doc = \"=\"]\ntype A = u8;\n#[doc = \";\"]\nstruct U;\n#[doc = \"where {\"]\nfn f<T>() where T: X {}\n"),
    ("str-headers", "impl Tr<{ \"{\".len() }> for S where S: Ch<{ \"where\".len() }> { fn f() {} }\nfn f(x: [u8; \"(\".len()]) -> [u8; \"{\".len()] { x }\nenum E { A = \"=\".len() as isize, B = '{' as isize }\n"),
    ("pre-default", "trait T { default fn f(); default type X; default const C: u8; default unsafe fn g(&self); }\nimpl T for S { default fn f(); default type X = u8; default const C: u8 = 1; default fn h() {} }\n"),
    ("pre-inner-attrs-empty", "impl Foo { #![attr] }\ntrait Bar { #![attr] }\nextern \"C\" { #![attr] }\n"),
    ("pre-inner-attrs", "impl Foo { #![attr] fn f() {} }\ntrait Bar { #![attr] fn f(); }\nextern \"C\" { #![attr] fn f(); }\nmod m { #![attr] }\nfn f() { #![attr] }\n"),
    ("pre-vec-brace-stmt", "fn v() { vec!{1, 2} let a = 1; }\n"),
    ("pre-brace-macro-stmts", "fn w() { vec!{1, 2}; let a = 1; vec!(3); m!{4} let b = 2; n!{} o![5]; }\n"),
    ("pre-async-use", "fn u() { let c = async use { 1 }; }\n"),
    ("pre-use-closures", "fn u() { let d = use || 1; let e = async move { 1 }; let g = async { 2 }; let h = move || 3; }\n"),
    ("pre-postfix-match", "fn m() { x.match { _ => 1 }; let y = z.match { A => 1, B => 2 }.w(); }\n"),
    ("macro-type", "trait T where m!({}): Sized { fn f(); }\nimpl Tr for m!({ x }) where m![{]: X { fn f() {} }\nfn f() -> m!({ }) { 1 }\nstruct S(m! { a });\ntype A = m!({);\n"),
];

pub fn hdr_options() -> Vec<Vec<(String, String)>> {
    let s = |k: &str, v: &str| vec![(k.to_string(), v.to_string())];
    let mut v = vec![
        vec![],
        s("brace_style", "AlwaysNextLine"),
        s("brace_style", "PreferSameLine"),
        s("where_single_line", "true"),
        vec![("brace_style".to_string(), "AlwaysNextLine".to_string()), ("where_single_line".to_string(), "true".to_string())],
        s("indent_style", "Visual"),
        s("empty_item_single_line", "false"),
        s("fn_single_line", "true"),
        s("style_edition", "2015"),
        s("normalize_comments", "true"),
    ];
    v.retain(|o| o.iter().all(|(k, val)| rustfmt_nightly::Config::is_valid_key_val(k, val)));
    v
}

/// The header universe, in a fixed order.  id = `hdr:<shape>:<E>:<body>:<context>|w<width>|<options or base>`
pub fn hdr_universe() -> Vec<Case> {
    let opts = hdr_options();
    let mut texts: Vec<(String, String)> = vec![];
    for (name, src) in HDR_SHAPES {
        for (en, e) in HDR_E {
            for (bn, bt, bi, bs, bf, be) in HDR_BODIES {
                if !src.contains("$B") && *bn != "empty" {
                    continue;
                }
                let t = src.replace("$E", e).replace("$BT", bt).replace("$BI", bi).replace("$BS", bs).replace("$BF", bf).replace("$BN", be);
                texts.push((format!("{}:{}:{}", name, en, bn), t));
            }
        }
    }
    for (name, src) in HDR_COMMENT_SHAPES {
        texts.push((format!("{}:-:-", name), src.to_string()));
    }
    let mut v = vec![];
    for (name, body) in texts {
        for (cname, text) in [("plain", body.clone()), ("in-mod", format!("mod outer {{\n{}}}\n", body))] {
            for w in [40usize, 100] {
                for o in &opts {
                    let mut cfg: Vec<(String, String)> = vec![("edition".into(), "2024".into()), ("style_edition".into(), "2024".into()), ("max_width".into(), w.to_string())];
                    cfg = merge_cfg(&cfg, o);
                    let oname = if o.is_empty() { "base".to_string() } else { cfg_text(o) };
                    v.push(Case { id: format!("hdr:{}:{}|w{}|{}", name, cname, w, oname), src: text.clone(), cfg });
                }
            }
        }
    }
    v
}
