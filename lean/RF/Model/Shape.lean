/-
Model of `src/shape.rs` (`Indent`, `Shape`): every method, with the result in `Except Panic _` exactly
where the dev-profile Rust build can panic (unchecked `-`, `/` and `%` by zero, slice indexing), in
`Option` / `Except ExceedsMaxWidthError` where the Rust code returns `Option` / `Result`.

`usize` is `Nat`: overflow of `+` and `*` is out of scope (all statements are "below 2^63").
Only the four configuration values that shape.rs reads are modelled (`Config`).  `Span` arguments only
travel into the error value and are dropped.  Import-free.
-/
namespace RF.Shape

/-- `Except` has no `DecidableEq` in core; needed to `decide` concrete instances. -/
instance decEqExcept {ε α : Type} [DecidableEq ε] [DecidableEq α] : DecidableEq (Except ε α)
  | .ok a, .ok b => if h : a = b then isTrue (by rw [h]) else isFalse (fun e => h (by cases e; rfl))
  | .error a, .error b =>
    if h : a = b then isTrue (by rw [h]) else isFalse (fun e => h (by cases e; rfl))
  | .ok _, .error _ => isFalse (fun e => by cases e)
  | .error _, .ok _ => isFalse (fun e => by cases e)

/-- The reasons a dev build aborts inside shape.rs. -/
inductive Panic where
  | subOverflow     -- "attempt to subtract with overflow"
  | divByZero       -- "attempt to divide by zero" / "calculate the remainder with a divisor of zero"
  | sliceIndex      -- `&INDENT_BUFFER[a..=b]` out of range
  deriving Repr, DecidableEq

/-- The part of `Config` read by shape.rs. -/
structure Config where
  hard_tabs : Bool
  tab_spaces : Nat
  max_width : Nat
  comment_width : Nat
  deriving Repr, DecidableEq

/-- unchecked `a - b` on `usize` in a build with overflow checks -/
def usub (a b : Nat) : Except Panic Nat :=
  if a < b then .error .subOverflow else .ok (a - b)

/-- unchecked `a / b` -/
def udiv (a b : Nat) : Except Panic Nat :=
  if b = 0 then .error .divByZero else .ok (a / b)

/-- unchecked `a % b` -/
def umod (a b : Nat) : Except Panic Nat :=
  if b = 0 then .error .divByZero else .ok (a % b)

/-- `usize::checked_sub` -/
def checkedSub (a b : Nat) : Option Nat := if a < b then none else some (a - b)

/-- `usize::saturating_sub` is Lean's `Nat` subtraction. -/
abbrev saturatingSub (a b : Nat) : Nat := a - b

/-- shape.rs:10-17 -/
structure Indent where
  block_indent : Nat
  alignment : Nat
  deriving Repr, DecidableEq

/-- shape.rs:19-22: `"\n"` followed by 80 spaces; `INDENT_BUFFER_LEN = 80`. -/
def INDENT_BUFFER_LEN : Nat := 80
def INDENT_BUFFER : List Char := '\n' :: List.replicate 80 ' '

/-- `&s[a..=b]` on an ASCII string: `RangeInclusive` indexing turns into `a..b+1` and panics unless
`a ≤ b + 1 ≤ len` (`b = usize::MAX` is out of scope). -/
def sliceInclusive (s : List Char) (a b : Nat) : Except Panic (List Char) :=
  if a ≤ b + 1 ∧ b + 1 ≤ s.length then .ok ((s.drop a).take (b + 1 - a)) else .error .sliceIndex

namespace Indent

/-- shape.rs:25-30 -/
def new (block_indent alignment : Nat) : Indent := ⟨block_indent, alignment⟩

/-- shape.rs:32-40 -/
def from_width (config : Config) (width : Nat) : Except Panic Indent :=
  if config.hard_tabs then
    match udiv width config.tab_spaces with
    | .error e => .error e
    | .ok tab_num =>
      match umod width config.tab_spaces with
      | .error e => .error e
      | .ok alignment => .ok (new (config.tab_spaces * tab_num) alignment)
  else .ok (new width 0)

/-- shape.rs:42-44 -/
def empty : Indent := new 0 0

/-- shape.rs:46-51 -/
def block_only (self : Indent) : Indent := { block_indent := self.block_indent, alignment := 0 }

/-- `Indent::block_indent(self, config)`, shape.rs:53-56 (named `blockIndent`: the field projection
already owns the name `Indent.block_indent`). -/
def blockIndent (self : Indent) (config : Config) : Indent :=
  { self with block_indent := self.block_indent + config.tab_spaces }

/-- shape.rs:58-65; the subtraction is guarded by the test above it. -/
def block_unindent (self : Indent) (config : Config) : Except Panic Indent :=
  if self.block_indent < config.tab_spaces then .ok (new self.block_indent 0)
  else
    match usub self.block_indent config.tab_spaces with
    | .error e => .error e
    | .ok b => .ok { self with block_indent := b }

/-- shape.rs:67-69 -/
def width (self : Indent) : Nat := self.block_indent + self.alignment

/-- shape.rs:79-101.  `offset` is 1 for `to_string` (skip the leading `\n` of the static buffer) and 0
for `to_string_with_newline`.  Fast path: a slice of `INDENT_BUFFER`; slow path: a fresh `String`. -/
def to_string_inner (self : Indent) (config : Config) (offset : Nat) : Except Panic (List Char) :=
  let numTabsSpaces : Except Panic (Nat × Nat) :=
    if config.hard_tabs then
      match udiv self.block_indent config.tab_spaces with
      | .error e => .error e
      | .ok t => .ok (t, self.alignment)
    else .ok (0, self.width)
  match numTabsSpaces with
  | .error e => .error e
  | .ok (num_tabs, num_spaces) =>
    let num_chars := num_tabs + num_spaces
    if num_tabs = 0 ∧ num_chars + offset ≤ INDENT_BUFFER_LEN then
      sliceInclusive INDENT_BUFFER offset num_chars
    else
      .ok ((if offset = 0 then ['\n'] else []) ++ List.replicate num_tabs '\t'
            ++ List.replicate num_spaces ' ')

/-- shape.rs:71-73 -/
def to_string (self : Indent) (config : Config) : Except Panic (List Char) :=
  self.to_string_inner config 1

/-- shape.rs:75-77 -/
def to_string_with_newline (self : Indent) (config : Config) : Except Panic (List Char) :=
  self.to_string_inner config 0

/-- `impl Add for Indent`, shape.rs:104-113 -/
def add (self rhs : Indent) : Indent :=
  { block_indent := self.block_indent + rhs.block_indent, alignment := self.alignment + rhs.alignment }

/-- `impl Sub for Indent`, shape.rs:115-124: two unchecked subtractions, `block_indent` first. -/
def sub (self rhs : Indent) : Except Panic Indent :=
  match usub self.block_indent rhs.block_indent with
  | .error e => .error e
  | .ok b =>
    match usub self.alignment rhs.alignment with
    | .error e => .error e
    | .ok a => .ok (new b a)

/-- `impl Add<usize> for Indent`, shape.rs:126-132 -/
def add_usize (self : Indent) (rhs : Nat) : Indent := new self.block_indent (self.alignment + rhs)

/-- `impl Sub<usize> for Indent`, shape.rs:134-140 -/
def sub_usize (self : Indent) (rhs : Nat) : Except Panic Indent :=
  match usub self.alignment rhs with
  | .error e => .error e
  | .ok a => .ok (new self.block_indent a)

end Indent

/-- shape.rs:142-143 -/
def INFINITE_SHAPE_WIDTH : Nat := 8096

/-- shape.rs:145-153 -/
structure Shape where
  width : Nat
  indent : Indent
  offset : Nat
  deriving Repr, DecidableEq

/-- `rewrite::ExceedsMaxWidthError` without its span. -/
structure ExceedsMaxWidthError where
  configured_width : Nat
  deriving Repr, DecidableEq

namespace Shape

/-- shape.rs:171-177 -/
def legacy (width : Nat) (indent : Indent) : Shape := ⟨width, indent, indent.alignment⟩

/-- shape.rs:179-185 -/
def indented (indent : Indent) (config : Config) : Shape :=
  ⟨saturatingSub config.max_width indent.width, indent, indent.alignment⟩

/-- shape.rs:187-192 -/
def with_max_width (self : Shape) (config : Config) : Shape :=
  { self with width := saturatingSub config.max_width self.indent.width }

/-- shape.rs:194-201 -/
def visual_indent (self : Shape) (delta : Nat) : Shape :=
  let alignment := self.offset + delta
  ⟨self.width, Indent.new self.indent.block_indent alignment, alignment⟩

/-- shape.rs:203-217 -/
def block_indent (self : Shape) (delta : Nat) : Shape :=
  if self.indent.alignment = 0 then
    ⟨self.width, Indent.new (self.indent.block_indent + delta) 0, 0⟩
  else
    ⟨self.width, self.indent.add_usize delta, self.indent.alignment + delta⟩

/-- shape.rs:325-330 -/
def exceeds_max_width_error (self : Shape) : ExceedsMaxWidthError := ⟨self.width⟩

/-- shape.rs:257-261 -/
def sub_width_opt (self : Shape) (delta : Nat) : Option Shape :=
  (checkedSub self.width delta).map fun width => { self with width := width }

/-- shape.rs:248-255 -/
def sub_width (self : Shape) (delta : Nat) : Except ExceedsMaxWidthError Shape :=
  match self.sub_width_opt delta with
  | some s => .ok s
  | none => .error self.exceeds_max_width_error

/-- shape.rs:219-225.  The error, if any, is built from the *block-indented* shape (same width). -/
def block_left (self : Shape) (delta : Nat) : Except ExceedsMaxWidthError Shape :=
  (self.block_indent delta).sub_width delta

/-- shape.rs:227-232 -/
def add_offset (self : Shape) (delta : Nat) : Shape := { self with offset := self.offset + delta }

/-- shape.rs:234-239 -/
def block (self : Shape) : Shape := { self with indent := self.indent.block_only }

/-- shape.rs:241-246 -/
def saturating_sub_width (self : Shape) (delta : Nat) : Shape :=
  { self with width := saturatingSub self.width delta }

/-- shape.rs:272-278 -/
def shrink_left_opt (self : Shape) (delta : Nat) : Option Shape :=
  (checkedSub self.width delta).map fun width =>
    ⟨width, self.indent.add_usize delta, self.offset + delta⟩

/-- shape.rs:263-270 -/
def shrink_left (self : Shape) (delta : Nat) : Except ExceedsMaxWidthError Shape :=
  match self.shrink_left_opt delta with
  | some s => .ok s
  | none => .error self.exceeds_max_width_error

/-- shape.rs:289-291 -/
def offset_left_opt (self : Shape) (delta : Nat) : Option Shape :=
  (self.add_offset delta).sub_width_opt delta

/-- shape.rs:280-287 -/
def offset_left (self : Shape) (delta : Nat) : Except ExceedsMaxWidthError Shape :=
  match self.offset_left_opt delta with
  | some s => .ok s
  | none => .error self.exceeds_max_width_error

/-- shape.rs:293-295 -/
def used_width (self : Shape) : Nat := self.indent.block_indent + self.offset

/-- shape.rs:297-301 -/
def rhs_overhead (self : Shape) (config : Config) : Nat :=
  saturatingSub config.max_width (self.used_width + self.width)

/-- shape.rs:303-309 -/
def comment (self : Shape) (config : Config) : Shape :=
  { self with width := min self.width (saturatingSub config.comment_width self.indent.width) }

/-- shape.rs:311-315 -/
def to_string_with_newline (self : Shape) (config : Config) : Except Panic (List Char) :=
  let offset_indent : Indent := { self.indent with alignment := self.offset }
  offset_indent.to_string_inner config 0

/-- shape.rs:317-323 -/
def infinite_width (self : Shape) : Shape := { self with width := INFINITE_SHAPE_WIDTH }

end Shape

end RF.Shape
