import RF.Props.C19
import RF.Gen.DiffPatterns

/-!
# C19 for the pattern the current tree actually uses

`RF.Gen.DiffPatterns.hunkIsLazy` is regenerated from `src/format-diff/main.rs` on every run (the
translator refuses any pattern literal other than the two the matchers implement).
-/
namespace RF.Props.C19
open RF.FormatDiff RF.Gen.DiffPatterns

private def L (s : String) : List Char := s.toList

/-- With the hunk pattern of the current tree: on every diff that meets the decidable hypotheses
`specHyp` the scanner returns exactly the ranges of the unified-diff specification. -/
theorem current_scan_eq_spec (skip : Nat) (accepts : List Char → Bool) (lines : List (List Char))
    (h : specHyp hunkIsLazy skip lines = true) :
    ∃ out, spec skip accepts lines = some out ∧
      scanDiff ⟨hunkIsLazy, checked, skip, accepts⟩ lines = .ok out :=
  scan_eq_spec_partial ⟨hunkIsLazy, checked, skip, accepts⟩ lines h

/-- Whether the current tree needs the "no `+digit` in the section text" hypothesis: the diff of F10
meets `specHyp` exactly when the pattern is the lazy one. -/
theorem f10_input_in_scope_iff_lazy :
    specHyp hunkIsLazy 1
      [L "+++ b/x.rs", L "@@ -1,3 +1,4 @@ fn f() { x +7 }", L " a", L "+b", L " c", L " d"] = hunkIsLazy := by
  decide

end RF.Props.C19
