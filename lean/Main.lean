import RF.Driver.Diff
import RF.Driver.CargoFmt
import RF.Driver.FormatLines
import RF.Driver.FileLines
import RF.Driver.FormatDiff
import RF.Driver.Backup
import RF.Driver.Modules
import RF.Driver.Sort
import RF.Driver.Skip
import RF.Driver.Newline
import RF.Driver.Shape
import RF.Driver.Session
import RF.Driver.Imports
import RF.Driver.Config
import RF.Driver.TokEquiv
import RF.Driver.Idem
import RF.Driver.Literal
import RF.Driver.Comment
import RF.Driver.ParseErrs
import RF.Driver.Lists
import RF.Driver.StringFmt
import RF.Driver.MacroFmt
import RF.Driver.MissedSpans
import RF.Driver.OptRewrites
import RF.Driver.Vertical
import RF.Driver.Budgets
import RF.Driver.Attrs
import RF.Driver.Braces
import RF.Driver.Types
/-!
`rfmodel`: one request per line on stdin, one response per line on stdout.
`?` is printed for a request no handler understands (the harness treats it as a protocol error,
never as agreement).  Nothing is proved about this loop; it only routes lines to the model.
-/

def handlers : List (String → List String → Option String) :=
  [RF.Driver.Diff.handle,
   RF.Driver.CargoFmt.handle,
   RF.Driver.FormatLines.handle,
   RF.Driver.FileLines.handle,
   RF.Driver.FormatDiff.handle,
   RF.Driver.Backup.handle,
   RF.Driver.Modules.handle,
   RF.Driver.Sort.handle,
   RF.Driver.Skip.handle,
   RF.Driver.Newline.handle,
   RF.Driver.Shape.handle,
   RF.Driver.Session.handle,
   RF.Driver.Imports.handle,
   RF.Driver.Config.handle,
   RF.Driver.TokEquiv.handle,
   RF.Driver.Idem.handle,
   RF.Driver.Literal.handle,
   RF.Driver.Comment.handle,
   RF.Driver.ParseErrs.handle,
   RF.Driver.Lists.handle,
   RF.Driver.StringFmt.handle,
   RF.Driver.MacroFmt.handle,
   RF.Driver.MissedSpans.handle,
   RF.Driver.OptRewrites.handle,
   RF.Driver.Vertical.handle,
   RF.Driver.Budgets.handle,
   RF.Driver.Attrs.handle,
   RF.Driver.Braces.handle,
   RF.Driver.Types.handle]

def dispatch (line : String) : String :=
  match (line.trimAscii.toString.splitOn " ").filter (· ≠ "") with
  | [] => "?"
  | op :: args =>
    match handlers.findSome? (fun h => h op args) with
    | some r => r
    | none => "?"

partial def loop (h : IO.FS.Stream) (out : IO.FS.Stream) : IO Unit := do
  let line ← h.getLine
  if line.isEmpty then return ()
  out.putStrLn (dispatch line)
  out.flush
  loop h out

def main : IO Unit := do
  let out ← IO.getStdout
  loop (← IO.getStdin) out
  out.flush
