//! Correspondence of the list machinery of `src/lists.rs` with the Lean models `RF/Model/Lists.lean`
//! (`write_list`, `definitive_tactic`, `needs_trailing_separator`, `total_item_width`), `RF/Model/ListsRc.lean`
//! (`rewrite_comment` under normalize_comments = wrap_comments = false: `identify_comment`,
//! `light_rewrite_comment`, `trim_left_preserve_layout`), `RF/Model/ListsItemize.lean` (`ListItems::next`,
//! `extract_pre_comment`, `extract_post_comment`, `get_comment_end`, `has_extra_newline`) and
//! `RF/Model/ListsStructLit.lean` (`struct_lit_shape`, `struct_lit_tactic`, `shape_for_tactic`,
//! `struct_lit_formatting`); driver `RF/Driver/Lists.lean`, hooks `verif_hooks::list_write`.
//! Plus four Lean oracles that judge the output of the real code (`lists.oracle.content`: the non-blank
//! characters of `write_list`'s result are exactly items, comments and the separators the specification
//! demands, in order; `lists.oracle.items`; `lists.oracle.comments`; `lists.oracle.gaps`: the comments of
//! every gap between list elements are handed on by the itemizer, completely and in order).
//!
//! Domain.  Characters: printable ASCII, blank, tab (indentation) and `\n` (the models count widths and
//! offsets in characters).  Entry points: `cases` (write/tactic/rewriter), `itemize_cases`,
//! `struct_lit_cases`.  Families of `cases`: (a) every formatting (6 tactics x 4 separators x 3 trailing
//! x 2 places x widths x indents x the four flags) on a fixed set of item lists; (b) every list of 0..=3
//! items over a small vocabulary (item strings incl. multi-line ones, pre/post comments in line and block
//! style incl. bare-line block comments, both pre-comment styles, new_lines) on a fixed set of formattings;
//! (c) random larger lists (0..=8 items, generated strings and comments, random shapes).
use rustfmt_nightly::verif_hooks::list_write as hl;
use rustfmt_nightly::Config;

use crate::util::*;

fn guard<T>(f: impl FnOnce() -> T) -> Option<T> {
    std::panic::catch_unwind(std::panic::AssertUnwindSafe(f)).ok()
}

fn enc_opt(s: &Option<String>) -> String {
    match s {
        None => "~".into(),
        Some(s) => enc_str(s),
    }
}

pub fn enc_item(x: &hl::Item) -> String {
    format!("{}:{}:{}:{}:{}", enc_opt(&x.pre_comment), x.pre_comment_style, enc_opt(&x.item), enc_opt(&x.post_comment), x.new_lines as u8)
}

pub fn enc_items(xs: &[hl::Item]) -> String {
    if xs.is_empty() {
        return "_".into();
    }
    xs.iter().map(enc_item).collect::<Vec<_>>().join(";")
}

fn enc_dtactic(t: (u8, usize)) -> String {
    match t.0 {
        0 => "v".into(),
        1 => "h".into(),
        2 => "m".into(),
        _ => format!("s{}", t.1),
    }
}

fn enc_ltactic(t: (u8, usize)) -> String {
    match t.0 {
        0 => "v".into(),
        1 => "h".into(),
        2 => "hv".into(),
        3 => format!("l{}", t.1),
        _ => "m".into(),
    }
}

/// The part of the configuration the model reads.
#[derive(Clone, Copy, Debug, PartialEq, Eq, Hash)]
pub struct Cfg {
    pub hard_tabs: bool,
    pub tab_spaces: usize,
    pub max_width: usize,
}

pub fn mk_config(c: Cfg) -> Config {
    let mut k = Config::default();
    k.set().hard_tabs(c.hard_tabs);
    k.set().tab_spaces(c.tab_spaces);
    k.set().max_width(c.max_width);
    k
}

pub fn enc_fmt(f: &hl::Formatting, c: Cfg) -> String {
    format!(
        "{} {} {} {} {} {} {} {} {} {} {} {} {} {} {} 0",
        enc_dtactic(f.tactic),
        enc_str(&f.separator),
        ["a", "n", "v"][f.trailing_separator as usize],
        ["f", "b"][f.separator_place as usize],
        f.shape.0,
        f.shape.1,
        f.shape.2,
        f.shape.3,
        f.ends_with_newline as u8,
        f.preserve_newline as u8,
        f.nested as u8,
        f.align_comments as u8,
        c.hard_tabs as u8,
        c.tab_spaces,
        c.max_width
    )
}

fn item(pre: Option<&str>, style: u8, it: Option<&str>, post: Option<&str>, nl: bool) -> hl::Item {
    hl::Item { pre_comment: pre.map(|s| s.to_string()), pre_comment_style: if pre.is_some() { style } else { 2 }, item: it.map(|s| s.to_string()), post_comment: post.map(|s| s.to_string()), new_lines: nl }
}

/// Keeps the comments the rewriter model covers (asks the model, batch).
fn supported(cands: &[String]) -> Vec<String> {
    let mut reqs = vec![];
    for c in cands {
        reqs.push(format!("lists.rc {} 0 0 0 4", enc_str(c)));
        reqs.push(format!("lists.rc {} 0 0 0 4", enc_str(c.trim_start())));
    }
    let ans = run_model(&reqs, jobs().min(4));
    cands.iter().enumerate().filter(|(i, _)| ans[2 * i] != "unsupported" && ans[2 * i + 1] != "unsupported" && !ans[2 * i].starts_with('!')).map(|(_, c)| c.clone()).collect()
}

struct Sink<'a> {
    o: &'a mut Outcome,
    desc: &'static str,
    /// one oracle triple every `oracle_every` write cases
    oracle_every: usize,
    n: usize,
}

impl<'a> Sink<'a> {
    fn write(&mut self, items: &[hl::Item], f: &hl::Formatting, c: Cfg, k: &Config) {
        let ei = enc_items(items);
        let ef = enc_fmt(f, c);
        let real = guard(|| hl::write_list(items, f, k));
        let answer = match &real {
            None => "panic".to_string(),
            Some(None) => "err".to_string(),
            Some(Some(s)) => enc_str(s),
        };
        let nontrivial = items.len() > 1 || items.iter().any(|x| x.pre_comment.is_some() || x.post_comment.is_some());
        self.o.count(&format!("lists:write:tactic={}", enc_dtactic((f.tactic.0, 0))));
        self.o.count(&format!("lists:write:items={}", items.len().min(9)));
        match &real {
            None => self.o.count("lists:write:panic"),
            Some(None) => self.o.count("lists:write:err"),
            Some(Some(s)) => {
                if s.contains('\n') {
                    self.o.count("lists:write:multiline-result");
                }
            }
        }
        if items.iter().any(|x| x.post_comment.is_some()) {
            self.o.count("lists:write:with-post-comment");
        }
        if items.iter().any(|x| x.pre_comment.is_some()) {
            self.o.count("lists:write:with-pre-comment");
        }
        self.o.push("corr", "lists.write", format!("lists.write {} {}", ei, ef), answer, self.desc.into(), nontrivial);
        self.n += 1;
        if let Some(Some(out)) = &real {
            if self.n % self.oracle_every == 0 {
                let eo = enc_str(out);
                self.o.push("oracle", "lists.oracle.content", format!("lists.oracle.content {} {} {}", ei, ef, eo), "ok".into(), self.desc.into(), nontrivial);
                self.o.push("oracle", "lists.oracle.items", format!("lists.oracle.items {} {}", ei, eo), "ok".into(), self.desc.into(), nontrivial);
                self.o.push("oracle", "lists.oracle.comments", format!("lists.oracle.comments {} {}", ei, eo), "ok".into(), self.desc.into(), nontrivial);
            }
        }
    }

    fn tactic(&mut self, items: &[hl::Item], t: (u8, usize), sep: u8, width: usize) {
        let r = hl::definitive_tactic(items, t, sep, width);
        self.o.count(&format!("lists:tactic:{}->{}", enc_ltactic((t.0, 0)), enc_dtactic((r.0, 0))));
        self.o.push("corr", "lists.tactic", format!("lists.tactic {} {} {} {}", enc_items(items), enc_ltactic(t), sep, width), enc_dtactic(r), self.desc.into(), !items.is_empty());
    }

    fn total_width(&mut self, items: &[hl::Item]) {
        let r = hl::total_width(items);
        self.o.push("corr", "lists.total_width", format!("lists.total_width {}", enc_items(items)), format!("{}:{}", r.0, r.1), self.desc.into(), !items.is_empty());
    }

    fn rc(&mut self, orig: &str, indent: (usize, usize), c: Cfg, k: &Config) {
        // neither block_style nor the width is read under the default comment options: vary them on the
        // real side only (the model has no such argument to get wrong)
        let bs = self.n % 2 == 0;
        let w = [0usize, 7, 100][self.n % 3];
        self.n += 1;
        let real = guard(|| hl::rewrite_comment(orig, bs, (w, indent.0, indent.1, indent.1), k));
        let answer = match real {
            None => "panic".to_string(),
            Some(None) => "err".to_string(),
            Some(Some(s)) => enc_str(&s),
        };
        self.o.push("corr", "lists.rc", format!("lists.rc {} {} {} {} {}", enc_str(orig), indent.0, indent.1, c.hard_tabs as u8, c.tab_spaces), answer, self.desc.into(), orig.contains('\n'));
    }
}

const ITEM_STRS: &[&str] = &["a", "bbb", "x::y", "", "f(\n    1,\n)", "    z", "q,"];
const PRE_COMMENTS: &[&str] = &["/* p */", "// p", "// p\n// pp", "", "/* p\n * pp */", "  /* sp */", "/* p */ // pp", "/* p\n     bare\n   */"];
const POST_COMMENTS: &[&str] = &["// q", "/* q */", "\n// nq", "/* q\n * qq */", "", " // sq", "// a long trailing comment", "/* q */ // qq", "/* q */\n/* qq */", "/* q\n  bare */"];
const SEPARATORS: &[&str] = &[",", " |", "", ";"];

fn all_formattings(full: bool) -> Vec<hl::Formatting> {
    let mut v = vec![];
    let tactics: &[(u8, usize)] = &[(0, 0), (1, 0), (2, 0), (3, 0), (3, 1), (3, 2)];
    let shapes: &[(usize, usize, usize, usize)] = if full { &[(100, 0, 0, 0), (12, 4, 0, 0), (0, 4, 2, 2), (30, 8, 1, 5), (5, 0, 0, 0)] } else { &[(100, 0, 0, 0), (12, 4, 0, 0), (0, 4, 2, 2)] };
    for &tactic in tactics {
        for sep in SEPARATORS {
            for trailing in 0..3u8 {
                for place in 0..2u8 {
                    for &shape in shapes {
                        for flags in 0..16u8 {
                            v.push(hl::Formatting {
                                tactic,
                                separator: sep.to_string(),
                                trailing_separator: trailing,
                                separator_place: place,
                                shape,
                                ends_with_newline: flags & 1 != 0,
                                preserve_newline: flags & 2 != 0,
                                nested: flags & 4 != 0,
                                align_comments: flags & 8 != 0,
                            });
                        }
                    }
                }
            }
        }
    }
    v
}

/// A fixed set of formattings for the exhaustive item lists: every tactic and separator place, both
/// comma and a non-comma separator, narrow and wide.
fn few_formattings() -> Vec<hl::Formatting> {
    let mut v = vec![];
    let mut n = 0u32;
    for &tactic in &[(0u8, 0usize), (1, 0), (2, 0), (3, 1)] {
        for (sep, place) in [(",", 1u8), (" |", 0), ("", 1)] {
            for &shape in &[(100usize, 4usize, 0usize, 0usize), (9, 4, 2, 2)] {
                n += 1;
                // the flags and the trailing tactic rotate so that every value meets every tactic
                v.push(hl::Formatting {
                    tactic,
                    separator: sep.to_string(),
                    trailing_separator: (n % 3) as u8,
                    separator_place: place,
                    shape,
                    ends_with_newline: n % 2 == 0,
                    preserve_newline: (n / 2) % 2 == 0,
                    nested: (n / 3) % 2 == 0,
                    align_comments: (n / 5) % 2 == 0 || tactic.0 == 0,
                });
            }
        }
    }
    v
}

fn fixed_item_lists() -> Vec<Vec<hl::Item>> {
    let s = Some;
    vec![
        vec![],
        vec![item(None, 2, s("a"), None, false)],
        vec![item(None, 2, s(""), None, false)],
        vec![item(None, 2, s("a"), None, false), item(None, 2, s("bbb"), None, true), item(None, 2, s("c"), None, false)],
        vec![item(s("/* p */"), 0, s("a"), s("// q"), false), item(None, 2, s("bbb"), s("// r"), false)],
        vec![item(s("// p"), 1, s("a"), None, true), item(s("/* p */"), 1, s("b"), s("/* q */"), false), item(None, 2, s("c"), s("// last"), false)],
        vec![item(None, 2, s("a"), s("// q"), false), item(None, 2, s("bbbbbb"), s("// r"), false), item(None, 2, s("cc"), s("// s"), false)],
        vec![item(None, 2, s("x::y"), None, false), item(None, 2, s("z"), None, false), item(None, 2, s("u::v"), s("/* w */"), false), item(None, 2, s("t"), None, false)],
        vec![item(None, 2, s("f(\n    1,\n)"), s("// q"), false), item(s("// p\n// pp"), 1, s("b"), s("\n// nq"), true), item(None, 2, s(""), None, false)],
        vec![item(None, 2, s(""), None, false), item(None, 2, s("b"), None, false)],
        vec![item(None, 2, s("a"), None, false), item(None, 2, s(""), None, false)],
        vec![item(s(""), 0, s(""), s("// only"), false), item(s("/* only */"), 0, s(""), None, false)],
        vec![item(None, 2, s("a"), s("/* q\n * qq */"), false), item(None, 2, s("b"), s("// a long trailing comment"), false)],
        vec![item(None, 2, s("a"), None, false), item(None, 2, None, None, false)],
        vec![item(None, 2, s("aaaa"), None, false), item(None, 2, s("bbbb"), None, false), item(None, 2, s("cccc"), None, false), item(None, 2, s("dddd"), None, false), item(None, 2, s("eeee"), None, false)],
        vec![item(None, 2, s("    z"), s("// q"), false), item(None, 2, s("y"), s("// r"), true), item(None, 2, s("x"), s("// s"), false)],
    ]
}

/// Every item over the vocabulary (`level` 2: the full vocabulary, 1: a reduced one).
fn item_universe(level: u8) -> Vec<hl::Item> {
    let (strs, pres, posts): (&[&str], &[&str], &[&str]) = if level >= 2 { (ITEM_STRS, PRE_COMMENTS, POST_COMMENTS) } else { (&ITEM_STRS[..5], &PRE_COMMENTS[..3], &POST_COMMENTS[..4]) };
    let mut v = vec![];
    for s in strs {
        for pre in std::iter::once(None).chain(pres.iter().map(|p| Some(*p))) {
            for style in 0..2u8 {
                if pre.is_none() && style == 1 {
                    continue;
                }
                for post in std::iter::once(None).chain(posts.iter().map(|p| Some(*p))) {
                    for nl in [false, true] {
                        if level < 2 && nl && pre.is_some() {
                            continue;
                        }
                        v.push(item(pre, style, Some(s), post, nl));
                    }
                }
            }
        }
    }
    v
}

fn rand_word(rng: &mut Rng) -> String {
    let n = rng.range(1, 6);
    (0..n).map(|_| (b'a' + rng.below(26) as u8) as char).collect()
}

fn rand_item_str(rng: &mut Rng) -> String {
    match rng.below(12) {
        0 => String::new(),
        1 => format!("{}::{}", rand_word(rng), rand_word(rng)),
        2 => format!("{}(\n    {},\n)", rand_word(rng), rand_word(rng)),
        3 => format!("{}: {}", rand_word(rng), rand_word(rng)),
        4 => format!("    {}", rand_word(rng)),
        5 => format!("{} {{\n        {}\n    }}", rand_word(rng), rand_word(rng)),
        6 => (0..rng.range(1, 4)).map(|_| rand_word(rng)).collect::<Vec<_>>().join(" "),
        7 => format!("{}\n", rand_word(rng)),
        8 => (0..rng.range(10, 40)).map(|_| 'w').collect(),
        _ => rand_word(rng),
    }
}

fn rand_ws(rng: &mut Rng) -> &'static str {
    ["", "", "", " ", "  ", "\n", "\n  ", " \n"][rng.below(8)]
}

fn rand_comment(rng: &mut Rng) -> String {
    let words = |rng: &mut Rng| (0..rng.range(0, 4)).map(|_| rand_word(rng)).collect::<Vec<_>>().join(" ");
    let body = match rng.below(15) {
        0 => format!("// {}", words(rng)),
        1 => format!("/* {} */", words(rng)),
        2 => format!("// {}\n// {}", words(rng), words(rng)),
        3 => format!("/* {}\n * {} */", words(rng), words(rng)),
        4 => format!("/* {}\n   * {}\n */", words(rng), words(rng)),
        5 => format!("/// {}\n// {}", words(rng), words(rng)),
        6 => format!("// {}\n\n// {}", words(rng), words(rng)),
        7 => format!("//{}", words(rng)),
        8 => format!("/** {} */ // {}", words(rng), words(rng)),
        9 => format!("/* {} */\n/* {} */", words(rng), words(rng)),
        10 => format!("//- {}\n    //- {}", words(rng), words(rng)),
        11 => format!("/* {}\n    {}\n      {}\n */", words(rng), words(rng), words(rng)),
        12 => format!("/*\n{}\n\t{}\n  */ // {}", words(rng), words(rng), words(rng)),
        13 => format!("/* {}\n\n{} */\n/* {}\n   {} */", words(rng), words(rng), words(rng), words(rng)),
        _ => format!("// {}", (0..rng.range(10, 60)).map(|_| 'c').collect::<String>()),
    };
    format!("{}{}{}", rand_ws(rng), body, rand_ws(rng))
}

pub fn cases(o: &mut Outcome, rng: &mut Rng, thorough: bool) {
    let t0 = std::time::Instant::now();
    let base = Cfg { hard_tabs: false, tab_spaces: 4, max_width: 100 };
    let cfgs = [base, Cfg { hard_tabs: false, tab_spaces: 4, max_width: 24 }, Cfg { hard_tabs: true, tab_spaces: 4, max_width: 100 }, Cfg { hard_tabs: true, tab_spaces: 3, max_width: 40 }];
    let configs: Vec<Config> = cfgs.iter().map(|c| mk_config(*c)).collect();

    // the vocabulary must lie inside the rewriter model
    let vocab: Vec<String> = PRE_COMMENTS.iter().chain(POST_COMMENTS.iter()).map(|s| s.to_string()).collect();
    let ok = supported(&vocab);
    if ok.len() != vocab.len() {
        o.direct_failures.push(serde_json::json!({"sig": "lists:vocabulary-unsupported", "detail": format!("{} of {} comments of the fixed vocabulary are outside the rewriter model", vocab.len() - ok.len(), vocab.len())}));
    }

    let mut k = Sink { o, desc: "exhaustive", oracle_every: 1, n: 0 };

    // (0) the comment rewriter on the vocabulary, every indent below 6x6, both tab settings
    for c in &vocab {
        for (ci, cfg) in cfgs.iter().enumerate() {
            for b in [0usize, 3, 4, 8] {
                for a in 0..=5usize {
                    k.rc(c, (b, a), *cfg, &configs[ci]);
                    k.rc(c.trim_start(), (b, a), *cfg, &configs[ci]);
                }
            }
        }
    }

    // (a) every formatting on the fixed item lists
    let fixed = fixed_item_lists();
    let fmts = all_formattings(thorough);
    k.oracle_every = if thorough { 2 } else { 6 };
    for f in &fmts {
        for (li, items) in fixed.iter().enumerate() {
            // the second configuration (narrow page) on a rotating third of the lists in quick
            k.write(items, f, base, &configs[0]);
            if thorough || li % 3 == (f.shape.0 % 3) {
                k.write(items, f, cfgs[1], &configs[1]);
            }
            if thorough && li % 2 == 0 {
                k.write(items, f, cfgs[2], &configs[2]);
            }
        }
    }

    // (b) every small item list on the fixed formattings
    let few = few_formattings();
    let u2 = item_universe(2);
    let u1 = item_universe(1);
    k.oracle_every = if thorough { 3 } else { 12 };
    for (fi, f) in few.iter().enumerate() {
        for (xi, x) in u2.iter().enumerate() {
            k.write(std::slice::from_ref(x), f, base, &configs[0]);
            if thorough || (xi + fi) % 2 == 0 {
                k.write(std::slice::from_ref(x), f, cfgs[3], &configs[3]);
            }
        }
    }
    // two items: the reduced universe squared
    let pair_f: Vec<&hl::Formatting> = few.iter().step_by(if thorough { 1 } else { 6 }).collect();
    for f in &pair_f {
        for x in &u1 {
            for y in &u1 {
                k.write(&[x.clone(), y.clone()], f, base, &configs[0]);
            }
        }
    }
    // three items over the reduced universe thinned to the shapes that interact (post-comments, multi-line, empty)
    let tri: Vec<hl::Item> = u1.iter().filter(|x| !x.new_lines || x.post_comment.is_some()).step_by(if thorough { 4 } else { 8 }).cloned().collect();
    for f in few.iter().skip(1).step_by(if thorough { 4 } else { 8 }) {
        for x in &tri {
            for y in &tri {
                for z in &tri {
                    k.write(&[x.clone(), y.clone(), z.clone()], f, base, &configs[0]);
                }
            }
        }
    }

    // definitive_tactic / total width: lists of 1 and 2 items x tactics x widths around the measured width
    for x in u2.iter().step_by(if thorough { 1 } else { 2 }) {
        k.total_width(std::slice::from_ref(x));
        let tw = hl::total_width(std::slice::from_ref(x)).1;
        for t in [(0u8, 0usize), (1, 0), (2, 0), (3, 0), (3, 5), (3, 200), (4, 0)] {
            for sep in 0..2u8 {
                for w in [0usize, tw.saturating_sub(1), tw, tw + 1, 5, 100] {
                    k.tactic(std::slice::from_ref(x), t, sep, w);
                }
            }
        }
    }
    for x in u1.iter() {
        for y in u1.iter().step_by(if thorough { 2 } else { 10 }) {
            let items = [x.clone(), y.clone()];
            k.total_width(&items);
            let tw = hl::total_width(&items).1;
            for t in [(2u8, 0usize), (3, 9), (4, 0)] {
                for sep in 0..2u8 {
                    // the boundary: total + one separator (2 or 3 columns)
                    for w in [tw, tw + 1, tw + 2, tw + 3, 9, 40] {
                        k.tactic(&items, t, sep, w);
                    }
                }
            }
        }
    }
    // needs_trailing_separator: the whole table
    for t in [(0u8, 0usize), (1, 0), (2, 0), (3, 0), (3, 4)] {
        for trailing in 0..3u8 {
            for place in 0..2u8 {
                let f = hl::Formatting { tactic: t, separator: ",".into(), trailing_separator: trailing, separator_place: place, shape: (10, 0, 0, 0), ends_with_newline: true, preserve_newline: false, nested: false, align_comments: true };
                let r = hl::needs_trailing_separator(&f, &configs[0]);
                k.o.push("corr", "lists.needs_trailing", format!("lists.needs_trailing {} {} {}", enc_dtactic(t), ["a", "n", "v"][trailing as usize], ["f", "b"][place as usize]), (r as u8).to_string(), "exhaustive".into(), true);
            }
        }
    }
    k.o.count_n("lists:exhaustive-ms", t0.elapsed().as_millis() as u64);

    // (c) random larger cases
    k.desc = "random";
    k.oracle_every = 2;
    let n_cand = if thorough { 6000 } else { 1500 };
    let cands: Vec<String> = (0..n_cand).map(|_| rand_comment(rng)).collect();
    let comments = supported(&cands);
    k.o.count_n("lists:random-comments-supported", comments.len() as u64);
    k.o.count_n("lists:random-comments-unsupported", (cands.len() - comments.len()) as u64);
    for (i, c) in comments.iter().enumerate() {
        let cfg_i = i % cfgs.len();
        k.rc(c, (rng.below(3) * 4, rng.below(7)), cfgs[cfg_i], &configs[cfg_i]);
    }
    let n_rand = if thorough { 200_000 } else { 20_000 };
    for _ in 0..n_rand {
        let n = match rng.below(10) { 0 => 0, 1 => 1, 2 | 3 => 2, 4 | 5 => 3, 6 => 4, 7 => 5, 8 => 6, _ => rng.range(7, 8) };
        let mut items = vec![];
        for _ in 0..n {
            let pre = if !comments.is_empty() && rng.chance(1, 4) { Some(rng.pick(&comments).clone()) } else { None };
            let post = if !comments.is_empty() && rng.chance(2, 5) { Some(rng.pick(&comments).clone()) } else { None };
            let style = if pre.is_some() { rng.below(2) as u8 } else { 2 };
            // a failed item now and then (the error branch)
            let it = if rng.chance(1, 60) { None } else { Some(rand_item_str(rng)) };
            items.push(hl::Item { pre_comment: pre, pre_comment_style: style, item: it, post_comment: post, new_lines: rng.chance(1, 4) });
        }
        let tactic = match rng.below(8) { 0 | 1 | 2 => (0u8, 0usize), 3 | 4 => (1, 0), 5 | 6 => (2, 0), _ => (3, rng.below(4)) };
        let sep = *rng.pick(&[",", ",", ",", " |", "", ";", " +", "::"]);
        let indent_b = rng.below(4) * 4;
        let indent_a = if rng.chance(1, 3) { rng.below(9) } else { 0 };
        let width = match rng.below(4) { 0 => rng.below(12), 1 => rng.range(12, 40), 2 => rng.range(40, 100), _ => 100usize.saturating_sub(indent_b + indent_a) };
        let f = hl::Formatting {
            tactic,
            separator: sep.to_string(),
            trailing_separator: rng.below(3) as u8,
            separator_place: if rng.chance(1, 4) { 0 } else { 1 },
            shape: (width, indent_b, indent_a, indent_a),
            ends_with_newline: rng.chance(1, 2),
            preserve_newline: rng.chance(1, 2),
            nested: rng.chance(1, 4),
            align_comments: rng.chance(3, 4),
        };
        let ci = rng.below(cfgs.len());
        k.write(&items, &f, cfgs[ci], &configs[ci]);
        if rng.chance(1, 3) {
            let t = match rng.below(6) { 0 => (0u8, 0usize), 1 => (1, 0), 2 => (2, 0), 3 => (3, rng.below(60)), _ => (4, 0) };
            let w = if rng.chance(1, 2) { hl::total_width(&items).1 + rng.below(12) } else { rng.below(120) };
            k.tactic(&items, t, rng.below(2) as u8, w.saturating_sub(rng.below(6)));
            k.total_width(&items);
        }
    }
    k.o.count_n("lists:total-ms", t0.elapsed().as_millis() as u64);
    k.o.notes.push("lists: rewrite_comment is a parameter of the write_list model; the driver plugs in the model of identify_comment for normalize_comments = wrap_comments = false (RF/Model/ListsRc.lean), compared with the real rewrite_comment by `lists.rc`; comments outside it (block comment with a bare line) are filtered out by asking the model first".into());
}


// ---------------------------------------------------------------------------------------------
// The itemizing half: `ListItems::next` and the four string functions it calls.

const GAP_PIECES: &[&str] = &[" ", "\n", ",", "/* c */", "// d\n", "\n\n", "/* a, b */", "// x, y\n", "/* m\n * n */", "    ", "/** e */", "/* /* f */ */", "/*,*/", "//g"];

fn enc_src(src: &[(Option<String>, String)]) -> String {
    if src.is_empty() {
        return "_".into();
    }
    src.iter().map(|(it, post)| format!("{}|{}", enc_opt(it), enc_str(post))).collect::<Vec<_>>().join(";")
}

fn enc_items_out(xs: Option<Vec<hl::Item>>) -> String {
    match xs {
        None => "panic".into(),
        Some(v) => enc_items(&v),
    }
}

/// One list given as its first pre-snippet and (item string, post-snippet) pairs: runs the real
/// `itemize_list` on the concatenated text and pushes the correspondence and the gap oracle.
fn itemize_case(o: &mut Outcome, desc: &'static str, sep: &str, term: &str, leave_last: bool, first_pre: &str, src: &[(Option<String>, String)], oracle: bool) {
    // the source text: first_pre item1 post1 item2 post2 ...; the item texts themselves are irrelevant to the
    // iterator (it reads the gaps only): `x<k>`
    let mut text = String::from(first_pre);
    let mut spans = vec![];
    for (k, (it, post)) in src.iter().enumerate() {
        let lo = text.len();
        text.push_str(&format!("x{}", k));
        spans.push((lo, text.len(), it.clone()));
        text.push_str(post);
    }
    let end = text.len();
    let real = guard(|| hl::itemize(&text, &spans, term, sep, 0, end, leave_last));
    let nontrivial = src.len() > 1 || src.iter().any(|(_, p)| p.contains('/'));
    o.count(&format!("lists:itemize:items={}", src.len().min(9)));
    if real.is_none() {
        o.count("lists:itemize:panic");
        o.sample(serde_json::json!({"itemize-panic": {"sep": sep, "term": term, "first_pre": first_pre, "src": src.iter().map(|(_, p)| p.clone()).collect::<Vec<_>>()}}));
    }
    let req = format!("lists.itemize {} {} {} {} {}", enc_str(sep), enc_str(term), leave_last as u8, enc_str(first_pre), enc_src(src));
    let answer = enc_items_out(real.clone());
    if oracle && !src.is_empty() {
        if let Some(items) = &real {
            let req = format!("lists.oracle.gaps {} {} {} {}", enc_str(term), enc_str(first_pre), enc_src(src), enc_items(items));
            if let Ok(path) = std::env::var("LISTS_DUMP") {
                use std::io::Write;
                if let Ok(mut f) = std::fs::OpenOptions::new().create(true).append(true).open(path) {
                    let _ = writeln!(f, "{}", req);
                }
            }
            o.push("oracle", "lists.oracle.gaps", req, "ok".into(), desc.into(), nontrivial);
        }
    }
    o.push("corr", "lists.itemize", req, answer, desc.into(), nontrivial);
}

/// The four string functions on one snippet.
fn snippet_ops(o: &mut Outcome, desc: &'static str, post: &str, sep: &str, term: &str) {
    for is_last in [false, true] {
        let ce = guard(|| hl::get_comment_end(post, sep, term, is_last));
        o.push("corr", "lists.comment_end", format!("lists.comment_end {} {} {} {}", enc_str(post), enc_str(sep), enc_str(term), is_last as u8), ce.map(|n| n.to_string()).unwrap_or_else(|| "panic".into()), desc.into(), post.contains('/'));
        if let Some(ce) = ce {
            let ep = guard(|| hl::extract_post_comment(post, ce, sep, is_last));
            o.push("corr", "lists.extract_post", format!("lists.extract_post {} {} {} {}", enc_str(post), ce, enc_str(sep), is_last as u8), ep.map(|x| enc_opt(&x)).unwrap_or_else(|| "panic".into()), desc.into(), post.contains('/'));
            let en = guard(|| hl::has_extra_newline(post, ce));
            o.push("corr", "lists.extra_newline", format!("lists.extra_newline {} {}", enc_str(post), ce), en.map(|b| (b as u8).to_string()).unwrap_or_else(|| "panic".into()), desc.into(), post.contains('\n'));
            if ce <= post.len() {
                let pre = &post[ce..];
                let r = guard(|| hl::extract_pre_comment(pre));
                o.push("corr", "lists.extract_pre", format!("lists.extract_pre {}", enc_str(pre)), r.map(|(c, st)| format!("{}:{}", enc_opt(&c), st)).unwrap_or_else(|| "panic".into()), desc.into(), pre.contains('/'));
            }
        }
    }
    let r = guard(|| hl::extract_pre_comment(post));
    o.push("corr", "lists.extract_pre", format!("lists.extract_pre {}", enc_str(post)), r.map(|(c, st)| format!("{}:{}", enc_opt(&c), st)).unwrap_or_else(|| "panic".into()), desc.into(), post.contains('/'));
}

fn all_gaps(max_len: usize, alphabet: usize) -> Vec<String> {
    let mut res = vec![String::new()];
    let mut level = vec![String::new()];
    for _ in 0..max_len {
        let mut next = vec![];
        for g in &level {
            for p in &GAP_PIECES[..alphabet] {
                next.push(format!("{}{}", g, p));
            }
        }
        res.extend(next.iter().cloned());
        level = next;
    }
    res
}

/// Is the gap "clean": outside its comments it holds blanks and exactly one separator?  (What a
/// well-formed source has between two list items.)  Judged with rustfmt's own comment scanner.
fn clean_gap(gap: &str, sep: &str, want_sep: usize) -> bool {
    let kinds: Vec<char> = rustfmt_nightly::verif_hooks::comment::char_classes(gap).chars().collect();
    let chars: Vec<char> = gap.chars().collect();
    if kinds.iter().any(|k| !matches!(k, 'N' | 'S' | 'C' | 'E')) || sep.trim().is_empty() {
        return false;
    }
    // a line comment must be closed by a newline inside the gap (otherwise it would swallow what follows)
    let last_nl = chars.iter().rposition(|c| *c == '\n').map(|p| p + 1).unwrap_or(0);
    for p in last_nl..chars.len() {
        if kinds[p] == 'S' && chars[p] == '/' && chars.get(p + 1) == Some(&'/') {
            return false;
        }
    }
    // known finding LW1: a line comment whose text ends with the separator (see `probes`)
    for line in gap.lines() {
        if line.contains("//") && line.trim_end().ends_with(sep.trim()) {
            return false;
        }
    }
    let code: String = chars.iter().zip(kinds.iter()).filter(|(_, k)| **k == 'N').map(|(c, _)| *c).collect();
    let bare = code.replace(sep.trim(), "");
    bare.chars().all(|c| c.is_whitespace()) && code.matches(sep.trim()).count() == want_sep
}

pub fn itemize_cases(o: &mut Outcome, rng: &mut Rng, thorough: bool) {
    let t0 = std::time::Instant::now();
    let s = |x: &str| Some(x.to_string());
    // every gap of up to 3 (thorough: 4) pieces over the first 9 pieces
    let gaps = all_gaps(if thorough { 4 } else { 3 }, if thorough { 9 } else { 8 });
    for g in &gaps {
        snippet_ops(o, "exhaustive", g, ",", ")");
        // between two items; as the last gap; in front of the first item
        itemize_case(o, "exhaustive", ",", ")", false, "", &[(s("a"), g.clone()), (s("b"), String::new())], clean_gap(g, ",", 1));
        itemize_case(o, "exhaustive", ",", ")", false, "", &[(s("a"), ", ".into()), (s("b"), g.clone())], clean_gap(g, ",", 1) || clean_gap(g, ",", 0));
        if !g.contains(',') {
            itemize_case(o, "exhaustive", ",", ")", false, g, &[(s("a"), String::new())], clean_gap(g, ",", 0));
        }
    }
    o.count_n("lists:itemize-exhaustive-ms", t0.elapsed().as_millis() as u64);
    // random: longer gaps over the whole alphabet, other separators, 0..=5 items, leave_last, failed items
    let n = if thorough { 60_000 } else { 8_000 };
    for _ in 0..n {
        let sep = *rng.pick(&[",", ",", ",", ";", "|", "+"]);
        let term = *rng.pick(&[")", "}", "|", ">"]);
        let gap = |rng: &mut Rng, with_sep: bool| -> String {
            let k = rng.below(6);
            let at = rng.below(k + 1);
            let mut g = String::new();
            for i in 0..=k {
                if i == at && with_sep {
                    g.push_str(sep.trim());
                }
                if i < k {
                    let p = *rng.pick(GAP_PIECES);
                    // the alphabet's own separator piece would make a second separator
                    g.push_str(if p == "," { " " } else { p });
                }
            }
            g
        };
        let n_items = rng.below(6);
        let first_pre = gap(rng, false);
        let mut src = vec![];
        for k in 0..n_items {
            let last = k + 1 == n_items;
            let ws = if last { rng.chance(1, 2) } else { !rng.chance(1, 12) };
            let g = gap(rng, ws);
            let it = if rng.chance(1, 40) { None } else { Some(format!("i{}", k)) };
            src.push((it, g));
        }
        let all_clean = clean_gap(&first_pre, sep, 0) && src.iter().enumerate().all(|(k, (_, g))| if k + 1 == n_items { clean_gap(g, sep, 0) || clean_gap(g, sep, 1) } else { clean_gap(g, sep, 1) });
        if all_clean {
            o.count("lists:itemize:random-clean");
        }
        itemize_case(o, "random", sep, term, rng.chance(1, 10), &first_pre, &src, all_clean);
        if rng.chance(1, 4) {
            let ws = rng.chance(2, 3);
            let g = gap(rng, ws);
            snippet_ops(o, "random", &g, sep, term);
        }
    }
    o.count_n("lists:itemize-total-ms", t0.elapsed().as_millis() as u64);

    // enumerated probe of the one shape known dirty on the pinned tree (seed-independent)
    let probe_src = vec![(s("a"), ", ".to_string()), (s("b"), " /* y */ // last,\n".to_string())];
    let mut text = String::new();
    let mut spans = vec![];
    for (k, (it, post)) in probe_src.iter().enumerate() {
        let lo = text.len();
        text.push_str(&format!("x{}", k));
        spans.push((lo, text.len(), it.clone()));
        text.push_str(post);
    }
    let end = text.len();
    let real = guard(|| hl::itemize(&text, &spans, ")", ",", 0, end, false)).unwrap_or_default();
    let req = format!("lists.oracle.gaps {} {} {} {}", enc_str(")"), enc_str(""), enc_src(&probe_src), enc_items(&real));
    let ans = run_model(&[req], 1);
    let post = real.get(1).and_then(|x| x.post_comment.clone()).unwrap_or_default();
    o.probes.push(serde_json::json!({"id": "LW1", "fails": ans[0] != "ok", "what": "the last item of a list followed by a block comment and then a line comment whose text ends with the list separator (`b /* y */ // last,` without a separator after `b`): extract_post_comment takes the comment's final `,` for the trailing separator and strips it (lists.rs:644-647 tests `ends_with(separator)` on the text, not on the code): the comment loses a character", "detail": format!("post_comment = {:?}, oracle = {}", post, ans[0])}));
}


// ---------------------------------------------------------------------------------------------
// The struct-literal helpers: struct_lit_shape, struct_lit_tactic, shape_for_tactic, struct_lit_formatting.

fn enc_shape(x: (usize, usize, usize, usize)) -> String {
    format!("{}:{}:{}:{}", x.0, x.1, x.2, x.3)
}
fn enc_oshape(x: Option<(usize, usize, usize, usize)>) -> String {
    x.map(enc_shape).unwrap_or_else(|| "none".into())
}

pub fn struct_lit_cases(o: &mut Outcome, rng: &mut Rng, thorough: bool) {
    let t0 = std::time::Instant::now();
    let mk = |visual: bool, ts: usize, mw: usize, slw: usize, single: bool, tc: u8| -> Config {
        let mut k = Config::default();
        k.override_value("indent_style", if visual { "Visual" } else { "Block" });
        k.override_value("tab_spaces", &ts.to_string());
        k.override_value("max_width", &mw.to_string());
        k.override_value("struct_lit_width", &slw.to_string());
        k.override_value("struct_lit_single_line", if single { "true" } else { "false" });
        k.override_value("trailing_comma", ["Always", "Never", "Vertical"][tc as usize]);
        k
    };
    // struct_lit_shape: small numbers exhaustively (the arithmetic), both indent styles
    let n = if thorough { 6 } else { 4 };
    for visual in [false, true] {
        for ts in [0usize, 4] {
            for (mw, slw) in [(10usize, 3usize), (6, 6), (100, 18)] {
                let k = mk(visual, ts, mw, slw, true, 2);
                for w in 0..=n {
                    for b in 0..=2 {
                        for a in 0..=2 {
                            for off in 0..=2 {
                                for pw in 0..=n {
                                    for sw in 0..=2 {
                                        let s = (w * 2, b * 4, a, off * 3);
                                        let r = hl::struct_lit_shape(s, &k, pw, sw);
                                        let ans = match r {
                                            None => "nocontext".to_string(),
                                            Some(Err(e)) => format!("err:{}", e),
                                            Some(Ok((h, v))) => format!("{}/{}", enc_oshape(h), enc_shape(v)),
                                        };
                                        o.push("corr", "lists.sl_shape", format!("lists.sl_shape {} {} {} {} {} {} {} {} {} {}", s.0, s.1, s.2, s.3, pw, sw, if visual { "v" } else { "b" }, k.tab_spaces(), k.max_width(), k.struct_lit_width()), ans, "exhaustive".into(), true);
                                    }
                                }
                            }
                        }
                    }
                }
            }
        }
    }
    // struct_lit_tactic on the fixed lists and singles, shape_for_tactic, struct_lit_formatting
    let lists: Vec<Vec<hl::Item>> = fixed_item_lists().into_iter().chain(item_universe(1).into_iter().step_by(3).map(|x| vec![x])).collect();
    for visual in [false, true] {
        for single in [false, true] {
            let k = mk(visual, 4, 100, 18, single, 2);
            for items in &lists {
                let tw = hl::total_width(items).1;
                for h in [None, Some((0usize, 4usize, 0usize, 0usize)), Some((tw.saturating_sub(1), 4, 0, 0)), Some((tw + 2 * items.len(), 4, 0, 0)), Some((18, 0, 2, 2))] {
                    let r = hl::struct_lit_tactic(h, &k, items);
                    o.push("corr", "lists.sl_tactic", format!("lists.sl_tactic {} {} {} {}", enc_oshape(h), if visual { "v" } else { "b" }, single as u8, enc_items(items)), r.map(enc_dtactic).unwrap_or_else(|| "nocontext".into()), "exhaustive".into(), !items.is_empty());
                }
            }
        }
    }
    for t in [(0u8, 0usize), (1, 0), (2, 0), (3, 2)] {
        for h in [None, Some((7usize, 4usize, 1usize, 2usize))] {
            let v = (30usize, 8usize, 0usize, 0usize);
            let r = guard(|| hl::shape_for_tactic(t, h, v));
            o.push("corr", "lists.shape_for_tactic", format!("lists.shape_for_tactic {} {} {}", enc_dtactic(t), enc_oshape(h), enc_shape(v)), r.map(enc_shape).unwrap_or_else(|| "panic".into()), "exhaustive".into(), true);
        }
        for visual in [false, true] {
            for tc in 0..3u8 {
                for force in [false, true] {
                    let k = mk(visual, 4, 100, 18, true, tc);
                    let s = (20usize, 4usize, 1usize, 3usize);
                    let r = hl::struct_lit_formatting(s, t, &k, force);
                    let ans = r.map(|f| format!("{}|{}|{}|{}|{}|{}|{}|{}|{}", enc_dtactic(f.tactic), enc_str(&f.separator), ["a", "n", "v"][f.trailing_separator as usize], ["f", "b"][f.separator_place as usize], enc_shape(f.shape), f.ends_with_newline as u8, f.preserve_newline as u8, f.nested as u8, f.align_comments as u8)).unwrap_or_else(|| "nocontext".into());
                    o.push("corr", "lists.sl_formatting", format!("lists.sl_formatting {} {} {} {} {}", enc_shape(s), enc_dtactic(t), if visual { "v" } else { "b" }, ["a", "n", "v"][tc as usize], force as u8), ans, "exhaustive".into(), true);
                }
            }
        }
    }
    // random larger numbers for the shape arithmetic
    for _ in 0..(if thorough { 20000 } else { 2000 }) {
        let visual = rng.chance(1, 2);
        let (ts, mw) = (rng.below(9), rng.below(140));
        let slw = rng.below(mw.min(40) + 1);
        let k = mk(visual, ts, mw, slw, true, 2);
        let s = (rng.below(120), rng.below(5) * 4, rng.below(12), rng.below(30));
        let (pw, sw) = (rng.below(s.0 + 6), rng.below(6));
        let r = hl::struct_lit_shape(s, &k, pw, sw);
        let ans = match r {
            None => "nocontext".to_string(),
            Some(Err(e)) => format!("err:{}", e),
            Some(Ok((h, v))) => format!("{}/{}", enc_oshape(h), enc_shape(v)),
        };
        o.push("corr", "lists.sl_shape", format!("lists.sl_shape {} {} {} {} {} {} {} {} {} {}", s.0, s.1, s.2, s.3, pw, sw, if visual { "v" } else { "b" }, k.tab_spaces(), k.max_width(), k.struct_lit_width()), ans, "random".into(), true);
    }
    o.count_n("lists:struct-lit-ms", t0.elapsed().as_millis() as u64);
}

/// Standalone: `rfverif lists --tier quick|thorough --seed N --out DIR`
pub fn run(tier: &str, seed: u64, out: &std::path::Path) -> i32 {
    let mut o = Outcome::new("LISTS", tier, seed);
    let mut rng = Rng::new(seed);
    let prev = std::panic::take_hook();
    std::panic::set_hook(Box::new(|_| {}));
    cases(&mut o, &mut rng, tier == "thorough");
    if std::env::var("LISTS_ITEMIZE").map(|v| v != "0").unwrap_or(true) {
        itemize_cases(&mut o, &mut rng, tier == "thorough");
        struct_lit_cases(&mut o, &mut rng, tier == "thorough");
    }
    std::panic::set_hook(prev);
    o.finish(out, jobs())
}
