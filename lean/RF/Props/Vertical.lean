import RF.Lemmas.Vertical
import RF.Props.Lists
/-!
# The alignment machinery (`src/vertical.rs`) under `struct_field_align_threshold`

Mechanism behind C01 (every field is written once, in order), C03 (the comments `itemize_list` attached to
the fields are written back — also by the ONE-LINE pass) and C02 (the alignment groups of the result are the
groups of the source).  The theorems are about `RF.Vertical.rewriteWithAlignment` /
`rewriteAlignedItemsInner` / `groupAlignedItems` (`RF/Model/Vertical.lean`, tied to the code by the
correspondences `vert.groups`, `vert.rewrite`, `vert.blank`, `vert.gaps`), for ALL field lists, on top of the
theorems about the list machinery (`RF/Props/Lists.lean`).
-/
namespace RF.Props.Vertical
open RF.Lists RF.Shape RF.Vertical RF.Lemmas.Lists RF.Lemmas.Vertical RF.Props.Lists

private def fA : Field := ⟨false, some 2, "a:".toList, " ".toList, 2, "u8".toList, true, ",\n    ".toList⟩
private def fB : Field := ⟨false, some 7, "bbbbbb:".toList, " ".toList, 7, "u16".toList, true, ",\n\n    ".toList⟩
private def fC : Field := ⟨false, some 3, "cc:".toList, " ".toList, 3, "u32".toList, true, ", // k\n}".toList⟩
private def cfg20 : VConfig := ⟨20, .vertical, ⟨false, 4, 100, 80⟩⟩

/-! ## `groups_partition` -/

theorem groupsGo_concat (c : VConfig) : ∀ (fuel : Nat) (fields : List Field), fields.length ≤ fuel →
    (groupsGo c fuel fields).flatMap (·.1) = fields := by
  intro fuel
  induction fuel with
  | zero => intro fields h; cases fields <;> simp_all [groupsGo]
  | succ n ih =>
    intro fields h
    cases fields with
    | nil => simp [groupsGo]
    | cons f fs =>
      simp only [groupsGo, List.flatMap_cons]
      rw [ih]
      · exact List.take_append_drop _ _
      · simp only [List.length_drop, List.length_cons] at h ⊢; omega

/-- **The groups partition the fields.**  Concatenating the groups `rewrite_with_alignment` visits gives back
the fields, in order: every field is in exactly one group (the groups are consecutive `take`/`drop` slices),
no group is empty. -/
theorem groups_partition (c : VConfig) (fields : List Field) :
    (groups c fields).flatMap (·.1) = fields ∧ ∀ g ∈ groups c fields, g.1 ≠ [] := by
  refine ⟨groupsGo_concat c _ _ (Nat.le_refl _), ?_⟩
  have key : ∀ (fuel : Nat) (fs : List Field), ∀ g ∈ groupsGo c fuel fs, g.1 ≠ [] := by
    intro fuel
    induction fuel with
    | zero => intro fs g hg; simp [groupsGo] at hg
    | succ n ih =>
      intro fs g hg
      cases fs with
      | nil => simp [groupsGo] at hg
      | cons f rest =>
        simp only [groupsGo, List.mem_cons] at hg
        rcases hg with rfl | hg
        · simp
        · exact ih _ g hg
  exact key _ _

example : (groups cfg20 [fA, fB, fC]).map (·.1.length) = [2, 1] ∧
    (groups cfg20 [fA, fB, fC]).map (·.2) = [true, false] := by decide

/-- **Where a group ends** (`group_aligned_items`, the loop from index `idx`).  The fields in front of the
returned index are not skipped and have no blank line behind them; if the returned index is not the last
field, that field is skipped (separator `""`) or has a blank line behind it (separator `"\n"`); a group that
reaches the last field has the separator `""`.  A comment between two fields does not end a group. -/
theorem groupGo_spec : ∀ (fields : List Field) (idx : Nat),
    idx ≤ (groupGo idx fields).2 ∧
    (∀ k, k < (groupGo idx fields).2 - idx →
      ∃ f, fields[k]? = some f ∧ f.skip = false ∧ hasBlankLine f.post = false) ∧
    ((groupGo idx fields).2 - idx + 1 < fields.length →
      ∃ f, fields[(groupGo idx fields).2 - idx]? = some f ∧
        ((f.skip = true ∧ (groupGo idx fields).1 = false) ∨
         (f.skip = false ∧ hasBlankLine f.post = true ∧ (groupGo idx fields).1 = true))) ∧
    (fields.length ≤ (groupGo idx fields).2 - idx + 1 → (groupGo idx fields).1 = false) := by
  intro fields
  induction fields with
  | nil => intro idx; simp [groupGo]
  | cons f rest ih =>
    intro idx
    cases rest with
    | nil => simp [groupGo]
    | cons g rest =>
      by_cases hs : f.skip = true
      · simp [groupGo, hs]
      · by_cases hb : hasBlankLine f.post = true
        · simp [groupGo, hs, hb]
        · have hs' : f.skip = false := by simpa using hs
          have hb' : hasBlankLine f.post = false := by simpa using hb
          obtain ⟨h1, h2, h3, h4⟩ := ih (idx + 1)
          simp only [groupGo, hs', hb', Bool.false_eq_true, ↓reduceIte]
          refine ⟨by omega, ?_, ?_, ?_⟩
          · intro k hk
            cases k with
            | zero => exact ⟨f, rfl, hs', hb'⟩
            | succ k => simpa using h2 k (by omega)
          · intro hlt
            have e : (groupGo (idx + 1) (g :: rest)).2 - idx = ((groupGo (idx + 1) (g :: rest)).2 - (idx + 1)) + 1 := by
              omega
            rw [e]
            simp only [List.length_cons] at hlt
            simpa using h3 (by simp only [List.length_cons]; omega)
          · intro hle
            simp only [List.length_cons] at hle
            exact h4 (by simp only [List.length_cons]; omega)

example : groupAlignedItems [fA, fB, fC] = (true, 1) := by decide
/-- A comment line between two fields does not cut the group; a blank line behind it does. -/
example : hasBlankLine ",\n    // c\n    ".toList = false ∧ hasBlankLine ",\n    // c\n\n    ".toList = true := by
  decide

/-- Before the repair `f2802f1` the blank line in front of a field at column 0 was not seen (the groups of the
first pass were not the groups of the second: C02); now it is. -/
theorem hasBlankLine_before_repair_counterexample :
    hasBlankLineBefore ",\n\n".toList = false ∧ hasBlankLine ",\n\n".toList = true := by decide

/-! ## `alignment_exact` -/

/-- `field_prefix_max_width` is the largest prefix width of the group, or 0 when the largest and the smallest
differ by more than the threshold, or when some `rewrite_prefix` failed. -/
theorem fieldPrefixMaxWidth_spec (c : VConfig) (fields : List Field) :
    fieldPrefixMaxWidth c fields =
      if (prefixMaxMinWidth fields).1 - (prefixMaxMinWidth fields).2 > c.threshold then 0
      else (prefixMaxMinWidth fields).1 := by
  unfold fieldPrefixMaxWidth
  rfl

/-- **Alignment, exactly as coded.**  For a group none of whose `rewrite_prefix` failed, with
`W = field_prefix_max_width`:
 * every prefix width lies between the group's minimum and maximum;
 * if `max - min > struct_field_align_threshold` then `W = 0` and NO field of the group is padded (the
   threshold is a property of the group, not of one long field);
 * otherwise `W = max` and a field that is not skipped and whose padding base is its prefix width (every
   `FieldDef`; an `ExprField` without attributes) gets `W - width` blanks: prefix and padding together are `W`
   wide for every such field — all values of the group start in the same column;
 * a skipped field is never padded. -/
theorem alignment_exact (c : VConfig) (fields : List Field) (mx mn : Nat)
    (hmm : maxMinGo fields (0, 18446744073709551615) = some (mx, mn)) :
    (∀ f ∈ fields, ∃ w, f.measW = some w ∧ mn ≤ w ∧ w ≤ mx) ∧
    (mx - mn > c.threshold → fieldPrefixMaxWidth c fields = 0 ∧ ∀ f ∈ fields, padOf f (fieldPrefixMaxWidth c fields) = 0) ∧
    (mx - mn ≤ c.threshold → fieldPrefixMaxWidth c fields = mx ∧
      ∀ f ∈ fields, f.skip = false → f.measW = some f.alignW →
        f.alignW + padOf f (fieldPrefixMaxWidth c fields) = mx) ∧
    (∀ f ∈ fields, f.skip = true → padOf f (fieldPrefixMaxWidth c fields) = 0) := by
  have hb := (maxMinGo_bounds fields _ _ hmm).2.2
  have hpm : prefixMaxMinWidth fields = (mx, mn) := by simp [prefixMaxMinWidth, hmm]
  refine ⟨hb, ?_, ?_, ?_⟩
  · intro hgt
    have hw : fieldPrefixMaxWidth c fields = 0 := by
      rw [fieldPrefixMaxWidth_spec, hpm]; simp [hgt]
    refine ⟨hw, ?_⟩
    intro f _
    rw [hw]; unfold padOf; split <;> simp
  · intro hle
    have hw : fieldPrefixMaxWidth c fields = mx := by
      rw [fieldPrefixMaxWidth_spec, hpm]
      have : ¬ (mx - mn > c.threshold) := by omega
      simp [this]
    refine ⟨hw, ?_⟩
    intro f hf hs hm
    obtain ⟨w, hw1, _, hw3⟩ := hb f hf
    rw [hm] at hw1
    have : f.alignW = w := by simpa using hw1
    rw [hw]; unfold padOf; simp only [hs, Bool.false_eq_true, ↓reduceIte]; omega
  · intro f _ hs
    unfold padOf; simp [hs]

example : maxMinGo [fA, fB] (0, 18446744073709551615) = some (7, 2) ∧ fieldPrefixMaxWidth cfg20 [fA, fB] = 7 ∧
    alignedItem fA 7 = some "a:      u8".toList ∧ alignedItem fB 7 = some "bbbbbb: u16".toList := by decide
example : fieldPrefixMaxWidth { cfg20 with threshold := 4 } [fA, fB] = 0 := by decide

/-- "All values of a group start at `max + 1`" is FALSE of the code for a struct literal's field with a short
attribute (known finding VERT-LIT-ATTR-OVERPAD, probe in `harness/src/vertical_corr.rs`): `rewrite_prefix`
measures `#[a] x` (6 wide) while `rewrite_field` pads from the name alone, so both values start 2 columns
further right than the longest name asks for. -/
theorem alignment_overpadded_counterexample :
    let x : Field := ⟨false, some 6, "#[a]\n        x".toList, ": ".toList, 1, "1".toList, true, ",\n        ".toList⟩
    let y : Field := ⟨false, some 4, "yyyy".toList, ": ".toList, 4, "2".toList, true, ",\n    }".toList⟩
    fieldPrefixMaxWidth cfg20 [x, y] = 6 ∧ alignedItem y 6 = some "yyyy:   2".toList ∧
      alignedItem x 6 = some "#[a]\n        x:      1".toList := by decide

/-! ## C01 / C03: one group (`rewrite_aligned_items_inner`) -/

theorem expectedItems_sourceItems (w : Nat) : ∀ fields : List Field,
    expectedItems false (sourceItems fields w) = fields.map (alignedItem · w) := by
  intro fields
  induction fields with
  | nil => rfl
  | cons f fs ih =>
    have := ih
    simp only [sourceItems] at this
    simp [sourceItems, expectedItems, this]

/-- What `rewrite_aligned_items_inner` hands to `write_list`: the formatting, the items `itemize_list`
made, and the items actually written (after the one-line pass, if the tactic is Horizontal). -/
theorem inner_unfold {c : VConfig} {rc : Rc} {offset : Indent} {firstPre : List Char} {fields : List Field}
    {olw : Nat} {force : Bool} {out : List Char}
    (h : rewriteAlignedItemsInner c rc offset firstPre fields olw force = some out) :
    ∃ (fmt : ListFormatting) (items written : List ListItem) (w : Nat),
      itemize [','] ['}'] false firstPre (sourceItems fields (fieldPrefixMaxWidth c fields)) = some items ∧
      (w = fieldPrefixMaxWidth c fields ∨ w = 0) ∧
      written.map (·.item) = fields.map (alignedItem · w) ∧
      Forall2 SameButItem written items ∧
      fmt.preserveNewline = true ∧
      fmt.tactic = definitiveTactic items .horizontalVertical .comma olw ∧
      writeList fmt rc written = some out := by
  unfold rewriteAlignedItemsInner at h
  split at h
  · simp at h
  · rename_i itemShape _
    simp only at h
    split at h
    · simp at h
    · rename_i items hitems
      have hmap : items.map (·.item) = fields.map (alignedItem · (fieldPrefixMaxWidth c fields)) := by
        rw [itemize_items_in_order _ _ _ _ _ _ hitems, expectedItems_sourceItems]
      by_cases ht : definitiveTactic items .horizontalVertical .comma olw = .horizontal
      · simp only [ht, ↓reduceIte] at h
        exact ⟨_, items, oneLinePass fields items, 0, hitems, Or.inr rfl,
          oneLinePass_items _ fields items hmap, oneLinePass_same fields items, rfl, ht.symm, h⟩
      · simp only [ht, ↓reduceIte] at h
        have hsame : Forall2 SameButItem items items := by
          clear hmap hitems h ht
          induction items with
          | nil => exact Forall2.nil
          | cons it its ih => exact Forall2.cons ⟨rfl, rfl, rfl, rfl⟩ ih
        exact ⟨_, items, items, fieldPrefixMaxWidth c fields, hitems, Or.inl rfl, hmap, hsame, rfl, rfl, h⟩

/-- **Fields preserved (C01).**  Whenever `rewrite_aligned_items_inner` succeeds, its result is
`g0 ++ t1 ++ g1 ++ … ++ tN ++ gN` where `t1 … tN` are the rewritten texts `head ++ spacing ++ padding ++ value`
of ALL the fields, each once, in the order of the source — all of them rewritten with the group's width, or (a
one-line list) all of them with width 0 — and every gap is made of blanks, the separator and the comments of
the items. -/
theorem aligned_items_preserved (c : VConfig) (rc : Rc) (offset : Indent) (firstPre : List Char)
    (fields : List Field) (olw : Nat) (force : Bool) (out : List Char)
    (h : rewriteAlignedItemsInner c rc offset firstPre fields olw force = some out) :
    ∃ (fmt : ListFormatting) (written : List ListItem) (w : Nat) (gaps : List (List Piece)),
      (w = fieldPrefixMaxWidth c fields ∨ w = 0) ∧
      written.map (·.item) = fields.map (alignedItem · w) ∧
      (∀ f ∈ fields, f.ok = true) ∧
      gaps.length = (itemStrings written).length + 1 ∧
      out = weave (gaps.map render) (itemStrings written) ∧
      ∀ g ∈ gaps, ∀ p ∈ g, GapPiece fmt rc written p := by
  obtain ⟨fmt, items, written, w, _, hw, hmap, _, _, _, hwl⟩ := inner_unfold h
  obtain ⟨gaps, h1, h2, h3⟩ := writeList_items_in_order fmt rc written out hwl
  refine ⟨fmt, written, w, gaps, hw, hmap, ?_, h1, h2, h3⟩
  intro f hf
  cases hok : f.ok with
  | true => rfl
  | false =>
    exfalso
    have hnone : alignedItem f w = none := by simp [alignedItem, hok]
    have hmem : (none : Option (List Char)) ∈ written.map (·.item) := by
      rw [hmap]; exact List.mem_map.mpr ⟨f, hf, hnone⟩
    obtain ⟨it, hit, hitn⟩ := List.mem_map.mp hmem
    have := writeList_none_on_missing_item fmt rc written ⟨it, hit, hitn⟩
    rw [this] at hwl
    simp at hwl

/-- **Comments preserved (C03), on the multi-line AND on the one-line pass.**  The items written carry, one
for one, the pre-comment, the post-comment (and `new_lines`) of the items `itemize_list` made from the
source — the one-line pass replaces item strings only — and the comment pieces of the result are, one for
one and in order, what the comment rewriter returned for the comments of the written items.  (Rebuilding the
items of the one-line pass with `ListItem::from_item` breaks `SameButItem`: the seeded change that dropped the
comments of one-line struct variants.) -/
theorem aligned_comments_preserved (c : VConfig) (rc : Rc) (offset : Indent) (firstPre : List Char)
    (fields : List Field) (olw : Nat) (force : Bool) (out : List Char)
    (h : rewriteAlignedItemsInner c rc offset firstPre fields olw force = some out) :
    ∃ (items written : List ListItem) (ps : List Piece),
      itemize [','] ['}'] false firstPre (sourceItems fields (fieldPrefixMaxWidth c fields)) = some items ∧
      Forall2 SameButItem written items ∧
      render ps = out ∧
      Forall2 (Rewritten rc) (commentTexts ps) (rawComments written) := by
  obtain ⟨fmt, items, written, w, hitems, _, _, hsame, _, _, hwl⟩ := inner_unfold h
  obtain ⟨ps, hr, hc⟩ := writeList_comments_emitted fmt rc written out hwl
  exact ⟨items, written, ps, hitems, hsame, hr, hc⟩

/-- With every field's text non-empty (every real field) the comments of the written items ARE the comments
`itemize_list` found, so nothing is lost between the source and `write_list`. -/
theorem rawComments_same (written items : List ListItem) (h : Forall2 SameButItem written items)
    (hw : ∀ it ∈ written, it.isSubstantial = true) (hi : ∀ it ∈ items, it.isSubstantial = true) :
    rawComments written = rawComments items := by
  induction h with
  | nil => rfl
  | @cons a b as bs hab _ ih =>
    have ha := hw a List.mem_cons_self
    have hb := hi b List.mem_cons_self
    have := ih (fun x hx => hw x (List.mem_cons_of_mem _ hx)) (fun x hx => hi x (List.mem_cons_of_mem _ hx))
    obtain ⟨h1, _, h3, _⟩ := hab
    simp only [rawComments, List.filter_cons, ha, hb, ↓reduceIte, List.flatMap_cons] at this ⊢
    rw [h1, h3, this]

private def oneLineFields : List Field :=
  [⟨false, some 2, "a:".toList, " ".toList, 2, "u8".toList, true, ", /* c */ ".toList⟩,
   ⟨false, some 5, "bbbb:".toList, " ".toList, 5, "u16".toList, true, " }".toList⟩]

/-- The one-line pass at work: a struct variant that fits keeps its comment and loses its alignment. -/
example : rewriteAlignedItemsInner cfg20 (rewriteCommentLight cfg20.config) ⟨8, 0⟩ " ".toList oneLineFields 35 false =
    some "a: u8, /* c */ bbbb: u16".toList := by decide

/-! ## `grouping_stable` (C02) -/

/-- **The text the writer puts between two groups keeps the boundary; the text inside a group makes none.**
For an indentation string without line feed (every `Indent::to_string`, also the empty one):
the separator of a blank-line boundary is read as a blank line again; the text between two fields of one group
is not, unless `write_list` preserved an extra line break there (`new_lines`). -/
theorem gap_texts (ind : List Char) (h : '\n' ∉ ind) :
    hasBlankLine (gapBetween true ind) = true ∧ hasBlankLine (gapBetween false ind) = false ∧
    hasBlankLine (gapWithin false ind) = false ∧ hasBlankLine (gapWithin true ind) = true := by
  refine ⟨?_, ?_, ?_, ?_⟩
  · simpa [gapBetween] using hasBlankLine_two_breaks ind h
  · simpa [gapBetween] using hasBlankLine_one_break ind h
  · simpa [gapWithin] using hasBlankLine_one_break ind h
  · simpa [gapWithin] using hasBlankLine_two_breaks ind h

/-- **The groups of the result are the groups of the source.**  Take one group `g` as the first pass cut it
(none of its fields but the last is skipped; the last one is skipped, or the separator is a blank line, when
more fields follow) and read it back from a comment-free vertical result (`rereadGroup`: the text behind every
field is what `write_list` / `rewrite_with_alignment` wrote there).  If `write_list` preserved no extra line
break inside the group (`new_lines` false for every field but the last), `group_aligned_items` ends the group
at the same field with the same separator — whatever follows, for every indentation string without line
feed.  `rewrite_with_alignment` does not read `blank_lines_upper_bound`: the separator `"\n"` is written for
every value of it, 0 included, so the hypothesis on the last field is what the code establishes today. -/
theorem grouping_stable (ind : List Char) (hind : '\n' ∉ ind) (blank : Bool) (rest : List Field) :
    ∀ (g : List Field) (idx : Nat), g ≠ [] →
      (∀ f ∈ g.dropLast, f.skip = false ∧ newLinesOf f = false) →
      (rest ≠ [] → ∀ l, g.getLast? = some l → (l.skip = true ∧ blank = false) ∨ (l.skip = false ∧ blank = true)) →
      groupGo idx (rereadGroup ind blank g ++ rest) =
        ((if rest = [] then false else blank), idx + g.length - 1) := by
  intro g
  induction g with
  | nil => intro idx h; exact absurd rfl h
  | cons f g ih =>
    intro idx _ hinner hlast
    cases g with
    | nil =>
      cases rest with
      | nil => simp [rereadGroup, groupGo]
      | cons r rest =>
        have := hlast (by simp) f rfl
        rcases this with ⟨hs, hb⟩ | ⟨hs, hb⟩
        · simp [rereadGroup, groupGo, hs, hb]
        · subst hb
          simp [rereadGroup, groupGo, hs, (gap_texts ind hind).1]
    | cons g2 g =>
      have hf := hinner f (by simp [List.dropLast])
      have hrec := ih (idx + 1) (by simp)
        (fun x hx => hinner x (by simp only [List.dropLast_cons_cons]; exact List.mem_cons_of_mem _ hx))
        (fun hr l hl => hlast hr l (by simpa [List.getLast?_cons_cons] using hl))
      have hne : ∃ y ys, rereadGroup ind blank (g2 :: g) ++ rest = y :: ys := by
        cases g <;> simp [rereadGroup]
      obtain ⟨y, ys, hy⟩ := hne
      simp only [rereadGroup, hf.2, List.cons_append]
      rw [hy, groupGo]
      simp only [hf.1, Bool.false_eq_true, ↓reduceIte, (gap_texts ind hind).2.2.1]
      rw [← hy, hrec]
      simp only [List.length_cons]
      congr 1
      omega

example : groupGo 0 (rereadGroup "    ".toList true [fA, fB] ++ [fC]) = (true, 1) := by decide

/-- "The groups of the result are the groups of the source" needs the separator: if the blank line between two
groups is NOT written back (what a change that honours `blank_lines_upper_bound = 0` in `write_list` or in
`group_aligned_items` alone does) the two groups are one group on the second pass and their fields are aligned
with each other: the second pass changes the result. -/
theorem grouping_unstable_without_separator_counterexample :
    groupGo 0 (rereadGroup "    ".toList true [fA, fB] ++ [fC]) = (true, 1) ∧
    groupGo 0 (rereadGroup "    ".toList false [fA, fB] ++ [fC]) = (false, 2) ∧
    fieldPrefixMaxWidth cfg20 [fC] = 3 ∧ fieldPrefixMaxWidth cfg20 [fA, fB, fC] = 7 := by decide

/-- "…and no extra hypothesis on `new_lines`" is FALSE in general: where `has_extra_newline` sees an extra line
break that `group_aligned_items` did not take for a blank line, the first pass keeps the fields in one group
and writes a blank line between them, and the second pass cuts there.  (Before the repair `f2802f1` a field at
column 0 was such a case: `hasBlankLine_before_repair_counterexample`.) -/
theorem grouping_unstable_extra_newline_counterexample :
    hasBlankLine (gapWithin true "    ".toList) = true := by decide

/-! ## The whole of `rewrite_with_alignment` on an example -/

example : rewriteWithAlignment cfg20 (rewriteCommentLight cfg20.config) ⟨4, 0⟩ "\n    ".toList [fA, fB, fC] 0 =
    some "a:      u8,\n    bbbbbb: u16,\n\n    cc: u32, // k".toList := by decide

/-! ## The oracles accept what the theorems describe -/

/-- `vert.oracle.align` (`alignOK`) accepts a group written as `alignment_exact` says. -/
example : alignOK 20 [(2, 8), (7, 8)] = true ∧ alignOK 4 [(2, 3), (7, 8)] = true ∧
    alignOK 20 [(2, 3), (7, 8)] = false ∧ alignOK 20 [(2, 8), (7, 0)] = true := by decide

end RF.Props.Vertical
