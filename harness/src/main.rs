//! rfverif: correspondence (real rustfmt code vs the Lean model) and failing-input search.
//! usage: rfverif <property> --tier quick|thorough --seed N --out DIR
#![feature(rustc_private)]
extern crate rustc_ast_pretty;
extern crate rustc_data_structures;
extern crate rustc_driver;
extern crate rustc_errors;
extern crate rustc_lexer;
mod boundary;
extern crate rustc_parse;
extern crate rustc_session;
extern crate rustc_span;
mod astpp;
mod c01;
mod c01gen;
mod c01lit;
mod c02;
mod c07;
mod c09;
mod c12;
mod c13;
mod c16;
mod shape_corr;
mod lists_corr;
mod strings_corr;
mod macros_corr;
mod missed_corr;
mod optin_corr;
mod vertical_corr;
mod optin_inproc;
mod optin_e2e;
mod budgets_corr;
mod attrs_corr;
mod braces_corr;
mod types_corr;
mod corpus;
mod gen;
mod sweep;
mod toks;
mod pool;
mod c11;
mod c10;
mod c04;
mod c08;
mod c06;
mod c20;
mod cli;
mod c05;
mod c15;
mod c14;
mod c14child;
mod sessrun;
mod c17;
mod c19;
mod c18;
mod c18gen;
mod c03;
mod util;

use std::path::PathBuf;

fn main() {
    let args: Vec<String> = std::env::args().collect();
    let prop = args.get(1).cloned().unwrap_or_default();
    if prop == "--sessrun" {
        std::process::exit(sessrun::child_main(&args[2]));
    }
    if prop == "--c14child" {
        std::process::exit(c14child::child_main(&args[2]));
    }
    if prop == "--worker" {
        std::process::exit(pool::worker_main(&args[2]));
    }
    let mut tier = "quick".to_string();
    let mut seed = 0u64;
    let mut out = PathBuf::from("/verif/work/out");
    let mut i = 2;
    while i < args.len() {
        match args[i].as_str() {
            "--tier" => { tier = args[i + 1].clone(); i += 1; }
            "--seed" => { seed = args[i + 1].parse().unwrap_or(0); i += 1; }
            "--out" => { out = PathBuf::from(&args[i + 1]); i += 1; }
            _ => {}
        }
        i += 1;
    }
    let code = match prop.as_str() {
        "c01" => c01::run(&tier, seed, &out),
        "c01lit" => c01lit::run(&tier, seed, &out),
        "c02" => c02::run(&tier, seed, &out),
        "c07" => c07::run(&tier, seed, &out),
        "c09" => c09::run(&tier, seed, &out),
        "c12" => c12::run(&tier, seed, &out),
        "c16" => c16::run(&tier, seed, &out),
        "c11" => c11::run(&tier, seed, &out),
        "c10" => c10::run(&tier, seed, &out),
        "c04" => c04::run(&tier, seed, &out),
        "c08" => c08::run(&tier, seed, &out),
        "c06" => c06::run(&tier, seed, &out),
        "c20" => c20::run(&tier, seed, &out),
        "c05" => c05::run(&tier, seed, &out),
        "c15" => c15::run(&tier, seed, &out),
        "c14" => c14::run(&tier, seed, &out),
        "c17" => c17::run(&tier, seed, &out),
        "c19" => c19::run(&tier, seed, &out),
        "c13" => c13::run(&tier, seed, &out),
        "c13api" => c13::api_main(&args[2..]),
        "c18" => c18::run(&tier, seed, &out),
        "strings" => strings_corr::run(&tier, seed, &out),
        "macros" => macros_corr::run(&tier, seed, &out),
        "missed" => missed_corr::run(&tier, seed, &out),
        "missed-width" => missed_corr::width_probe(),
        "missed-c03" | "missed-c08" | "missed-c16" | "missed-c02" => missed_corr::run_part(&prop[7..], &tier, seed, &out),
        "optin" => optin_corr::run(&tier, seed, &out),
        "vertical" => vertical_corr::run(&tier, seed, &out),
        "budgets" => budgets_corr::run(&tier, seed, &out),
        "attrs" => attrs_corr::run(&tier, seed, &out),
        "braces" => braces_corr::run(&tier, seed, &out),
        "types" => types_corr::run(&tier, seed, &out),
        "optin-dump" => optin_corr::dump(&args[2], args.get(3)),
        "boundary" => boundary::main(&args[2..]),
        "c03" => c03::run(&tier, seed, &out),
        "lists" => lists_corr::run(&tier, seed, &out),
        "probe" => probe(&out),
        // rfverif tokens <file> [keep]  : the encoded token list of a file (for the C01/C03 validators)
        // rfverif astpp <file> [edition] : the second oracle's printed AST
        "astpp" => { let src = std::fs::read_to_string(&args[2]).unwrap_or_default(); match astpp::pretty(&src, args.get(3).map(|s| s.as_str()).unwrap_or("2024")) { Ok(s) => { println!("{}", s); 0 } Err(e) => { eprintln!("error: {}", e); 1 } } }
        "tokens" => { let src = std::fs::read_to_string(&args[2]).unwrap_or_default(); println!("{}", toks::encode_tokens(&src, args.get(3).map(|s| s == "keep").unwrap_or(false))); 0 }
        // rfverif fmt <file> [k=v,k=v]  : formats a file's text in-process and prints the result
        "fmt" => { let src = std::fs::read_to_string(&args[2]).unwrap_or_default(); let mut cfg: Vec<(String, String)> = corpus::header_config(&src); if let Some(extra) = args.get(3) { for kv in extra.split(',') { if let Some((k, v)) = kv.split_once('=') { cfg.push((k.to_string(), v.to_string())); } } } pool::install_panic_hook(); let r = pool::format_here(&pool::Job { src, cfg, file_lines: None }); eprintln!("status={:?} flags={:?} entries={}", r.status, r.flags, r.entries.len()); print!("{}", r.out); 0 }
        "sweep" => sweep::run(&args.get(2).cloned().unwrap_or_default(), seed, std::env::var("LIMIT").ok().and_then(|s| s.parse().ok()).unwrap_or(0), std::env::var("TIMEOUT_S").ok().and_then(|s| s.parse().ok()).unwrap_or(20)),
        _ => { eprintln!("unknown property {}", prop); 2 }
    };
    std::process::exit(code);
}

/// smoke test of the worker pool: formats the fixtures once and prints a summary
fn probe(_out: &std::path::Path) -> i32 {
    let progs = corpus::programs(&["tests/target"]);
    let jobs: Vec<pool::Job> = progs.iter().map(|p| pool::Job { src: p.src.clone(), cfg: p.cfg.clone(), file_lines: None }).collect();
    let t0 = std::time::Instant::now();
    let res = pool::run_jobs(&jobs, util::jobs(), std::time::Duration::from_secs(20));
    let mut counts = std::collections::BTreeMap::new();
    let mut changed = 0;
    for (p, r) in progs.iter().zip(res.iter()) {
        let k = match &r.status { pool::Status::Ok => if r.clean() { "clean" } else { "ok-with-flags" }, pool::Status::Err(_) => "err", pool::Status::Panic(m) => { eprintln!("panic {} {}", p.name, m); "panic" }, pool::Status::Timeout => "timeout", pool::Status::Died(_) => "died", pool::Status::BadConfig(_) => "badconfig", pool::Status::Infra(_) => "infra" };
        *counts.entry(k).or_insert(0) += 1;
        if r.clean() && r.out != p.src { changed += 1; if changed <= 3 { eprintln!("changed: {} {:?} outlen={} srclen={}", p.name, p.cfg, r.out.len(), p.src.len()); } }
        if !r.clean() && counts.len() < 10 && r.status == pool::Status::Ok { eprintln!("flags {} {:?} {:?}", p.name, r.flags, r.entries.first()); }
    }
    eprintln!("{} programs in {:?}: {:?}; clean but not a fixed point: {}", progs.len(), t0.elapsed(), counts, changed);
    0
}
