//! The composition logic of `src/types.rs` (`RF/Model/Types.lean`, driver `RF/Driver/Types.lean`, hooks
//! `verif_hooks::types`).
//!
//! A generated universe of abstract type trees (every constructor of the model's `Ty` / `Bounds` /
//! `Params` / `Pred` over every constructor, depth <= 3, short and long names, binders with 1..3
//! lifetimes and with type / const parameters) is printed as source text, parsed by rustfmt's parser and
//! rewritten by the REAL rewriters at a given shape:
//! corr    `types.rw` (all pieces fit) against the tokens of the real output at a generous width: exact
//!         equality of the token lists (rustc_lexer); `rewrite_bound_params`: absent iff the list is empty.
//! oracle  `types.judge`: at every width 10..100 the real output is nothing (the caller keeps the source)
//!         or a text whose tokens are the model's canonical tokens (C01's validator: trailing separators);
//!         end to end (`pool::run_jobs`, widths 20..60): the same trees in aliases, fields, parameters,
//!         return types, where clauses and impl headers, input tokens against output tokens (`tok.equiv`).
//! direct  no panic; the enumerated probes of the repaired defect (a binder that does not fit).
use std::time::Duration;

use rustfmt_nightly::verif_hooks::types as ht;
use rustfmt_nightly::Config;
use serde_json::json;

use crate::pool::{self, Job, Status};
use crate::toks;
use crate::util::*;

#[derive(Clone, Debug)]
pub enum Ext {
    None,
    Implicit,
    Explicit(String),
}

#[derive(Clone, Debug)]
pub enum Ty {
    Path(bool, Vec<Seg>),
    QPath(Box<Ty>, bool, Vec<Seg>, Vec<Seg>),
    Ref(Option<String>, bool, Box<Ty>),
    Ptr(bool, Box<Ty>),
    Never,
    Infer,
    Tup(Vec<Ty>),
    Paren(Box<Ty>),
    Array(Box<Ty>, String),
    Slice(Box<Ty>),
    Impl(Vec<Bound>),
    Dyn(u8, Vec<Bound>),
    BareFn(Vec<Param>, bool, Ext, Vec<(Option<String>, Ty)>, bool, Option<Box<Ty>>),
    UnsafeBinder(Vec<Param>, Box<Ty>),
}

#[derive(Clone, Debug)]
pub enum Seg {
    Plain(String),
    Angle(String, Vec<GArg>),
    Fn(String, Vec<Ty>, Option<Box<Ty>>),
}

#[derive(Clone, Debug)]
pub enum GArg {
    Lt(String),
    Ty(Ty),
    Const(bool, String),
    AssocEq(String, Vec<GArg>, Ty),
    AssocBound(String, Vec<GArg>, Vec<Bound>),
}

#[derive(Clone, Debug)]
pub enum Bound {
    Trait { paren: bool, binder: Vec<Param>, constness: u8, is_async: bool, pol: u8, global: bool, path: Vec<Seg> },
    Outlives(String),
    Use(Vec<String>),
}

#[derive(Clone, Debug)]
pub enum Param {
    Lifetime(String, Vec<String>),
    Type(String, Vec<Bound>, Option<Ty>),
    Const(String, Ty, Option<String>),
}

#[derive(Clone, Debug)]
pub enum Pred {
    Bound(Vec<Param>, Ty, Vec<Bound>),
    Region(String, Vec<String>),
}

fn tok_word(s: &str) -> String {
    let class = if s.starts_with('\'') {
        "l"
    } else if s.chars().next().map_or(false, |c| c.is_ascii_digit()) {
        "Li"
    } else {
        "i"
    };
    format!("{}:{}", class, enc_str(s))
}

fn b(x: bool) -> String {
    (x as u8).to_string()
}

fn join<T>(xs: &[T], sep: &str, f: impl Fn(&T) -> String) -> String {
    xs.iter().map(f).collect::<Vec<_>>().join(sep)
}

fn binder_src(kw: &str, ps: &[Param]) -> String {
    if ps.is_empty() { String::new() } else { format!("{}<{}> ", kw, join(ps, ", ", |p| p.src())) }
}

fn segs_src(s: &[Seg]) -> String {
    join(s, "::", |x| x.src())
}

fn gargs_src(a: &[GArg]) -> String {
    if a.is_empty() { String::new() } else { format!("<{}>", join(a, ", ", |x| x.src())) }
}

fn bounds_src(bs: &[Bound]) -> String {
    join(bs, " + ", |x| x.src())
}

fn ret_src(r: &Option<Box<Ty>>) -> String {
    r.as_ref().map_or(String::new(), |t| format!(" -> {}", t.src()))
}

impl Ty {
    pub fn src(&self) -> String {
        match self {
            Ty::Path(g, s) => format!("{}{}", if *g { "::" } else { "" }, segs_src(s)),
            Ty::QPath(q, g, tr, rest) => {
                let a = if tr.is_empty() { String::new() } else { format!(" as {}{}", if *g { "::" } else { "" }, segs_src(tr)) };
                format!("<{}{}>::{}", q.src(), a, segs_src(rest))
            }
            Ty::Ref(lt, m, t) => format!("&{}{}{}", lt.as_ref().map_or(String::new(), |l| format!("{} ", l)), if *m { "mut " } else { "" }, t.src()),
            Ty::Ptr(m, t) => format!("*{} {}", if *m { "mut" } else { "const" }, t.src()),
            Ty::Never => "!".into(),
            Ty::Infer => "_".into(),
            Ty::Tup(ts) => format!("({}{})", join(ts, ", ", |t| t.src()), if ts.len() == 1 { "," } else { "" }),
            Ty::Paren(t) => format!("({})", t.src()),
            Ty::Array(t, n) => format!("[{}; {}]", t.src(), n),
            Ty::Slice(t) => format!("[{}]", t.src()),
            Ty::Impl(bs) => format!("impl {}", bounds_src(bs)),
            Ty::Dyn(d, bs) => format!("{}{}", ["", "dyn ", "dyn* "][*d as usize], bounds_src(bs)),
            Ty::BareFn(bi, u, e, args, v, ret) => {
                let ext = match e {
                    Ext::None => String::new(),
                    Ext::Implicit => "extern ".into(),
                    Ext::Explicit(a) => format!("extern \"{}\" ", a),
                };
                let mut items: Vec<String> = args.iter().map(|(n, t)| format!("{}{}", n.as_ref().map_or(String::new(), |n| format!("{}: ", n)), t.src())).collect();
                if *v {
                    items.push("...".into());
                }
                format!("{}{}{}fn({}){}", binder_src("for", bi), if *u { "unsafe " } else { "" }, ext, items.join(", "), ret_src(ret))
            }
            Ty::UnsafeBinder(bi, t) => format!("unsafe<{}> {}", join(bi, ", ", |p| p.src()), t.src()),
        }
    }
    pub fn enc(&self, o: &mut Vec<String>) {
        match self {
            Ty::Path(g, s) => {
                o.extend(["P".into(), b(*g)]);
                enc_segs(s, o);
            }
            Ty::QPath(q, g, tr, rest) => {
                o.push("Q".into());
                q.enc(o);
                o.push(b(*g));
                enc_segs(tr, o);
                enc_segs(rest, o);
            }
            Ty::Ref(lt, m, t) => {
                o.extend(["R".into(), lt.clone().unwrap_or("-".into()), b(*m)]);
                t.enc(o);
            }
            Ty::Ptr(m, t) => {
                o.extend(["Ptr".into(), b(*m)]);
                t.enc(o);
            }
            Ty::Never => o.push("Nv".into()),
            Ty::Infer => o.push("In".into()),
            Ty::Tup(ts) => {
                o.push("Tu".into());
                enc_tys(ts, o);
            }
            Ty::Paren(t) => {
                o.push("Pa".into());
                t.enc(o);
            }
            Ty::Array(t, n) => {
                o.push("Ar".into());
                t.enc(o);
                o.push(tok_word(n));
            }
            Ty::Slice(t) => {
                o.push("Sl".into());
                t.enc(o);
            }
            Ty::Impl(bs) => {
                o.push("Im".into());
                enc_bounds(bs, o);
            }
            Ty::Dyn(d, bs) => {
                o.extend(["Dy".into(), d.to_string()]);
                enc_bounds(bs, o);
            }
            Ty::BareFn(bi, u, e, args, v, ret) => {
                o.push("Fn".into());
                enc_params(bi, o);
                o.push(b(*u));
                o.push(match e {
                    Ext::None => "-".into(),
                    Ext::Implicit => "i".into(),
                    Ext::Explicit(a) => format!("e:{}", a),
                });
                for (n, t) in args {
                    o.extend(["a".into(), n.clone().unwrap_or("-".into())]);
                    t.enc(o);
                }
                o.push(".".into());
                o.push(b(*v));
                enc_opt(ret, o);
            }
            Ty::UnsafeBinder(bi, t) => {
                o.push("Ub".into());
                enc_params(bi, o);
                t.enc(o);
            }
        }
    }
}

fn enc_opt(t: &Option<Box<Ty>>, o: &mut Vec<String>) {
    match t {
        None => o.push("-".into()),
        Some(t) => {
            o.push("S".into());
            t.enc(o);
        }
    }
}

fn enc_tys(ts: &[Ty], o: &mut Vec<String>) {
    for t in ts {
        o.push("T".into());
        t.enc(o);
    }
    o.push(".".into());
}

fn enc_segs(s: &[Seg], o: &mut Vec<String>) {
    for x in s {
        match x {
            Seg::Plain(n) => o.extend(["s".into(), n.clone()]),
            Seg::Angle(n, a) => {
                o.extend(["a".into(), n.clone()]);
                enc_gargs(a, o);
            }
            Seg::Fn(n, i, r) => {
                o.extend(["f".into(), n.clone()]);
                enc_tys(i, o);
                enc_opt(r, o);
            }
        }
    }
    o.push(".".into());
}

fn enc_gargs(a: &[GArg], o: &mut Vec<String>) {
    for x in a {
        match x {
            GArg::Lt(n) => o.extend(["l".into(), n.clone()]),
            GArg::Ty(t) => {
                o.push("t".into());
                t.enc(o);
            }
            GArg::Const(br, v) => o.extend(["c".into(), b(*br), tok_word(v)]),
            GArg::AssocEq(n, g, t) => {
                o.extend(["q".into(), n.clone()]);
                enc_gargs(g, o);
                t.enc(o);
            }
            GArg::AssocBound(n, g, bs) => {
                o.extend(["b".into(), n.clone()]);
                enc_gargs(g, o);
                enc_bounds(bs, o);
            }
        }
    }
    o.push(".".into());
}

fn enc_bounds(bs: &[Bound], o: &mut Vec<String>) {
    for x in bs {
        match x {
            Bound::Trait { paren, binder, constness, is_async, pol, global, path } => {
                o.extend(["t".into(), b(*paren)]);
                enc_params(binder, o);
                o.extend([constness.to_string(), b(*is_async), pol.to_string(), b(*global)]);
                enc_segs(path, o);
            }
            Bound::Outlives(n) => o.extend(["o".into(), n.clone()]),
            Bound::Use(args) => {
                o.extend(["u".into(), args.len().to_string()]);
                o.extend(args.iter().map(|a| tok_word(a)));
            }
        }
    }
    o.push(".".into());
}

fn enc_params(ps: &[Param], o: &mut Vec<String>) {
    for x in ps {
        match x {
            Param::Lifetime(n, bs) => {
                o.extend(["l".into(), n.clone(), bs.len().to_string()]);
                o.extend(bs.iter().cloned());
            }
            Param::Type(n, bs, d) => {
                o.extend(["t".into(), n.clone()]);
                enc_bounds(bs, o);
                enc_opt(&d.clone().map(Box::new), o);
            }
            Param::Const(n, t, d) => {
                o.extend(["c".into(), n.clone()]);
                t.enc(o);
                o.push(d.as_ref().map_or("-".into(), |d| tok_word(d)));
            }
        }
    }
    o.push(".".into());
}

impl Seg {
    fn src(&self) -> String {
        match self {
            Seg::Plain(n) => n.clone(),
            Seg::Angle(n, a) => format!("{}{}", n, gargs_src(a)),
            Seg::Fn(n, i, r) => format!("{}({}){}", n, join(i, ", ", |t| t.src()), ret_src(r)),
        }
    }
}

impl GArg {
    fn src(&self) -> String {
        match self {
            GArg::Lt(n) => n.clone(),
            GArg::Ty(t) => t.src(),
            GArg::Const(br, v) => if *br { format!("{{ {} }}", v) } else { v.clone() },
            GArg::AssocEq(n, g, t) => format!("{}{} = {}", n, gargs_src(g), t.src()),
            GArg::AssocBound(n, g, bs) => format!("{}{}: {}", n, gargs_src(g), bounds_src(bs)),
        }
    }
}

impl Bound {
    fn src(&self) -> String {
        match self {
            Bound::Trait { paren, binder, constness, is_async, pol, global, path } => {
                let s = format!("{}{}{}{}{}{}", binder_src("for", binder), ["", "const ", "~const "][*constness as usize], if *is_async { "async " } else { "" }, ["", "?", "!"][*pol as usize], if *global { "::" } else { "" }, segs_src(path));
                if *paren { format!("({})", s) } else { s }
            }
            Bound::Outlives(n) => n.clone(),
            Bound::Use(a) => format!("use<{}>", a.join(", ")),
        }
    }
}

impl Param {
    pub fn src(&self) -> String {
        match self {
            Param::Lifetime(n, bs) => if bs.is_empty() { n.clone() } else { format!("{}: {}", n, bs.join(" + ")) },
            Param::Type(n, bs, d) => format!("{}{}{}", n, if bs.is_empty() { String::new() } else { format!(": {}", bounds_src(bs)) }, d.as_ref().map_or(String::new(), |t| format!(" = {}", t.src()))),
            Param::Const(n, t, d) => format!("const {}: {}{}", n, t.src(), d.as_ref().map_or(String::new(), |v| format!(" = {}", v))),
        }
    }
}

impl Pred {
    pub fn src(&self) -> String {
        match self {
            Pred::Bound(bi, t, bs) => format!("{}{}: {}", binder_src("for", bi), t.src(), bounds_src(bs)),
            Pred::Region(n, bs) => if bs.is_empty() { format!("{}:", n) } else { format!("{}: {}", n, bs.join(" + ")) },
        }
    }
    pub fn enc(&self, o: &mut Vec<String>) {
        match self {
            Pred::Bound(bi, t, bs) => {
                o.push("B".into());
                enc_params(bi, o);
                t.enc(o);
                enc_bounds(bs, o);
            }
            Pred::Region(n, bs) => {
                o.extend(["G".into(), n.clone(), bs.len().to_string()]);
                o.extend(bs.iter().cloned());
            }
        }
    }
}

/// a tree of one of the four kinds the hooks and the driver know
#[derive(Clone, Debug)]
pub enum Tree {
    Ty(Ty),
    Pred(Pred),
    Bounds(Vec<Bound>),
    Params(Vec<Param>),
}

impl Tree {
    fn kind(&self) -> &'static str {
        match self {
            Tree::Ty(_) => "ty",
            Tree::Pred(_) => "pred",
            Tree::Bounds(_) => "bounds",
            Tree::Params(_) => "params",
        }
    }
    fn words(&self) -> String {
        let mut o = vec![];
        match self {
            Tree::Ty(t) => t.enc(&mut o),
            Tree::Pred(p) => p.enc(&mut o),
            Tree::Bounds(bs) => enc_bounds(bs, &mut o),
            Tree::Params(ps) => enc_params(ps, &mut o),
        }
        o.join(" ")
    }
    /// (hook kind, snippet)
    fn snippet(&self) -> (&'static str, String) {
        match self {
            Tree::Ty(t) => ("ty", format!("type X = {};\n", t.src())),
            Tree::Pred(p) => ("pred", format!("fn f() where {} {{}}\n", p.src())),
            Tree::Bounds(bs) => ("bounds", format!("fn f<T: {}>() {{}}\n", bounds_src(bs))),
            Tree::Params(ps) => ("binder", format!("fn f<{}>() {{}}\n", join(ps, ", ", |p| p.src()))),
        }
    }
}

// ---------------------------------------------------------------- the universe

struct Names {
    long: bool,
}

impl Names {
    fn ty(&self, i: usize) -> String {
        let s = ["T", "U", "Vec", "Foo"][i % 4];
        if self.long { format!("{}{}", s, "o".repeat(14 + 3 * (i % 3))) } else { s.into() }
    }
    fn tr(&self, i: usize) -> String {
        let s = ["Tr", "Send", "Iterator", "Fn"][i % 4];
        if self.long && s != "Fn" { format!("{}{}", s, "x".repeat(12 + 2 * (i % 3))) } else { s.into() }
    }
    fn lt(&self, i: usize) -> String {
        let s = ["'a", "'b", "'c"][i % 3];
        if self.long { format!("{}{}", s, "_lifetime_name") } else { s.into() }
    }
    fn leaf(&self, i: usize) -> Ty {
        Ty::Path(false, vec![Seg::Plain(self.ty(i))])
    }
    fn path(&self, i: usize) -> Vec<Seg> {
        vec![Seg::Plain(self.tr(i))]
    }
    fn tb(&self, i: usize) -> Bound {
        Bound::Trait { paren: false, binder: vec![], constness: 0, is_async: false, pol: 0, global: false, path: self.path(i) }
    }
    fn lts(&self, n: usize) -> Vec<Param> {
        (0..n).map(|i| Param::Lifetime(self.lt(i), if i == 1 { vec![self.lt(0)] } else { vec![] })).collect()
    }
}

/// a type that may follow `&`, `*const`, `->` or a binder: `dyn A + B` / `impl A + B` need parentheses there
fn atom(t: Ty) -> Ty {
    match &t {
        Ty::Impl(bs) | Ty::Dyn(_, bs) if bs.len() > 1 => Ty::Paren(Box::new(t)),
        Ty::Dyn(0, _) => Ty::Paren(Box::new(t)),
        _ => t,
    }
}

fn bx(t: &Ty) -> Box<Ty> {
    Box::new(atom(t.clone()))
}

/// every binder of the universe: 1..3 lifetimes, a type parameter with a bound, a const parameter
fn binders(n: &Names, c: &Ty) -> Vec<Vec<Param>> {
    vec![
        n.lts(1),
        n.lts(2),
        n.lts(3),
        vec![Param::Type(n.ty(1), vec![n.tb(0)], None)],
        vec![Param::Lifetime(n.lt(0), vec![]), Param::Type(n.ty(1), vec![Bound::Trait { paren: false, binder: vec![], constness: 0, is_async: false, pol: 0, global: false, path: vec![Seg::Angle(n.tr(2), vec![GArg::Ty(c.clone())])] }], None)],
        vec![Param::Const("N".into(), c.clone(), None)],
    ]
}

/// one bound list per constructor / modifier of `Bounds`, over the child type `c`
fn all_bounds(n: &Names, c: &Ty) -> Vec<Vec<Bound>> {
    let tr = |paren, binder, constness, is_async, pol, global, path| Bound::Trait { paren, binder, constness, is_async, pol, global, path };
    let with_arg = vec![Seg::Angle(n.tr(2), vec![GArg::Ty(c.clone())])];
    let mut v = vec![
        vec![n.tb(0)],
        vec![n.tb(0), n.tb(1)],
        vec![n.tb(0), Bound::Outlives(n.lt(0))],
        vec![Bound::Outlives(n.lt(0)), n.tb(1), n.tb(2)],
        vec![tr(false, vec![], 0, false, 1, false, vec![Seg::Plain("Sized".into())]), n.tb(1)],
        vec![tr(true, vec![], 0, false, 1, false, vec![Seg::Plain("Sized".into())])],
        vec![tr(true, vec![], 0, false, 0, false, n.path(0)), n.tb(1)],
        vec![tr(false, vec![], 2, false, 0, false, n.path(0))],
        vec![tr(false, vec![], 1, false, 0, false, n.path(0)), n.tb(1)],
        vec![tr(false, vec![], 0, false, 2, false, n.path(0))],
        vec![tr(false, vec![], 0, true, 0, false, vec![Seg::Fn("Fn".into(), vec![c.clone()], None)])],
        vec![tr(false, vec![], 0, false, 0, true, vec![Seg::Plain("std".into()), Seg::Plain(n.tr(0))])],
        vec![tr(false, vec![], 0, false, 0, false, with_arg.clone()), n.tb(1)],
        vec![tr(false, vec![], 0, false, 0, false, vec![Seg::Fn("Fn".into(), vec![c.clone(), n.leaf(1)], Some(bx(c)))])],
        vec![tr(false, vec![], 0, false, 0, false, vec![Seg::Fn("FnMut".into(), vec![], None)]), n.tb(1)],
    ];
    for bi in binders(n, c) {
        v.push(vec![tr(false, bi.clone(), 0, false, 0, false, vec![Seg::Fn("Fn".into(), vec![Ty::Ref(Some(n.lt(0)), false, bx(c))], None)])]);
        v.push(vec![tr(true, bi, 0, false, 0, false, with_arg.clone()), n.tb(1)]);
    }
    v
}

fn all_gargs(n: &Names, c: &Ty) -> Vec<Vec<GArg>> {
    vec![
        vec![GArg::Ty(c.clone())],
        vec![GArg::Lt(n.lt(0)), GArg::Ty(c.clone()), GArg::Ty(n.leaf(1))],
        vec![GArg::Ty(c.clone()), GArg::Const(false, "3".into())],
        vec![GArg::Const(true, "N".into()), GArg::Ty(c.clone())],
        vec![GArg::AssocEq("Item".into(), vec![], c.clone())],
        vec![GArg::Ty(n.leaf(0)), GArg::AssocEq("Item".into(), vec![GArg::Lt(n.lt(0))], c.clone())],
        vec![GArg::AssocBound("Item".into(), vec![], vec![n.tb(0), n.tb(1)])],
        vec![GArg::AssocBound("Item".into(), vec![GArg::Ty(c.clone())], vec![n.tb(0)]), GArg::AssocEq("Out".into(), vec![], n.leaf(1))],
    ]
}

/// one type per constructor (and per flag of a constructor) of `Ty` over the child `c`
fn all_tys(n: &Names, c: &Ty) -> Vec<Ty> {
    let mut v = vec![
        Ty::Path(true, vec![Seg::Plain("std".into()), Seg::Angle(n.ty(2), vec![GArg::Ty(c.clone())])]),
        Ty::QPath(bx(c), false, vec![Seg::Plain(n.tr(0))], vec![Seg::Plain("Out".into())]),
        Ty::QPath(bx(c), true, vec![Seg::Plain("std".into()), Seg::Angle(n.tr(2), vec![GArg::Ty(n.leaf(1))])], vec![Seg::Angle("Out".into(), vec![GArg::Ty(c.clone())])]),
        Ty::QPath(bx(c), false, vec![], vec![Seg::Plain("Out".into())]),
        Ty::Ref(None, false, bx(c)),
        Ty::Ref(Some(n.lt(0)), false, bx(c)),
        Ty::Ref(Some(n.lt(0)), true, bx(c)),
        Ty::Ref(None, true, bx(c)),
        Ty::Ptr(false, bx(c)),
        Ty::Ptr(true, bx(c)),
        Ty::Tup(vec![]),
        Ty::Tup(vec![c.clone()]),
        Ty::Tup(vec![c.clone(), n.leaf(1)]),
        Ty::Tup(vec![n.leaf(0), n.leaf(1), c.clone()]),
        Ty::Paren(Box::new(c.clone())),
        Ty::Array(Box::new(c.clone()), "16".into()),
        Ty::Array(Box::new(c.clone()), "N".into()),
        Ty::Slice(Box::new(c.clone())),
        Ty::BareFn(vec![], false, Ext::None, vec![(None, c.clone())], false, None),
        Ty::BareFn(vec![], true, Ext::Explicit("C".into()), vec![(Some("x".into()), c.clone()), (None, n.leaf(1))], true, Some(bx(c))),
        Ty::BareFn(vec![], false, Ext::Implicit, vec![], false, Some(Box::new(Ty::Never))),
        Ty::BareFn(vec![], true, Ext::Explicit("system".into()), vec![(Some("_".into()), c.clone())], false, Some(bx(c))),
        Ty::BareFn(vec![], false, Ext::None, vec![(None, Ty::Infer), (None, c.clone())], false, Some(Box::new(Ty::Tup(vec![])))),
    ];
    for g in all_gargs(n, c) {
        v.push(Ty::Path(false, vec![Seg::Angle(n.ty(2), g)]));
    }
    v.push(Ty::Path(false, vec![Seg::Plain("a".into()), Seg::Plain("b".into()), Seg::Angle(n.ty(3), vec![GArg::Ty(c.clone())]), Seg::Plain("Out".into())]));
    for bs in all_bounds(n, c) {
        v.push(Ty::Impl(bs.clone()));
        v.push(Ty::Dyn(1, bs.clone()));
        // a bare trait object that starts with a parenthesised bound loses the parentheses (probe TYPES-BARE-OBJ-PAREN)
        if bs.len() > 1 && !matches!(bs[0], Bound::Outlives(_) | Bound::Trait { paren: true, .. }) {
            v.push(Ty::Dyn(0, bs));
        }
    }
    v.push(Ty::Impl(vec![n.tb(0), Bound::Use(vec![n.lt(0), n.ty(0)])]));
    v.push(Ty::Impl(vec![Bound::Use(vec![n.lt(0)]), n.tb(1)]));
    v.push(Ty::Dyn(2, vec![n.tb(0)]));
    for bi in binders(n, c) {
        v.push(Ty::BareFn(bi.clone(), false, Ext::None, vec![(None, Ty::Ref(Some(n.lt(0)), false, bx(c)))], false, Some(bx(c))));
        v.push(Ty::UnsafeBinder(bi, Box::new(Ty::Ref(Some(n.lt(0)), false, bx(c)))));
    }
    v.push(Ty::UnsafeBinder(vec![], bx(c)));
    v
}

fn all_preds(n: &Names, c: &Ty) -> Vec<Pred> {
    let mut v = vec![Pred::Region(n.lt(0), vec![n.lt(1)]), Pred::Region(n.lt(0), vec![n.lt(1), n.lt(2)])];
    // `where <T>::Out: Tr` is not taken by the parser
    let lhs = if matches!(c, Ty::QPath(_, _, tr, _) if tr.is_empty()) { n.leaf(0) } else { c.clone() };
    for bs in all_bounds(n, c) {
        v.push(Pred::Bound(vec![], lhs.clone(), bs));
    }
    for bi in binders(n, c) {
        v.push(Pred::Bound(bi.clone(), Ty::Ref(Some(n.lt(0)), false, bx(c)), vec![n.tb(0), n.tb(1)]));
        v.push(Pred::Bound(bi, n.leaf(0), vec![Bound::Trait { paren: false, binder: vec![], constness: 0, is_async: false, pol: 0, global: false, path: vec![Seg::Angle(n.tr(2), vec![GArg::Ty(c.clone())])] }]));
    }
    v
}

fn all_params(n: &Names, c: &Ty) -> Vec<Vec<Param>> {
    let mut v = binders(n, c);
    v.push(vec![]);
    v.push(vec![Param::Lifetime(n.lt(0), vec![n.lt(1), n.lt(2)])]);
    v.push(vec![Param::Type(n.ty(0), vec![], Some(c.clone()))]);
    v.push(vec![Param::Type(n.ty(0), vec![n.tb(0), Bound::Outlives(n.lt(0))], Some(c.clone()))]);
    v.push(vec![Param::Const("N".into(), n.leaf(0), Some("3".into()))]);
    v
}

/// the universe: depth 1 over two leaves, depth 2 over every depth-1 type, depth 3 over a sample
fn universe(rng: &mut Rng, thorough: bool) -> Vec<Tree> {
    let mut out = vec![];
    for long in [false, true] {
        let n = Names { long };
        let d1: Vec<Ty> = all_tys(&n, &n.leaf(0));
        let mut d2: Vec<Ty> = vec![];
        for c in &d1 {
            d2.extend(all_tys(&n, c));
        }
        let mut d3: Vec<Ty> = vec![];
        for _ in 0..(if thorough { 60 } else { 12 }) {
            let c = rng.pick(&d2).clone();
            d3.extend(all_tys(&n, &c));
        }
        // trees of the other kinds over the depth-0 and depth-1 types
        let mut children = vec![n.leaf(0)];
        children.extend(d1.iter().cloned());
        for c in &children {
            out.extend(all_preds(&n, c).into_iter().map(Tree::Pred));
            out.extend(all_bounds(&n, c).into_iter().map(Tree::Bounds));
            out.extend(all_params(&n, c).into_iter().map(Tree::Params));
        }
        out.extend(d1.into_iter().map(Tree::Ty));
        // depth 2 is large: all of it in thorough, a sample in quick
        if thorough {
            out.extend(d2.into_iter().map(Tree::Ty));
        } else {
            for _ in 0..700 {
                out.push(Tree::Ty(rng.pick(&d2).clone()));
            }
        }
        out.extend(d3.into_iter().map(Tree::Ty));
    }
    out
}

fn cfg(kv: &[(&str, String)]) -> Config {
    let mut c = Config::default();
    for (k, v) in kv {
        c.override_value(k, v);
    }
    c
}

fn guard<T>(f: impl FnOnce() -> T) -> Option<T> {
    std::panic::catch_unwind(std::panic::AssertUnwindSafe(f)).ok()
}

/// the hooks against the model
fn hooks(o: &mut Outcome, rng: &mut Rng, thorough: bool) {
    let uni = universe(rng, thorough);
    let all_widths: Vec<usize> = (10..=100).collect();
    for (idx, t) in uni.iter().enumerate() {
        let (kind, snippet) = t.snippet();
        let words = t.words();
        let edition = if idx % 2 == 0 { "2024" } else { "2015" };
        let abi = idx % 5 != 0;
        o.count(&format!("hook:{}:trees", t.kind()));
        // a generous width: every piece fits, the tokens are the model's own
        let base = [("edition", "2021".to_string()), ("style_edition", edition.to_string()), ("force_explicit_abi", abi.to_string())];
        let wide = {
            let mut kv = base.to_vec();
            kv.push(("max_width", "2000".into()));
            cfg(&kv)
        };
        match guard(|| ht::rewrite(kind, &snippet, &wide, (2000, 0, 0, 0))) {
            None => o.direct_failures.push(json!({"sig": "types-hook-panic", "src": snippet, "width": 2000})),
            Some(None) => {
                // inconclusive (the tree has no source form the parser takes); bounded below
                o.count("hook:noparse");
                o.sample(json!({"noparse": snippet}));
                continue;
            }
            Some(Some(r)) => {
                let expect = match &r {
                    ht::Out::Failed => "none".to_string(),
                    ht::Out::Absent => "_".to_string(),
                    ht::Out::Text(s) => toks::encode_tokens(s, false),
                };
                o.push("corr", "types.rw", format!("types.rw 0 {} {} _ {}", abi as u8, t.kind(), words), expect, format!("wide: {}", snippet.trim_end()), true);
            }
        }
        // every width in thorough for the small trees; a sample otherwise
        let n_w = if thorough { 30 } else { 7 };
        for k in 0..n_w {
            let w = if k == 0 { 10 + idx % 12 } else { *rng.pick(&all_widths) };
            let indent = if k % 3 == 2 { 4 * rng.below(4) } else { 0 };
            let mut kv = base.to_vec();
            kv.push(("max_width", (w + indent).to_string()));
            let c = cfg(&kv);
            o.direct_evals += 1;
            match guard(|| ht::rewrite(kind, &snippet, &c, (w, indent, 0, indent))) {
                None => o.direct_failures.push(json!({"sig": "types-hook-panic", "src": snippet, "width": w, "indent": indent})),
                Some(None) => {}
                Some(Some(r)) => {
                    let real = match &r {
                        ht::Out::Failed => {
                            o.count("hook:failed");
                            "none".to_string()
                        }
                        ht::Out::Absent => {
                            o.count("hook:absent");
                            "_".to_string()
                        }
                        ht::Out::Text(s) => {
                            o.count(if s.contains('\n') { "hook:multi-line" } else { "hook:one-line" });
                            toks::encode_tokens(s, false)
                        }
                    };
                    o.push("oracle", "types.judge", format!("types.judge {} {} {} {}", abi as u8, t.kind(), real, words), "ok".into(), format!("w={} indent={} edition={}: {}", w, indent, edition, snippet.trim_end()), real != "none");
                }
            }
        }
        if idx % 4000 == 3999 {
            o.flush(jobs());
        }
    }
    let noparse = o.distribution.get("hook:noparse").copied().unwrap_or(0);
    if noparse * 50 > uni.len() as u64 {
        o.direct_failures.push(json!({"sig": "types-universe-noparse", "noparse": noparse, "trees": uni.len()}));
    }
}

/// The repaired defect, enumerated: a binder with a type / const parameter that does not fit while the
/// rest does.  The real code must not return a text without the binder.
fn probes(o: &mut Outcome) {
    let long_tr = "Trrrrrrrrrrrrrrrrrrrrrrrrrrrr<Aaaaaaaaaaaa, Bbbbbbbbbbbbb>";
    let cases: Vec<(&str, &str, String)> = vec![
        ("TYPES-BINDER-BAREFN", "ty", format!("type X = for<T: {}> fn(T);\n", long_tr)),
        ("TYPES-BINDER-POLYTRAIT", "ty", format!("type X = Box<dyn for<T: {}> Fn(T)>;\n", long_tr)),
        ("TYPES-BINDER-UNSAFE", "ty", format!("type X = unsafe<T: {}> &T;\n", long_tr)),
        ("TYPES-BINDER-WHERE", "pred", "fn f() where for<const NNNN: LongTypeNameForTheConstParameterXxxxxxxxxxxxxxxxxx> A: Tr<NNNN> {}\n".to_string()),
    ];
    for (id, kind, src) in cases {
        let mut dropped = vec![];
        for w in 12..=60usize {
            let c = cfg(&[("max_width", w.to_string()), ("edition", "2021".into())]);
            o.direct_evals += 1;
            if let Some(Some(ht::Out::Text(s))) = guard(|| ht::rewrite(kind, &src, &c, (w, 0, 0, 0))) {
                let has = s.contains("for<") || s.contains("unsafe<");
                if !has {
                    dropped.push(json!({"width": w, "out": s}));
                }
            }
        }
        o.probes.push(json!({"id": id, "fails": !dropped.is_empty(), "what": "a binder whose parameter does not fit is dropped (rewrite_bound_params: None = absent)", "detail": {"src": src, "dropped": dropped}}));
    }
}

/// Known finding TYPES-BARE-OBJ-PAREN: the parentheses around the FIRST bound of a trait object written
/// without `dyn` are not part of the bound's span, so `has_paren` does not see them.
fn probe_bare_obj(o: &mut Outcome) {
    let src = "type X = (for<'a> Tr<'a>) + Send;\n";
    let c = cfg(&[("edition", "2015".into())]);
    let r = guard(|| ht::rewrite("ty", src, &c, (100, 0, 0, 0)));
    let fails = matches!(&r, Some(Some(ht::Out::Text(s))) if !s.contains('('));
    o.direct_evals += 1;
    o.probes.push(json!({"id": "TYPES-BARE-OBJ-PAREN", "fails": fails, "what": "`(for<'a> Tr<'a>) + Send` (trait object without `dyn`) loses the parentheses of its first bound", "detail": {"src": src, "out": format!("{:?}", r)}}));
}

/// `RF.Types.dropCommaGt` on an encoded token list: the trailing `,` of a vertical generic list
fn drop_comma_gt(toks: &str) -> String {
    let items: Vec<&str> = toks.split(',').collect();
    let mut out: Vec<&str> = vec![];
    for (i, t) in items.iter().enumerate() {
        if *t == "p:2c" && items.get(i + 1) == Some(&"p:3e") {
            continue;
        }
        out.push(t);
    }
    out.join(",")
}

/// the same trees inside items, through the whole formatter
fn e2e(o: &mut Outcome, rng: &mut Rng, thorough: bool) {
    let mut jobs_v: Vec<Job> = vec![];
    let n_prog = if thorough { 1500 } else { 150 };
    for i in 0..n_prog {
        let n = Names { long: i % 2 == 1 };
        let d1 = all_tys(&n, &n.leaf(rng.below(4)));
        let c = rng.pick(&d1).clone();
        let tys = all_tys(&n, &c);
        let preds = all_preds(&n, &c);
        let params = all_params(&n, &c);
        let mut src = String::new();
        for k in 0..4 {
            let t = rng.pick(&tys).clone();
            let s = atom(t.clone()).src();
            match (i + k) % 6 {
                0 => src.push_str(&format!("type A{} = {};\n", k, t.src())),
                1 => src.push_str(&format!("struct S{} {{\n    f: {},\n}}\n", k, t.src())),
                2 => src.push_str(&format!("fn p{}(x: {}, y: u8) {{}}\n", k, t.src())),
                3 => src.push_str(&format!("fn r{}() -> {} {{\n    loop {{}}\n}}\n", k, s)),
                4 => src.push_str(&format!("fn w{}<T>()\nwhere\n    T: Tr<{}>,\n    {},\n{{\n}}\n", k, t.src(), rng.pick(&preds).src())),
                _ => src.push_str(&format!("impl<{}> Tr<{}> for X<{}> {{}}\n", join(&rng.pick(&params)[..], ", ", |p: &Param| p.src()), t.src(), s)),
            }
        }
        let w = 20 + rng.below(41);
        let edition = if i % 3 == 0 { "2015" } else { "2024" };
        jobs_v.push(Job { src, cfg: vec![("max_width".into(), w.to_string()), ("edition".into(), "2021".into()), ("style_edition".into(), edition.into())], file_lines: None });
    }
    let res = pool::run_jobs(&jobs_v, jobs().min(6), Duration::from_secs(20));
    for (j, r) in jobs_v.iter().zip(res.iter()) {
        o.count("e2e:programs");
        match &r.status {
            Status::Ok if r.flags[0] || r.flags[1] => {
                o.count("e2e:rejected");
                o.sample(json!({"rejected": "parse", "src": j.src}));
            }
            Status::Ok => {
                o.count("e2e:formatted");
                o.push("oracle", "tok.equiv", format!("tok.equiv - {} {}", drop_comma_gt(&toks::encode_tokens(&j.src, false)), drop_comma_gt(&toks::encode_tokens(&r.out, false))), "ok".into(), format!("e2e {:?}: {}", j.cfg, j.src), r.out != j.src);
            }
            Status::Panic(m) => o.direct_failures.push(json!({"sig": "types-e2e-panic", "src": j.src, "cfg": format!("{:?}", j.cfg), "panic": m})),
            Status::Timeout => o.count("e2e:timeout"),
            other => {
                o.count("e2e:rejected");
                o.sample(json!({"rejected": format!("{:?}", other), "src": j.src}));
            }
        }
    }
}

pub fn cases(o: &mut Outcome, rng: &mut Rng, thorough: bool) {
    hooks(o, rng, thorough);
    probes(o);
    probe_bare_obj(o);
    e2e(o, rng, thorough);
}

pub fn run(tier: &str, seed: u64, out: &std::path::Path) -> i32 {
    let thorough = tier == "thorough";
    let mut o = Outcome::new("TYPES", tier, seed);
    let mut rng = Rng::new(seed ^ 0x7e9e5);
    if std::env::var_os("TYPES_SHOW_PANICS").is_none() {
        std::panic::set_hook(Box::new(|_| {}));
    }
    cases(&mut o, &mut rng, thorough);
    o.finish(out, jobs())
}
