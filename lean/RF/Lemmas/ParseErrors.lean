import RF.Model.ParseErrors
import RF.Lemmas.Project
/-! Lemmas about `RF.ParseErrors` that do not depend on the generated tables (C05). -/
namespace RF.Lemmas.ParseErrors
open RF.ParseErrors RF.Gen.ParseErrs RF.Project

/-- What the two blocks of an emitter program are required to do, as a finite check: the block for a
diagnostic that cannot be ignored raises `has_non_ignorable_parser_errors`, clears `can_reset` and shows the
diagnostic once; the block for an ignored file leaves the private flag alone, shows nothing, and may raise
`can_reset` only if no non-ignorable diagnostic has been seen. -/
def blockSpec (p : EmitProg) (hn cr : Bool) : Bool :=
  let s : Sess := ⟨hn, cr, 0, 0, []⟩
  let h := runStmts p.handle s
  let i := runStmts p.ignored s
  h.hasNonIgn && !h.canReset && h.shown == 1 && h.errCount == 0 &&
  (i.hasNonIgn == hn) && (i.canReset == (if hn then cr else true)) && i.shown == 0 && i.errCount == 0

def emitProgOk (p : EmitProg) : Bool :=
  blockSpec p false false && blockSpec p false true && blockSpec p true false && blockSpec p true true

/-- a block's effect does not depend on the two counters or on the stash; it moves the counters by a fixed
amount and leaves the stash alone -/
theorem runStmts_counters (l : List Stmt) : ∀ (s : Sess),
    (runStmts l s).hasNonIgn = (runStmts l ⟨s.hasNonIgn, s.canReset, 0, 0, []⟩).hasNonIgn ∧
    (runStmts l s).canReset = (runStmts l ⟨s.hasNonIgn, s.canReset, 0, 0, []⟩).canReset ∧
    (runStmts l s).errCount = s.errCount + (runStmts l ⟨s.hasNonIgn, s.canReset, 0, 0, []⟩).errCount ∧
    (runStmts l s).shown = s.shown + (runStmts l ⟨s.hasNonIgn, s.canReset, 0, 0, []⟩).shown ∧
    (runStmts l s).stash = s.stash := by
  induction l with
  | nil => intro s; simp [runStmts]
  | cons st r ih =>
    intro s
    simp only [runStmts]
    have h1 := ih (runStmt st s)
    have h2 := ih (runStmt st ⟨s.hasNonIgn, s.canReset, 0, 0, []⟩)
    cases st with
    | setHasNonIgn v => simp only [runStmt] at h1 h2 ⊢; simp only [Nat.zero_add] at h2; exact h1
    | storeCanReset v => simp only [runStmt] at h1 h2 ⊢; exact h1
    | storeCanResetUnlessHasNonIgn v =>
      simp only [runStmt] at h1 h2 ⊢
      cases hh : s.hasNonIgn <;> simp only [hh, Bool.false_eq_true, if_false, if_true] at h1 h2 ⊢ <;> (try exact h1)
    | forward =>
      simp only [runStmt] at h1 h2 ⊢
      obtain ⟨a1, a2, a3, a4, a5⟩ := h1
      obtain ⟨b1, b2, b3, b4, _⟩ := h2
      simp only [Nat.zero_add] at b3 b4
      refine ⟨?_, ?_, ?_, ?_, a5⟩
      · rw [a1, b1]
      · rw [a2, b2]
      · rw [a3, b3]
      · rw [a4, b4]; omega

theorem sess_eq {a b : Sess} (h1 : a.hasNonIgn = b.hasNonIgn) (h2 : a.canReset = b.canReset)
    (h3 : a.errCount = b.errCount) (h4 : a.shown = b.shown) (h5 : a.stash = b.stash) : a = b := by
  cases a; cases b; simp_all

/-- the two blocks of a program that passes the check, on any state -/
theorem blocks_of_ok (p : EmitProg) (hp : emitProgOk p = true) (s : Sess) :
    runStmts p.handle s = { s with hasNonIgn := true, canReset := false, shown := s.shown + 1 } ∧
    runStmts p.ignored s = { s with canReset := if s.hasNonIgn then s.canReset else true } := by
  obtain ⟨hn, cr, ec, sh, st⟩ := s
  obtain ⟨a1, a2, a3, a4, a5⟩ := runStmts_counters p.handle ⟨hn, cr, ec, sh, st⟩
  obtain ⟨b1, b2, b3, b4, b5⟩ := runStmts_counters p.ignored ⟨hn, cr, ec, sh, st⟩
  simp only [emitProgOk, blockSpec, Bool.and_eq_true, beq_iff_eq, Bool.not_eq_true'] at hp
  simp only at a1 a2 a3 a4 a5 b1 b2 b3 b4 b5
  constructor
  · apply sess_eq <;> simp only
    · rw [a1]; cases hn <;> cases cr <;> simp_all
    · rw [a2]; cases hn <;> cases cr <;> simp_all
    · rw [a3]; cases hn <;> cases cr <;> simp_all
    · rw [a4]; cases hn <;> cases cr <;> simp_all
    · exact a5
  · apply sess_eq <;> simp only
    · rw [b1]; cases hn <;> cases cr <;> simp_all
    · rw [b2]; cases hn <;> cases cr <;> simp_all
    · rw [b3]; cases hn <;> cases cr <;> simp_all
    · rw [b4]; cases hn <;> cases cr <;> simp_all
    · exact b5

/-- closed form of one emitter call for a program that passes the check -/
theorem emitterStep_of_ok (p : EmitProg) (hp : emitProgOk p = true) (s : Sess) (d : Diag) :
    emitterStep p s d =
      if d.ignorable then { s with canReset := if s.hasNonIgn then s.canReset else true }
      else { s with hasNonIgn := true, canReset := false, shown := s.shown + 1 } := by
  obtain ⟨h1, h2⟩ := blocks_of_ok p hp s
  unfold emitterStep Diag.ignorable
  rw [h1, h2]
  obtain ⟨lv, lc, st⟩ := d
  cases lv <;> cases lc <;> (try rename_i b; cases b) <;> simp

/-- one diagnostic through `DiagCtxtInner::emit_diagnostic`, field by field -/
theorem dcxEmitNow_of_ok (p : EmitProg) (hp : emitProgOk p = true) (s : Sess) (d : Diag) :
    (dcxEmitNow p s d).hasNonIgn = (s.hasNonIgn || !d.ignorable) ∧
    (dcxEmitNow p s d).canReset = (if d.ignorable then (if s.hasNonIgn then s.canReset else true) else false) ∧
    (dcxEmitNow p s d).errCount = s.errCount + (if d.isError then 1 else 0) ∧
    (dcxEmitNow p s d).shown = s.shown + (if d.ignorable then 0 else 1) ∧
    (dcxEmitNow p s d).stash = s.stash := by
  unfold dcxEmitNow
  rw [emitterStep_of_ok p hp]
  cases hi : d.ignorable <;> cases he : d.isError <;> simp

/-- **closed form of a whole sequence of emitted diagnostics**, from any state -/
theorem emitNowAll_of_ok (p : EmitProg) (hp : emitProgOk p = true) : ∀ (ds : List Diag) (s : Sess),
    (emitNowAll p s ds).hasNonIgn = (s.hasNonIgn || ds.any (fun d => !d.ignorable)) ∧
    (emitNowAll p s ds).canReset =
      (if ds.any (fun d => !d.ignorable) then false else (s.canReset || (!s.hasNonIgn && !ds.isEmpty))) ∧
    (emitNowAll p s ds).errCount = s.errCount + ds.countP Diag.isError ∧
    (emitNowAll p s ds).shown = s.shown + ds.countP (fun d => !d.ignorable) ∧
    (emitNowAll p s ds).stash = s.stash := by
  intro ds
  induction ds with
  | nil => intro s; simp [emitNowAll]
  | cons d r ih =>
    intro s
    obtain ⟨h1, h2, h3, h4, h5⟩ := ih (dcxEmitNow p s d)
    obtain ⟨g1, g2, g3, g4, g5⟩ := dcxEmitNow_of_ok p hp s d
    simp only [emitNowAll]
    rw [h1, h2, h3, h4, h5, g1, g2, g3, g4, g5]
    simp only [List.any_cons, List.countP_cons, List.isEmpty_cons]
    refine ⟨?_, ?_, ?_, ?_, trivial⟩
    · by_cases hi : d.ignorable = true <;> by_cases hn : s.hasNonIgn = true <;> simp [hi, hn]
    · by_cases hi : d.ignorable = true <;> by_cases hn : s.hasNonIgn = true <;> by_cases hc : s.canReset = true <;>
        by_cases ha : r.any (fun d => !d.ignorable) = true <;> simp [hi, hn, hc, ha]
    · by_cases he : d.isError = true <;> simp [he] <;> omega
    · by_cases hi : d.ignorable = true <;> simp [hi] <;> omega

/-- emitting does not look at the stash -/
theorem emitNowAll_stash (p : EmitProg) (hp : emitProgOk p = true) (ds : List Diag) (s : Sess) (x : List Diag) :
    emitNowAll p { s with stash := x } ds = { emitNowAll p s ds with stash := x } := by
  obtain ⟨a1, a2, a3, a4, a5⟩ := emitNowAll_of_ok p hp ds { s with stash := x }
  obtain ⟨b1, b2, b3, b4, _⟩ := emitNowAll_of_ok p hp ds s
  apply sess_eq
  · rw [a1, b1]
  · rw [a2, b2]
  · rw [a3, b3]
  · rw [a4, b4]
  · rw [a5]

/-- **a sequence of diagnostics leaving the parser**: the ones that are emitted act as above, the stashed ones
are appended to the stash -/
theorem emitAll_split (p : EmitProg) (hp : emitProgOk p = true) : ∀ (ds : List Diag) (s : Sess),
    emitAll p s ds =
      { emitNowAll p s (ds.filter fun d => !d.stashed) with stash := s.stash ++ ds.filter fun d => d.stashed } := by
  intro ds
  induction ds with
  | nil =>
    intro s
    simp [emitAll, emitNowAll]
  | cons d r ih =>
    intro s
    simp only [emitAll]
    rw [ih]
    by_cases hd : d.stashed = true
    · simp only [dcxEmit, hd, if_true, List.filter_cons, Bool.not_true, Bool.false_eq_true, if_false]
      rw [emitNowAll_stash p hp]
      simp [List.append_assoc]
    · simp only [Bool.not_eq_true] at hd
      simp only [dcxEmit, hd, Bool.false_eq_true, if_false, List.filter_cons, Bool.not_false, if_true, emitNowAll]
      rw [(dcxEmitNow_of_ok p hp s d).2.2.2.2]

/-- the state a hard error leaves: the private flag up, `can_reset` down, a non-zero count -/
def Poisoned (s : Sess) : Prop := s.hasNonIgn = true ∧ s.canReset = false ∧ s.errCount ≠ 0

theorem poisoned_stable (p : EmitProg) (hp : emitProgOk p = true) (ds : List Diag) (s : Sess) (h : Poisoned s) :
    Poisoned (emitNowAll p s ds) := by
  obtain ⟨h1, h2, h3, _, _⟩ := emitNowAll_of_ok p hp ds s
  obtain ⟨a, b, c⟩ := h
  refine ⟨?_, ?_, ?_⟩
  · rw [h1, a]; rfl
  · rw [h2, a, b]
    by_cases ha : ds.any (fun d => !d.ignorable) = true <;> simp [ha]
  · rw [h3]; omega

theorem hard_error_poisons_now (p : EmitProg) (hp : emitProgOk p = true) (ds : List Diag) (s : Sess)
    (h : ds.any Diag.hardError = true) : Poisoned (emitNowAll p s ds) := by
  obtain ⟨d, hd, hh⟩ := List.any_eq_true.1 h
  simp only [Diag.hardError, Bool.and_eq_true, Bool.not_eq_true'] at hh
  obtain ⟨h1, h2, h3, _, _⟩ := emitNowAll_of_ok p hp ds s
  have ha : ds.any (fun d => !d.ignorable) = true := List.any_eq_true.2 ⟨d, hd, by simp [hh.2]⟩
  have hc : 0 < ds.countP Diag.isError := List.countP_pos_iff.2 ⟨d, hd, hh.1⟩
  refine ⟨?_, ?_, ?_⟩
  · rw [h1, ha]; simp
  · rw [h2]; simp [ha]
  · rw [h3]; omega

/-- **a hard error is never lost on the way to the decision**: after the diagnostics of a call have left the
parser (emitted or stashed) and the stash has been emitted, the session is poisoned if any of them — or
anything still in the stash from before — was a hard error -/
theorem flush_poisoned (p : EmitProg) (hp : emitProgOk p = true) (ds : List Diag) (s : Sess)
    (h : ds.any Diag.hardError = true) : Poisoned (flushStash p (emitAll p s ds)) := by
  obtain ⟨d, hd, hh⟩ := List.any_eq_true.1 h
  rw [emitAll_split p hp]
  unfold flushStash
  simp only
  by_cases hs : d.stashed = true
  · apply hard_error_poisons_now p hp
    apply List.any_eq_true.2
    refine ⟨d, ?_, hh⟩
    simp only [List.mem_filter, List.mem_append, Bool.or_eq_true]
    refine ⟨Or.inr ⟨hd, hs⟩, Or.inl ?_⟩
    simp only [Diag.hardError, Bool.and_eq_true] at hh
    exact hh.1
  · apply poisoned_stable p hp
    have : Poisoned (emitNowAll p s (ds.filter fun d => !d.stashed)) := by
      apply hard_error_poisons_now p hp
      apply List.any_eq_true.2
      refine ⟨d, ?_, hh⟩
      simp only [List.mem_filter]
      exact ⟨hd, by simpa using hs⟩
    exact this

/-! ### the lift: a fault that is reached makes the annotated crate faulty -/

/-- what the lift needs of a table set: a file with a fault is never accepted, in whatever state the session is -/
def NeverAccepts (pp : ParseProg) : Prop :=
  (∀ (s : Sess) (fp : FileParse), fp.fault = true → (parseFile pp s fp).2 ≠ some .ok) ∧
  (∀ (s : Sess) (fp : FileParse), fp.fault = true → (parseCrate pp s fp).2 ≠ some .ok)

theorem retToParse_ok (r : Option Ret) : retToParse r = .ok ↔ r = some .ok := by
  cases r with
  | none => simp [retToParse]
  | some x => cases x <;> simp [retToParse]

mutual
theorem annT_fault (pp : ParseProg) (h : NeverAccepts pp) (pi : Nat → FileParse) :
    ∀ (t : Tree) (s : Sess), faultET pi t = true → faultT (annT pp pi t s).1 = true
  | .node f mods, s => by
    intro hf
    unfold annT
    simp only [faultET, Bool.or_eq_true, Bool.and_eq_true, Bool.not_eq_true'] at hf
    by_cases hc : (parseFile pp s (pi f.path)).2 = some .ok ∧ f.skipAttr = false
    · simp only [hc, and_self, if_true]
      rcases hf with hf | ⟨_, hf⟩
      · exact absurd hc.1 (h.1 s _ hf)
      · have := annM_fault pp h pi mods (parseFile pp s (pi f.path)).1 hf
        simp [faultT, this]
    · simp only [hc, if_false]
      by_cases hr : (parseFile pp s (pi f.path)).2 = some .ok
      · have hs : f.skipAttr = true := by
          cases hsk : f.skipAttr with
          | true => rfl
          | false => exact absurd ⟨hr, hsk⟩ hc
        rcases hf with hf | ⟨hf, _⟩
        · exact absurd hr (h.1 s _ hf)
        · rw [hs] at hf; cases hf
      · have : retToParse (parseFile pp s (pi f.path)).2 ≠ .ok := fun e => hr ((retToParse_ok _).1 e)
        simp [faultT, this]
theorem annM_fault (pp : ParseProg) (h : NeverAccepts pp) (pi : Nat → FileParse) :
    ∀ (m : Mods) (s : Sess), faultEM pi m = true → faultM (annM pp pi m s).1 = true
  | .nil, s => by simp [faultEM]
  | .found t rest, s => by
    intro hf
    unfold annM
    simp only [faultEM, Bool.or_eq_true] at hf
    by_cases hc : faultT (annT pp pi t s).1 = true
    · simp [hc, faultM]
    · simp only [hc, Bool.false_eq_true, if_false]
      rcases hf with hf | hf
      · exact absurd (annT_fault pp h pi t s hf) hc
      · simp [faultM, annM_fault pp h pi rest _ hf]
  | .skipped rest, s => by
    intro hf
    unfold annM
    simp only [faultEM] at hf
    simp [faultM, annM_fault pp h pi rest s hf]
  | .notFound rest, s => by simp [annM, faultM]
  | .multiple rest, s => by simp [annM, faultM]
end

theorem annotateRoot_node (pp : ParseProg) (pi : Nat → FileParse) (cfg : Cfg) (f : File) (mods : Mods) :
    annotateRoot pp pi cfg (.node f mods) =
      if (parseCrate pp Sess.init (pi f.path)).2 = some .ok ∧ cfg.skipChildren = false then
        .node { f with parse := retToParse (parseCrate pp Sess.init (pi f.path)).2 }
          (annM pp pi mods (parseCrate pp Sess.init (pi f.path)).1).1
      else .node { f with parse := retToParse (parseCrate pp Sess.init (pi f.path)).2 } mods := rfl

theorem annotateRoot_file (pp : ParseProg) (pi : Nat → FileParse) (cfg : Cfg) (root : Tree) :
    (annotateRoot pp pi cfg root).file.ignored = root.file.ignored ∧
    (annotateRoot pp pi cfg root).file.path = root.file.path := by
  cases root with
  | node f mods =>
    rw [annotateRoot_node]
    split <;> simp [Tree.file]

/-- **the lift**: if the crate cannot be processed in the sense of `faultyE` (a reachable file with a fault,
or a `mod` without a file or with two), the crate annotated by the bookkeeping is `faulty` in the sense of
`RF.Project`, whatever the diagnostics of the other files are and in whatever order they are met. -/
theorem annotateRoot_faulty (pp : ParseProg) (h : NeverAccepts pp) (pi : Nat → FileParse) (cfg : Cfg) (root : Tree)
    (hf : faultyE pi cfg root = true) : faulty cfg (annotateRoot pp pi cfg root) = true := by
  cases root with
  | node f mods =>
    simp only [faultyE, Tree.file, Tree.mods, Bool.or_eq_true, Bool.and_eq_true, Bool.not_eq_true'] at hf
    rw [annotateRoot_node]
    by_cases hc : (parseCrate pp Sess.init (pi f.path)).2 = some .ok ∧ cfg.skipChildren = false
    · rw [if_pos hc]
      rcases hf with hf | ⟨_, hf⟩
      · exact absurd hc.1 (h.2 _ _ hf)
      · have := annM_fault pp h pi mods (parseCrate pp Sess.init (pi f.path)).1 hf
        simp [faulty, Tree.file, Tree.mods, this, hc.2]
    · rw [if_neg hc]
      by_cases hr : (parseCrate pp Sess.init (pi f.path)).2 = some .ok
      · have hs : cfg.skipChildren = true := by
          cases hsk : cfg.skipChildren with
          | true => rfl
          | false => exact absurd ⟨hr, hsk⟩ hc
        rcases hf with hf | ⟨hf, _⟩
        · exact absurd hr (h.2 _ _ hf)
        · rw [hs] at hf; cases hf
      · have : retToParse (parseCrate pp Sess.init (pi f.path)).2 ≠ .ok := fun e => hr ((retToParse_ok _).1 e)
        simp [faulty, Tree.file, this]

end RF.Lemmas.ParseErrors
