import RF.Lemmas.OptRewrites
import RF.Gen.Keywords
/-!
# C01 (closed list): each opt-in rewrite fires only where the list allows it and keeps what the construct denotes

The theorems are about the definitions of `RF/Model/OptRewrites.lean` — literal transcriptions of the predicates and
string builders in rustfmt — for ALL inputs of the small syntax each of them looks at.  The model is tied to the code by
the correspondence of `rfverif optin` (every decision on exhaustive universes of near-miss inputs parsed by rustfmt's
own parser) and, for the tables of `src/utils.rs`, by the translator `translate/c01_keywords.py`.

For every rewrite `k`: `…_exact` (it fires exactly when …), `…_sound` (the printed form denotes the same thing under an
explicit denotation), lemmas for the error / edge branches, and — where the pinned tree was wrong — a
`…_counterexample` about the pinned behaviour (`…Pinned`), which a `fix:` commit of branch hw-optin repaired.
-/
namespace RF.Props.OptRewrites
open RF.Opt RF.Lemmas.OptRewrites

/-! ## §1 field-init shorthand (`rewrite_field`, use_field_init_shorthand) -/

/-- **The shorthand fires exactly when** the field is written out, its initialiser was rendered, is not a literal,
renders to the very text of the field name, and the option is on. -/
theorem rewrite_field_exact (opt exprOk : Bool) (f : FieldIn) :
    (∃ a n, rewriteFieldS opt exprOk f = .shorthand a n) ↔
      (f.isShorthand = true ∨
        (exprOk = true ∧ f.init.isLit = false ∧ f.init.render = f.name ∧ opt = true)) := by
  unfold rewriteFieldS
  cases hs : f.isShorthand <;> cases exprOk <;> cases opt <;> cases hl : f.init.isLit <;>
    by_cases hr : f.init.render = f.name <;> simp [hr]

theorem fieldFires_iff (opt exprOk : Bool) (f : FieldIn) :
    fieldFires opt exprOk f = true ↔
      (f.isShorthand = false ∧ exprOk = true ∧ f.init.isLit = false ∧ f.init.render = f.name ∧ opt = true) := by
  unfold fieldFires
  cases f.isShorthand <;> cases exprOk <;> cases opt <;> cases f.init.isLit <;> simp

/-- **Sound.**  Whatever the option, the shape and the initialiser: the printed field denotes the same (field name, value
tokens) pair as the source field.  In particular the shorthand is printed only for an initialiser that IS the
one-segment path of the field's name — `x::<T>`, `r#x` for `x`, `(x)`, `x.0`, `self::x`, `#[a] x`, `x as T`, `&x`,
`x?` never qualify. -/
theorem rewrite_field_sound (opt exprOk : Bool) (f : FieldIn) (hn : identLike f.name = true) :
    (rewriteFieldS opt exprOk f).den = f.den := by
  unfold rewriteFieldS FieldIn.den
  cases hs : f.isShorthand with
  | true => simp [FieldOut.den]
  | false =>
    cases exprOk with
    | false => simp [FieldOut.den]
    | true =>
      by_cases hc : (!f.init.isLit && f.init.render == f.name && opt) = true
      · simp only [hc, if_true, Bool.false_eq_true, if_false, FieldOut.den]
        simp only [Bool.and_eq_true, Bool.not_eq_true', beq_iff_eq] at hc
        obtain ⟨⟨hl, hr⟩, _⟩ := hc
        have := render_identLike hl (by rw [hr]; exact hn)
        rw [this, hr]
        simp [Init.toks, segsToks, Seg.toks]
      · simp [hc, FieldOut.den]

/-- the error branch (the initialiser does not fit the first shape): a written-out field stays written out -/
theorem rewrite_field_err_keeps_explicit (opt : Bool) (f : FieldIn) (hs : f.isShorthand = false) :
    rewriteFieldS opt false f = .explicitNextLine f.attrs f.name f.init := by
  simp [rewriteFieldS, hs]

/-- option off: nothing is abbreviated -/
theorem rewrite_field_off (exprOk : Bool) (f : FieldIn) (hs : f.isShorthand = false) :
    ∀ a n, rewriteFieldS false exprOk f ≠ .shorthand a n := by
  intro a n
  cases exprOk <;> simp [rewriteFieldS, hs]

/-- a tuple-struct literal `S { 0: 0 }` is why the guard looks at `is_lit`: the text matches, the shorthand does not fire -/
example : rewriteField true true ⟨cs% "0", false, .lit (cs% "0"), [], cs% ": "⟩ = cs% "0: 0" := by decide
/-- non-vacuity: it does fire on `x: x` and on `r#x: r#x`, and not on the near misses -/
example : rewriteField true true ⟨cs% "x", false, .path false [⟨cs% "x", none⟩], [], cs% ": "⟩ = cs% "x" := by decide
example : rewriteField true true ⟨cs% "r#x", false, .path false [⟨cs% "r#x", none⟩], [], cs% ": "⟩ = cs% "r#x" := by decide
example : rewriteField true true ⟨cs% "x", false, .path false [⟨cs% "r#x", none⟩], [], cs% ": "⟩ = cs% "x: r#x" := by decide
example : rewriteField true true ⟨cs% "x", false, .path false [⟨cs% "x", some (cs% "T")⟩], [], cs% ": "⟩ = cs% "x: x::<T>" := by
  decide
example : rewriteField true true ⟨cs% "x", false, .paren (.path false [⟨cs% "x", none⟩]), [], cs% ": "⟩ = cs% "x: (x)" := by
  decide
example : identLike (cs% "r#x") = true := by decide

/-- **The seeded variant is told apart**: deciding on the AST by symbol (ignoring `r#` and generic arguments) abbreviates
`x: x::<T>`, which changes the value tokens. -/
theorem field_ast_decision_counterexample :
    let f : FieldIn := ⟨cs% "x", false, .path false [⟨cs% "x", some (cs% "T")⟩], [], cs% ": "⟩
    fieldFiresAst true f = true ∧ fieldFires true true f = false ∧
      (FieldOut.shorthand f.attrs f.name).den ≠ f.den := by decide

/-- struct PATTERN fields: the pinned tree has no shorthand rewrite there — a written-out field stays written out
whatever its sub-pattern (`x: x`, `x: ref x`, `x: mut x`), a shorthand stays a shorthand -/
theorem pat_field_never_abbreviates (f : PatFieldIn) (hs : f.isShorthand = false) :
    rewritePatField f = f.name ++ cs% ": " ++ f.pat.render := by
  simp [rewritePatField, hs]

theorem pat_field_shorthand_kept (f : PatFieldIn) (hs : f.isShorthand = true) :
    rewritePatField f = f.pat.render := by
  simp [rewritePatField, hs]

example : rewritePatField ⟨cs% "x", false, .bind false false false (cs% "x") none⟩ = cs% "x: x" := by decide
example : rewritePatField ⟨cs% "x", true, .bind true true false (cs% "x") none⟩ = cs% "ref mut x" := by decide

/-! ## §2 `try!(e)` → `e?` (`convert_try_mac`, use_try_shorthand) -/

theorem try_path_exact (p : Str) : tryPath p = true ↔ (p = cs% "try" ∨ p = cs% "r#try") := by
  simp [tryPath]

theorem parseOnlyExpr_some {args : List ArgTok} {e : Operand} (h : parseOnlyExpr args = some e) :
    args = [.expr e] ∨ args = [.expr e, .comma] := by
  match args with
  | [] => simp [parseOnlyExpr] at h
  | [.expr e'] => simp [parseOnlyExpr] at h; subst h; exact Or.inl rfl
  | [.comma] => simp [parseOnlyExpr] at h
  | [.junk _] => simp [parseOnlyExpr] at h
  | [.expr e', .comma] => simp [parseOnlyExpr] at h; subst h; exact Or.inr rfl
  | [.expr _, .expr _] => simp [parseOnlyExpr] at h
  | [.expr _, .junk _] => simp [parseOnlyExpr] at h
  | .comma :: _ :: _ => simp [parseOnlyExpr] at h
  | .junk _ :: _ :: _ => simp [parseOnlyExpr] at h
  | .expr _ :: _ :: _ :: _ => simp [parseOnlyExpr] at h

/-- **The conversion fires exactly when** the option is on, the path is `try` (printed `r#try` from 2018 on), and the
macro's tokens are one expression, optionally followed by one comma. -/
theorem rewrite_try_exact (opt : Bool) (path : Str) (args : List ArgTok) (o : TryOut) :
    convertTry opt path args = some o ↔
      (opt = true ∧ tryPath path = true ∧
        (args = [.expr o.operand] ∨ args = [.expr o.operand, .comma]) ∧ o.parens = needsParens o.operand) := by
  unfold convertTry
  constructor
  · intro h
    by_cases hc : (opt && tryPath path) = true
    · simp only [hc, if_true] at h
      cases hp : parseOnlyExpr args with
      | none => simp [hp] at h
      | some e =>
        simp only [hp, Option.some.injEq] at h
        subst h
        simp only [Bool.and_eq_true] at hc
        exact ⟨hc.1, hc.2, parseOnlyExpr_some hp, rfl⟩
    · simp [hc] at h
  · rintro ⟨ho, hp, ha, hpar⟩
    have : parseOnlyExpr args = some o.operand := by
      rcases ha with ha | ha <;> simp [ha, parseOnlyExpr]
    simp [ho, hp, this]
    cases o; simp_all

/-- **Sound.**  When the conversion fires, the printed form is the operand's tokens — every one of them, in
parentheses where needed — followed by `?`; what was between the macro's delimiters is that operand and at most one
trailing comma; and `?` applies to the whole operand (an operand of lower precedence than a postfix operator and one
with attributes are parenthesised). -/
theorem rewrite_try_sound (opt : Bool) (path : Str) (args : List ArgTok) (o : TryOut)
    (h : convertTry opt path args = some o) :
    o.scope = some o.operand.toks ∧
    (argToks args = o.operand.toks ∨ argToks args = o.operand.toks ++ [cs% ","]) ∧
    (o.toks = o.operand.toks ++ [cs% "?"] ∨ o.toks = [cs% "("] ++ o.operand.toks ++ [cs% ")", cs% "?"]) := by
  obtain ⟨_, _, ha, hp⟩ := (rewrite_try_exact opt path args o).mp h
  refine ⟨?_, ?_, ?_⟩
  · unfold TryOut.scope; rw [hp]; cases needsParens o.operand <;> simp
  · rcases ha with ha | ha <;> simp [ha, argToks, ArgTok.toks]
  · unfold TryOut.toks; cases o.parens <;> simp

/-- anything but one expression (and one comma) is left alone -/
theorem rewrite_try_declines (opt : Bool) (path : Str) (args : List ArgTok)
    (h : parseOnlyExpr args = none) : convertTry opt path args = none := by
  simp [convertTry, h]

/-- the operand shapes of the examples: `x`, `a + b`, `y` -/
def opX : Operand := ⟨cs% "x", [cs% "x"], false, false⟩
def opSum : Operand := ⟨cs% "a + b", [cs% "a", cs% "+", cs% "b"], true, false⟩
def opY : Operand := ⟨cs% "y", [cs% "y"], false, false⟩

example : (convertTry true (cs% "try") [.expr opX]).map TryOut.render = some (cs% "x?") := by decide
example : (convertTry true (cs% "try") [.expr opSum, .comma]).map TryOut.render = some (cs% "(a + b)?") := by decide
example : convertTry true (cs% "try") [.expr opX, .comma, .expr opY] = none := by decide
example : convertTry true (cs% "a::try") [.expr opX] = none := by decide

/-- **The pinned tree dropped an argument**: `try!(x, y)` became `x?` — the tokens `,` `y` are gone. -/
theorem try_pinned_drops_argument_counterexample :
    let args := [ArgTok.expr opX, .comma, .expr opY]
    (convertTryPinned true (cs% "try") args).map TryOut.toks = some [cs% "x", cs% "?"] ∧
      argToks args = [cs% "x", cs% ",", cs% "y"] := by decide

/-- **The pinned tree split the operand**: `try!(a + b)` became `a + b?`, where `?` applies to `b` only. -/
theorem try_pinned_splits_operand_counterexample :
    (convertTryPinned true (cs% "try") [.expr opSum]).map (fun o => (o.render, o.scope)) =
      some (cs% "a + b?", none) := by decide

/-! ## §3 `(a, _, _, _)` → `(a, ..)` (`count_wildcard_suffix_len`, condense_wildcard_suffixes) -/

/-- **It fires exactly when** the option is on, the pattern has no `..` yet, and at least two trailing elements are
rendered `_` (counted from the end, up to and including the first one that carries a comment). -/
theorem condense_exact (opt : Bool) (items : List TItem) :
    condenseFires opt items = true ↔
      (opt = true ∧ hasDotdot items = false ∧ countWildcardSuffixLen items ≥ 2) := by
  simp [condenseFires, Bool.and_eq_true, and_assoc]

/-- only a SUFFIX is touched: what is printed is the untouched front followed by `..` -/
theorem condense_shape (opt : Bool) (items : List TItem) (h : condenseFires opt items = true) :
    condense opt items =
      (items.take (items.length - countWildcardSuffixLen items)).map TItem.text ++ [restText] ∧
    (items.drop (items.length - countWildcardSuffixLen items)).map TItem.text =
      List.replicate (countWildcardSuffixLen items) wildText := by
  exact ⟨by simp [condense, h], suffix_is_wild items⟩

/-- **Sound.**  For a tuple of any number of fields `n` that the source pattern fits, the printed pattern says the same
about every field: the `..` stands for exactly the wildcards it replaced. -/
theorem condense_sound (opt : Bool) (items : List TItem) (n : Nat) (d : List Str)
    (h : tupleDen n (items.map TItem.text) = some d) :
    tupleDen n (condense opt items) = some d := by
  by_cases hf : condenseFires opt items = true
  · obtain ⟨hshape, hsuf⟩ := condense_shape opt items hf
    obtain ⟨_, hdd, hc2⟩ := (condense_exact opt items).mp hf
    have hle := count_le_length items
    generalize hcdef : countWildcardSuffixLen items = c at *
    -- the source has no `..`: it denotes itself, and has `n` elements
    have hany : (items.map TItem.text).any (· == restText) = false := by
      simpa [hasDotdot, List.any_map, Function.comp_def] using hdd
    have hfil := filter_eq_nil_of_not_any hany
    have hlen : items.length = n ∧ d = items.map TItem.text := by
      unfold tupleDen at h
      simp only [hfil, List.length_nil] at h
      split at h
      · rename_i hl; simp at hl; simp at h; exact ⟨hl, h.symm⟩
      · simp at h
    obtain ⟨hn, hd⟩ := hlen
    -- the front has no `..` either
    have hfront : ∀ y ∈ (items.take (items.length - c)).map TItem.text, (y != restText) = true := by
      intro y hy
      rw [List.any_eq_false] at hany
      have : y ∈ items.map TItem.text := by
        obtain ⟨i, hi, rfl⟩ := List.mem_map.mp hy
        exact List.mem_map_of_mem (List.mem_of_mem_take hi)
      have := hany y this
      simpa [bne] using this
    rw [hshape]
    generalize hP : (items.take (items.length - c)).map TItem.text = P at *
    have hPlen : P.length = items.length - c := by
      rw [← hP]; simp [List.length_take]
    have hfilter : (P ++ [restText]).filter (· == restText) = [restText] := by
      rw [List.filter_append]
      have : P.filter (· == restText) = [] := by
        rw [List.filter_eq_nil_iff]
        intro a ha
        have := hfront a ha
        simpa [bne] using this
      simp [this]
    unfold tupleDen
    simp only [hfilter, List.length_singleton]
    have hle2 : (P ++ [restText]).length - 1 ≤ n := by simp [hPlen]; omega
    simp only [hle2, if_true]
    rw [takeWhile_append_stop P restText [] hfront (by simp [bne]),
        dropWhile_append_stop P restText [] hfront (by simp [bne])]
    have hcnt : n - ((P ++ [restText]).length - 1) = c := by simp [hPlen]; omega
    rw [hcnt, hd]
    have hsplit : items.map TItem.text =
        (items.take (items.length - c)).map TItem.text ++ (items.drop (items.length - c)).map TItem.text := by
      rw [← List.map_append, List.take_append_drop]
    rw [hsplit, hP, hsuf]
    simp
  · have : condense opt items = items.map TItem.text := by simp [condense, hf]
    rw [this]; exact h

example : condense true [⟨cs% "a", false⟩, ⟨cs% "_", false⟩, ⟨cs% "_", false⟩, ⟨cs% "_", false⟩] = [cs% "a", cs% ".."] := by
  decide
example : tupleDen 4 [cs% "a", cs% ".."] = some [cs% "a", cs% "_", cs% "_", cs% "_"] := by decide
/-- one trailing wildcard is not condensed; a wildcard in parentheses or an or-pattern of wildcards is no wildcard -/
example : condense true [⟨cs% "a", false⟩, ⟨cs% "_", false⟩] = [cs% "a", cs% "_"] := by decide
example : condense true [⟨cs% "_", false⟩, ⟨cs% "(_)", false⟩] = [cs% "_", cs% "(_)"] := by decide
/-- a comment ends the count behind the element that carries it -/
example : condense true [⟨cs% "_", false⟩, ⟨cs% "_", true⟩, ⟨cs% "_", false⟩] = [cs% "_", cs% ".."] := by decide

/-- with a `..` already there the repaired code leaves the pattern alone -/
theorem condense_never_next_to_dotdot (opt : Bool) (items : List TItem) (h : hasDotdot items = true) :
    condense opt items = items.map TItem.text := by
  simp [condense, condenseFires, h]

/-- printing is stable: a condensed pattern has its `..` and is left alone -/
theorem condense_stable (opt : Bool) (items : List TItem) (h : condenseFires opt items = true)
    (again : List TItem) (ha : again.map TItem.text = condense opt items) :
    condense opt again = condense opt items := by
  have hd : hasDotdot again = true := by
    have hshape := (condense_shape opt items h).1
    rw [hshape] at ha
    have : restText ∈ again.map TItem.text := by rw [ha]; simp
    obtain ⟨i, hi, hit⟩ := List.mem_map.mp this
    simp only [hasDotdot, List.any_eq_true]
    exact ⟨i, hi, by simp [hit]⟩
  rw [condense_never_next_to_dotdot opt again hd, ha]

/-- **The pinned tree wrote a second `..`**: `(a, .., _, _)` became `(a, .., ..)`, which fits no tuple at all. -/
theorem condense_pinned_counterexample :
    let items : List TItem := [⟨cs% "a", false⟩, ⟨cs% "..", false⟩, ⟨cs% "_", false⟩, ⟨cs% "_", false⟩]
    condensePinned true items = [cs% "a", cs% "..", cs% ".."] ∧
      tupleDen 5 (items.map TItem.text) = some [cs% "a", cs% "_", cs% "_", cs% "_", cs% "_"] ∧
      tupleDen 5 (condensePinned true items) = none ∧
      condense true items = items.map TItem.text := by decide

/-! ## §4 `((x))` → `(x)` (`rewrite_paren`, remove_nested_parens) -/

/-- **Sound.**  Nothing but parentheses goes: the attributes, the comments and the innermost expression of the printed
form are those of the source, in the same order. -/
theorem paren_norm_sound (opt : Bool) (e : PExpr) : (e.norm opt).hard = e.hard := by
  induction e using PExpr.norm.induct opt with
  | case1 t => simp [PExpr.norm]
  | case2 a pre post t => simp [PExpr.norm]
  | case3 a pre post a' pre' post' inner hc ih =>
    rw [PExpr.norm]
    simp only [hc, if_true]
    rw [ih]
    simp only [Bool.and_eq_true, List.isEmpty_iff] at hc
    obtain ⟨⟨⟨_, ha'⟩, hpre⟩, hpost⟩ := hc
    subst ha'; subst hpre; subst hpost
    cases a <;> cases pre' <;> simp [PExpr.hard]
  | case4 a pre post a' pre' post' inner hc ih =>
    rw [PExpr.norm]
    simp only [hc]
    show (PExpr.paren a pre post (PExpr.norm opt (PExpr.paren a' pre' post' inner))).hard = _
    rw [PExpr.hard, ih]
    simp [PExpr.hard]

/-- a parenthesised expression stays parenthesised: the outermost pair is never the one that goes -/
theorem paren_norm_keeps_outer (opt : Bool) (e : PExpr) (h : e.depth ≥ 1) : (e.norm opt).depth ≥ 1 := by
  induction e using PExpr.norm.induct opt with
  | case1 t => simp [PExpr.depth] at h
  | case2 a pre post t => simp [PExpr.norm, PExpr.depth]
  | case3 a pre post a' pre' post' inner hc ih =>
    rw [PExpr.norm]; simp only [hc, if_true]
    exact ih (by simp [PExpr.depth])
  | case4 a pre post a' pre' post' inner hc ih =>
    rw [PExpr.norm]; simp only [hc]
    simp [PExpr.depth]

/-- option off: the identity -/
theorem paren_norm_off (e : PExpr) : e.norm false = e := by
  induction e using PExpr.norm.induct false with
  | case1 t => simp [PExpr.norm]
  | case2 a pre post t => simp [PExpr.norm]
  | case3 a pre post a' pre' post' inner hc ih => simp at hc
  | case4 a pre post a' pre' post' inner hc ih =>
    rw [PExpr.norm]; simp [ih]

/-- printing is stable: what `rewrite_paren` printed it prints again -/
theorem paren_norm_idem (opt : Bool) (e : PExpr) : (e.norm opt).norm opt = e.norm opt := by
  induction e using PExpr.norm.induct opt with
  | case1 t => simp [PExpr.norm]
  | case2 a pre post t => simp [PExpr.norm]
  | case3 a pre post a' pre' post' inner hc ih =>
    have : (PExpr.paren a pre post (.paren a' pre' post' inner)).norm opt = (PExpr.paren a pre' post' inner).norm opt := by
      rw [PExpr.norm]; simp only [hc, if_true]
    rw [this, ih]
  | case4 a pre post a' pre' post' inner hc ih =>
    have hn : (PExpr.paren a pre post (.paren a' pre' post' inner)).norm opt =
        .paren a pre post ((PExpr.paren a' pre' post' inner).norm opt) := by
      rw [PExpr.norm]; simp only [hc]; simp
    rw [hn]
    -- the inner result is a parenthesis that keeps what blocked the step
    generalize hq : (PExpr.paren a' pre' post' inner).norm opt = q at ih ⊢
    have hkeep : ∃ p2 q2 inner2, q = .paren a' p2 q2 inner2 := by
      rw [← hq]
      clear ih hn hq hc
      induction inner generalizing pre' post' with
      | atom t => exact ⟨pre', post', .atom t, by simp [PExpr.norm]⟩
      | paren a2 p2 q2 i2 ihi =>
        rw [PExpr.norm]
        split
        · exact ihi p2 q2
        · exact ⟨pre', post', _, rfl⟩
    obtain ⟨p2, q2, inner2, hq2⟩ := hkeep
    subst hq2
    rw [PExpr.norm]
    simp only [hc]
    simp [ih]

/-- **It fires exactly when**: a pair directly inside another goes iff the option is on, no comment stands between the
two and the inner pair has no attributes (one step of the loop). -/
theorem paren_norm_exact (opt : Bool) (a pre post a' pre' post' : Str) (inner : PExpr) :
    (PExpr.paren a pre post (.paren a' pre' post' inner)).norm opt =
      (if opt = true ∧ a' = [] ∧ pre = [] ∧ post = [] then (PExpr.paren a pre' post' inner).norm opt
       else .paren a pre post ((PExpr.paren a' pre' post' inner).norm opt)) := by
  rw [PExpr.norm]
  by_cases h : opt = true ∧ a' = [] ∧ pre = [] ∧ post = []
  · obtain ⟨h1, h2, h3, h4⟩ := h; subst h1 h2 h3 h4; simp
  · have : (opt && a'.isEmpty && pre.isEmpty && post.isEmpty) = false := by
      cases opt <;> simp_all [List.isEmpty_iff]
    simp [this, h]

example : ((PExpr.paren [] [] [] (.paren [] [] [] (.paren [] [] [] (.atom (cs% "a"))))).norm true).render = cs% "(a)" := by
  simp [PExpr.norm, PExpr.render]
/-- an attribute on the inner pair, or a comment between the pairs, keeps both -/
example : ((PExpr.paren [] [] [] (.paren (cs% "#[attr]") [] [] (.atom (cs% "a + b")))).norm true).render =
    cs% "(#[attr] (a + b))" := by simp [PExpr.norm, PExpr.render]
example : ((PExpr.paren [] (cs% "/* c */") [] (.paren [] [] [] (.atom (cs% "a")))).norm true).render =
    cs% "(/* c */(a))" := by simp [PExpr.norm, PExpr.render]

/-- **The pinned tree lost the attribute**: `(#[attr] (a + b))` became `(a + b)`. -/
theorem paren_pinned_drops_attribute_counterexample :
    let e := PExpr.paren [] [] [] (.paren (cs% "#[attr]") [] [] (.atom (cs% "a + b")))
    (e.normPinned true).render = cs% "(a + b)" ∧ (e.normPinned true).hard ≠ e.hard ∧
      (e.norm true).hard = e.hard := by
  refine ⟨by simp [PExpr.normPinned, PExpr.render], by simp [PExpr.normPinned, PExpr.hard], paren_norm_sound _ _⟩

/-! ## §5 keywords, visibility, ABI (`src/utils.rs`) -/

open RF.Gen.Keywords in
/-- **What the source says is what Rust calls these keywords.**  `kwFns` is read out of `src/utils.rs` on every run
(translate/c01_keywords.py); this is the table of the language: every variant maps to its own keyword followed by one
blank (`format_constness_right`: preceded by one), the variant that stands for "absent" to the empty text. -/
theorem keywords_exact :
    kwFns = [
      ⟨cs% "format_coro", cs% "ast::CoroutineKind",
        [(cs% "Async", cs% "async "), (cs% "Gen", cs% "gen "), (cs% "AsyncGen", cs% "async gen ")]⟩,
      ⟨cs% "format_constness", cs% "ast::Const", [(cs% "Yes", cs% "const "), (cs% "No", [])]⟩,
      ⟨cs% "format_constness_right", cs% "ast::Const", [(cs% "Yes", cs% " const"), (cs% "No", [])]⟩,
      ⟨cs% "format_defaultness", cs% "ast::Defaultness", [(cs% "Default", cs% "default "), (cs% "Final", [])]⟩,
      ⟨cs% "format_safety", cs% "ast::Safety",
        [(cs% "Unsafe", cs% "unsafe" ++ [' ']), (cs% "Safe", cs% "safe "), (cs% "Default", [])]⟩,
      ⟨cs% "format_auto", cs% "ast::IsAuto", [(cs% "Yes", cs% "auto "), (cs% "No", [])]⟩,
      ⟨cs% "format_mutability", cs% "ast::Mutability", [(cs% "Mut", cs% "mut "), (cs% "Not", [])]⟩] := by
  decide

/-- the variant of each enum that stands for the absence of the keyword (`CoroutineKind` has none) -/
def absentVariants : List (Str × Str) :=
  [(cs% "ast::Const", cs% "No"), (cs% "ast::Defaultness", cs% "Final"), (cs% "ast::Safety", cs% "Default"),
   (cs% "ast::IsAuto", cs% "No"), (cs% "ast::Mutability", cs% "Not")]

open RF.Gen.Keywords in
/-- no two variants of one enum print the same text, and only the "absent" variant prints nothing -/
theorem keywords_injective_nonempty :
    kwFns.all (fun f =>
      (f.arms.map Prod.snd).Nodup ∧ (f.arms.map Prod.fst).Nodup ∧
      f.arms.all (fun a => a.2.isEmpty == absentVariants.contains (f.enum, a.1))) = true := by
  decide

open RF.Gen.Keywords in
/-- every keyword text is lower-case words separated by one blank, with exactly one blank at one end: two of them put
side by side never run together and never leave two blanks -/
theorem keywords_spacing :
    kwFns.all (fun f => f.arms.all (fun a =>
      a.2.all (fun c => ('a' ≤ c && c ≤ 'z') || c == ' ') &&
      (a.2.isEmpty || ((a.2.head? == some ' ') != (a.2.getLast? == some ' '))))) = true := by
  decide

/-- **`format_extern` is the function its source arms spell.**  The five arms read out of `src/utils.rs`, run first-match,
are the hand-written `formatExtern` for every qualifier, ABI text and value of `force_explicit_abi`. -/
theorem extern_arms_modelled (ext : Ext) (explicitAbi : Bool) :
    externFromArms RF.Gen.Keywords.externArms ext explicitAbi = some (formatExtern ext explicitAbi) := by
  cases ext with
  | none => cases explicitAbi <;> decide
  | implicit => cases explicitAbi <;> decide
  | explicit abi =>
    cases explicitAbi with
    | true => simp [externFromArms, RF.Gen.Keywords.externArms, formatExtern, List.find?]
    | false =>
      by_cases h : abi = cs% "C"
      · subst h; decide
      · have hb : (abi == cs% "C") = false := by simp [h]
        simp [externFromArms, RF.Gen.Keywords.externArms, formatExtern, List.find?, hb]

open RF.Gen.Keywords in
/-- the constants of `format_visibility` as read out of the source are the ones `formatVisibility` uses -/
theorem visibility_constants_modelled :
    visPublic = cs% "pub " ∧ visInherited = [] ∧ visKeywords = [cs% "crate", cs% "self", cs% "super"] ∧
      visSep = cs% "::" ∧ visInKeyword = [] ∧ visInOther = cs% "in " ∧ visFormat = cs% "pub({in_str}{path}) " := by
  decide

/-- **It fires exactly when**: `in` is dropped iff the whole path is one of `crate`, `self`, `super`; the segments are
printed as written, joined by `::`. -/
theorem format_visibility_exact (g : Bool) (segs : List Str) :
    formatVisibility (.restricted g segs) =
      cs% "pub(" ++ (if joinWith (cs% "::") segs = cs% "crate" ∨ joinWith (cs% "::") segs = cs% "self" ∨
          joinWith (cs% "::") segs = cs% "super" then [] else cs% "in ") ++ joinWith (cs% "::") segs ++ cs% ") " := by
  simp only [formatVisibility, isVisKeyword, Bool.or_eq_true, beq_iff_eq, or_assoc]

example : formatVisibility (.restricted false [cs% "crate"]) = cs% "pub(crate) " := by decide
example : formatVisibility (.restricted false [cs% "super", cs% "super"]) = cs% "pub(in super::super) " := by decide
example : formatVisibility (.restricted false [cs% "crate", cs% "a"]) = cs% "pub(in crate::a) " := by decide

/-- a quirk the model keeps: the leading `::` of `pub(in ::a)` is not printed (2015 edition, where `::a` and `a` name the
same module in a visibility) -/
theorem format_visibility_drops_root_counterexample :
    formatVisibility (.restricted true [cs% "a"]) = cs% "pub(in a) " := by decide

theorem readExtern_quote (abi : Str) (h : ∀ c ∈ abi, c ≠ '"' ∧ c ≠ '\\') :
    readExtern (cs% "extern \"" ++ abi ++ cs% "\" ") = some (.explicit abi) := by
  have hp : ∀ c ∈ abi, (c != '"' && c != '\\') = true := by
    intro c hc; have := h c hc; simp [bne, this.1, this.2]
  have htw : (abi ++ cs% "\" ").takeWhile (fun c => c != '"' && c != '\\') = abi :=
    takeWhile_append_stop abi '"' [' '] hp (by decide)
  have hdw : (abi ++ cs% "\" ").dropWhile (fun c => c != '"' && c != '\\') = cs% "\" " :=
    dropWhile_append_stop abi '"' [' '] hp (by decide)
  have hne : (cs% "extern \"" ++ abi ++ cs% "\" ") ≠ [] := by simp
  have hne2 : (cs% "extern \"" ++ abi ++ cs% "\" ") ≠ cs% "extern " := by
    intro hh
    have := congrArg (fun l => l.drop 7) hh
    simp at this
  unfold readExtern
  simp only [beq_iff_eq, hne, hne2, if_false]
  simp only [List.cons_append, List.nil_append]
  simp only [htw, hdw]
  simp

/-- **Sound (partial).**  The printed qualifier selects the ABI the source selected (`extern` alone selects `"C"`),
whatever `force_explicit_abi` says — provided the ABI text needs no escape to stand between quotes. -/
theorem format_extern_sound_partial (ext : Ext) (explicitAbi : Bool)
    (h : ∀ abi, ext = .explicit abi → ∀ c ∈ abi, c ≠ '"' ∧ c ≠ '\\') :
    (readExtern (formatExtern ext explicitAbi)).map Ext.den = some ext.den := by
  cases ext with
  | none => cases explicitAbi <;> decide
  | implicit => cases explicitAbi <;> decide
  | explicit abi =>
    have ha := h abi rfl
    unfold formatExtern
    by_cases hc : (abi == cs% "C" && !explicitAbi) = true
    · simp only [hc, if_true]
      simp only [Bool.and_eq_true, beq_iff_eq] at hc
      rw [hc.1]; decide
    · have hc' : (abi == cs% "C" && !explicitAbi) = false := by simpa using hc
      simp only [hc', Bool.false_eq_true, if_false]
      rw [readExtern_quote abi ha]
      simp [Ext.den]

/-- **It changes exactly** the spelling of the default ABI: `extern` ↔ `extern "C"`; every other qualifier is printed
as it was read -/
theorem format_extern_exact (abi : Str) (explicitAbi : Bool) (h : abi ≠ cs% "C") :
    formatExtern (.explicit abi) explicitAbi = cs% "extern \"" ++ abi ++ cs% "\" " := by
  simp [formatExtern, h]

example : formatExtern .implicit true = cs% "extern \"C\" " := by decide
example : formatExtern (.explicit (cs% "C")) false = cs% "extern " := by decide
example : formatExtern (.explicit (cs% "Rust")) false = cs% "extern \"Rust\" " := by decide

/-- **An ABI text that needs an escape is printed raw**: `extern "a\"b"` (value `a"b`) comes out as `extern "a"b"`,
which does not read back.  (No ABI of the language contains such a character; the parser accepts any string.) -/
theorem format_extern_escape_counterexample :
    formatExtern (.explicit (cs% "a\"b")) true = cs% "extern \"a\"b\" " ∧
      readExtern (formatExtern (.explicit (cs% "a\"b")) true) = none := by decide

/-! ## §6 attributes: merge_derives, normalize_doc_attributes (`impl Rewrite for [ast::Attribute]`) -/

theorem rewriteAttrsGo_derive_seq (merge skip normDoc : Bool) :
    ∀ (fuel : Nat) (attrs : List AttrIn) (out : List AttrOut), attrs.length ≤ fuel →
      rewriteAttrsGo merge skip normDoc fuel attrs = some out → deriveSeqOut out = deriveSeqIn attrs := by
  intro fuel
  induction fuel with
  | zero =>
    intro attrs out hlen h
    have : attrs = [] := by cases attrs <;> simp_all
    subst this
    simp [rewriteAttrsGo] at h; subst h; simp [deriveSeqOut, deriveSeqIn]
  | succ fuel ih =>
    intro attrs out hlen h
    cases attrs with
    | nil => simp [rewriteAttrsGo] at h; subst h; simp [deriveSeqOut, deriveSeqIn]
    | cons a rest =>
      simp only [rewriteAttrsGo] at h
      by_cases hnd : takeRun Attr.isDocComment (a :: rest) > 0
      · -- a run of doc comments
        simp only [hnd, if_true] at h
        generalize hn : takeRun Attr.isDocComment (a :: rest) = nd at *
        have hle := takeRun_le Attr.isDocComment (a :: rest)
        rw [hn] at hle
        cases hr : rewriteAttrsGo merge skip normDoc fuel ((a :: rest).drop nd) with
        | none => simp [hr] at h
        | some r =>
          simp only [hr, Option.map_some, Option.some.injEq] at h
          subst h
          have hrec := ih ((a :: rest).drop nd) r (by simp [List.length_drop] at hlen ⊢; omega) hr
          have hdocs := deriveSeqIn_docs ((a :: rest).take nd)
            (by rw [← hn]; exact takeRun_pred Attr.isDocComment (a :: rest))
          have hsplit : a :: rest = (a :: rest).take nd ++ (a :: rest).drop nd := (List.take_append_drop _ _).symm
          conv => rhs; rw [hsplit, deriveSeqIn_append, hdocs]
          simp [deriveSeqOut, hrec, Function.comp_def]
      · simp only [hnd, if_false] at h
        by_cases hd : (!skip && merge && a.attr.isDerive) = true
        · -- a run of derives
          simp only [hd, if_true] at h
          generalize hn : takeRun Attr.isDerive (a :: rest) = n at *
          have hle := takeRun_le Attr.isDerive (a :: rest)
          rw [hn] at hle
          have hpos : n ≥ 1 := by
            rw [← hn]; exact takeRun_pos _ _ _ (by simp only [Bool.and_eq_true] at hd; exact hd.2)
          cases hc : collectPaths ((a :: rest).take n) with
          | none => simp [hc] at h
          | some ps =>
            simp only [hc] at h
            cases hr : rewriteAttrsGo merge skip normDoc fuel ((a :: rest).drop n) with
            | none => simp [hr] at h
            | some r =>
              simp only [hr, Option.map_some, Option.some.injEq] at h
              subst h
              have hrec := ih ((a :: rest).drop n) r (by simp [List.length_drop] at hlen ⊢; omega) hr
              have hsplit : a :: rest = (a :: rest).take n ++ (a :: rest).drop n := (List.take_append_drop _ _).symm
              conv => rhs; rw [hsplit, deriveSeqIn_append, deriveSeqIn_derives _ _ hc]
              simp [deriveSeqOut, hrec]
        · -- one attribute
          have hd' : (!skip && merge && a.attr.isDerive) = false := by simpa using hd
          simp only [hd', Bool.false_eq_true, if_false] at h
          cases hr : rewriteAttrsGo merge skip normDoc fuel rest with
          | none => simp [hr] at h
          | some r =>
            simp only [hr, Option.map_some, Option.some.injEq] at h
            subst h
            have hrec := ih rest r (by simp at hlen; omega) hr
            cases hattr : a.attr with
            | derive o => cases o <;> simp [deriveSeqOut, deriveSeqIn, hattr, hrec]
            | docComment t => simp [deriveSeqOut, deriveSeqIn, hattr, hrec]
            | docAttr i v =>
              by_cases hnorm : (normDoc && !a.lineComment) = true <;>
                simp [deriveSeqOut, deriveSeqIn, hattr, hrec, hnorm]
            | other t => simp [deriveSeqOut, deriveSeqIn, hattr, hrec]

/-- **Sound.**  Whatever the options and the gaps: the derived paths of the printed attribute list are those of the
source — same paths, same order, duplicates kept — and no derive has moved across anything that is not a derive. -/
theorem merge_derives_sound (merge skip normDoc : Bool) (attrs : List AttrIn) (out : List AttrOut)
    (h : rewriteAttrs merge skip normDoc attrs = some out) : deriveSeqOut out = deriveSeqIn attrs :=
  rewriteAttrsGo_derive_seq merge skip normDoc attrs.length attrs out (Nat.le_refl _) h

/-- **Two neighbouring derives are merged exactly when** the option is on, `derive` is not under
`#[rustfmt::skip::attributes(..)]`, and between them there is neither a blank line (two line feeds) nor a `/`
(a comment). -/
theorem merge_derives_exact (merge skip normDoc : Bool) (p q : List Str) (k : Nat) (sl lc lc' : Bool) (k' : Nat) (sl' : Bool) :
    rewriteAttrs merge skip normDoc [⟨.derive (some p), k, sl, lc⟩, ⟨.derive (some q), k', sl', lc'⟩] =
      (if merge = true ∧ skip = false ∧ k < 2 ∧ sl = false then some [.derive (p ++ q)]
       else if merge = true ∧ skip = false then some [.derive p, .derive q]
       else some [.single (.derive (some p)), .single (.derive (some q))]) := by
  by_cases hk : k < 2
  · have hk' : ¬ (k ≥ 2) := by omega
    cases merge <;> cases skip <;> cases sl <;>
      simp [rewriteAttrs, rewriteAttrsGo, takeRun, Attr.isDocComment, Attr.isDerive, collectPaths, hk, hk']
  · have hk' : k ≥ 2 := by omega
    cases merge <;> cases skip <;> cases sl <;>
      simp [rewriteAttrs, rewriteAttrsGo, takeRun, Attr.isDocComment, Attr.isDerive, collectPaths, hk, hk']

/-- **A run goes on across a gap exactly when** both neighbours fill the predicate and the gap between them has fewer
than two line feeds and no `/`. -/
theorem take_run_exact (pred : Attr → Bool) (a b : AttrIn) (r : List AttrIn) :
    takeRun pred (a :: b :: r) ≥ 2 ↔
      (pred a.attr = true ∧ pred b.attr = true ∧ a.gapNewlines < 2 ∧ a.gapSlash = false) := by
  have hb : takeRun pred (b :: r) ≥ 1 ↔ pred b.attr = true := by
    constructor
    · intro h
      by_cases hp : pred b.attr = true
      · exact hp
      · simp [takeRun, hp] at h
    · exact takeRun_pos pred b r
  by_cases hpa : pred a.attr = true
  · by_cases hk : a.gapNewlines ≥ 2
    · simp [takeRun, hpa, hk]; omega
    · cases hs : a.gapSlash
      · have : takeRun pred (a :: b :: r) = 1 + takeRun pred (b :: r) := by
          simp [takeRun, hpa, hk, hs]
        rw [this]
        constructor
        · intro h; exact ⟨hpa, hb.mp (by omega), by omega, rfl⟩
        · rintro ⟨_, h2, _, _⟩; have := hb.mpr h2; omega
      · simp [takeRun, hpa, hs]
  · simp [takeRun, hpa]

/-- the rewrite fails only through a derive whose list does not parse: with every derive parseable it succeeds -/
theorem collectPaths_some (xs : List AttrIn) (hd : ∀ a ∈ xs, a.attr.isDerive = true)
    (hp : ∀ a ∈ xs, a.attr ≠ .derive none) : ∃ ps, collectPaths xs = some ps := by
  induction xs with
  | nil => exact ⟨[], rfl⟩
  | cons a r ih =>
    obtain ⟨q, hq⟩ := ih (fun x hx => hd x (by simp [hx])) (fun x hx => hp x (by simp [hx]))
    have h1 := hd a (by simp)
    have h2 := hp a (by simp)
    cases hattr : a.attr with
    | derive o =>
      cases o with
      | none => exact absurd hattr h2
      | some p => exact ⟨p ++ q, by simp [collectPaths, hattr, hq]⟩
    | docComment t => simp [hattr, Attr.isDerive] at h1
    | docAttr i v => simp [hattr, Attr.isDerive] at h1
    | other t => simp [hattr, Attr.isDerive] at h1

theorem rewriteAttrsGo_total (merge skip normDoc : Bool) :
    ∀ (fuel : Nat) (attrs : List AttrIn), (∀ a ∈ attrs, a.attr ≠ .derive none) →
      ∃ out, rewriteAttrsGo merge skip normDoc fuel attrs = some out := by
  intro fuel
  induction fuel with
  | zero => intro attrs _; exact ⟨[], by simp [rewriteAttrsGo]⟩
  | succ fuel ih =>
    intro attrs hp
    cases attrs with
    | nil => exact ⟨[], by simp [rewriteAttrsGo]⟩
    | cons a rest =>
      simp only [rewriteAttrsGo]
      have hsub : ∀ n, ∀ x ∈ (a :: rest).drop n, x.attr ≠ .derive none :=
        fun n x hx => hp x (List.mem_of_mem_drop hx)
      split
      · obtain ⟨r, hr⟩ := ih _ (hsub _)
        exact ⟨_, by rw [hr]; rfl⟩
      · split
        · have hrun := takeRun_pred Attr.isDerive (a :: rest)
          obtain ⟨ps, hps⟩ := collectPaths_some _ hrun (fun x hx => hp x (List.mem_of_mem_take hx))
          obtain ⟨r, hr⟩ := ih _ (hsub _)
          exact ⟨_, by rw [hps]; simp only; rw [hr]; rfl⟩
        · obtain ⟨r, hr⟩ := ih rest (fun x hx => hp x (by simp [hx]))
          exact ⟨_, by rw [hr]; rfl⟩

/-- **The edge branch is the only way to fail**: an attribute list in which every `derive` has a list is always
rewritten (and then `merge_derives_sound` applies). -/
theorem rewriteAttrs_total (merge skip normDoc : Bool) (attrs : List AttrIn)
    (hp : ∀ a ∈ attrs, a.attr ≠ .derive none) : ∃ out, rewriteAttrs merge skip normDoc attrs = some out :=
  rewriteAttrsGo_total merge skip normDoc attrs.length attrs hp

/-- what stops a run: any other attribute (`#[cfg_attr(x, derive(E))]` is one) -/
example : rewriteAttrs true false false
    [⟨.derive (some [cs% "A"]), 1, false, false⟩, ⟨.other (cs% "#[cfg_attr(x, derive(E))]"), 1, false, false⟩,
     ⟨.derive (some [cs% "B"]), 0, false, false⟩] =
    some [.derive [cs% "A"], .single (.other (cs% "#[cfg_attr(x, derive(E))]")), .derive [cs% "B"]] := by decide
/-- duplicates are kept, the order is the source's -/
example : rewriteAttrs true false false
    [⟨.derive (some [cs% "B", cs% "A"]), 1, false, false⟩, ⟨.derive (some [cs% "A"]), 0, false, false⟩] =
    some [.derive [cs% "B", cs% "A", cs% "A"]] := by decide
/-- the edge branch: a `#[derive]` without a list makes `format_derive` give up — the whole list is left as written -/
theorem merge_derives_unparseable (normDoc : Bool) (k : Nat) (sl lc : Bool) :
    rewriteAttrs true false normDoc [⟨.derive none, k, sl, lc⟩] = none := by
  simp [rewriteAttrs, rewriteAttrsGo, takeRun, Attr.isDocComment, Attr.isDerive, collectPaths]

/-- `str::lines` on a text without `\r` that does not end in a line feed is the split at line feeds -/
theorem strLines_eq_splitLF (v : Str) (hne : v ≠ []) (hcr : '\r' ∉ v) (hlast : v.getLast? ≠ some '\n') :
    strLines v = splitLF v := by
  simp only [strLines]
  have hnl := splitLF_ne_nil v
  have hlastpiece : (splitLF v).getLast? ≠ some [] := by
    intro h
    rcases (splitLF_getLast v).mp h with h | h
    · exact hne h
    · exact hlast h
  -- no piece has a `\r`
  have hpieces : ∀ l ∈ splitLF v, '\r' ∉ l := by
    intro l hl hm
    have := mem_joinWith ['\n'] (splitLF v) l hl hm
    rw [joinWith_splitLF v] at this
    exact hcr this
  have hstrip : ∀ l ∈ (splitLF v).dropLast, stripCR l = l := by
    intro l hl
    have hm := hpieces l (mem_of_mem_dropLast' hl)
    unfold stripCR
    split
    · rename_i hh
      exact absurd (List.mem_of_getLast? (by simpa using hh)) hm
    · rfl
  rw [List.map_congr_left hstrip, List.map_id']
  cases hg : (splitLF v).getLast? with
  | none => simp [List.getLast?_eq_none_iff] at hg; exact absurd hg hnl
  | some l =>
    have hl : l ≠ [] := by intro e; subst e; exact hlastpiece hg
    have : l.isEmpty = false := by cases l <;> simp_all
    simp only [this]
    have := dropLast_append_last _ l hg
    simpa using this

/-- **Sound (partial).**  `#[doc = "v"]` → `///…` lines stand for the same documentation string `v`, when `v` has no
`\r` and does not end in a line feed. -/
theorem normalize_doc_value_partial (inner : Bool) (v : Str) (hcr : '\r' ∉ v) (hlast : v.getLast? ≠ some '\n') :
    docValue (docCommentText inner v) = v := by
  by_cases hne : v = []
  · subst hne; cases inner <;> decide
  · have hl := strLines_eq_splitLF v hne hcr hlast
    have hnl := splitLF_ne_nil v
    unfold docCommentText docValue
    rw [hl]
    generalize hop : (if inner = true then cs% "//!" else cs% "///") = opener
    have hoplen : opener.length = 3 := by cases inner <;> simp [← hop]
    have hopnl : '\n' ∉ opener := by cases inner <;> simp [← hop]
    cases hs : splitLF v with
    | nil => exact absurd hs hnl
    | cons x r =>
      simp only
      have hno := splitLF_no_lf v
      rw [hs] at hno
      rw [splitLF_joinWith _ (by simp) (by
        intro l hl
        simp only [List.mem_map] at hl
        obtain ⟨y, hy, rfl⟩ := hl
        simp only [List.mem_append, not_or]
        exact ⟨hopnl, hno y hy⟩)]
      rw [List.map_map]
      have : ((fun x => List.drop 3 x) ∘ fun x => opener ++ x) = id := by
        funext y; simp [← hoplen]
      rw [this, List.map_id, ← hs, joinWith_splitLF]

example : docCommentText false (cs% " a\n b") = cs% "/// a\n/// b" := by decide
example : docCommentText true [] = cs% "//!" := by decide

/-- **A last line feed is lost**: `#[doc = "a\n"]` becomes `///a`, which stands for `a`. -/
theorem normalize_doc_trailing_lf_counterexample :
    docCommentText false (cs% "a\n") = cs% "///a" ∧ docValue (docCommentText false (cs% "a\n")) ≠ cs% "a\n" := by decide

/-- **`\r\n` becomes `\n`** (`str::lines` drops the `\r`). -/
theorem normalize_doc_crlf_counterexample :
    docValue (docCommentText false (cs% "a\r\nb")) = cs% "a\nb" := by decide

/-- the repair: a doc attribute with a comment behind it on its line is not turned into a line comment (the comment would
become part of the documentation text) -/
theorem normalize_doc_line_comment_guard (merge skip : Bool) (i : Bool) (v : Str) (k : Nat) (sl : Bool) :
    rewriteAttrs merge skip true [⟨.docAttr i v, k, sl, true⟩] = some [.single (.docAttr i v)] := by
  simp [rewriteAttrs, rewriteAttrsGo, takeRun, Attr.isDocComment, Attr.isDerive]

/-! ## §7 leading pipes, arm commas, semicolons -/

/-- **Exact**: a `| ` is printed in front of an arm iff the option says `Always`, or `Preserve` and the source had one -/
theorem pipe_exact (opt : LeadingPipe) (has : Bool) :
    pipeStr opt has = (if opt = .always ∨ (opt = .preserve ∧ has = true) then cs% "| " else []) := by
  cases opt <;> cases has <;> decide

/-- **Sound**: the alternatives an arm matches are the same with and without the leading `|` -/
theorem pipe_sound (opt : LeadingPipe) (has : Bool) (alts : List Tok) (h : ∀ a ∈ alts, a ≠ cs% "|") :
    readAlts (armPatToks opt has alts) = alts := by
  have hfil : (alts.intersperse (cs% "|")).filter (· != cs% "|") = alts := by
    induction alts with
    | nil => simp
    | cons a r ih =>
      have ha : (a != cs% "|") = true := by simpa [bne] using h a (by simp)
      cases r with
      | nil => simp [ha]
      | cons b r' =>
        have := ih (fun x hx => h x (by simp [hx]))
        simp only [List.intersperse_cons_cons, List.filter, ha]
        simp at this ⊢
        exact this
  unfold armPatToks readAlts
  by_cases hp : (pipeStr opt has == []) = true
  · simp only [hp, if_true, List.nil_append]
    cases hi : alts.intersperse (cs% "|") with
    | nil => rw [hi] at hfil; simpa using hfil
    | cons t r =>
      have ht : t ≠ cs% "|" := by
        have : t ∈ alts := by
          cases alts with
          | nil => simp at hi
          | cons a r' => cases r' <;> simp at hi <;> simp [← hi.1]
        exact h t this
      simp only [beq_iff_eq, ht, if_false]
      rw [← hi]; exact hfil
  · simp only [hp]
    simp [hfil]

example : readAlts (armPatToks .always false [cs% "A", cs% "B"]) = [cs% "A", cs% "B"] := by decide
example : armPatToks .always false [cs% "A", cs% "B"] = [cs% "|", cs% "A", cs% "|", cs% "B"] := by decide

/-- **Sound / exact for the arm comma**: the `,` is left out only where it is optional — behind the last arm under
`trailing_comma = Never`, or behind a block body (not an `unsafe` block) when `match_block_trailing_comma` is off. -/
theorem arm_comma_exact (never mbtc : Bool) (body : BodyClass) (isLast : Bool) :
    armComma never mbtc body isLast = false ↔
      ((isLast = true ∧ never = true) ∨ (mbtc = false ∧ body = .block)) := by
  cases never <;> cases mbtc <;> cases body <;> cases isLast <;> decide

/-- `Stmt::is_last_expr` is never true of a statement that has its `;`: the `trailing_semicolon() || !is_last_expr` arm of
`semicolon_for_stmt` always answers yes -/
theorem semi_jump_kept (ts md isLast : Bool) : outSemi ts md isLast (.semi .jump) = true := by
  cases ts <;> cases md <;> cases isLast <;> decide

/-- **A `;` is added only** behind a `return` / `break` / `continue` that ends its block without one, under
`trailing_semicolon`, outside macro definitions (the expression has type `!`: the block's value does not change). -/
theorem semi_added_exact (ts md isLast : Bool) (k : StmtKind) :
    (k.srcSemi = false ∧ outSemi ts md isLast k = true) ↔
      (k = .expr .jump ∧ isLast = true ∧ ts = true ∧ md = false) := by
  cases k with
  | expr c => cases c <;> cases ts <;> cases md <;> cases isLast <;> decide
  | semi c => cases c <;> cases ts <;> cases md <;> cases isLast <;> decide
  | _ => cases ts <;> cases md <;> cases isLast <;> decide

/-- **A `;` is dropped only** behind a `while` / `loop` / `for` statement -/
theorem semi_dropped_exact (ts md isLast : Bool) (k : StmtKind) :
    (k.srcSemi = true ∧ outSemi ts md isLast k = false) ↔ k = .semi .loop_ := by
  cases k with
  | expr c => cases c <;> cases ts <;> cases md <;> cases isLast <;> decide
  | semi c => cases c <;> cases ts <;> cases md <;> cases isLast <;> decide
  | _ => cases ts <;> cases md <;> cases isLast <;> decide

/-- inside a macro definition no `;` is ever added -/
theorem semi_macro_def (ts : Bool) (c : ExprClass) : semicolonForExpr ts true c = false := by
  cases ts <;> cases c <;> decide

example : outSemi true false true (.expr .jump) = true := by decide
example : outSemi true false false (.expr .jump) = false := by decide
example : outSemi false false true (.semi .jump) = true := by decide

/-! ## §8 a printed float literal and the `.` that follows it -/

open RF.Lit RF.Lemmas.Literal

/-- **`float_lit_ends_in_dot` is exact**: for every float symbol, suffix and value of `float_literal_trailing_zero`, it
answers yes exactly when the literal AS PRINTED (`rewrite_float_lit`, or the source text where that keeps it) ends in
a dot. -/
theorem float_ends_in_dot_exact (mode : TrailingZero) (symbol suffix : Str) (p : FloatParts)
    (hp : parseFloatSymbol symbol = some p) (hsuf : '.' ∉ suffix) :
    floatLitEndsInDot mode symbol suffix = some ((printedFloat mode symbol suffix).getLast? == some '.') := by
  have wf := parse_wf hp
  have hfrac : ∀ (inc : Bool), (if inc then p.fractionalPart.getD ['0'] else []).all isDigU = true := by
    intro inc
    cases inc
    · simp
    · cases hf : p.fractionalPart with
      | none => simp; decide
      | some f => simpa using (wf.fp_ok f hf).1
  have hfne : (p.fractionalPart.getD ['0']) ≠ [] := by
    cases hf : p.fractionalPart with
    | none => simp
    | some f => simpa using (wf.fp_ok f hf).2
  cases mode with
  | preserve =>
    simp only [floatLitEndsInDot, printedFloat, rewriteFloatLit, Option.getD_none]
    by_cases hs : suffix = []
    · subst hs; simp
    · rw [getLast?_append_ne _ _ hs]
      have := not_mem_last_ne suffix hsuf
      cases suffix with
      | nil => exact absurd rfl hs
      | cons a r => simp [this]
  | always =>
    simp only [floatLitEndsInDot, printedFloat, rewriteFloatLit, hp, Option.getD_some, if_true]
    have := printed_last p.integerPart (p.fractionalPart.getD ['0']) suffix true p.exponent wf.ip_all
      (hfrac true) wf.ex_ok hsuf
    simp only [if_true] at this
    rw [this]
    cases hh : (p.fractionalPart.getD ['0']) with
    | nil => exact absurd hh hfne
    | cons a r => simp
  | ifNoPostfix =>
    simp only [floatLitEndsInDot, printedFloat, rewriteFloatLit, hp, Option.getD_some]
    generalize hinc : (!p.isFractionalPartZero || !(p.exponent.isSome || !suffix.isEmpty)) = inc
    have := printed_last p.integerPart (if inc then p.fractionalPart.getD ['0'] else []) suffix inc p.exponent
      wf.ip_all (hfrac inc) wf.ex_ok hsuf
    rw [this]
    cases inc with
    | false => simp
    | true =>
      cases hh : (p.fractionalPart.getD ['0']) with
      | nil => exact absurd hh hfne
      | cons a r => simp
  | never =>
    simp only [floatLitEndsInDot, printedFloat, rewriteFloatLit, hp, Option.getD_some]
    generalize hnz : (!p.isFractionalPartZero) = nz
    generalize hpost : (p.exponent.isSome || !suffix.isEmpty) = post
    have := printed_last p.integerPart (if nz then p.fractionalPart.getD ['0'] else []) suffix (nz || !post)
      p.exponent wf.ip_all (hfrac nz) wf.ex_ok hsuf
    rw [this]
    have hz : p.isFractionalPartZero = !nz := by rw [← hnz]; simp
    rw [hz]
    cases nz with
    | true =>
      cases hh : (p.fractionalPart.getD ['0']) with
      | nil => exact absurd hh hfne
      | cons a r => simp
    | false =>
      cases hpe : p.exponent <;> cases hse : suffix <;> simp_all

/-- **The literal lexes back.**  A printed float literal followed by a range operator — with the blank that
`needs_space_before_range` / `rewrite_range_pat` put in front of it when the literal ends in a dot — and by anything at
all: `rustc_lexer`'s `number` takes of the whole exactly what it takes of the literal alone. -/
theorem float_range_relex (mode : TrailingZero) (symbol suffix : Str) (p : FloatParts)
    (hp : parseFloatSymbol symbol = some p) (hsuf : '.' ∉ suffix) (delimRest rest : Str) (b : Bool)
    (hb : floatLitEndsInDot mode symbol suffix = some b) :
    lexNumberRest (printedFloat mode symbol suffix ++ rangeGlue b ('.' :: '.' :: delimRest) ++ rest) =
      lexNumberRest (printedFloat mode symbol suffix) ++ rangeGlue b ('.' :: '.' :: delimRest) ++ rest := by
  have hex := float_ends_in_dot_exact mode symbol suffix p hp hsuf
  rw [hb] at hex
  simp only [Option.some.injEq] at hex
  have hne : printedFloat mode symbol suffix ≠ [] := by
    have wf := parse_wf hp
    have hsym : symbol ≠ [] := by intro e; subst e; simp [parseFloatSymbol] at hp
    have hip := wf.ip_ne
    cases mode <;> simp [printedFloat, rewriteFloatLit, hp, hsym, hip]
  cases b with
  | true =>
    simp only [rangeGlue, if_true, List.append_assoc, List.cons_append]
    exact lexNumberRest_append _ ' ' _ hne stop_space (fun e => absurd e (by decide)) (fun e => absurd e (by decide))
  | false =>
    simp only [rangeGlue, Bool.false_eq_true, if_false, List.append_assoc, List.cons_append]
    have hlast : (printedFloat mode symbol suffix).getLast? ≠ some '.' := by
      intro h; rw [h] at hex; simp at hex
    exact lexNumberRest_append _ '.' _ hne stop_dot (fun _ => ⟨_, rfl⟩) (fun _ => hlast)

/-- a blank always keeps the literal whole (what the parentheses of a receiver and `1. ..` rely on) -/
theorem float_then_blank_relex (s rest : Str) (hne : s ≠ []) :
    lexNumberRest (s ++ ' ' :: rest) = lexNumberRest s ++ ' ' :: rest :=
  lexNumberRest_append s ' ' rest hne stop_space (fun e => absurd e (by decide)) (fun e => absurd e (by decide))

example : printedFloat .never (cs% "1.0") [] = cs% "1." := by decide
example : floatLitEndsInDot .never (cs% "1.0") [] = some true := by decide
example : lexNumberTok (cs% "1. ..2.") = cs% "1." := by decide
example : lexNumberTok (cs% "1.5..2.") = cs% "1.5" := by decide
example : lexNumberTok (cs% "1.0f32..") = cs% "1.0f32" := by decide

/-- **The pinned tree glued the operator of a range PATTERN onto the dot**: `1.0..=2.0` under
`float_literal_trailing_zero = Never` became `1...=2.`, whose first token is the integer `1`. -/
theorem range_pat_pinned_counterexample :
    let printed := printedFloat .never (cs% "1.0") []
    lexNumberTok (printed ++ rangeGluePinned true (cs% "..=") ++ cs% "2.") = cs% "1" ∧
      lexNumberTok (printed ++ rangeGlue true (cs% "..=") ++ cs% "2.") = printed := by decide

end RF.Props.OptRewrites
