import RF.Model.CharClasses
import RF.Model.LexSpec
import RF.Lemmas.CharClasses
/-!
`CharClasses` against the declarative lexer specification `RF.LexSpec`: for every well-formed
token list, the characters `CharClasses` tags as comment are exactly those of the comment tokens
(one lemma per token kind: started in `Status.normal` before the token, the scanner is back in
`Status.normal` after it).
-/
namespace RF.Lemmas.LexSpec
open RF.CharClasses RF.LexSpec

/-- Comment flags of a tagged text. -/
def flags (l : List (Kind × Char)) : List Bool := l.map (·.1.isComment)

theorem flags_cons (k : Kind) (c : Char) (l : List (Kind × Char)) :
    flags ((k, c) :: l) = k.isComment :: flags l := rfl

theorem run_cons (st : Status) (c : Char) (rest : List Char) :
    run st (c :: rest) = ((step st c rest).2, c) :: run (step st c rest).1 rest := rfl

/-! ### code -/

theorem code_step (c : Char) (after : List Char) (h : wfCode c after = true) :
    step .normal c after = (.normal, .normal) := by
  simp only [wfCode, Bool.and_eq_true, bne_iff_ne, ne_eq, Bool.or_eq_true, Bool.not_eq_true',
    Bool.or_eq_false_iff, beq_eq_false_iff_ne] at h
  obtain ⟨⟨⟨h1, h2⟩, h3⟩, h4⟩ := h
  simp only [step, step?]
  by_cases hr : c = 'r'
  · subst hr
    rcases h3 with h3 | h3
    · exact absurd rfl h3
    · cases after with
      | nil => rfl
      | cons a as =>
        simp only [List.head?_cons, Option.some.injEq] at h3
        have ha1 : a ≠ '#' := fun e => h3.1 e
        have ha2 : a ≠ '"' := fun e => h3.2 e
        simp [ha1, ha2]
  · simp only [hr, if_false, h1]
    by_cases hq : c = '\''
    · subst hq
      rcases h4 with h4 | h4
      · exact absurd rfl h4
      · cases after with
        | nil => rfl
        | cons a as =>
          cases as with
          | nil => simp at h4; simp [h4]
          | cons b bs => simp at h4; simp [h4.1, h4.2]
    · simp only [hq, if_false]
      by_cases hs : c = '/'
      · subst hs
        rcases h2 with h2 | h2
        · exact absurd rfl h2
        · cases after with
          | nil => rfl
          | cons a as =>
            simp only [List.head?_cons, Option.some.injEq] at h2
            have ha1 : a ≠ '/' := fun e => h2.1 e
            have ha2 : a ≠ '*' := fun e => h2.2 e
            simp [ha1, ha2]
      · simp [hs]


theorem rep_snoc (n : Nat) (a : Bool) (X : List Bool) :
    List.replicate n a ++ a :: X = a :: (List.replicate n a ++ X) := by
  induction n with
  | zero => rfl
  | succ k ih => simp [List.replicate_succ, ih]

/-! ### line comment -/

theorem run_lineComment_body : ∀ (body rest : List Char), (∀ c ∈ body, c ≠ '\n') →
    flags (run .lineComment (body ++ rest)) =
      List.replicate body.length true ++ flags (run .lineComment rest)
  | [], _, _ => rfl
  | c :: cs, rest, h => by
    have hc : c ≠ '\n' := h c (by simp)
    have ih := run_lineComment_body cs rest (fun x hx => h x (by simp [hx]))
    simp [run_cons, step, step?, hc, flags_cons, Kind.isComment, ih, List.replicate_succ]

theorem lineComment_flags (body : List Char) (nl : Bool) (R : List Char)
    (h : wfTok (.lineComment body nl) R = true) :
    flags (run .normal (renderTok (.lineComment body nl) ++ R)) =
      List.replicate (renderTok (.lineComment body nl)).length true ++ flags (run .normal R) := by
  simp only [wfTok, Bool.and_eq_true, List.all_eq_true, bne_iff_ne, ne_eq, Bool.or_eq_true] at h
  obtain ⟨hb, hn⟩ := h
  have hb' : ∀ c ∈ '/' :: body, c ≠ '\n' := by
    intro c hc
    rcases List.mem_cons.mp hc with rfl | hc
    · decide
    · exact hb c hc
  simp only [renderTok, List.cons_append]
  rw [run_cons]
  have h0 : step .normal '/' ('/' :: (body ++ (if nl = true then ['\n'] else []) ++ R)) =
      (.lineComment, .startComment) := by simp [step, step?]
  rw [h0, flags_cons]
  have := run_lineComment_body ('/' :: body) ((if nl = true then ['\n'] else []) ++ R) hb'
  simp only [List.cons_append, List.append_assoc] at this ⊢
  rw [this]
  cases nl with
  | true =>
    simp [run_cons, step, step?, flags_cons, Kind.isComment, List.replicate_succ]
    exact rep_snoc _ _ _
  | false =>
    have hR : R = [] := by simpa using hn
    subst hR
    simp [run, flags, Kind.isComment, List.replicate_succ]


/-! ### block comment -/

theorem events_flags : ∀ (evs : List BEv) (d : Nat) (R : List Char), 1 ≤ d → wfEvents d evs = true →
    flags (run (.blockComment d) (evs.flatMap renderBEv ++ R)) =
      List.replicate (evs.flatMap renderBEv).length true ++ flags (run .normal R)
  | [], _, _, _, h => by simp [wfEvents] at h
  | .cls :: rest, d, R, hd, h => by
    simp only [wfEvents] at h
    split at h
    · rename_i hre
      have : rest = [] := by simpa using hre
      subst this
      have hd1 : d = 1 := by simpa using h
      subst hd1
      simp [renderBEv, run_cons, step, step?, flags_cons, Kind.isComment, List.replicate_succ]
    · simp only [Bool.and_eq_true, decide_eq_true_eq] at h
      obtain ⟨hd2, hw⟩ := h
      have ih := events_flags rest (d - 1) R (by omega) hw
      have hne : d ≠ 0 := by omega
      have hne1 : d - 1 ≠ 0 := by omega
      simp only [List.flatMap_cons, renderBEv, List.cons_append, List.nil_append, run_cons]
      simp [step, step?, hne, hne1, flags_cons, Kind.isComment, ih, List.replicate_succ]
  | .opn :: rest, d, R, hd, h => by
    simp only [wfEvents] at h
    have ih := events_flags rest (d + 1) R (by omega) h
    have hne : d ≠ 0 := by omega
    simp only [List.flatMap_cons, renderBEv, List.cons_append, List.nil_append, run_cons]
    simp [step, step?, hne, flags_cons, Kind.isComment, ih, List.replicate_succ]
  | .ch c :: rest, d, R, hd, h => by
    simp only [wfEvents, Bool.and_eq_true, bne_iff_ne, ne_eq, Bool.not_eq_true',
      Bool.and_eq_false_iff, beq_eq_false_iff_ne] at h
    obtain ⟨⟨⟨h1, h2⟩, h3⟩, hw⟩ := h
    have ih := events_flags rest d R hd hw
    have hne : d ≠ 0 := by omega
    simp only [List.flatMap_cons, renderBEv, List.cons_append, List.nil_append, run_cons]
    -- the character after `c` comes from the rendered rest (never empty: it ends with a closer)
    have hstep : step (.blockComment d) c (rest.flatMap renderBEv ++ R) = (.blockComment d, .inComment) := by
      cases hrr : rest.flatMap renderBEv with
      | nil =>
        -- impossible: a well-formed event list renders to something
        cases rest with
        | nil => simp [wfEvents] at hw
        | cons e es => cases e <;> simp [renderBEv] at hrr
      | cons x xs =>
        rw [hrr] at h2 h3
        simp only [List.head?_cons, Option.some.injEq] at h2 h3
        simp only [List.cons_append, step, step?, hne, if_false]
        have a1 : ¬ (x = '/' ∧ c = '*') := by
          rintro ⟨rfl, rfl⟩
          rcases h2 with h2 | h2 <;> exact h2 rfl
        have a2 : ¬ (x = '*' ∧ c = '/') := by
          rintro ⟨rfl, rfl⟩
          rcases h3 with h3 | h3 <;> exact h3 rfl
        simp [a1, a2, h1]
    rw [hstep, flags_cons, ih]
    simp [Kind.isComment, List.replicate_succ]

theorem blockComment_flags (evs : List BEv) (R : List Char)
    (h : wfTok (.blockComment evs) R = true) :
    flags (run .normal (renderTok (.blockComment evs) ++ R)) =
      List.replicate (renderTok (.blockComment evs)).length true ++ flags (run .normal R) := by
  simp only [wfTok] at h
  have := events_flags evs 1 R (by omega) h
  simp only [renderTok, List.cons_append, run_cons]
  simp [step, step?, flags_cons, Kind.isComment, this, List.replicate_succ]


/-! ### string literal -/

theorem items_flags : ∀ (items : List SItem) (X : List Char), (∀ i ∈ items, wfSItem i = true) →
    flags (run .litString (items.flatMap renderSItem ++ X)) =
      List.replicate (items.flatMap renderSItem).length false ++ flags (run .litString X)
  | [], _, _ => rfl
  | .ch c :: rest, X, h => by
    have hc := h (.ch c) (by simp)
    simp only [wfSItem, Bool.and_eq_true, bne_iff_ne, ne_eq] at hc
    have ih := items_flags rest X (fun i hi => h i (by simp [hi]))
    simp only [List.flatMap_cons, renderSItem, List.cons_append, List.nil_append, run_cons]
    simp [step, step?, hc.1, hc.2, flags_cons, Kind.isComment, ih, List.replicate_succ]
  | .esc c :: rest, X, h => by
    have ih := items_flags rest X (fun i hi => h i (by simp [hi]))
    simp only [List.flatMap_cons, renderSItem, List.cons_append, List.nil_append, run_cons]
    simp [step, step?, flags_cons, Kind.isComment, ih, List.replicate_succ]

theorem str_flags (items : List SItem) (R : List Char) (h : wfTok (.str items) R = true) :
    flags (run .normal (renderTok (.str items) ++ R)) =
      List.replicate (renderTok (.str items)).length false ++ flags (run .normal R) := by
  simp only [wfTok, List.all_eq_true] at h
  have := items_flags items ('"' :: R) h
  simp only [renderTok, List.cons_append, List.append_assoc, run_cons]
  simp [step, step?, flags_cons, Kind.isComment, this, List.replicate_succ, run_cons]
  exact (rep_snoc _ _ _)

/-! ### character literals -/

theorem chr_flags (c : Char) (R : List Char) (h : wfTok (.chr c) R = true) :
    flags (run .normal (renderTok (.chr c) ++ R)) =
      List.replicate (renderTok (.chr c)).length false ++ flags (run .normal R) := by
  simp only [wfTok, Bool.and_eq_true, bne_iff_ne, ne_eq] at h
  simp [renderTok, run_cons, step, step?, h.1, h.2, flags_cons, Kind.isComment, List.replicate_succ]

theorem litChar_flags : ∀ (more : List Char) (X : List Char), (∀ c ∈ more, c ≠ '\\' ∧ c ≠ '\'') →
    flags (run .litChar (more ++ X)) =
      List.replicate more.length false ++ flags (run .litChar X)
  | [], _, _ => rfl
  | c :: cs, X, h => by
    have hc := h c (by simp)
    have ih := litChar_flags cs X (fun x hx => h x (by simp [hx]))
    simp [run_cons, step, step?, hc.1, hc.2, flags_cons, Kind.isComment, ih, List.replicate_succ]

theorem chrEsc_flags (e : Char) (more : List Char) (R : List Char)
    (h : wfTok (.chrEsc e more) R = true) :
    flags (run .normal (renderTok (.chrEsc e more) ++ R)) =
      List.replicate (renderTok (.chrEsc e more)).length false ++ flags (run .normal R) := by
  simp only [wfTok, List.all_eq_true, Bool.and_eq_true, bne_iff_ne, ne_eq] at h
  have := litChar_flags more ('\'' :: R) h
  simp only [renderTok, List.cons_append, List.append_assoc, run_cons]
  simp [step, step?, flags_cons, Kind.isComment, this, List.replicate_succ, run_cons]
  exact (rep_snoc _ _ _)


/-! ### raw string literal -/

theorem isRawStringSuffix_eq : ∀ (l : List Char) (n : Nat), isRawStringSuffix l n = hashRun l n
  | _, 0 => by simp [isRawStringSuffix, hashRun]
  | [], _ + 1 => by simp [isRawStringSuffix, hashRun]
  | c :: rest, n + 1 => by
    simp only [isRawStringSuffix, hashRun, isRawStringSuffix_eq rest n]
    by_cases hc : c = '#' <;> simp [hc]

theorem hashRun_append : ∀ (a b : List Char) (n : Nat), n ≤ a.length →
    hashRun (a ++ b) n = hashRun a n
  | _, _, 0, _ => by simp [hashRun]
  | [], _, _ + 1, h => by simp at h
  | c :: cs, b, n + 1, h => by
    simp only [List.cons_append, hashRun, hashRun_append cs b n (by simpa using h)]

theorem hashRun_hashes : ∀ (n : Nat) (R : List Char), hashRun (hashes n ++ R) n = true
  | 0, _ => by simp [hashRun]
  | n + 1, R => by
    simp only [hashes, List.replicate_succ, List.cons_append, hashRun]
    simpa [hashes] using hashRun_hashes n R

theorem prefix_flags : ∀ (m k : Nat) (X : List Char),
    flags (run (.rawStringPrefix k) (hashes m ++ '"' :: X)) =
      List.replicate (m + 1) false ++ flags (run (.litRawString (k + m)) X)
  | 0, k, X => by
    simp [hashes, run_cons, step, step?, flags_cons, Kind.isComment, List.replicate_succ]
  | m + 1, k, X => by
    have ih := prefix_flags m (k + 1) X
    simp only [hashes, List.replicate_succ, List.cons_append, run_cons] at ih ⊢
    simp [step, step?, flags_cons, Kind.isComment]
    have e : k + 1 + m = k + (m + 1) := by omega
    rw [e] at ih
    simpa [hashes, List.replicate_succ] using ih

theorem suffix_flags : ∀ (k : Nat) (R : List Char), 1 ≤ k →
    flags (run (.rawStringSuffix k) (hashes k ++ R)) =
      List.replicate k false ++ flags (run .normal R)
  | 0, _, h => by omega
  | 1, R, _ => by
    simp [hashes, run_cons, step, step?, flags_cons, Kind.isComment, List.replicate_succ]
  | k + 2, R, _ => by
    have ih := suffix_flags (k + 1) R (by omega)
    have hstep : ∀ X, step (.rawStringSuffix (k + 2)) '#' X = (.rawStringSuffix (k + 1), .inString) := by
      intro X; simp [step, step?]
    have e : hashes (k + 2) ++ R = '#' :: (hashes (k + 1) ++ R) := by
      simp [hashes, List.replicate_succ]
    rw [e, run_cons, hstep, flags_cons, ih]
    simp [Kind.isComment, List.replicate_succ]

theorem rawBody_flags (n : Nat) : ∀ (body R : List Char), wfRawBody n body = true →
    flags (run (.litRawString n) (body ++ ('"' :: (hashes n ++ R)))) =
      List.replicate body.length false ++ flags (run (.litRawString n) ('"' :: (hashes n ++ R)))
  | [], _, _ => rfl
  | c :: cs, R, h => by
    simp only [wfRawBody, Bool.and_eq_true, Bool.not_eq_true', Bool.and_eq_false_iff,
      beq_eq_false_iff_ne] at h
    obtain ⟨h1, h2⟩ := h
    have ih := rawBody_flags n cs R h2
    have hstep : step (.litRawString n) c (cs ++ ('"' :: (hashes n ++ R))) =
        (.litRawString n, .inString) := by
      simp only [step, step?]
      by_cases hc : c = '"'
      · rcases h1 with h1 | h1
        · exact absurd hc h1
        · have hlen : n ≤ (cs ++ ('"' :: hashes n)).length := by simp [hashes]; omega
          have e : cs ++ ('"' :: (hashes n ++ R)) = (cs ++ ('"' :: hashes n)) ++ R := by simp
          have hs : isRawStringSuffix (cs ++ ('"' :: (hashes n ++ R))) n = false := by
            rw [isRawStringSuffix_eq, e, hashRun_append _ _ _ hlen]; exact h1
          have hn0 : n ≠ 0 := by
            intro hn; subst hn; simp [hashRun] at h1
          simp only [hc, if_true, hn0, if_false, hs, Bool.false_eq_true, Option.getD_some]
      · simp [hc]
    rw [List.cons_append, run_cons, hstep, flags_cons, ih]
    simp [Kind.isComment, List.replicate_succ]

theorem rawClose_flags (n : Nat) (R : List Char) :
    flags (run (.litRawString n) ('"' :: (hashes n ++ R))) =
      List.replicate (n + 1) false ++ flags (run .normal R) := by
  cases n with
  | zero => simp [hashes, run_cons, step, step?, flags_cons, Kind.isComment, List.replicate_succ]
  | succ k =>
    have hs : isRawStringSuffix (hashes (k + 1) ++ R) (k + 1) = true := by
      rw [isRawStringSuffix_eq]; exact hashRun_hashes _ _
    have := suffix_flags (k + 1) R (by omega)
    have hstep : step (.litRawString (k + 1)) '"' (hashes (k + 1) ++ R) =
        (.rawStringSuffix (k + 1), .inString) := by
      simp [step, step?, hs]
    rw [run_cons, hstep, flags_cons, this]
    simp [Kind.isComment, List.replicate_succ]

theorem rawStr_flags (n : Nat) (body : List Char) (R : List Char)
    (h : wfTok (.rawStr n body) R = true) :
    flags (run .normal (renderTok (.rawStr n body) ++ R)) =
      List.replicate (renderTok (.rawStr n body)).length false ++ flags (run .normal R) := by
  simp only [wfTok] at h
  have h1 := prefix_flags n 0 (body ++ ('"' :: (hashes n ++ R)))
  have h2 := rawBody_flags n body R h
  have h3 := rawClose_flags n R
  have hfirst : step .normal 'r' (hashes n ++ '"' :: (body ++ ('"' :: (hashes n ++ R)))) =
      (.rawStringPrefix 0, .inString) := by
    cases n with
    | zero => simp [hashes, step, step?]
    | succ k => simp [hashes, List.replicate_succ, step, step?]
  have e : renderTok (.rawStr n body) ++ R =
      'r' :: (hashes n ++ '"' :: (body ++ ('"' :: (hashes n ++ R)))) := by
    simp [renderTok]
  rw [e, run_cons, hfirst, flags_cons, h1]
  simp only [Nat.zero_add]
  rw [h2, h3]
  have hl : (renderTok (.rawStr n body)).length = 1 + ((n + 1) + (body.length + (n + 1))) := by
    simp [renderTok, hashes]; omega
  rw [hl]
  have r1 : ∀ (L : List Bool), false :: L = List.replicate 1 false ++ L := fun L => rfl
  simp only [Kind.isComment, r1, ← List.append_assoc, List.replicate_append_replicate]


/-! ### all tokens -/

theorem tok_flags (t : Token) (R : List Char) (h : wfTok t R = true) :
    flags (run .normal (renderTok t ++ R)) =
      List.replicate (renderTok t).length (isCommentTok t) ++ flags (run .normal R) := by
  cases t with
  | code c =>
    simp only [wfTok] at h
    simp [renderTok, run_cons, code_step c R h, flags_cons, Kind.isComment, isCommentTok,
      List.replicate_succ]
  | lineComment body nl => simpa [isCommentTok] using lineComment_flags body nl R h
  | blockComment evs => simpa [isCommentTok] using blockComment_flags evs R h
  | str items => simpa [isCommentTok] using str_flags items R h
  | rawStr n body => simpa [isCommentTok] using rawStr_flags n body R h
  | chr c => simpa [isCommentTok] using chr_flags c R h
  | chrEsc e more => simpa [isCommentTok] using chrEsc_flags e more R h

/-- On every well-formed token list, `CharClasses` marks as comment exactly the characters the
specification says belong to a comment. -/
theorem classes_flags : ∀ (ts : List Token), WF ts = true →
    flags (classes (render ts)) = commentFlags ts
  | [], _ => rfl
  | t :: ts, h => by
    simp only [WF, Bool.and_eq_true] at h
    have ih := classes_flags ts h.2
    have := tok_flags t (render ts) h.1
    simp only [classes, render, commentFlags, List.flatMap_cons] at ih this ⊢
    rw [this, ih]

end RF.Lemmas.LexSpec
