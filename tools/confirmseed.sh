#!/bin/bash
# confirmseed.sh <seed id>…  : independent confirmation of seeded changes in the scratch worktree /tmp/hw/confirm/repo:
# demo on the unpatched tree (must exit 0), patch applies, builds (also with the hook feature), the unedited suite passes,
# demo on the patched tree (must exit 1).  One line per seed on stdout; details in /tmp/seed/<id>/confirm.log
B=/tmp/hw/confirm/repo
[ -d $B ] || git -C /repo worktree add -q --detach $B HEAD
export CARGO_NET_OFFLINE=true RUSTC_ICE=0
for sid in "$@"; do
  D=/tmp/seed/$sid/out; L=/tmp/seed/$sid/confirm.log; : > $L
  git -C $B checkout -q -- . ; git -C $B clean -qfd -e target; git -C $B checkout -q --detach "$(git -C /repo rev-parse HEAD)"
  export LD_LIBRARY_PATH="$(cd $B && rustc --print sysroot)/lib"
  (cd $B && cargo build --offline --bin rustfmt --bin cargo-fmt --bin rustfmt-format-diff) >>$L 2>&1
  bash $D/demo.sh $B >>$L 2>&1; base=$?
  git -C $B apply $D/patch.diff >>$L 2>&1 || { echo "$sid: patch does not apply"; continue; }
  (cd $B && cargo build --offline --bin rustfmt --bin cargo-fmt --bin rustfmt-format-diff) >>$L 2>&1; b1=$?
  (cd $B && cargo build --offline --features verif-hooks --lib) >>$L 2>&1; b2=$?
  (cd $B && cargo test --workspace --no-fail-fast --offline) > /tmp/seed/$sid/suite.log 2>&1; t=$?
  passed=$(grep -E "^test result" /tmp/seed/$sid/suite.log | sed -E 's/.* ([0-9]+) passed.*/\1/' | paste -sd+ | bc)
  failed=$(grep -E "^test result" /tmp/seed/$sid/suite.log | sed -E 's/.* ([0-9]+) failed.*/\1/' | paste -sd+ | bc)
  bash $D/demo.sh $B >>$L 2>&1; pat=$?
  echo "$sid: demo(base)=$base build=$b1 build(hooks)=$b2 suite_rc=$t passed=$passed failed=$failed demo(patched)=$pat $( [ $base = 0 ] && [ $b1 = 0 ] && [ $b2 = 0 ] && [ $t = 0 ] && [ "$failed" = 0 ] && [ $pat = 1 ] && echo CONFIRMED || echo NOT-CONFIRMED)"
  git -C $B checkout -q -- . ; git -C $B clean -qfd -e target
done
