import RF.Lemmas.Budgets
/-!
Theorems about the width-budget arithmetic (`RF/Model/Budgets.lean`), for ALL inputs.

* `budgets_no_panic` / `…_pinned_ok_iff` / `…_counterexample`: which of the modelled subtractions can abort a
  dev build, under exactly which condition, and a concrete input for each (C16).  The three pinned
  subtractions were each reached with a real program (see the comments); the current tree saturates.
* `budgets_exact`: closed forms.
* `budgets_monotone`: a wider page never shrinks a budget -- with the one exception proved in
  `multi_budget_visual_not_monotone_counterexample`.
* `ret_fits_exact`: when the return type stays on the signature line, with the accounting for a function
  without body (`ret_fits_bodiless_counterexample`: its `;` is counted as two columns).
* `budget_layout_independent`: the decisions read the measured widths only (C02); where the source layout
  does get in -- the last line of a left-hand side -- `rhs_depends_on_lhs_layout_counterexample`.
-/
namespace RF.Budgets
open RF.Shape

/-! ## C16: who can abort -/

theorem usub_ok_iff (a b : Nat) : (∃ n, usub a b = .ok n) ↔ b ≤ a := by
  unfold usub
  by_cases h : a < b
  · simp only [h, if_true]
    constructor
    · rintro ⟨n, h'⟩; cases h'
    · intro h'; omega
  · simp only [h, if_false]
    constructor
    · intro _; omega
    · intro _; exact ⟨_, rfl⟩

theorem usub_ok_eq (a b n : Nat) (h : usub a b = .ok n) : n = a - b := by
  unfold usub at h
  by_cases h' : a < b
  · simp only [h', if_true] at h; cases h
  · simp only [h', if_false] at h; cases h; rfl

theorem where_offset_width (c : Cfg) (s : Shape) :
    ((s.indent.add (Indent.new c.tab_spaces 0)).add_usize 6).width = s.indent.width + c.tab_spaces + 6 := by
  simp only [Indent.add, Indent.add_usize, Indent.new, Indent.width]; omega

/-- `rewrite_where_clause`, visual style, pinned tree: returns normally iff the where indentation plus
`where ` is inside the page. -/
theorem where_visual_budget_pinned_ok_iff (c : Cfg) (s : Shape) :
    (∃ n, where_visual_budget_pinned c s = .ok n) ↔ s.indent.width + c.tab_spaces + 6 ≤ c.max_width := by
  show (∃ n, usub c.max_width ((s.indent.add (Indent.new c.tab_spaces 0)).add_usize 6).width = .ok n) ↔ _
  rw [usub_ok_iff, where_offset_width]

/-- Reached by `mod a { mod b { mod c { fn f<T>() where T: Copy {} } } }` with
`indent_style=Visual,max_width=20`: panic at items.rs:3192 (fixed on the current tree). -/
theorem where_visual_budget_pinned_counterexample :
    where_visual_budget_pinned { max_width := 20, tab_spaces := 4 } ⟨8, ⟨12, 0⟩, 0⟩ = .error .subOverflow := by
  decide

/-- where it returns, the pinned code and the current code agree -/
theorem where_visual_budget_agrees (c : Cfg) (s : Shape) (n : Nat)
    (h : where_visual_budget_pinned c s = .ok n) : where_visual_budget c s = n := by
  have h' : usub c.max_width ((s.indent.add (Indent.new c.tab_spaces 0)).add_usize 6).width = .ok n := h
  rw [usub_ok_eq _ _ _ h']; rfl

/-- `format_trait`, pinned tree: `block_indent + tab_spaces - 1`. -/
theorem trait_where_width_pinned_ok_iff (c : Cfg) (i : Indent) :
    (∃ n, trait_where_width_pinned c i = .ok n) ↔ 1 ≤ i.block_indent + c.tab_spaces := by
  show (∃ n, usub (i.block_indent + c.tab_spaces) 1 = .ok n) ↔ _
  rw [usub_ok_iff]

/-- Reached by `trait Aaaaaaaaaaaaaa<Tttttttttttttttttttttt, Uuuuuuuuuuuuuuuuuuuuuu> where T: Copy {}` with
`where_single_line=true,tab_spaces=0,max_width=40,comment_width=10`: panic at items.rs:1240. -/
theorem trait_where_width_pinned_counterexample :
    trait_where_width_pinned { max_width := 40, tab_spaces := 0 } ⟨0, 0⟩ = .error .subOverflow := by decide

/-- `format_tuple_struct`, pinned tree: `tab_spaces - 1`. -/
theorem tuple_struct_where_indent_pinned_ok_iff (c : Cfg) (i : Indent) :
    (∃ r, tuple_struct_where_indent_pinned c i = .ok r) ↔ 1 ≤ c.tab_spaces := by
  unfold tuple_struct_where_indent_pinned usub
  by_cases h : c.tab_spaces < 1
  · simp only [h, if_true]
    constructor
    · rintro ⟨n, h'⟩; cases h'
    · intro h'; omega
  · simp only [h, if_false]
    constructor
    · intro _; omega
    · intro _; exact ⟨_, rfl⟩

/-- Reached by `struct Aaaa<Tttttttttt, Uuuuuuuuuu>(T) where T: Copy;` with
`indent_style=Visual,tab_spaces=0,max_width=30`: panic at items.rs:1670. -/
theorem tuple_struct_where_indent_pinned_counterexample :
    tuple_struct_where_indent_pinned { max_width := 30, tab_spaces := 0 } ⟨0, 0⟩ = .error .subOverflow := by
  decide

/-- EXACT precondition under which every pinned subtraction of the modelled code returns normally.
(`compute_budgets_for_params`, `generics_shape_from_config`, `cond_budget`, `rhs_orig_shape`,
`shape_from_rhs_tactic`, `where_clause_shape` contain no unchecked subtraction at all: they are total
functions into `Nat`, `Option` or `Except ExceedsMaxWidthError`.) -/
theorem budgets_no_panic (c : Cfg) (s : Shape) (i : Indent) :
    ((∃ n, where_visual_budget_pinned c s = .ok n) ∧ (∃ n, trait_where_width_pinned c i = .ok n) ∧
      (∃ r, tuple_struct_where_indent_pinned c i = .ok r)) ↔
    (s.indent.width + c.tab_spaces + 6 ≤ c.max_width ∧ 1 ≤ c.tab_spaces) := by
  rw [where_visual_budget_pinned_ok_iff, trait_where_width_pinned_ok_iff,
    tuple_struct_where_indent_pinned_ok_iff]
  omega

example : (⟨60, ⟨8, 0⟩, 0⟩ : Shape).indent.width + (4 : Nat) + 6 ≤ 100 ∧ 1 ≤ (4 : Nat) := by decide

/-- `ControlFlow::rewrite_cond`: with the subtraction unchecked the one-line budget aborts exactly when
keyword, blank and ` {` do not fit behind the used width; the code saturates, so `cond_budget` is total. -/
theorem cond_one_line_budget_unchecked_ok_iff (c : Cfg) (b : CondBudget) :
    (∃ n, cond_one_line_budget_unchecked c b = .ok n) ↔
      b.constr_shape.used_width + b.offset +
        (if c.control_brace_style ≠ .alwaysNextLine then 2 else 0) ≤ c.max_width := by
  show (∃ n, usub c.max_width (b.constr_shape.used_width + b.offset +
        (if c.control_brace_style ≠ .alwaysNextLine then 2 else 0)) = .ok n) ↔ _
  rw [usub_ok_iff]

/-- `if a {` at indentation 16 on a page of 20 columns: the condition fits (`if a` ends in column 20), the
budget with an unchecked subtraction would abort, the real one is 0 and the brace moves down. -/
theorem cond_one_line_budget_unchecked_counterexample :
    let c : Cfg := { max_width := 20, tab_spaces := 4 }
    let b : CondBudget := ⟨⟨4, ⟨16, 0⟩, 0⟩, 3, 0⟩
    cond_budget c ⟨4, ⟨16, 0⟩, 0⟩ false 2 0 = .ok b ∧
    cond_one_line_budget_unchecked c b = .error .subOverflow ∧
    rewrite_cond c ⟨4, ⟨16, 0⟩, 0⟩ false true 1 = some ⟨false, true, 5⟩ := by
  decide

/-! ## closed forms -/

/-- `one_line_budget = max_width − (indent + result + ret + overhead + brace)`, 0 when the signature so
far holds a line break or the vertical layout is forced; in block style
`multi_line_budget = max_width − (indent + tab_spaces + 1)` and the parameters are indented one block. -/
theorem budgets_exact (c : Cfg) (rl : Nat) (rn : Bool) (i : Indent) (ret : Nat) (b : FnBraceStyle)
    (force : Bool) :
    (compute_budgets_for_params c rl rn i ret b force).1 =
      (if rn = false ∧ force = false then c.max_width - params_used_space i rl ret b else 0) ∧
    (c.indent_style = .block →
      (compute_budgets_for_params c rl rn i ret b force).2 =
        (c.max_width - (i.width + c.tab_spaces + 1), i.blockIndent c.shape)) :=
  ⟨one_line_budget_eq c rl rn i ret b force, fun h => block_multi_budget_eq c h rl rn i ret b force⟩

/-- the overhead in `params_used_space`: `()` + blank before the return type + ` {` / `;` -/
theorem params_used_space_exact (i : Indent) (rl ret : Nat) (b : FnBraceStyle) :
    params_used_space i rl ret b =
      i.width + rl + ret + (if ret = 0 then 2 else 3) +
        (match b with | .none => 1 | .sameLine => 2 | .nextLine => 0) := by
  unfold params_used_space; cases b <;> simp <;> omega

example : compute_budgets_for_params { max_width := 100, tab_spaces := 4 } 10 false ⟨4, 0⟩ 6 .sameLine false
    = (75, 91, ⟨8, 0⟩) := by decide

/-- `where_clause_shape` (block style) in closed form: one block further in, the rest of the page minus
the comma; refused when that is less than nothing. -/
theorem where_clause_shape_exact (c : Cfg) (s : Shape)
    (h : s.indent.block_indent + c.tab_spaces + 1 ≤ c.max_width) :
    where_clause_shape c s =
      .ok ⟨c.max_width - s.indent.block_indent - c.tab_spaces - 1,
           ⟨s.indent.block_indent + c.tab_spaces, 0⟩, 0⟩ := by
  have h1 : ¬ (c.max_width - (s.indent.block_indent + 0) < c.tab_spaces) := by omega
  have h2 : ¬ (c.max_width - (s.indent.block_indent + 0) - c.tab_spaces < 1) := by omega
  simp only [where_clause_shape, Shape.block_left, Shape.sub_width, Shape.sub_width_opt, checkedSub,
    Shape.block, Shape.with_max_width, Shape.block_indent, Indent.block_only, Indent.width,
    Cfg.shape, Indent.new, saturatingSub, if_true, h1, h2, if_false, Option.map]
  simp only [Nat.add_zero]

/-! ## monotonicity -/

/-- A wider page does not shrink the one-line budget, nor (block style) the multi-line budget; the
indentation of the parameters does not move. -/
theorem budgets_monotone (c : Cfg) (w : Nat) (hw : c.max_width ≤ w) (rl : Nat) (rn : Bool) (i : Indent)
    (ret : Nat) (b : FnBraceStyle) (force : Bool) :
    (compute_budgets_for_params c rl rn i ret b force).1 ≤
      (compute_budgets_for_params (c.withWidth w) rl rn i ret b force).1 ∧
    (c.indent_style = .block →
      (compute_budgets_for_params c rl rn i ret b force).2.1 ≤
        (compute_budgets_for_params (c.withWidth w) rl rn i ret b force).2.1 ∧
      (compute_budgets_for_params c rl rn i ret b force).2.2 =
        (compute_budgets_for_params (c.withWidth w) rl rn i ret b force).2.2) := by
  constructor
  · rw [one_line_budget_eq, one_line_budget_eq]
    split
    · simp only [withWidth_max]; omega
    · exact Nat.le_refl 0
  · intro h
    have h' : (c.withWidth w).indent_style = .block := h
    rw [block_multi_budget_eq c h, block_multi_budget_eq (c.withWidth w) h']
    simp only [withWidth_max, withWidth_tab]
    constructor
    · omega
    · simp [Indent.blockIndent, Cfg.shape, Cfg.withWidth]

/-- "fits at width w ⇒ fits at w + 1": horizontal parameters stay horizontal on a wider page. -/
theorem params_fit_monotone (c : Cfg) (w : Nat) (hw : c.max_width ≤ w) (ps : List Nat) (rl : Nat) (i : Indent)
    (ret : Nat) (b : FnBraceStyle)
    (h : params_total ps ≤ (compute_budgets_for_params c rl false i ret b false).1) :
    params_total ps ≤ (compute_budgets_for_params (c.withWidth w) rl false i ret b false).1 :=
  Nat.le_trans h (budgets_monotone c w hw rl false i ret b false).1

/-- Visual style: one more column can SHRINK the multi-line budget (the one-line attempt becomes possible
and aligns the parameters behind the long name). -/
theorem multi_budget_visual_not_monotone_counterexample :
    let c : Cfg := { max_width := 32, tab_spaces := 4, indent_style := .visual }
    (compute_budgets_for_params c 30 false ⟨0, 0⟩ 0 .nextLine false).2.1 = 27 ∧
    (compute_budgets_for_params (c.withWidth 33) 30 false ⟨0, 0⟩ 0 .nextLine false).2.1 = 0 := by
  decide

/-- the control-flow budget is monotone as well -/
theorem cond_budget_monotone (c : Cfg) (w : Nat) (hw : c.max_width ≤ w) (s : Shape) (k l : Nat)
    (b b' : CondBudget) (h : cond_budget c s false k l = .ok b)
    (h' : cond_budget (c.withWidth w) s false k l = .ok b') : b.one_line_budget ≤ b'.one_line_budget := by
  unfold cond_budget at h h'
  simp only [Bool.false_eq_true, if_false] at h h'
  cases h; cases h'
  simp only [saturatingSub, Shape.used_width, withWidth_max]
  have : (c.withWidth w).control_brace_style = c.control_brace_style := rfl
  rw [this]; omega

/-! ## the return type -/

/-- What the code tests (block style, a parameter list that is not empty and stays on the line of `fn`):
the return type stays iff the one-line signature INCLUDING two more columns fits when there is no where
clause -- ` {` for a function with body, and the same two columns for the single `;` of one without. -/
theorem ret_fits_exact (c : Cfg) (s : Sig) (hb : c.indent_style = .block) (hp : s.params ≠ [])
    (hr : s.ret ≠ 0) (hin : (sig_layout c s).params_in_block = false) :
    (sig_layout c s).ret_should_indent = false ↔
      s.indent.width + sig_one_line_width s + (if s.preds = 0 then 2 else 0) ≤ c.max_width := by
  have hne : s.params.isEmpty = false := by cases h : s.params with | nil => exact absurd h hp | cons _ _ => rfl
  unfold sig_layout at hin ⊢
  simp only [hb, hne] at hin ⊢
  simp only [sig_length, sig_one_line_width, param_str_len, hr] at hin ⊢
  simp at hin ⊢
  simp [hin]
  split <;> omega

/-- A trait method whose one-line form with its `;` is exactly `max_width` wide: the parameters fit (their
budget counts `;` as one column), the return type moves all the same (`sig_length` counts two). -/
theorem ret_fits_bodiless_counterexample :
    let c : Cfg := { max_width := 40, tab_spaces := 4 }
    let s : Sig := ⟨⟨4, 0⟩, 12, [6, 6], 6, 0, .none⟩
    s.indent.width + sig_one_line_width s + 1 = c.max_width ∧
    (sig_layout c s).params_in_block = false ∧ (sig_layout c s).ret_should_indent = true ∧
    sig_one_line c s = false ∧
    -- the same signature with a body and ` {` ending in the same column stays on one line
    sig_one_line c { s with brace := .sameLine, prefix_len := 11 } = true := by
  decide

example : let c : Cfg := { max_width := 60, tab_spaces := 4 }
    let s : Sig := ⟨⟨4, 0⟩, 12, [6, 6], 6, 0, .sameLine⟩
    (sig_layout c s).params_in_block = false ∧ (sig_layout c s).ret_should_indent = false := by decide

/-- Function with body, brace on the same line, no where clause: everything is one line iff the line
with its ` {` is at most `max_width` wide (block style, Tall). -/
theorem sig_one_line_exact (c : Cfg) (s : Sig) (hb : c.indent_style = .block) (ht : c.fn_params_layout = .tall)
    (hp : s.params ≠ []) (hr : s.ret ≠ 0) (hw : s.preds = 0) (hbr : s.brace = .sameLine) :
    sig_one_line c s = true ↔ s.indent.width + sig_one_line_width s + 2 ≤ c.max_width := by
  have hne : s.params.isEmpty = false := by cases h : s.params with | nil => exact absurd h hp | cons _ _ => rfl
  unfold sig_one_line sig_layout
  simp only [hb, hne, ht, params_tactic, one_line_budget_eq, params_used_space, hbr, hr, hw]
  simp only [sig_length, sig_one_line_width, param_str_len, hr, hw]
  simp
  by_cases h : params_total s.params ≤ c.max_width - (s.indent.width + s.prefix_len + s.ret + 3 + 2)
  · simp [h]
    by_cases h0 : c.max_width - (s.indent.width + s.prefix_len + s.ret + 3 + 2) = 0
    · have : params_total s.params = 0 := by omega
      omega
    · omega
  · simp [h]
    omega

/-! ## C02: what the budgets read -/

/-- A source rendering of a signature: the measured pieces and, separately, how the source laid them
out (line breaks between the pieces, blanks).  `measure` is what `rewrite_fn_base` is handed. -/
structure SrcSig where
  sig : Sig
  /-- positions of the line breaks of the source text between the tokens of the signature -/
  breaks : List Nat
  /-- runs of blanks between tokens -/
  blanks : List Nat

def SrcSig.measure (x : SrcSig) : Sig := x.sig

/-- Two sources with the same tokens (hence the same rendered pieces) get the same budgets and the same
layout, however they were laid out; in particular the output of the formatter, fed back, gets the
budgets its source got. -/
theorem budget_layout_independent (c : Cfg) (a b : SrcSig) (h : a.sig = b.sig) :
    sig_layout c a.measure = sig_layout c b.measure ∧ sig_one_line c a.measure = sig_one_line c b.measure ∧
    compute_budgets_for_params c a.measure.prefix_len false a.measure.indent a.measure.ret a.measure.brace false =
      compute_budgets_for_params c b.measure.prefix_len false b.measure.indent b.measure.ret b.measure.brace false := by
  simp only [SrcSig.measure, h, and_self]

example : (⟨⟨⟨0, 0⟩, 10, [4], 6, 0, .sameLine⟩, [3, 5], [1]⟩ : SrcSig).sig =
    (⟨⟨⟨0, 0⟩, 10, [4], 6, 0, .sameLine⟩, [], [2, 2]⟩ : SrcSig).sig := rfl

/-- Where the layout of a piece does get in: `rewrite_assign_rhs_expr` measures the LAST LINE of the
left-hand side.  The same left-hand side of 12 columns on one line, or broken after its first 3 columns
(last line 9 wide inside an indentation of 4), puts a right-hand side of 8 columns on the same line in
one case and on the next line in the other. -/
theorem rhs_depends_on_lhs_layout_counterexample :
    let c : Cfg := { max_width := 20, tab_spaces := 4 }
    let s : Shape := ⟨20, ⟨4, 0⟩, 0⟩
    choose_rhs c (rhs_orig_shape s 12 false) .default (some 8) (some 8) false = .nextLine ∧
    choose_rhs c (rhs_orig_shape s 9 true) .default (some 8) (some 8) false = .sameLine := by
  decide

/-- and it is the only way: for a given last-line measure the shape of the right-hand side is fixed -/
theorem rhs_orig_shape_exact (s : Shape) (llw : Nat) (h : llw + 1 ≤ s.width) :
    rhs_orig_shape s llw false = ⟨s.width - (llw + 1), s.indent, s.offset + (llw + 1)⟩ := by
  unfold rhs_orig_shape Shape.offset_left_opt Shape.sub_width_opt Shape.add_offset checkedSub
  simp only [saturatingSub, Bool.false_eq_true, if_false, Nat.sub_zero]
  have : ¬ (s.width < llw + 1) := by omega
  simp [this]

end RF.Budgets
