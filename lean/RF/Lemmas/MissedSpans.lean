import RF.Model.MissedSpans
import RF.Lemmas.Comment
import RF.Lemmas.Shape
import RF.Lemmas.Newline
/-!
Lemmas about `RF.Model.MissedSpans` (the missed-span writer).  Core + Std only.

The central device is one loop invariant (`Inv`) for `write_snippet_inner`: the part of the snippet
consumed so far splits as `p ++ q` with `status.line_start = utf8Len p` (so every slice the code takes at
`line_start` is on a character boundary), `q` white space, and the non-blank characters written so far
are those of the consumed part.  No-panic and content preservation both follow from it.
-/
namespace RF.Lemmas.Missed
open RF.Missed RF.Comment RF.CharClasses RF.Shape
open RF.Lemmas.Comment (utf8Len_append utf8Size_pos takeBytes_prefix Alternates Contiguous slices_spec)

/-! ## Byte slices -/

/-- `&s[a.len()..]` of `a ++ b` is `b`. -/
theorem dropBytes_prefix : ∀ (a b : List Char), dropBytes? (utf8Len a) (a ++ b) = some b
  | [], b => by simp [utf8Len, dropBytes?]
  | c :: cs, b => by
    have hp := utf8Size_pos c
    have ih := dropBytes_prefix cs b
    obtain ⟨n, hn⟩ : ∃ n, utf8Len (c :: cs) = n + 1 :=
      ⟨c.utf8Size + utf8Len cs - 1, by simp [utf8Len]; omega⟩
    rw [hn]
    simp only [List.cons_append, dropBytes?]
    have h1 : c.utf8Size ≤ n + 1 := by simp [utf8Len] at hn; omega
    have h2 : n + 1 - c.utf8Size = utf8Len cs := by simp [utf8Len] at hn; omega
    simp [h1, h2, ih]

/-- `&s[a.len() .. a.len() + b.len()]` of `a ++ b ++ c` is `b`. -/
theorem sliceBytes_mid (a b c : List Char) :
    sliceBytes? (a ++ b ++ c) (utf8Len a) (utf8Len a + utf8Len b) = some b := by
  unfold sliceBytes?
  have h1 : takeBytes? (utf8Len a + utf8Len b) (a ++ b ++ c) = some (a ++ b) := by
    rw [← utf8Len_append]; exact takeBytes_prefix (a ++ b) c
  rw [h1]
  simpa using dropBytes_prefix a b

/-- The same with the two ends given as numbers. -/
theorem sliceBytes_of_split (s a b c : List Char) (i j : Nat) (hs : s = a ++ b ++ c)
    (hi : i = utf8Len a) (hj : j = utf8Len a + utf8Len b) : sliceBytes? s i j = some b := by
  subst hs hi hj; exact sliceBytes_mid a b c

theorem takeBytes_of_split (s a b : List Char) (i : Nat) (hs : s = a ++ b) (hi : i = utf8Len a) :
    takeBytes? i s = some a := by
  subst hs hi; exact takeBytes_prefix a b

theorem dropBytes_of_split (s a b : List Char) (i : Nat) (hs : s = a ++ b) (hi : i = utf8Len a) :
    dropBytes? i s = some b := by
  subst hs hi; exact dropBytes_prefix a b

/-! ## `str::find(char)`, `str::rfind(char)` -/

/-- `find` answers the byte offset of the first character that satisfies `p`. -/
theorem findChar_split (p : Char → Bool) : ∀ (s : List Char) (i : Nat), findChar p s = some i →
    ∃ a c b, s = a ++ c :: b ∧ i = utf8Len a ∧ p c = true ∧ ∀ x ∈ a, p x = false
  | [], i, h => by simp [findChar] at h
  | c :: cs, i, h => by
    simp only [findChar] at h
    by_cases hc : p c = true
    · simp only [hc, if_true, Option.some.injEq] at h
      exact ⟨[], c, cs, rfl, by simp [utf8Len, ← h], hc, by simp⟩
    · simp only [hc] at h
      cases hf : findChar p cs with
      | none => simp [hf] at h
      | some j =>
        have hi : j + c.utf8Size = i := by simpa [hf] using h
        obtain ⟨a, d, b, hs, hj, hd, ha⟩ := findChar_split p cs j hf
        refine ⟨c :: a, d, b, by simp [hs], by simp only [utf8Len]; omega, hd, ?_⟩
        intro x hx
        rcases List.mem_cons.mp hx with rfl | hx
        · simpa using hc
        · exact ha x hx

theorem findChar_none (p : Char → Bool) : ∀ (s : List Char), findChar p s = none →
    ∀ x ∈ s, p x = false
  | [], _ => by simp
  | c :: cs, h => by
    simp only [findChar] at h
    by_cases hc : p c = true
    · simp [hc] at h
    · simp only [hc] at h
      cases hf : findChar p cs with
      | some j => simp [hf] at h
      | none =>
        intro x hx
        rcases List.mem_cons.mp hx with rfl | hx
        · simpa using hc
        · exact findChar_none p cs hf x hx

/-- `rfind` answers the byte offset of the last character that satisfies `p`. -/
theorem rfindChar_split (p : Char → Bool) : ∀ (s : List Char) (i : Nat), rfindChar p s = some i →
    ∃ a c b, s = a ++ c :: b ∧ i = utf8Len a ∧ p c = true ∧ ∀ x ∈ b, p x = false
  | [], i, h => by simp [rfindChar] at h
  | c :: cs, i, h => by
    simp only [rfindChar] at h
    cases hf : rfindChar p cs with
    | some j =>
      have hi : j + c.utf8Size = i := by simpa [hf] using h
      obtain ⟨a, d, b, hs, hj, hd, hb⟩ := rfindChar_split p cs j hf
      exact ⟨c :: a, d, b, by simp [hs], by simp only [utf8Len]; omega, hd, hb⟩
    | none =>
      simp only [hf] at h
      by_cases hc : p c = true
      · simp only [hc, if_true, Option.some.injEq] at h
        refine ⟨[], c, cs, rfl, by simp [utf8Len, ← h], hc, ?_⟩
        exact rfindChar_none p cs hf
      · simp [hc] at h
where
  rfindChar_none (p : Char → Bool) : ∀ (s : List Char), rfindChar p s = none → ∀ x ∈ s, p x = false
    | [], _ => by simp
    | c :: cs, h => by
      simp only [rfindChar] at h
      cases hf : rfindChar p cs with
      | some j => simp [hf] at h
      | none =>
        simp only [hf] at h
        by_cases hc : p c = true
        · simp [hc] at h
        · intro x hx
          rcases List.mem_cons.mp hx with rfl | hx
          · simpa using hc
          · exact rfindChar_none p cs hf x hx

/-! ## White space and `squeeze` -/

def AllWs (s : List Char) : Prop := ∀ c ∈ s, isWs c = true

theorem allWs_nil : AllWs [] := by intro c h; simp at h

theorem allWs_append {a b : List Char} : AllWs (a ++ b) ↔ AllWs a ∧ AllWs b := by
  unfold AllWs
  constructor
  · intro h; exact ⟨fun c hc => h c (by simp [hc]), fun c hc => h c (by simp [hc])⟩
  · rintro ⟨ha, hb⟩ c hc
    rcases List.mem_append.mp hc with h | h
    · exact ha c h
    · exact hb c h

theorem allWs_cons {c : Char} {s : List Char} : AllWs (c :: s) ↔ isWs c = true ∧ AllWs s := by
  unfold AllWs; simp

theorem squeeze_append (a b : List Char) : squeeze (a ++ b) = squeeze a ++ squeeze b := by
  simp [squeeze]

theorem squeeze_nil : squeeze [] = [] := rfl

theorem squeeze_of_allWs {s : List Char} (h : AllWs s) : squeeze s = [] := by
  unfold squeeze
  rw [List.filter_eq_nil_iff]
  intro c hc; simp [h c hc]

theorem allWs_of_squeeze {s : List Char} (h : squeeze s = []) : AllWs s := by
  unfold squeeze at h
  rw [List.filter_eq_nil_iff] at h
  intro c hc
  have := h c hc
  simpa using this

theorem isWs_nl : isWs '\n' = true := by decide
theorem isWs_space : isWs ' ' = true := by decide
theorem isWs_tab : isWs '\t' = true := by decide

theorem allWs_replicate (k : Nat) (c : Char) (h : isWs c = true) : AllWs (List.replicate k c) := by
  intro x hx; rw [List.eq_of_mem_replicate hx]; exact h

/-- `trim_start` keeps the non-blank characters. -/
theorem squeeze_trimStart (s : List Char) : squeeze (trimStart s) = squeeze s := by
  unfold trimStart
  induction s with
  | nil => rfl
  | cons c cs ih =>
    simp only [List.dropWhile]
    cases hc : isWs c with
    | true => simp [squeeze, hc] at ih ⊢; exact ih
    | false => rfl

/-- `trim_end` keeps the non-blank characters. -/
theorem squeeze_trimEnd (s : List Char) : squeeze (trimEnd s) = squeeze s := by
  unfold trimEnd
  have h : ∀ t : List Char, squeeze (t.dropWhile isWs) = squeeze t := fun t => squeeze_trimStart t
  have hr : ∀ t : List Char, squeeze t.reverse = (squeeze t).reverse := by
    intro t; simp [squeeze]
  rw [hr, h, hr, List.reverse_reverse]

theorem squeeze_trim (s : List Char) : squeeze (trim s) = squeeze s := by
  unfold trim; rw [squeeze_trimEnd, squeeze_trimStart]

theorem dropWhile_nil_of_all {p : Char → Bool} : ∀ {s : List Char}, (∀ c ∈ s, p c = true) →
    s.dropWhile p = []
  | [], _ => rfl
  | c :: cs, h => by
    simp only [List.dropWhile, h c (by simp)]
    exact dropWhile_nil_of_all (fun x hx => h x (by simp [hx]))

theorem all_of_dropWhile_nil {p : Char → Bool} : ∀ {s : List Char}, s.dropWhile p = [] →
    ∀ c ∈ s, p c = true
  | [], _ => by simp
  | c :: cs, h => by
    simp only [List.dropWhile] at h
    cases hc : p c with
    | false => simp [hc] at h
    | true =>
      simp only [hc] at h
      intro x hx
      rcases List.mem_cons.mp hx with rfl | hx
      · exact hc
      · exact all_of_dropWhile_nil h x hx

/-- `s.trim().is_empty()` means `s` is white space. -/
theorem trim_nil_iff (s : List Char) : trim s = [] ↔ AllWs s := by
  constructor
  · intro h
    have := congrArg squeeze h
    rw [squeeze_trim] at this
    exact allWs_of_squeeze this
  · intro h
    unfold trim trimStart
    rw [dropWhile_nil_of_all h]; rfl

theorem allWs_trim_nil {s : List Char} (h : AllWs s) : trim s = [] := (trim_nil_iff s).mpr h

theorem allWs_trimEnd {s : List Char} (h : AllWs s) : trimEnd s = [] := by
  unfold trimEnd
  rw [dropWhile_nil_of_all (by intro c hc; exact h c (List.mem_reverse.mp hc))]; rfl

/-! ## Indentation strings -/

/-- `hard_tabs → tab_spaces ≥ 1`: the exact condition under which `Indent::to_string` does not divide
by zero (`RF.Props.C16shape`). -/
def IndentOk (c : Config) : Prop := c.hard_tabs = true → 1 ≤ c.tab_spaces

theorem allWs_indentChars (i : Indent) (c : Config) : AllWs (RF.Lemmas.Shape.indentChars i c) := by
  unfold RF.Lemmas.Shape.indentChars
  split
  · exact allWs_append.mpr ⟨allWs_replicate _ _ isWs_tab, allWs_replicate _ _ isWs_space⟩
  · exact allWs_replicate _ _ isWs_space

theorem indentStr_ok (env : Env) (h : IndentOk env.config) (i : Indent) :
    ∃ s, indentStr? env i = some s ∧ AllWs s := by
  refine ⟨RF.Lemmas.Shape.indentChars i env.config, ?_, allWs_indentChars i env.config⟩
  unfold indentStr?
  rw [RF.Lemmas.Shape.to_string_eq i env.config h]

theorem indentNl_ok (env : Env) (h : IndentOk env.config) (i : Indent) :
    ∃ s, indentNl? env i = some s ∧ AllWs s := by
  refine ⟨'\n' :: RF.Lemmas.Shape.indentChars i env.config, ?_,
    allWs_cons.mpr ⟨isWs_nl, allWs_indentChars i env.config⟩⟩
  unfold indentNl?
  rw [RF.Lemmas.Shape.to_string_with_newline_eq i env.config h]

/-! ## What has been pushed -/

theorem render_append (a b : List Piece) : render (a ++ b) = render a ++ render b := by
  simp [render]

theorem render_single (t : Tag) (s : List Char) : render [⟨t, s⟩] = s := by simp [render]

theorem render_nil : render [] = [] := rfl

/-- `v` is `v0` after the pieces `out` were pushed. -/
structure Wrote (v0 v : Vis) (out : List Piece) : Prop where
  buffer : v.buffer = v0.buffer ++ render out
  log : v.log = v0.log ++ out
  indent : v.blockIndent = v0.blockIndent
  pos : v.lastPos = v0.lastPos
  line : v.lineNumber = v0.lineNumber + RF.Newline.countNewlines (render out)

theorem countNewlines_append (a b : List Char) :
    RF.Newline.countNewlines (a ++ b) = RF.Newline.countNewlines a + RF.Newline.countNewlines b := by
  simp [RF.Newline.countNewlines]

theorem Wrote.refl (v : Vis) : Wrote v v [] :=
  ⟨by simp [render], by simp, rfl, rfl, by simp [render, RF.Newline.countNewlines]⟩

theorem Wrote.push {v0 v : Vis} {out : List Piece} (h : Wrote v0 v out) (t : Tag) (s : List Char) :
    Wrote v0 (v.push t s) (out ++ [⟨t, s⟩]) := by
  refine ⟨?_, ?_, h.indent, h.pos, ?_⟩
  · simp [Vis.push, h.buffer, render_append, render_single]
  · simp [Vis.push, h.log]
  · simp only [Vis.push, h.line, render_append, render_single, countNewlines_append]; omega

theorem Wrote.pushVerticalSpaces {v0 v : Vis} {out : List Piece} (h : Wrote v0 v out) (env : Env)
    (n : Nat) :
    Wrote v0 (v.pushVerticalSpaces env n) (out ++ [⟨.vspace, List.replicate
      (RF.Newline.pushVerticalSpaces (RF.Newline.trailingNewlines v.buffer) n env.lower env.upper) '\n'⟩]) :=
  h.push _ _

/-! ## process_missing_code -/

theorem nl_size : ('\n' : Char).utf8Size = 1 := by decide

/-- The loop of `process_missing_code` from a state in which `line_start` is on a character boundary in
front of the current position: it does not panic, keeps that, and what it pushed plus what is pending
(`cur'`, from `line_start` on) has the non-blank characters of what was pending plus what it read. -/
theorem pmcLoop_spec (snippet : List Char) : ∀ (rest p cur tail : List Char) (i : Nat) (st : RF.Missed.Status)
    (v0 v : Vis) (out : List Piece),
    snippet = p ++ cur ++ rest ++ tail → i = utf8Len (p ++ cur) → st.line_start = utf8Len p →
    (∀ lw, st.last_wspace = some lw → ∃ c1 c2, cur = c1 ++ c2 ∧ lw = utf8Len (p ++ c1) ∧ AllWs c2) →
    Wrote v0 v out →
    ∃ st' v' out' p' cur', pmcLoop snippet i rest st v = some (st', v') ∧ Wrote v0 v' (out ++ out') ∧
      p ++ cur ++ rest = p' ++ cur' ∧ st'.line_start = utf8Len p' ∧
      squeeze (render out') ++ squeeze cur' = squeeze cur ++ squeeze rest ∧
      (∀ q ∈ out', q.tag = .code)
  | [], p, cur, tail, i, st, v0, v, out, _, _, hls, _, hw => by
    refine ⟨st, v, [], p, cur, rfl, by simpa using hw, by simp, hls, by simp [render, squeeze], by simp⟩
  | c :: rest, p, cur, tail, i, st, v0, v, out, hs, hi, hls, hlw, hw => by
    by_cases hc : c = '\n'
    · subst hc
      have hi1 : i + 1 = utf8Len (p ++ (cur ++ ['\n']) ++ []) := by
        rw [hi]; simp [utf8Len_append, utf8Len, nl_size]; omega
      cases hl : st.last_wspace with
      | some lw =>
        obtain ⟨c1, c2, hcur, hlwv, hc2⟩ := hlw lw hl
        have hsl : sliceBytes? snippet st.line_start lw = some c1 := by
          apply sliceBytes_of_split snippet p c1 (c2 ++ '\n' :: rest ++ tail)
          · rw [hs, hcur]; simp [List.append_assoc]
          · exact hls
          · rw [hlwv, utf8Len_append]
        have hw' := (hw.push .code c1).push .code ['\n']
        obtain ⟨st', v', out', p', cur', hrun, hwr, hsplit, hls', hsq, htag⟩ :=
          pmcLoop_spec snippet rest (p ++ (cur ++ ['\n'])) [] tail (i + 1)
            { line_start := i + 1, last_wspace := none, cur_line := st.cur_line + 1 } v0 _ _
            (by rw [hs]; simp [List.append_assoc]) hi1
            (by show i + 1 = _; rw [hi]; simp [utf8Len_append, utf8Len, nl_size]; omega)
            (by intro lw h; simp at h) hw'
        refine ⟨st', v', [⟨.code, c1⟩, ⟨.code, ['\n']⟩] ++ out', p', cur', ?_, ?_, ?_, hls', ?_, ?_⟩
        · simp only [pmcLoop, if_true, hl, hsl]; exact hrun
        · simpa [List.append_assoc] using hwr
        · rw [← hsplit]; simp [List.append_assoc]
        · rw [render_append, squeeze_append]
          have h1 : squeeze (render [⟨Tag.code, c1⟩, ⟨Tag.code, ['\n']⟩]) = squeeze cur := by
            rw [hcur, squeeze_append, squeeze_of_allWs hc2]
            simp [render, squeeze_append]
            exact squeeze_of_allWs (by intro x hx; simp at hx; subst hx; exact isWs_nl)
          rw [h1, List.append_assoc, hsq]
          simp [squeeze_append, squeeze_nil]
          have : squeeze ('\n' :: rest) = squeeze rest := by
            show squeeze (['\n'] ++ rest) = _
            rw [squeeze_append, squeeze_of_allWs (by intro x hx; simp at hx; subst hx; exact isWs_nl)]; rfl
          rw [this]
        · intro q hq
          rcases List.mem_append.mp hq with h | h
          · simp at h; rcases h with rfl | rfl <;> rfl
          · exact htag q h
      | none =>
        have hsl : sliceBytes? snippet st.line_start (i + 1) = some (cur ++ ['\n']) := by
          apply sliceBytes_of_split snippet p (cur ++ ['\n']) (rest ++ tail)
          · rw [hs]; simp [List.append_assoc]
          · exact hls
          · rw [hi]; simp [utf8Len_append, utf8Len, nl_size]; omega
        have hw' := hw.push .code (cur ++ ['\n'])
        obtain ⟨st', v', out', p', cur', hrun, hwr, hsplit, hls', hsq, htag⟩ :=
          pmcLoop_spec snippet rest (p ++ (cur ++ ['\n'])) [] tail (i + 1)
            { line_start := i + 1, last_wspace := none, cur_line := st.cur_line + 1 } v0 _ _
            (by rw [hs]; simp [List.append_assoc]) hi1
            (by show i + 1 = _; rw [hi]; simp [utf8Len_append, utf8Len, nl_size]; omega)
            (by intro lw h; simp at h) hw'
        refine ⟨st', v', [⟨.code, cur ++ ['\n']⟩] ++ out', p', cur', ?_, ?_, ?_, hls', ?_, ?_⟩
        · simp only [pmcLoop, if_true, hl, hsl]; exact hrun
        · simpa [List.append_assoc] using hwr
        · rw [← hsplit]; simp [List.append_assoc]
        · rw [render_append, squeeze_append, List.append_assoc, hsq]
          simp [render, squeeze_append, squeeze_nil]
          have h1 : squeeze ['\n'] = [] :=
            squeeze_of_allWs (by intro x hx; simp at hx; subst hx; exact isWs_nl)
          have : squeeze ('\n' :: rest) = squeeze rest := by
            show squeeze (['\n'] ++ rest) = _
            rw [squeeze_append, h1]; rfl
          rw [this, h1]; simp
        · intro q hq
          rcases List.mem_append.mp hq with h | h
          · simp at h; subst h; rfl
          · exact htag q h
    · have hi1 : i + c.utf8Size = utf8Len (p ++ (cur ++ [c])) := by
        rw [hi]; simp [utf8Len_append, utf8Len]; omega
      have hs1 : snippet = p ++ (cur ++ [c]) ++ rest ++ tail := by rw [hs]; simp [List.append_assoc]
      by_cases hws : (isWs c && st.last_wspace.isNone) = true
      · obtain ⟨st', v', out', p', cur', hrun, hwr, hsplit, hls', hsq, htag⟩ :=
          pmcLoop_spec snippet rest p (cur ++ [c]) tail (i + c.utf8Size)
            { st with last_wspace := some i } v0 v out hs1 hi1 hls
            (by
              intro lw h
              simp at h; subst h
              refine ⟨cur, [c], rfl, hi, ?_⟩
              intro x hx; simp at hx; subst hx
              simp at hws; exact hws.1) hw
        refine ⟨st', v', out', p', cur', ?_, hwr, ?_, hls', ?_, htag⟩
        · simp only [pmcLoop, hc, if_false, hws, if_true]; exact hrun
        · rw [← hsplit]; simp [List.append_assoc]
        · rw [hsq]; simp only [squeeze_append, List.append_assoc]
          show squeeze cur ++ (squeeze [c] ++ squeeze rest) = squeeze cur ++ squeeze ([c] ++ rest)
          rw [squeeze_append]
      · obtain ⟨st', v', out', p', cur', hrun, hwr, hsplit, hls', hsq, htag⟩ :=
          pmcLoop_spec snippet rest p (cur ++ [c]) tail (i + c.utf8Size)
            { st with last_wspace := none } v0 v out hs1 hi1 hls
            (by intro lw h; simp at h) hw
        refine ⟨st', v', out', p', cur', ?_, hwr, ?_, hls', ?_, htag⟩
        · simp only [pmcLoop, hc, if_false, hws]; exact hrun
        · rw [← hsplit]; simp [List.append_assoc]
        · rw [hsq]; simp only [squeeze_append, List.append_assoc]
          show squeeze cur ++ (squeeze [c] ++ squeeze rest) = squeeze cur ++ squeeze ([c] ++ rest)
          rw [squeeze_append]

/-- Without a line break the loop pushes nothing. -/
theorem pmcLoop_noNl (snippet : List Char) : ∀ (rest : List Char) (i : Nat) (st : RF.Missed.Status)
    (v : Vis), (∀ c ∈ rest, c ≠ '\n') → ∃ st', pmcLoop snippet i rest st v = some (st', v)
  | [], _, st, v, _ => ⟨st, rfl⟩
  | c :: rest, i, st, v, h => by
    have hc : c ≠ '\n' := h c (by simp)
    have hr : ∀ x ∈ rest, x ≠ '\n' := fun x hx => h x (by simp [hx])
    simp only [pmcLoop, hc, if_false]
    split
    · exact pmcLoop_noNl snippet rest _ _ v hr
    · exact pmcLoop_noNl snippet rest _ _ v hr

/-- `rewrite_comment` keeps the non-blank characters of a comment (true of the rewriter under the
default comment options: `RF.Lemmas.ListsRc.rewriteCommentLight_content`). -/
def RcContent (rc : Rc) : Prop := ∀ c bs sh r, rc c bs sh = some r → squeeze r = squeeze c

theorem squeeze_rcOr (env : Env) (h : RcContent env.rc) (c : List Char) (sh : Shape) :
    squeeze (rcOr env c sh) = squeeze c := by
  unfold rcOr
  cases hr : env.rc c false sh with
  | none => rfl
  | some r => exact h c false sh r hr

/-- Every `vspace` piece of `out` is what `push_vertical_spaces` computes from the run of line breaks
at the end of the buffer (`b0` followed by the pieces in front of it) for some request. -/
def VspaceOk (env : Env) (b0 : List Char) (out : List Piece) : Prop :=
  ∀ l1 t l2, out = l1 ++ ⟨.vspace, t⟩ :: l2 →
    ∃ n, t = List.replicate (RF.Newline.pushVerticalSpaces
      (RF.Newline.trailingNewlines (b0 ++ render l1)) n env.lower env.upper) '\n'

theorem VspaceOk.nil (env : Env) (b0 : List Char) : VspaceOk env b0 [] := by
  intro l1 t l2 h; simp at h

/-- Appending pieces that are not vertical spaces. -/
theorem VspaceOk.append {env : Env} {b0 : List Char} {out o : List Piece} (h : VspaceOk env b0 out)
    (ho : ∀ q ∈ o, q.tag ≠ .vspace) : VspaceOk env b0 (out ++ o) := by
  intro l1 t l2 heq
  rcases List.append_eq_append_iff.mp heq with ⟨a, _, h2⟩ | ⟨a, h1, h2⟩
  · have : (⟨.vspace, t⟩ : Piece) ∈ o := by rw [h2]; simp
    exact absurd rfl (ho _ this)
  · cases a with
    | nil =>
      have : (⟨.vspace, t⟩ : Piece) ∈ o := by
        have : o = ⟨.vspace, t⟩ :: l2 := by simpa using h2.symm
        rw [this]; simp
      exact absurd rfl (ho _ this)
    | cons x a =>
      have hx : x = ⟨.vspace, t⟩ := by
        have := h2; simp at this; exact this.1.symm
      subst hx
      exact h l1 t a h1

/-- Appending the piece `push_vertical_spaces` pushes. -/
theorem VspaceOk.vspace {env : Env} {b0 : List Char} {out : List Piece} (h : VspaceOk env b0 out)
    (n : Nat) :
    VspaceOk env b0 (out ++ [⟨.vspace, List.replicate (RF.Newline.pushVerticalSpaces
      (RF.Newline.trailingNewlines (b0 ++ render out)) n env.lower env.upper) '\n'⟩]) := by
  intro l1 t l2 heq
  rcases List.append_eq_append_iff.mp heq with ⟨a, h1, h2⟩ | ⟨a, h1, h2⟩
  · cases a with
    | nil =>
      have h3 : l1 = out := by simpa using h1
      subst h3
      refine ⟨n, ?_⟩
      have := h2; simp at this; exact this.1.symm
    | cons x a =>
      exfalso
      have := congrArg List.length h2
      simp at this
  · cases a with
    | nil =>
      have h3 : out = l1 := by simpa using h1
      subst h3
      refine ⟨n, ?_⟩
      have := h2; simp at this; exact this.1
    | cons x a =>
      have hx : x = ⟨.vspace, t⟩ := by
        have := h2; simp at this; exact this.1.symm
      subst hx
      exact h l1 t a h1

/-! ## The loop invariant of `write_snippet_inner` -/

/-- After the part `done` of the snippet has been consumed (`k` = the kind of the slice that comes
next): `out` has been pushed; `done = p ++ q` with `line_start` at the end of `p` and `q` white space;
`last_wspace` is clear in front of a `Normal` slice; the non-blank characters written are those of
`done` (when the comment rewriter keeps them); every `vspace` piece is a `push_vertical_spaces`. -/
structure Inv (env : Env) (v0 : Vis) (k : CodeCharKind) (done : List Char) (st : RF.Missed.Status)
    (v : Vis) (out : List Piece) : Prop where
  wrote : Wrote v0 v out
  split : ∃ p q, done = p ++ q ∧ AllWs q ∧ st.line_start = utf8Len p
  lw : k = .normal → st.last_wspace = none
  content : RcContent env.rc → squeeze (render out) = squeeze done
  vs : VspaceOk env v0.buffer out

theorem utf8Len_inj_prefix : ∀ (a b x y : List Char), a ++ x = b ++ y → utf8Len a = utf8Len b → a = b
  | [], [], _, _, _, _ => rfl
  | [], c :: b, _, _, _, h => by
    have := utf8Size_pos c; simp [utf8Len] at h; omega
  | c :: a, [], _, _, _, h => by
    have := utf8Size_pos c; simp [utf8Len] at h; omega
  | c :: a, d :: b, x, y, h, hl => by
    simp at h
    obtain ⟨rfl, h⟩ := h
    have : utf8Len a = utf8Len b := by simp [utf8Len] at hl; omega
    rw [utf8Len_inj_prefix a b x y h this]

/-- `process_missing_code` on the slice `sub` that follows `done`. -/
theorem processMissingCode_spec (env : Env) (hind : IndentOk env.config)
    (snippet done sub tail : List Char) (hs : snippet = done ++ sub ++ tail)
    (st : RF.Missed.Status) (v0 v : Vis) (out : List Piece)
    (hinv : Inv env v0 .normal done st v out) :
    ∃ st' v' o, processMissingCode env snippet sub (utf8Len done) st v = some (st', v') ∧
      Inv env v0 .comment (done ++ sub) st' v' (out ++ o) ∧
      (∀ q ∈ o, q.tag = .code ∨ (q.tag = .blank ∧ AllWs q.text)) ∧
      (AllWs sub → (∀ c ∈ sub, c ≠ '\n') → o = []) := by
  obtain ⟨p, q, hd, hq, hls⟩ := hinv.split
  have hlw := hinv.lw rfl
  obtain ⟨st1, v1, o1, p', cur', hrun, hw1, hsplit, hls1, hsq, htag⟩ :=
    pmcLoop_spec snippet sub p q tail (utf8Len done) st v0 v out (by rw [hs, hd]) (by rw [hd]) hls
      (by intro lw h; rw [hlw] at h; cases h) hinv.wrote
  have hsl : sliceBytes? snippet st1.line_start (utf8Len sub + utf8Len done) = some cur' := by
    apply sliceBytes_of_split snippet p' cur' tail
    · rw [hs, hd, hsplit]
    · exact hls1
    · have := congrArg utf8Len hsplit
      rw [← hd] at this
      simp only [utf8Len_append] at this
      omega
  have hsq' : squeeze (render o1) ++ squeeze cur' = squeeze sub := by
    rw [hsq, squeeze_of_allWs hq]; rfl
  -- nothing is pushed by the loop when there is no line break
  have hnone : (∀ c ∈ sub, c ≠ '\n') → o1 = [] := by
    intro hnl
    obtain ⟨st'', hrun'⟩ := pmcLoop_noNl snippet sub (utf8Len done) st v hnl
    rw [hrun] at hrun'
    have hv : v1 = v := by injection hrun' with h; exact (Prod.mk.inj h).2
    have h1 := hw1.log
    rw [hv, hinv.wrote.log] at h1
    have : v0.log ++ out ++ [] = v0.log ++ out ++ o1 := by simpa [List.append_assoc] using h1
    exact (List.append_cancel_left this).symm
  unfold processMissingCode
  rw [hrun]
  simp only
  rw [hsl]
  simp only
  cases hrem : (trim cur').isEmpty with
  | true =>
    have hcur : AllWs cur' := (trim_nil_iff cur').mp (by simpa using hrem)
    refine ⟨st1, v1, o1, by simp, ?_, ?_, ?_⟩
    · refine ⟨hw1, ⟨p', cur', by rw [hd, hsplit], hcur, hls1⟩, (by intro h; cases h), ?_, ?_⟩
      · intro hrc
        rw [render_append, squeeze_append, hinv.content hrc, squeeze_append]
        rw [← hsq', squeeze_of_allWs hcur]; simp
      · exact hinv.vs.append (by intro x hx; rw [htag x hx]; decide)
    · intro x hx; exact Or.inl (htag x hx)
    · intro _ hnl; exact hnone hnl
  | false =>
    obtain ⟨ind, hindS, hindW⟩ := indentStr_ok env hind v1.blockIndent
    refine ⟨{ st1 with line_start := utf8Len sub + utf8Len done }, (v1.push .blank ind).push .code (trim cur'),
      o1 ++ [⟨.blank, ind⟩, ⟨.code, trim cur'⟩], by simp [hindS], ?_, ?_, ?_⟩
    · refine ⟨?_, ⟨done ++ sub, [], by simp, allWs_nil, (by simp [utf8Len_append]; omega)⟩,
        (by intro h; cases h), ?_, ?_⟩
      · have := (hw1.push .blank ind).push .code (trim cur')
        simpa [List.append_assoc] using this
      · intro hrc
        rw [← List.append_assoc, render_append, squeeze_append, render_append, squeeze_append,
          hinv.content hrc, squeeze_append]
        have h2 : squeeze (render [⟨Tag.blank, ind⟩, ⟨Tag.code, trim cur'⟩]) = squeeze cur' := by
          simp only [render, List.flatMap_cons, List.flatMap_nil, List.append_nil, squeeze_append,
            squeeze_of_allWs hindW, squeeze_trim, List.nil_append]
        rw [h2, List.append_assoc, hsq']
      · rw [← List.append_assoc]
        apply (hinv.vs.append (by intro x hx; rw [htag x hx]; decide)).append
        intro x hx
        simp at hx
        rcases hx with rfl | rfl <;> simp
    · intro x hx
      rcases List.mem_append.mp hx with h | h
      · exact Or.inl (htag x h)
      · simp at h
        rcases h with rfl | rfl
        · exact Or.inr ⟨rfl, hindW⟩
        · exact Or.inl rfl
    · intro hsub hnl
      exfalso
      have h1 := hnone hnl
      rw [h1] at hsq'
      have : squeeze cur' = [] := by
        rw [squeeze_of_allWs hsub] at hsq'
        simp [render, squeeze_nil] at hsq'
        exact hsq'
      have := (trim_nil_iff cur').mpr (allWs_of_squeeze this)
      simp [this] at hrem

/-! ## process_comment -/

/-- Pieces of fixed white space. -/
def BlankPieces (l : List Piece) : Prop := ∀ q ∈ l, q.tag = .blank ∧ AllWs q.text

theorem BlankPieces.nil : BlankPieces [] := by intro q h; simp at h

theorem BlankPieces.single {s : List Char} (h : AllWs s) : BlankPieces [⟨.blank, s⟩] := by
  intro q hq; simp at hq; subst hq; exact ⟨rfl, h⟩

theorem BlankPieces.append {a b : List Piece} (ha : BlankPieces a) (hb : BlankPieces b) :
    BlankPieces (a ++ b) := by
  intro q hq
  rcases List.mem_append.mp hq with h | h
  · exact ha q h
  · exact hb q h

theorem BlankPieces.content {l : List Piece} (h : BlankPieces l) : squeeze (render l) = [] := by
  induction l with
  | nil => rfl
  | cons x l ih =>
    have hx := h x (by simp)
    have : render (x :: l) = x.text ++ render l := by simp [render]
    rw [this, squeeze_append, squeeze_of_allWs hx.2, ih (fun q hq => h q (by simp [hq]))]; rfl

theorem BlankPieces.noVspace {l : List Piece} (h : BlankPieces l) : ∀ q ∈ l, q.tag ≠ .vspace := by
  intro q hq; rw [(h q hq).1]; decide

theorem allWs_single {c : Char} (h : isWs c = true) : AllWs [c] := by
  intro x hx; simp at hx; subst hx; exact h

/-- The tail of `process_comment`: no panic; at most a `"\n"` is pushed; `line_start` is the end of
the comment and `last_wspace` is clear. -/
theorem commentTail_spec (snippet done sub tail : List Char) (hs : snippet = done ++ sub ++ tail)
    (st : RF.Missed.Status) (v : Vis) :
    ∃ st' post, commentTail snippet sub (utf8Len done) st v =
        some (st', post.foldl (fun v q => v.push q.tag q.text) v) ∧
      BlankPieces post ∧ st'.line_start = utf8Len (done ++ sub) ∧ st'.last_wspace = none := by
  have hle : utf8Len done + utf8Len sub ≤ utf8Len snippet := by
    rw [hs]; simp only [utf8Len_append]; omega
  have hdrop : dropBytes? (utf8Len done + utf8Len sub) snippet = some tail :=
    dropBytes_of_split snippet (done ++ sub) tail _ hs (by rw [utf8Len_append])
  have hnl : BlankPieces [⟨.blank, ['\n']⟩] := BlankPieces.single (allWs_single isWs_nl)
  unfold commentTail
  simp only [hle, if_true, hdrop]
  split
  · split
    · split
      · exact ⟨_, [⟨.blank, ['\n']⟩], rfl, hnl, by simp [utf8Len_append], rfl⟩
      · exact ⟨_, [], rfl, BlankPieces.nil, by simp [utf8Len_append], rfl⟩
    · exact ⟨_, [⟨.blank, ['\n']⟩], rfl, hnl, by simp [utf8Len_append], rfl⟩
  · exact ⟨_, [⟨.blank, ['\n']⟩], rfl, hnl, by simp [utf8Len_append], rfl⟩

theorem wrote_foldl {v0 v : Vis} {out : List Piece} (h : Wrote v0 v out) : ∀ (post : List Piece),
    Wrote v0 (post.foldl (fun v q => v.push q.tag q.text) v) (out ++ post) := by
  intro post
  induction post generalizing v out with
  | nil => simpa using h
  | cons x post ih =>
    have := ih (h.push x.tag x.text)
    simpa [List.append_assoc] using this

theorem foldl_push_append (v : Vis) (a b : List Piece) :
    (a ++ b).foldl (fun v q => v.push q.tag q.text) v =
      b.foldl (fun v q => v.push q.tag q.text) (a.foldl (fun v q => v.push q.tag q.text) v) := by
  simp [List.foldl_append]

theorem foldl_push_indent (v : Vis) : ∀ (a : List Piece),
    (a.foldl (fun v q => v.push q.tag q.text) v).blockIndent = v.blockIndent
  | [] => rfl
  | x :: a => by simp only [List.foldl_cons]; rw [foldl_push_indent (v.push x.tag x.text) a]; rfl

/-- The head of `process_comment`: no panic when indentation strings exist; only fixed blanks are
pushed; `on_same_line` only under style edition 2024. -/
theorem commentHead_spec (env : Env) (hind : IndentOk env.config) (snippet bigPrefix : List Char)
    (v : Vis) :
    ∃ v1 ci osl pre, commentHead env snippet bigPrefix v = some (v1, ci, osl) ∧
      v1 = pre.foldl (fun v q => v.push q.tag q.text) v ∧ BlankPieces pre ∧
      (osl = true → env.ed2024 = true) := by
  have hsp : BlankPieces [⟨.blank, [' ']⟩] := BlankPieces.single (allWs_single isWs_space)
  have hnl : BlankPieces [⟨.blank, ['\n']⟩] := BlankPieces.single (allWs_single isWs_nl)
  unfold commentHead
  generalize bigPrefix.reverse.find? (fun c => !isSpaceTab c) = lastChar
  simp only
  by_cases hfix : fixIndentOf lastChar = true
  · rw [if_pos hfix]
    by_cases hb : lastChar = some '{'
    · rw [if_pos hb]
      obtain ⟨ind, h1, h2⟩ := indentStr_ok env hind (v.push .blank ['\n']).blockIndent
      rw [h1]
      exact ⟨_, _, false, [⟨.blank, ['\n']⟩, ⟨.blank, ind⟩], rfl, rfl,
        hnl.append (BlankPieces.single h2), by intro h; cases h⟩
    · rw [if_neg hb]
      obtain ⟨ind, h1, h2⟩ := indentStr_ok env hind v.blockIndent
      rw [h1]
      exact ⟨_, _, false, [⟨.blank, ind⟩], rfl, rfl, BlankPieces.single h2, by intro h; cases h⟩
  · rw [if_neg hfix]
    by_cases h24 : (env.ed2024 && !(snippet.head? == some '\n')) = true
    · rw [if_pos h24]
      exact ⟨_, _, true, [⟨.blank, [' ']⟩], rfl, rfl, hsp, by intro _; simp at h24; exact h24.1⟩
    · rw [if_neg h24]
      rw [RF.Lemmas.Shape.from_width_ok env.config _ hind]
      exact ⟨_, _, false, [⟨.blank, [' ']⟩], rfl, rfl, hsp, by intro h; cases h⟩

/-- What the middle of `process_comment` pushes for the comment slice `sub`. -/
inductive CommentMid (env : Env) (sub : List Char) : List Piece → Prop
  /-- the comment as `rewrite_comment` returned it (or as written when it failed) -/
  | whole (sh : Shape) : CommentMid env sub [⟨.comment, rcOr env sub sh⟩]
  /-- style edition 2024, a one-line comment on the line of the code: as written, without its `\n` -/
  | raw (t : List Char) : env.ed2024 = true → (t = sub ∨ sub = t ++ ['\n']) →
      CommentMid env sub [⟨.comment, t⟩]
  /-- style edition 2024, more lines: the first as written, the others rewritten -/
  | split (first rest other nl : List Char) (sh : Shape) : env.ed2024 = true →
      sub = first ++ '\n' :: rest → (other = rest ∨ other = trimStart rest) → AllWs nl →
      CommentMid env sub [⟨.comment, first⟩, ⟨.blank, nl⟩, ⟨.comment, rcOr env other sh⟩]

theorem utf8Len_eq_zero : ∀ (s : List Char), utf8Len s = 0 → s = []
  | [], _ => rfl
  | c :: cs, h => by have := utf8Size_pos c; simp [utf8Len] at h; omega

theorem CommentMid.content {env : Env} {sub : List Char} {mid : List Piece} (hrc : RcContent env.rc)
    (h : CommentMid env sub mid) : squeeze (render mid) = squeeze sub := by
  cases h with
  | whole sh => simp [render, squeeze_rcOr env hrc]
  | raw t _ ht =>
    rcases ht with rfl | ht
    · simp [render]
    · rw [ht, squeeze_append, squeeze_of_allWs (allWs_single isWs_nl)]; simp [render]
  | split first rest other nl sh _ hsub hother hnl =>
    have h1 : squeeze other = squeeze rest := by
      rcases hother with rfl | rfl
      · rfl
      · exact squeeze_trimStart rest
    have h2 : squeeze ('\n' :: rest) = squeeze rest := by
      show squeeze (['\n'] ++ rest) = _
      rw [squeeze_append, squeeze_of_allWs (allWs_single isWs_nl)]; rfl
    simp only [render, List.flatMap_cons, List.flatMap_nil, List.append_nil, squeeze_append,
      squeeze_of_allWs hnl, squeeze_rcOr env hrc, h1, hsub, h2, List.nil_append]

theorem CommentMid.noVspace {env : Env} {sub : List Char} {mid : List Piece}
    (h : CommentMid env sub mid) : ∀ q ∈ mid, q.tag ≠ .vspace := by
  cases h <;> intro q hq <;> simp at hq
  · subst hq; simp
  · subst hq; simp
  · rcases hq with rfl | rfl | rfl <;> simp

/-- Writing one comment slice: no panic when indentation strings exist. -/
theorem commentLines_spec (env : Env) (hind : IndentOk env.config) (sub : List Char) (v1 : Vis)
    (ci : Indent) (sh : Shape) (osl : Bool) (hosl : osl = true → env.ed2024 = true) :
    ∃ mid, commentLines env sub v1 ci sh osl = some (mid.foldl (fun v q => v.push q.tag q.text) v1) ∧
      CommentMid env sub mid := by
  unfold commentLines
  cases osl with
  | false => exact ⟨_, rfl, CommentMid.whole _⟩
  | true =>
    have hed := hosl rfl
    simp only [if_true]
    cases hf : findChar (· == '\n') sub with
    | none => exact ⟨[⟨.comment, sub⟩], rfl, CommentMid.raw sub hed (Or.inl rfl)⟩
    | some off =>
      obtain ⟨a, c, b, hs, hoff, hc, _⟩ := findChar_split _ sub off hf
      have hc' : c = '\n' := by simpa using hc
      subst hc'
      have htake : takeBytes? off sub = some a :=
        takeBytes_of_split sub a ('\n' :: b) off hs hoff
      simp only
      by_cases hlast : off + 1 = utf8Len sub
      · rw [if_pos hlast, htake]
        have hb : b = [] := by
          apply utf8Len_eq_zero
          rw [hs, utf8Len_append] at hlast
          simp [utf8Len, nl_size] at hlast
          omega
        exact ⟨[⟨.comment, a⟩], rfl, CommentMid.raw a hed (Or.inr (by rw [hs, hb]))⟩
      · rw [if_neg hlast, htake]
        obtain ⟨nl, hnl1, hnl2⟩ := indentNl_ok env hind ci
        have hdrop : dropBytes? (off + 1) sub = some b := by
          apply dropBytes_of_split sub (a ++ ['\n']) b
          · rw [hs]; simp
          · rw [hoff, utf8Len_append]; simp [utf8Len, nl_size]
        rw [hnl1, hdrop]
        by_cases hsl : startsWith sub ['/', '/'] = true
        · exact ⟨[⟨.comment, a⟩, ⟨.blank, nl⟩, ⟨.comment, rcOr env (trimStart b) sh⟩], by simp [hsl],
            CommentMid.split a b (trimStart b) nl sh hed hs (Or.inr rfl) hnl2⟩
        · exact ⟨[⟨.comment, a⟩, ⟨.blank, nl⟩, ⟨.comment, rcOr env b sh⟩], by simp [hsl],
            CommentMid.split a b b nl sh hed hs (Or.inl rfl) hnl2⟩

/-- The middle of `process_comment`: no panic when indentation strings exist. -/
theorem commentBody_spec (env : Env) (hind : IndentOk env.config) (sub : List Char) (v1 : Vis)
    (ci : Indent) (osl : Bool) (hosl : osl = true → env.ed2024 = true) :
    ∃ mid, commentBody env sub v1 ci osl = some (mid.foldl (fun v q => v.push q.tag q.text) v1) ∧
      CommentMid env sub mid := by
  unfold commentBody
  exact commentLines_spec env hind sub v1 ci _ osl hosl

/-- What `process_comment` pushes for the comment slice `sub`: fixed blanks, the comment, fixed blanks. -/
def CommentOut (env : Env) (sub : List Char) (o : List Piece) : Prop :=
  ∃ pre mid post, o = pre ++ mid ++ post ∧ BlankPieces pre ∧ CommentMid env sub mid ∧ BlankPieces post

/-- `process_comment` on the comment slice `sub` that follows `done`. -/
theorem processComment_spec (env : Env) (hind : IndentOk env.config)
    (snippet done sub tail bigPrefix : List Char) (hs : snippet = done ++ sub ++ tail)
    (st : RF.Missed.Status) (v0 v : Vis) (out : List Piece) (k : CodeCharKind)
    (hinv : Inv env v0 k done st v out) :
    ∃ st' v' o, processComment env snippet bigPrefix sub (utf8Len done) st v = some (st', v') ∧
      Inv env v0 .normal (done ++ sub) st' v' (out ++ o) ∧ CommentOut env sub o := by
  obtain ⟨v1, ci, osl, pre, hhead, hv1, hpre, hosl⟩ := commentHead_spec env hind snippet bigPrefix v
  obtain ⟨mid, hbody, hmid⟩ := commentBody_spec env hind sub v1 ci osl hosl
  obtain ⟨st', post, htail, hpost, hls, hlw⟩ :=
    commentTail_spec snippet done sub tail hs st (mid.foldl (fun v q => v.push q.tag q.text) v1)
  refine ⟨st', post.foldl (fun v q => v.push q.tag q.text)
    (mid.foldl (fun v q => v.push q.tag q.text) v1), pre ++ mid ++ post, ?_, ?_,
    ⟨pre, mid, post, rfl, hpre, hmid, hpost⟩⟩
  · unfold processComment
    rw [hhead]; simp only
    rw [hbody]; simp only
    exact htail
  · have hw : Wrote v0 (post.foldl (fun v q => v.push q.tag q.text)
        (mid.foldl (fun v q => v.push q.tag q.text) v1)) (out ++ (pre ++ mid ++ post)) := by
      have h1 := wrote_foldl hinv.wrote pre
      rw [← hv1] at h1
      have h2 := wrote_foldl (wrote_foldl h1 mid) post
      simpa [List.append_assoc] using h2
    refine ⟨hw, ⟨done ++ sub, [], by simp, allWs_nil, hls⟩, fun _ => hlw, ?_, ?_⟩
    · intro hrc
      obtain ⟨p, q, hd, hq, _⟩ := hinv.split
      rw [render_append, squeeze_append, hinv.content hrc, render_append, render_append,
        squeeze_append, squeeze_append, hpre.content, hpost.content, hmid.content hrc, squeeze_append]
      simp
    · apply hinv.vs.append
      intro x hx
      rcases List.mem_append.mp hx with h | h
      · rcases List.mem_append.mp h with h | h
        · exact hpre.noVspace x h
        · exact hmid.noVspace x h
      · exact hpost.noVspace x h

/-! ## One turn of the loop, the loop -/

/-- `lf_count + crlf_count` is the number of `\n`, whatever the flag does. -/
theorem countLfCrlf_sum : ∀ (b : Bool) (s : List Char),
    (countLfCrlf b s).1 + (countLfCrlf b s).2 = RF.Newline.countNewlines s
  | _, [] => by simp [countLfCrlf, RF.Newline.countNewlines]
  | b, c :: cs => by
    unfold countLfCrlf
    by_cases h1 : c = '\r'
    · subst h1
      simp only [if_true]
      rw [countLfCrlf_sum true cs]
      simp [RF.Newline.countNewlines]
    · simp only [h1, if_false]
      by_cases h2 : c = '\n'
      · subst h2
        simp only [if_true]
        have ih := countLfCrlf_sum b cs
        cases b <;> simp [RF.Newline.countNewlines] at ih ⊢ <;> omega
      · simp only [h2, if_false]
        rw [countLfCrlf_sum false cs]
        simp [RF.Newline.countNewlines, h2]

theorem no_nl_of_count_zero {s : List Char} (h : RF.Newline.countNewlines s = 0) :
    ∀ c ∈ s, c ≠ '\n' := by
  intro c hc hcn
  subst hcn
  have : 0 < s.count '\n' := List.count_pos_iff.mpr hc
  simp [RF.Newline.countNewlines] at h
  omega

/-- What one turn of the loop pushes for the slice `sl`. -/
inductive StepOut (env : Env) (sl : Slice) : List Piece → Prop
  /-- a comment slice: `process_comment` -/
  | comment (o : List Piece) : sl.kind = .comment → CommentOut env sl.text o → StepOut env sl o
  /-- a blank slice with a line break: `push_vertical_spaces` -/
  | vspace (t : List Char) : sl.kind = .normal → AllWs sl.text → (∃ k, t = List.replicate k '\n') →
      StepOut env sl [⟨.vspace, t⟩]
  /-- anything else: `process_missing_code` (nothing is pushed for a blank slice) -/
  | code (o : List Piece) : sl.kind = .normal →
      (∀ q ∈ o, q.tag = .code ∨ (q.tag = .blank ∧ AllWs q.text)) → (AllWs sl.text → o = []) →
      StepOut env sl o

theorem wsiStep_spec (env : Env) (hind : IndentOk env.config) (pre snippet post : List Char)
    (hbig : env.big = pre ++ snippet ++ post) (sl : Slice) (done tail : List Char)
    (hs : snippet = done ++ sl.text ++ tail) (hstart : sl.start = utf8Len done)
    (st : RF.Missed.Status) (v0 v : Vis) (out : List Piece)
    (hinv : Inv env v0 sl.kind done st v out) :
    ∃ st' v' o, wsiStep env snippet (utf8Len pre) sl st v = some (st', v') ∧
      Inv env v0 (flipKind sl.kind) (done ++ sl.text) st' v' (out ++ o) ∧ StepOut env sl o := by
  unfold wsiStep
  cases hcnt : countLfCrlf false sl.text with
  | mk lf crlf =>
  have hsum : lf + crlf = RF.Newline.countNewlines sl.text := by
    have := countLfCrlf_sum false sl.text; rw [hcnt] at this; exact this
  simp only
  cases hk : sl.kind with
  | comment =>
    rw [hk] at hinv
    have htake : takeBytes? (sl.start + utf8Len pre) env.big = some (pre ++ done) := by
      apply takeBytes_of_split env.big (pre ++ done) (sl.text ++ tail ++ post)
      · rw [hbig, hs]; simp [List.append_assoc]
      · rw [hstart, utf8Len_append]; omega
    simp only [if_true, htake]
    rw [hstart]
    obtain ⟨st', v', o, hrun, hinv', hout⟩ :=
      processComment_spec env hind snippet done sl.text tail (pre ++ done) hs st v0 v out _ hinv
    exact ⟨st', v', o, hrun, by simpa [flipKind] using hinv', StepOut.comment o hk hout⟩
  | normal =>
    rw [hk] at hinv
    have hne : ¬ (CodeCharKind.normal = CodeCharKind.comment) := by intro h; cases h
    simp only [hne, if_false]
    by_cases hblank : ((trim sl.text).isEmpty && decide (lf + crlf > 0)) = true
    · rw [if_pos hblank]
      have hws : AllWs sl.text := by
        simp at hblank; exact (trim_nil_iff sl.text).mp hblank.1
      obtain ⟨p, q, hd, hq, hls⟩ := hinv.split
      refine ⟨_, v.pushVerticalSpaces env (lf + crlf), [⟨.vspace, List.replicate
        (RF.Newline.pushVerticalSpaces (RF.Newline.trailingNewlines v.buffer) (lf + crlf)
          env.lower env.upper) '\n'⟩], rfl, ?_, StepOut.vspace _ hk hws ⟨_, rfl⟩⟩
      have hbuf : v.buffer = v0.buffer ++ render out := hinv.wrote.buffer
      refine ⟨hinv.wrote.pushVerticalSpaces env _, ?_, by intro h; simp [flipKind] at h, ?_, ?_⟩
      · -- line_start
        show ∃ p q, done ++ sl.text = p ++ q ∧ AllWs q ∧ sl.start + afterLastNl sl.text = utf8Len p
        unfold afterLastNl
        cases hr : rfindChar (· == '\n') sl.text with
        | none => exact ⟨done, sl.text, rfl, hws, by simp [hstart]⟩
        | some i =>
          obtain ⟨a, c, b, hsplit, hi, hc, _⟩ := rfindChar_split _ sl.text i hr
          have hc' : c = '\n' := by simpa using hc
          subst hc'
          refine ⟨done ++ a ++ ['\n'], b, by rw [hsplit]; simp [List.append_assoc], ?_, ?_⟩
          · rw [hsplit] at hws
            exact (allWs_cons.mp (allWs_append.mp hws).2).2
          · simp only [hstart, hi, utf8Len_append, utf8Len, nl_size]; omega
      · intro hrc
        rw [render_append, squeeze_append, hinv.content hrc, squeeze_append, squeeze_of_allWs hws]
        simp only [render_single, List.append_nil]
        rw [squeeze_of_allWs (allWs_replicate _ _ isWs_nl)]
        simp
      · rw [hbuf]; exact hinv.vs.vspace _
    · rw [if_neg hblank]
      rw [hstart]
      obtain ⟨st', v', o, hrun, hinv', htags, hnone⟩ :=
        processMissingCode_spec env hind snippet done sl.text tail hs st v0 v out hinv
      refine ⟨st', v', o, hrun, by simpa [flipKind] using hinv', StepOut.code o hk htags ?_⟩
      intro hws
      apply hnone hws
      apply no_nl_of_count_zero
      have h1 : (trim sl.text).isEmpty = true := by simp [(trim_nil_iff sl.text).mpr hws]
      simp [h1] at hblank
      omega

/-- The per-slice outputs of a run of slices. -/
inductive LoopOut (env : Env) : List Slice → List Piece → Prop
  | nil : LoopOut env [] []
  | cons (sl : Slice) (rest : List Slice) (o os : List Piece) : StepOut env sl o → LoopOut env rest os →
      LoopOut env (sl :: rest) (o ++ os)

theorem wsiLoop_spec (env : Env) (hind : IndentOk env.config) (pre snippet post : List Char)
    (hbig : env.big = pre ++ snippet ++ post) (v0 : Vis) : ∀ (items : List Slice) (done : List Char)
    (k : CodeCharKind) (st : RF.Missed.Status) (v : Vis) (out : List Piece),
    snippet = done ++ items.flatMap (·.text) → Alternates k items → Contiguous (utf8Len done) items →
    Inv env v0 k done st v out →
    ∃ st' v' o k', wsiLoop env snippet (utf8Len pre) items st v = some (st', v') ∧
      Inv env v0 k' snippet st' v' (out ++ o) ∧ LoopOut env items o
  | [], done, k, st, v, out, hs, _, _, hinv => by
    have : snippet = done := by simpa using hs
    subst this
    exact ⟨st, v, [], k, rfl, by simpa using hinv, LoopOut.nil⟩
  | sl :: rest, done, k, st, v, out, hs, halt, hcont, hinv => by
    obtain ⟨hk, halt'⟩ := halt
    obtain ⟨hstart, hcont'⟩ := hcont
    rw [← hk] at hinv
    obtain ⟨st1, v1, o1, hrun, hinv1, hout1⟩ :=
      wsiStep_spec env hind pre snippet post hbig sl done (rest.flatMap (·.text))
        (by rw [hs]; simp [List.append_assoc]) hstart st v0 v out hinv
    obtain ⟨st', v', o, k', hrun', hinv', hout'⟩ :=
      wsiLoop_spec env hind pre snippet post hbig v0 rest (done ++ sl.text) (flipKind sl.kind) st1 v1
        (out ++ o1) (by rw [hs]; simp [List.append_assoc]) (by rw [hk]; exact halt')
        (by rw [utf8Len_append]; exact hcont') hinv1
    refine ⟨st', v', o1 ++ o, k', ?_, by simpa [List.append_assoc] using hinv',
      LoopOut.cons sl rest o1 o hout1 hout'⟩
    simp only [wsiLoop, hrun]; exact hrun'

/-! ## The closure, `write_snippet`, `format_missing_inner`, `format_missing` -/

/-- What the closure of `format_missing*` pushes: `last_snippet` (white space) and fixed blanks. -/
def LastOut (o : List Piece) : Prop := ∃ t bl, o = ⟨.last, t⟩ :: bl ∧ AllWs t ∧ BlankPieces bl

theorem LastOut.content {o : List Piece} (h : LastOut o) : squeeze (render o) = [] := by
  obtain ⟨t, bl, rfl, ht, hbl⟩ := h
  have : render (⟨.last, t⟩ :: bl) = t ++ render bl := by simp [render]
  rw [this, squeeze_append, squeeze_of_allWs ht, hbl.content]; rfl

theorem LastOut.noVspace {o : List Piece} (h : LastOut o) : ∀ q ∈ o, q.tag ≠ .vspace := by
  obtain ⟨t, bl, rfl, _, hbl⟩ := h
  intro q hq
  rcases List.mem_cons.mp hq with rfl | hq
  · simp
  · exact hbl.noVspace q hq

/-- `process_last_snippet(this, last_snippet, snippet)` for a `last_snippet` of white space. -/
theorem processLast_spec (env : Env) (hind : IndentOk env.config) (k : Last) (v : Vis)
    (lastSnippet snippet : List Char) (hws : AllWs lastSnippet) :
    ∃ o, processLast env k v lastSnippet snippet =
        some (o.foldl (fun v q => v.push q.tag q.text) v) ∧ LastOut o := by
  have hnl : BlankPieces [⟨.blank, ['\n']⟩] := BlankPieces.single (allWs_single isWs_nl)
  cases k with
  | plain => exact ⟨[⟨.last, lastSnippet⟩], rfl, lastSnippet, [], rfl, hws, BlankPieces.nil⟩
  | indent si =>
    unfold processLast
    simp only [allWs_trimEnd hws]
    by_cases hc : lastSnippet = snippet ∧ (!(v.push .last []).buffer.isEmpty) = true
    · rw [if_pos hc]
      cases si with
      | false => exact ⟨[⟨.last, []⟩, ⟨.blank, ['\n']⟩], rfl, [], _, rfl, allWs_nil, hnl⟩
      | true =>
        obtain ⟨ind, h1, h2⟩ := indentStr_ok env hind ((v.push .last []).push .blank ['\n']).blockIndent
        simp only [if_true, h1]
        exact ⟨[⟨.last, []⟩, ⟨.blank, ['\n']⟩, ⟨.blank, ind⟩], rfl, [], _, rfl, allWs_nil,
          hnl.append (BlankPieces.single h2)⟩
    · rw [if_neg hc]
      cases si with
      | false => exact ⟨[⟨.last, []⟩], rfl, [], [], rfl, allWs_nil, BlankPieces.nil⟩
      | true =>
        obtain ⟨ind, h1, h2⟩ := indentStr_ok env hind (v.push .last []).blockIndent
        simp only [if_true, h1]
        exact ⟨[⟨.last, []⟩, ⟨.blank, ind⟩], rfl, [], _, rfl, allWs_nil, BlankPieces.single h2⟩

/-- What one call of `format_missing*` pushes for the snippet. -/
inductive WholeOut (env : Env) (snippet : List Char) : List Piece → Prop
  /-- nothing: an empty span at the start of the output, or a blank snippet at the start of the file -/
  | nothing : AllWs snippet → WholeOut env snippet []
  /-- an empty span: the closure on `("", "")` -/
  | empty (last : List Piece) : snippet = [] → LastOut last → WholeOut env snippet last
  /-- a blank snippet: vertical spaces, then the closure -/
  | blank (t : List Char) (last : List Piece) : AllWs snippet → (∃ k, t = List.replicate k '\n') →
      LastOut last → WholeOut env snippet (⟨.vspace, t⟩ :: last)
  /-- `write_snippet`: the slices one by one, then the closure -/
  | written (items : List Slice) (lo last : List Piece) : commentCodeSlices? snippet = some items →
      LoopOut env items lo → LastOut last → WholeOut env snippet (lo ++ last)
  /-- the `;` of `format_missing` -/
  | semi : trim snippet = [';'] → WholeOut env snippet [⟨.code, [';']⟩]

/-- The result of one call. -/
structure Result (env : Env) (v : Vis) (end_ : Nat) (snippet : List Char) (v' : Vis)
    (o : List Piece) : Prop where
  buffer : v'.buffer = v.buffer ++ render o
  log : v'.log = v.log ++ o
  indent : v'.blockIndent = v.blockIndent
  pos : v'.lastPos = end_
  line : v'.lineNumber = v.lineNumber + RF.Newline.countNewlines (render o)
  content : RcContent env.rc → squeeze (render o) = squeeze snippet
  vs : VspaceOk env v.buffer o
  shape : WholeOut env snippet o

theorem result_of_wrote {env : Env} {v v1 v' : Vis} {end_ : Nat} {snippet : List Char} {o : List Piece}
    (hv1 : v1 = { v with lastPos := end_ }) (hw : Wrote v1 v' o)
    (hc : RcContent env.rc → squeeze (render o) = squeeze snippet) (hvs : VspaceOk env v.buffer o)
    (hsh : WholeOut env snippet o) : Result env v end_ snippet v' o := by
  subst hv1
  exact ⟨hw.buffer, hw.log, hw.indent, hw.pos, hw.line, hc, hvs, hsh⟩

theorem writeSnippet_spec (env : Env) (hind : IndentOk env.config) (k : Last)
    (pre snippet post : List Char) (hbig : env.big = pre ++ snippet ++ post) (v : Vis) :
    ∃ v' o, writeSnippet env k (utf8Len pre) snippet v = some v' ∧ Wrote v v' o ∧
      (RcContent env.rc → squeeze (render o) = squeeze snippet) ∧ VspaceOk env v.buffer o ∧
      ∃ items lo last, commentCodeSlices? snippet = some items ∧ LoopOut env items lo ∧ LastOut last ∧
        o = lo ++ last := by
  obtain ⟨items, hitems, hcat, halt, hcont⟩ := slices_spec snippet
  have hinv0 : Inv env v .normal [] ⟨0, none, lineOfBytePos env.big (utf8Len pre)⟩ v [] :=
    ⟨Wrote.refl v, ⟨[], [], rfl, allWs_nil, rfl⟩, fun _ => rfl, fun _ => rfl, VspaceOk.nil env _⟩
  obtain ⟨st', v1, lo, k', hrun, hinv, hlo⟩ :=
    wsiLoop_spec env hind pre snippet post hbig v items [] .normal _ v [] (by simp [hcat]) halt
      (by simpa [utf8Len] using hcont) hinv0
  obtain ⟨p, q, hsplit, hq, hls⟩ := hinv.split
  have hdrop : dropBytes? st'.line_start snippet = some q := dropBytes_of_split snippet p q _ hsplit hls
  obtain ⟨last, hlast, hlastOut⟩ := processLast_spec env hind k v1 q snippet hq
  refine ⟨last.foldl (fun v q => v.push q.tag q.text) v1, lo ++ last, ?_, ?_, ?_, ?_,
    items, lo, last, hitems, hlo, hlastOut, rfl⟩
  · unfold writeSnippet
    rw [hitems]; simp only
    rw [hrun]; simp only
    rw [hdrop]; simp only
    exact hlast
  · have := wrote_foldl hinv.wrote last
    simpa using this
  · intro hrc
    have := hinv.content hrc
    simp only [List.nil_append] at this
    rw [render_append, squeeze_append, this, hlastOut.content]; simp
  · have := hinv.vs
    simp only [List.nil_append] at this
    exact this.append hlastOut.noVspace

theorem formatMissingInner_spec (env : Env) (hind : IndentOk env.config) (k : Last)
    (pre snippet post : List Char) (hbig : env.big = pre ++ snippet ++ post) (v : Vis)
    (hpos : v.lastPos = utf8Len pre) (end_ : Nat) (hend : end_ = utf8Len pre + utf8Len snippet) :
    ∃ v' o, formatMissingInner env k end_ v = some v' ∧ Result env v end_ snippet v' o := by
  unfold formatMissingInner
  simp only
  by_cases hempty : snippet = []
  · -- start == end
    subst hempty
    have he : v.lastPos = end_ := by rw [hpos, hend]; simp [utf8Len]
    rw [if_pos he]
    cases hb : v.buffer.isEmpty with
    | true =>
      refine ⟨v, [], by simp, ?_⟩
      exact ⟨by simp [render], by simp, rfl, he, by simp [render, RF.Newline.countNewlines],
        fun _ => rfl, VspaceOk.nil env _, WholeOut.nothing allWs_nil⟩
    | false =>
      obtain ⟨o, ho, hlo⟩ := processLast_spec env hind k v [] [] allWs_nil
      refine ⟨_, o, by simpa using ho, ?_⟩
      have hw := wrote_foldl (Wrote.refl v) o
      simp only [List.nil_append] at hw
      exact ⟨hw.buffer, hw.log, hw.indent, by rw [hw.pos]; exact he, hw.line,
        fun _ => by rw [hlo.content]; rfl,
        (VspaceOk.nil env _).append hlo.noVspace |> (by simpa using ·), WholeOut.empty o rfl hlo⟩
  · have hlen : 0 < utf8Len snippet := by
      cases snippet with
      | nil => exact absurd rfl hempty
      | cons c cs => have := utf8Size_pos c; simp [utf8Len]; omega
    have hne : ¬ v.lastPos = end_ := by rw [hpos, hend]; omega
    have hlt : v.lastPos < end_ := by rw [hpos, hend]; omega
    rw [if_neg hne]
    simp only [hlt, not_true_eq_false, if_false]
    have hsl : sliceBytes? env.big v.lastPos end_ = some snippet :=
      sliceBytes_of_split env.big pre snippet post _ _ hbig hpos hend
    rw [hsl]
    simp only
    by_cases hfirst : env.base + v.lastPos = 0 ∧ (trim snippet).isEmpty = true
    · rw [if_pos hfirst]
      have hws : AllWs snippet := (trim_nil_iff snippet).mp (by simpa using hfirst.2)
      refine ⟨_, [], rfl, ?_⟩
      exact ⟨by simp [render], by simp, rfl, rfl, by simp [render, RF.Newline.countNewlines],
        fun _ => by rw [squeeze_of_allWs hws]; rfl, VspaceOk.nil env _, WholeOut.nothing hws⟩
    · rw [if_neg hfirst]
      by_cases hblank : (trim snippet).isEmpty = true
      · rw [if_pos hblank]
        have hws : AllWs snippet := (trim_nil_iff snippet).mp (by simpa using hblank)
        have hw0 : Wrote { v with lastPos := end_ } { v with lastPos := end_ } [] := Wrote.refl _
        have hw1 := hw0.pushVerticalSpaces env (RF.Newline.countNewlines snippet)
        obtain ⟨o, ho, hlo⟩ := processLast_spec env hind k
          (({ v with lastPos := end_ } : Vis).pushVerticalSpaces env (RF.Newline.countNewlines snippet))
          [] snippet allWs_nil
        have hw2 := wrote_foldl hw1 o
        refine ⟨_, _, ho, result_of_wrote rfl hw2 ?_ ?_ ?_⟩
        · intro _
          rw [render_append, squeeze_append, hlo.content, squeeze_of_allWs hws]
          simp only [List.nil_append, render_single]
          rw [squeeze_of_allWs (allWs_replicate _ _ isWs_nl)]; rfl
        · have := (VspaceOk.nil env v.buffer).vspace (RF.Newline.countNewlines snippet)
          simp only [List.nil_append, render_nil, List.append_nil] at this
          exact this.append hlo.noVspace
        · simp only [List.nil_append, List.singleton_append]
          exact WholeOut.blank _ o hws ⟨_, rfl⟩ hlo
      · rw [if_neg hblank]
        have hbig' : ({ env with } : Env).big = pre ++ snippet ++ post := hbig
        obtain ⟨v', o, hrun, hw, hc, hvs, items, lo, last, hitems, hlo, hlast, ho⟩ :=
          writeSnippet_spec env hind k pre snippet post hbig { v with lastPos := end_ }
        rw [hpos]
        refine ⟨v', o, hrun, ?_⟩
        apply result_of_wrote rfl hw hc hvs
        rw [ho]
        exact WholeOut.written items lo last hitems hlo hlast

theorem formatMissing_spec (env : Env) (hind : IndentOk env.config)
    (pre snippet post : List Char) (hbig : env.big = pre ++ snippet ++ post) (v : Vis)
    (hpos : v.lastPos = utf8Len pre) (end_ : Nat) (hend : end_ = utf8Len pre + utf8Len snippet) :
    ∃ v' o, formatMissing env end_ v = some v' ∧ Result env v end_ snippet v' o := by
  unfold formatMissing
  have hle : v.lastPos ≤ end_ := by rw [hpos, hend]; omega
  have hsl : sliceBytes? env.big (min v.lastPos end_) (max v.lastPos end_) = some snippet := by
    rw [Nat.min_eq_left hle, Nat.max_eq_right hle]
    exact sliceBytes_of_split env.big pre snippet post _ _ hbig hpos hend
  simp only [hsl]
  by_cases hsemi : trim snippet = [';']
  · rw [if_pos hsemi]
    refine ⟨_, [⟨.code, [';']⟩], rfl, ?_⟩
    have hw := (Wrote.refl v).push .code [';']
    simp only [List.nil_append] at hw
    refine ⟨hw.buffer, hw.log, hw.indent, rfl, hw.line, ?_, ?_, WholeOut.semi hsemi⟩
    · intro _
      rw [← squeeze_trim snippet, hsemi]; rfl
    · have := (VspaceOk.nil env v.buffer).append (o := [⟨.code, [';']⟩])
        (by intro q hq; simp at hq; subst hq; simp)
      simpa using this
  · rw [if_neg hsemi]
    exact formatMissingInner_spec env hind .plain pre snippet post hbig v hpos end_ hend

/-! ## Consequences for the pieces -/

/-- Every `Normal` slice is white space. -/
def BlankSlices (items : List Slice) : Prop := ∀ s ∈ items, s.kind = .comment ∨ AllWs s.text

theorem isBlankGap_iff (snippet : List Char) :
    isBlankGap snippet = true ↔ ∃ items, commentCodeSlices? snippet = some items ∧ BlankSlices items := by
  unfold isBlankGap BlankSlices
  cases h : commentCodeSlices? snippet with
  | none => simp
  | some items =>
    simp only [List.all_eq_true, Bool.or_eq_true, beq_iff_eq, Option.some.injEq, exists_eq_left']
    constructor
    · intro hh s hs
      rcases hh s hs with h1 | h1
      · exact Or.inl h1
      · exact Or.inr (fun c hc => h1 c hc)
    · intro hh s hs
      rcases hh s hs with h1 | h1
      · exact Or.inl h1
      · exact Or.inr (fun c hc => h1 c hc)

/-- A piece that is neither code nor a comment is white space. -/
def PieceBlank (q : Piece) : Prop := q.tag ≠ .code ∧ (q.tag ≠ .comment → AllWs q.text)

theorem BlankPieces.pieceBlank {l : List Piece} (h : BlankPieces l) : ∀ q ∈ l, PieceBlank q := by
  intro q hq
  obtain ⟨h1, h2⟩ := h q hq
  exact ⟨by rw [h1]; decide, fun _ => h2⟩

theorem CommentMid.pieceBlank {env : Env} {sub : List Char} {mid : List Piece}
    (h : CommentMid env sub mid) : ∀ q ∈ mid, PieceBlank q := by
  cases h with
  | whole sh => intro q hq; simp at hq; subst hq; exact ⟨by simp, fun h => absurd rfl h⟩
  | raw t _ _ => intro q hq; simp at hq; subst hq; exact ⟨by simp, fun h => absurd rfl h⟩
  | split first rest other nl sh _ _ _ hnl =>
    intro q hq; simp at hq
    rcases hq with rfl | rfl | rfl
    · exact ⟨by simp, fun h => absurd rfl h⟩
    · exact ⟨by simp, fun _ => hnl⟩
    · exact ⟨by simp, fun h => absurd rfl h⟩

theorem LastOut.pieceBlank {o : List Piece} (h : LastOut o) : ∀ q ∈ o, PieceBlank q := by
  obtain ⟨t, bl, rfl, ht, hbl⟩ := h
  intro q hq
  rcases List.mem_cons.mp hq with rfl | hq
  · exact ⟨by simp, fun _ => ht⟩
  · exact hbl.pieceBlank q hq

/-- In a gap of white space and comments, nothing but comments and white space is pushed. -/
theorem LoopOut.pieceBlank {env : Env} : ∀ {items : List Slice} {lo : List Piece},
    LoopOut env items lo → BlankSlices items → ∀ q ∈ lo, PieceBlank q
  | _, _, .nil, _ => by intro q hq; simp at hq
  | _, _, .cons sl rest o os hstep hrest, hb => by
    intro q hq
    rcases List.mem_append.mp hq with h | h
    · cases hstep with
      | comment _ _ hout =>
        obtain ⟨pre, mid, post, rfl, hpre, hmid, hpost⟩ := hout
        rcases List.mem_append.mp h with h | h
        · rcases List.mem_append.mp h with h | h
          · exact hpre.pieceBlank q h
          · exact hmid.pieceBlank q h
        · exact hpost.pieceBlank q h
      | vspace t _ _ ht =>
        simp at h; subst h
        obtain ⟨k, rfl⟩ := ht
        exact ⟨by simp, fun _ => allWs_replicate _ _ isWs_nl⟩
      | code _ hk _ hnone =>
        rcases hb sl (by simp) with h1 | h1
        · rw [hk] at h1; cases h1
        · rw [hnone h1] at h; simp at h
    · exact LoopOut.pieceBlank hrest (fun s hs => hb s (by simp [hs])) q h

/-- The texts of the comment pieces, in order. -/
def commentPieces (o : List Piece) : List (List Char) :=
  (o.filter (fun q => q.tag == .comment)).map (·.text)

theorem commentPieces_append (a b : List Piece) :
    commentPieces (a ++ b) = commentPieces a ++ commentPieces b := by
  simp [commentPieces]

theorem commentPieces_of_none {o : List Piece} (h : ∀ q ∈ o, q.tag ≠ .comment) : commentPieces o = [] := by
  unfold commentPieces
  rw [List.filter_eq_nil_iff.mpr]; · rfl
  intro q hq; simpa using h q hq

theorem BlankPieces.noComment {l : List Piece} (h : BlankPieces l) : commentPieces l = [] :=
  commentPieces_of_none (fun q hq => by rw [(h q hq).1]; decide)

theorem LastOut.noComment {o : List Piece} (h : LastOut o) : commentPieces o = [] := by
  obtain ⟨t, bl, rfl, _, hbl⟩ := h
  apply commentPieces_of_none
  intro q hq
  rcases List.mem_cons.mp hq with rfl | hq
  · simp
  · rw [(hbl q hq).1]; decide

/-- The comment slices, in order. -/
def commentSlices (items : List Slice) : List (List Char) :=
  (items.filter (fun s => s.kind == .comment)).map (·.text)

/-- Below style edition 2024 the comment pieces are the comment slices, each as `rewrite_comment`
returned it for some shape (or as written where it failed), exactly once and in order. -/
theorem LoopOut.comments {env : Env} (hed : env.ed2024 = false) : ∀ {items : List Slice}
    {lo : List Piece}, LoopOut env items lo →
    ∃ shapes : List Shape, shapes.length = (commentSlices items).length ∧
      commentPieces lo = List.zipWith (fun c sh => rcOr env c sh) (commentSlices items) shapes := by
  intro items lo h
  induction h with
  | nil => exact ⟨[], rfl, rfl⟩
  | cons sl rest o os hstep hrest ih =>
    obtain ⟨shapes, hlen, hzip⟩ := ih
    rw [commentPieces_append]
    cases hstep with
    | comment _ hk hout =>
      obtain ⟨pre, mid, post, rfl, hpre, hmid, hpost⟩ := hout
      have hs : commentSlices (sl :: rest) = sl.text :: commentSlices rest := by
        simp [commentSlices, hk]
      rw [hs, commentPieces_append, commentPieces_append, hpre.noComment, hpost.noComment]
      cases hmid with
      | whole sh =>
        refine ⟨sh :: shapes, by simp [hlen], ?_⟩
        simp only [commentPieces, List.nil_append, List.append_nil] at hzip ⊢
        simp [hzip]
      | raw t h24 _ => rw [hed] at h24; cases h24
      | split first rest' other nl sh h24 _ _ _ => rw [hed] at h24; cases h24
    | vspace t hk _ _ =>
      have hs : commentSlices (sl :: rest) = commentSlices rest := by simp [commentSlices, hk]
      rw [hs]
      exact ⟨shapes, hlen, by simpa [commentPieces] using hzip⟩
    | code _ hk htags _ =>
      have hs : commentSlices (sl :: rest) = commentSlices rest := by simp [commentSlices, hk]
      rw [hs, commentPieces_of_none]
      · exact ⟨shapes, hlen, by simpa using hzip⟩
      · intro q hq
        rcases htags q hq with h | h
        · rw [h]; decide
        · rw [h.1]; decide

/-- The loop pushes no `last` piece. -/
theorem LoopOut.noLast {env : Env} : ∀ {items : List Slice} {lo : List Piece},
    LoopOut env items lo → ∀ q ∈ lo, q.tag ≠ .last
  | _, _, .nil => by intro q hq; simp at hq
  | _, _, .cons sl rest o os hstep hrest => by
    intro q hq
    rcases List.mem_append.mp hq with h | h
    · cases hstep with
      | comment _ _ hout =>
        obtain ⟨pre, mid, post, rfl, hpre, hmid, hpost⟩ := hout
        rcases List.mem_append.mp h with h | h
        · rcases List.mem_append.mp h with h | h
          · rw [(hpre q h).1]; decide
          · cases hmid with
            | whole sh => simp at h; subst h; simp
            | raw t _ _ => simp at h; subst h; simp
            | split _ _ _ _ _ _ _ _ _ => simp at h; rcases h with rfl | rfl | rfl <;> simp
        · rw [(hpost q h).1]; decide
      | vspace t _ _ _ => simp at h; subst h; simp
      | code _ _ htags _ =>
        rcases htags q h with h1 | h1
        · rw [h1]; decide
        · rw [h1.1]; decide
    · exact LoopOut.noLast hrest q h

/-- Every `last` piece — what the closure pushes as `last_snippet` — is white space. -/
theorem WholeOut.lastBlank {env : Env} {snippet : List Char} {o : List Piece} (h : WholeOut env snippet o) :
    ∀ q ∈ o, q.tag = .last → AllWs q.text := by
  have hl : ∀ {l : List Piece}, LastOut l → ∀ q ∈ l, q.tag = .last → AllWs q.text := by
    intro l hl q hq ht
    obtain ⟨t, bl, rfl, hws, hbl⟩ := hl
    rcases List.mem_cons.mp hq with rfl | hq
    · exact hws
    · exact (hbl q hq).2
  cases h with
  | nothing _ => intro q hq; simp at hq
  | empty last _ hlast => exact hl hlast
  | blank t last _ _ hlast =>
    intro q hq ht
    rcases List.mem_cons.mp hq with rfl | hq
    · cases ht
    · exact hl hlast q hq ht
  | written items lo last _ hlo hlast =>
    intro q hq ht
    rcases List.mem_append.mp hq with hq | hq
    · exact absurd ht (hlo.noLast q hq)
    · exact hl hlast q hq ht
  | semi _ => intro q hq ht; simp at hq; subst hq; cases ht

/-! ## The oracles -/

/-- In a gap of white space and comments the non-blank characters are those of the comments. -/
theorem blankSlices_squeeze : ∀ (items : List Slice), BlankSlices items →
    squeeze (items.flatMap (·.text)) = ((commentSlices items).map squeeze).flatten
  | [], _ => rfl
  | s :: rest, h => by
    have ih := blankSlices_squeeze rest (fun x hx => h x (by simp [hx]))
    simp only [List.flatMap_cons, squeeze_append, ih]
    cases hk : s.kind with
    | comment => simp [commentSlices, hk]
    | normal =>
      rcases h s (by simp) with h1 | h1
      · rw [hk] at h1; cases h1
      · rw [squeeze_of_allWs h1]; simp [commentSlices, hk]

theorem startsWith_append : ∀ (x r : List Char), startsWith (x ++ r) x = true
  | [], r => by cases r <;> rfl
  | c :: cs, r => by simp [startsWith, startsWith_append cs r]

theorem dropThrough_prefix (x r : List Char) : dropThrough x (x ++ r) = some r := by
  cases h : x ++ r with
  | nil =>
    have hx : x = [] := (List.append_eq_nil_iff.mp h).1
    have hr : r = [] := (List.append_eq_nil_iff.mp h).2
    subst hx hr; rfl
  | cons c cs =>
    unfold dropThrough
    rw [← h, startsWith_append]
    simp

theorem occursInOrder_flatten : ∀ (xs : List (List Char)) (r : List Char),
    occursInOrder xs (xs.flatten ++ r) = true
  | [], _ => rfl
  | x :: xs, r => by
    simp only [List.flatten_cons, List.append_assoc, occursInOrder, dropThrough_prefix]
    exact occursInOrder_flatten xs r

/-! ## `process_missing_code`, exactly -/

/-- Length of the run of white space at the end of a line. -/
def trailWs (l : List Char) : Nat := (l.reverse.takeWhile isWs).length

/-- What `process_missing_code` makes of a complete line `l` (given without its `\n`): the last
character goes when the line ends in an odd number of blanks. -/
def keepLine (l : List Char) : List Char := if trailWs l % 2 = 1 then l.dropLast else l

/-- The complete lines of `rest` (the first one continues `cur`), each through `keepLine`. -/
def pmcLines : List Char → List Char → List Char
  | _, [] => []
  | cur, c :: rest =>
    if c = '\n' then keepLine cur ++ ['\n'] ++ pmcLines [] rest else pmcLines (cur ++ [c]) rest

/-- The unfinished last line of `cur ++ rest`. -/
def lastPart : List Char → List Char → List Char
  | cur, [] => cur
  | cur, c :: rest => if c = '\n' then lastPart [] rest else lastPart (cur ++ [c]) rest

theorem trailWs_snoc (l : List Char) (c : Char) :
    trailWs (l ++ [c]) = if isWs c then trailWs l + 1 else 0 := by
  unfold trailWs
  simp only [List.reverse_append, List.reverse_cons, List.reverse_nil, List.nil_append,
    List.singleton_append, List.takeWhile_cons]
  split <;> simp

theorem trailWs_nil : trailWs [] = 0 := rfl

/-- How `last_wspace` mirrors the parity of the trailing run of the current line `cur`. -/
def LwInv (p cur : List Char) (lw : Option Nat) : Prop :=
  (trailWs cur % 2 = 1 → ∃ c1 c, cur = c1 ++ [c] ∧ lw = some (utf8Len (p ++ c1))) ∧
  (trailWs cur % 2 = 0 → lw = none)

theorem lastPart_split : ∀ (rest cur : List Char), ∃ a, cur ++ rest = a ++ lastPart cur rest ∧
    (a = [] ∨ ∃ a', a = a' ++ ['\n'])
  | [], cur => ⟨[], by simp [lastPart], Or.inl rfl⟩
  | c :: rest, cur => by
    unfold lastPart
    by_cases hc : c = '\n'
    · subst hc
      simp only [if_true]
      obtain ⟨a, ha, _⟩ := lastPart_split rest []
      rcases ‹a = [] ∨ _› with h | ⟨a', h⟩
      · refine ⟨cur ++ ['\n'], ?_, Or.inr ⟨cur, rfl⟩⟩
        rw [h] at ha; simp at ha; simp [← ha]
      · refine ⟨cur ++ ['\n'] ++ a, ?_, Or.inr ⟨cur ++ ['\n'] ++ a', by rw [h]; simp⟩⟩
        simp at ha; simp [List.append_assoc, ← ha]
    · simp only [hc, if_false]
      obtain ⟨a, ha, hor⟩ := lastPart_split rest (cur ++ [c])
      exact ⟨a, by simpa [List.append_assoc] using ha, hor⟩

/-- The loop of `process_missing_code`, exactly: it pushes `pmcLines cur rest` and leaves `line_start` in
front of the unfinished last line. -/
theorem pmcLoop_exact (snippet : List Char) : ∀ (rest p cur tail : List Char) (i : Nat)
    (st : RF.Missed.Status) (v : Vis),
    snippet = p ++ cur ++ rest ++ tail → i = utf8Len (p ++ cur) → st.line_start = utf8Len p →
    LwInv p cur st.last_wspace →
    ∃ st' v' p', pmcLoop snippet i rest st v = some (st', v') ∧
      v'.buffer = v.buffer ++ pmcLines cur rest ∧ v'.blockIndent = v.blockIndent ∧
      p ++ cur ++ rest = p' ++ lastPart cur rest ∧ st'.line_start = utf8Len p'
  | [], p, cur, tail, i, st, v, _, _, hls, _ =>
    ⟨st, v, p, rfl, by simp [pmcLines], rfl, by simp [lastPart], hls⟩
  | c :: rest, p, cur, tail, i, st, v, hs, hi, hls, hlw => by
    by_cases hc : c = '\n'
    · subst hc
      have hi1 : i + 1 = utf8Len (p ++ (cur ++ ['\n']) ++ []) := by
        rw [hi]; simp [utf8Len_append, utf8Len, nl_size]; omega
      have hlw0 : LwInv (p ++ (cur ++ ['\n'])) [] none :=
        ⟨by intro h; simp [trailWs_nil] at h, fun _ => rfl⟩
      have hs' : snippet = p ++ (cur ++ ['\n']) ++ [] ++ rest ++ tail := by
        rw [hs]; simp [List.append_assoc]
      by_cases hodd : trailWs cur % 2 = 1
      · obtain ⟨c1, c, hcur, hlwv⟩ := hlw.1 hodd
        have hsl : sliceBytes? snippet st.line_start (utf8Len (p ++ c1)) = some c1 := by
          apply sliceBytes_of_split snippet p c1 ([c] ++ '\n' :: rest ++ tail)
          · rw [hs, hcur]; simp [List.append_assoc]
          · exact hls
          · rw [utf8Len_append]
        obtain ⟨st', v', p', hrun, hbuf, hind, hsplit, hls'⟩ :=
          pmcLoop_exact snippet rest (p ++ (cur ++ ['\n'])) [] tail (i + 1)
            { line_start := i + 1, last_wspace := none, cur_line := st.cur_line + 1 }
            ((v.push .code c1).push .code ['\n']) hs' hi1
            (by show i + 1 = _; rw [hi]; simp [utf8Len_append, utf8Len, nl_size]; omega) hlw0
        refine ⟨st', v', p', ?_, ?_, ?_, ?_, hls'⟩
        · simp only [pmcLoop, if_true, hlwv, hsl]; exact hrun
        · rw [hbuf]
          simp only [pmcLines, if_true, keepLine, hodd, Vis.push, List.append_assoc]
          rw [hcur]; simp
        · rw [hind]; rfl
        · have hlp : lastPart cur ('\n' :: rest) = lastPart [] rest := by simp [lastPart]
          rw [hlp, ← hsplit]; simp [List.append_assoc]
      · have heven : trailWs cur % 2 = 0 := by omega
        have hnone := hlw.2 heven
        have hsl : sliceBytes? snippet st.line_start (i + 1) = some (cur ++ ['\n']) := by
          apply sliceBytes_of_split snippet p (cur ++ ['\n']) (rest ++ tail)
          · rw [hs]; simp [List.append_assoc]
          · exact hls
          · rw [hi]; simp [utf8Len_append, utf8Len, nl_size]; omega
        obtain ⟨st', v', p', hrun, hbuf, hind, hsplit, hls'⟩ :=
          pmcLoop_exact snippet rest (p ++ (cur ++ ['\n'])) [] tail (i + 1)
            { line_start := i + 1, last_wspace := none, cur_line := st.cur_line + 1 }
            (v.push .code (cur ++ ['\n'])) hs' hi1
            (by show i + 1 = _; rw [hi]; simp [utf8Len_append, utf8Len, nl_size]; omega) hlw0
        refine ⟨st', v', p', ?_, ?_, ?_, ?_, hls'⟩
        · simp only [pmcLoop, if_true, hnone, hsl]; exact hrun
        · rw [hbuf]
          simp only [pmcLines, if_true, keepLine, hodd, if_false, Vis.push, List.append_assoc]
        · rw [hind]; rfl
        · have hlp : lastPart cur ('\n' :: rest) = lastPart [] rest := by simp [lastPart]
          rw [hlp, ← hsplit]; simp [List.append_assoc]
    · have hi1 : i + c.utf8Size = utf8Len (p ++ (cur ++ [c])) := by
        rw [hi]; simp [utf8Len_append, utf8Len]; omega
      have hs1 : snippet = p ++ (cur ++ [c]) ++ rest ++ tail := by rw [hs]; simp [List.append_assoc]
      have hfin : ∀ (lw' : Option Nat), LwInv p (cur ++ [c]) lw' →
          ∃ st' v' p', pmcLoop snippet (i + c.utf8Size) rest { st with last_wspace := lw' } v = some (st', v') ∧
            v'.buffer = v.buffer ++ pmcLines cur (c :: rest) ∧ v'.blockIndent = v.blockIndent ∧
            p ++ cur ++ c :: rest = p' ++ lastPart cur (c :: rest) ∧ st'.line_start = utf8Len p' := by
        intro lw' hinv
        obtain ⟨st', v', p', hrun, hbuf, hind, hsplit, hls'⟩ :=
          pmcLoop_exact snippet rest p (cur ++ [c]) tail (i + c.utf8Size)
            { st with last_wspace := lw' } v hs1 hi1 hls hinv
        refine ⟨st', v', p', hrun, ?_, hind, ?_, hls'⟩
        · rw [hbuf]; simp [pmcLines, hc]
        · have hlp : lastPart cur (c :: rest) = lastPart (cur ++ [c]) rest := by simp [lastPart, hc]
          rw [hlp, ← hsplit]; simp [List.append_assoc]
      by_cases hws : isWs c = true
      · by_cases hnone : st.last_wspace = none
        · -- even run becomes odd
          have hev : trailWs cur % 2 = 0 := by
            by_cases h : trailWs cur % 2 = 1
            · obtain ⟨_, _, _, h2⟩ := hlw.1 h; rw [hnone] at h2; cases h2
            · omega
          obtain ⟨st', v', p', hrun, rest'⟩ := hfin (some i) (by
            refine ⟨fun _ => ⟨cur, c, rfl, by rw [hi]⟩, ?_⟩
            intro h; rw [trailWs_snoc, if_pos hws] at h; omega)
          refine ⟨st', v', p', ?_, rest'⟩
          simp only [pmcLoop, hc, if_false, hws, hnone, Option.isNone_none, Bool.and_self, if_true]
          exact hrun
        · have hodd : trailWs cur % 2 = 1 := by
            by_cases h : trailWs cur % 2 = 0
            · exact absurd (hlw.2 h) hnone
            · omega
          obtain ⟨st', v', p', hrun, rest'⟩ := hfin none (by
            refine ⟨?_, fun _ => rfl⟩
            intro h; rw [trailWs_snoc, if_pos hws] at h; omega)
          refine ⟨st', v', p', ?_, rest'⟩
          have : st.last_wspace.isNone = false := by
            cases h : st.last_wspace with
            | none => exact absurd h hnone
            | some _ => rfl
          simp only [pmcLoop, hc, if_false, hws, this, Bool.and_false, Bool.false_eq_true]
          exact hrun
      · obtain ⟨st', v', p', hrun, rest'⟩ := hfin none (by
          refine ⟨?_, fun _ => rfl⟩
          intro h; rw [trailWs_snoc] at h; simp [hws] at h)
        refine ⟨st', v', p', ?_, rest'⟩
        have : isWs c = false := by simpa using hws
        simp only [pmcLoop, hc, if_false, this, Bool.false_and, Bool.false_eq_true]
        exact hrun

/-- What `process_missing_code` writes for the slice `sub`, with `indent` = the indentation string. -/
def pmcSpec (indent sub : List Char) : List Char :=
  pmcLines [] sub ++
    (if (trim (lastPart [] sub)).isEmpty then [] else indent ++ trim (lastPart [] sub))

theorem processMissingCode_exact (env : Env) (snippet pre sub tail : List Char)
    (hs : snippet = pre ++ sub ++ tail) (st : RF.Missed.Status) (v : Vis)
    (hls : st.line_start = utf8Len pre) (hlw : st.last_wspace = none) (indent : List Char)
    (hind : indentStr? env v.blockIndent = some indent) :
    ∃ st' v', processMissingCode env snippet sub (utf8Len pre) st v = some (st', v') ∧
      v'.buffer = v.buffer ++ pmcSpec indent sub := by
  obtain ⟨st1, v1, p', hrun, hbuf, hbi, hsplit, hls1⟩ :=
    pmcLoop_exact snippet sub pre [] tail (utf8Len pre) st v (by rw [hs]; simp) (by simp) hls
      ⟨by intro h; simp [trailWs_nil] at h, fun _ => hlw⟩
  have hsl : sliceBytes? snippet st1.line_start (utf8Len sub + utf8Len pre) = some (lastPart [] sub) := by
    apply sliceBytes_of_split snippet p' (lastPart [] sub) tail
    · rw [hs]; simp only [List.append_nil] at hsplit; rw [hsplit]
    · exact hls1
    · have := congrArg utf8Len hsplit
      simp only [utf8Len_append, List.append_nil] at this
      omega
  unfold processMissingCode
  rw [hrun]; simp only
  rw [hsl]; simp only
  unfold pmcSpec
  cases hrem : (trim (lastPart [] sub)).isEmpty with
  | true => exact ⟨st1, v1, by simp, by rw [hbuf]; simp⟩
  | false =>
    rw [hbi, hind]
    refine ⟨{ st1 with line_start := utf8Len sub + utf8Len pre },
      (v1.push .blank indent).push .code (trim (lastPart [] sub)), by simp, ?_⟩
    simp [Vis.push, hbuf, List.append_assoc]

/-- A line goes through unchanged or loses one (white-space) character at its end. -/
theorem keepLine_cases (l : List Char) :
    keepLine l = l ∨ ∃ c, isWs c = true ∧ l = keepLine l ++ [c] := by
  unfold keepLine
  by_cases h : trailWs l % 2 = 1
  · rw [if_pos h]
    right
    have hpos : 0 < trailWs l := by omega
    unfold trailWs at hpos
    cases hr : l.reverse with
    | nil => rw [hr] at hpos; simp at hpos
    | cons c r =>
      rw [hr] at hpos
      have hc : isWs c = true := by
        by_cases hc : isWs c = true
        · exact hc
        · simp [List.takeWhile_cons, hc] at hpos
      have hl : l = r.reverse ++ [c] := by
        have := congrArg List.reverse hr; simpa using this
      refine ⟨c, hc, ?_⟩
      rw [hl]; simp
  · rw [if_neg h]; exact Or.inl rfl

/-- With at most one blank at its end a line comes out trimmed. -/
theorem keepLine_eq_trimEnd (l : List Char) (h : trailWs l ≤ 1) : keepLine l = trimEnd l := by
  unfold keepLine trimEnd
  unfold trailWs at h ⊢
  cases hr : l.reverse with
  | nil =>
    have : l = [] := by simpa using congrArg List.reverse hr
    subst this; simp
  | cons c r =>
    have hl : l = r.reverse ++ [c] := by
      have := congrArg List.reverse hr; simpa using this
    rw [hr] at h
    by_cases hc : isWs c = true
    · simp only [List.takeWhile_cons, hc, if_true, List.length_cons] at h ⊢
      have hr0 : (r.takeWhile isWs).length = 0 := by omega
      have hr1 : r.takeWhile isWs = [] := List.length_eq_zero_iff.mp hr0
      have hdw : r.dropWhile isWs = r := by
        have := List.takeWhile_append_dropWhile (p := isWs) (l := r)
        rw [hr1] at this; simpa using this
      simp only [hr0, List.dropWhile_cons, hc, if_true, hdw]
      rw [hl]; simp
    · simp only [List.takeWhile_cons, hc, List.dropWhile_cons]
      simp
      exact hl

/-- Every complete line of `cur ++ rest` ends in at most one blank. -/
def oneTrail : List Char → List Char → Bool
  | _, [] => true
  | cur, c :: rest =>
    if c = '\n' then decide (trailWs cur ≤ 1) && oneTrail [] rest else oneTrail (cur ++ [c]) rest

/-- The complete lines of `cur ++ rest`, each without its trailing white space. -/
def stripLines : List Char → List Char → List Char
  | _, [] => []
  | cur, c :: rest =>
    if c = '\n' then trimEnd cur ++ ['\n'] ++ stripLines [] rest else stripLines (cur ++ [c]) rest

theorem pmcLines_stripped : ∀ (rest cur : List Char), oneTrail cur rest = true →
    pmcLines cur rest = stripLines cur rest
  | [], _, _ => rfl
  | c :: rest, cur, h => by
    unfold oneTrail at h
    unfold pmcLines stripLines
    by_cases hc : c = '\n'
    · simp only [hc, if_true, Bool.and_eq_true, decide_eq_true_eq] at h ⊢
      rw [keepLine_eq_trimEnd cur h.1, pmcLines_stripped rest [] h.2]
    · simp only [hc, if_false] at h ⊢
      exact pmcLines_stripped rest (cur ++ [c]) h

/-! ## close_block -/

/-- `v` is `v0` after the pieces `out` were pushed; `block_indent` may have changed. -/
structure Pushed (v0 v : Vis) (out : List Piece) : Prop where
  buffer : v.buffer = v0.buffer ++ render out
  log : v.log = v0.log ++ out

theorem Pushed.refl (v : Vis) : Pushed v v [] := ⟨by simp [render], by simp⟩

theorem Pushed.push {v0 v : Vis} {out : List Piece} (h : Pushed v0 v out) (t : Tag) (s : List Char) :
    Pushed v0 (v.push t s) (out ++ [⟨t, s⟩]) :=
  ⟨by simp [Vis.push, h.buffer, render_append, render_single], by simp [Vis.push, h.log]⟩

theorem Pushed.setIndent {v0 v : Vis} {out : List Piece} (h : Pushed v0 v out) (i : Indent) :
    Pushed v0 { v with blockIndent := i } out := ⟨h.buffer, h.log⟩

theorem pushed_foldl {v0 v : Vis} {out : List Piece} (h : Pushed v0 v out) : ∀ (post : List Piece),
    Pushed v0 (post.foldl (fun v q => v.push q.tag q.text) v) (out ++ post) := by
  intro post
  induction post generalizing v out with
  | nil => simpa using h
  | cons x post ih =>
    have := ih (h.push x.tag x.text)
    simpa [List.append_assoc] using this

theorem blockUnindent_ok (env : Env) (i : Indent) : ∃ j, blockUnindent? env i = some j := by
  unfold blockUnindent?
  rw [RF.Lemmas.Shape.block_unindent_ok]
  exact ⟨_, rfl⟩

theorem cbUnindent_spec (env : Env) (un al : Bool) (cs : CbState) (v0 v : Vis) (out : List Piece)
    (h : Pushed v0 v out) :
    ∃ u v1, cbUnindent env un al cs v = some (u, v1) ∧ Pushed v0 v1 out := by
  unfold cbUnindent
  split
  · obtain ⟨j, hj⟩ := blockUnindent_ok env v.blockIndent
    rw [hj]
    exact ⟨true, _, rfl, h.setIndent j⟩
  · exact ⟨_, v, rfl, h⟩

theorem cbOldHead_spec (env : Env) (hind : IndentOk env.config) (between : List Char)
    (sameLine extraNl : Bool) (shape0 : Shape) (v : Vis) :
    ∃ pre sh, cbOldHead env between sameLine extraNl shape0 v =
        some (pre.foldl (fun v q => v.push q.tag q.text) v, sh) ∧ BlankPieces pre := by
  have hsp : BlankPieces [⟨.blank, [' ']⟩] := BlankPieces.single (allWs_single isWs_space)
  have hnl : BlankPieces [⟨.blank, ['\n']⟩] := BlankPieces.single (allWs_single isWs_nl)
  unfold cbOldHead
  generalize (if sameLine = true then
      match (shape0.visual_indent (1 + (lastLineWidth env v.buffer - v.blockIndent.width))).sub_width_opt
          (1 + (lastLineWidth env v.buffer - v.blockIndent.width)) with
      | some shp => (true, shp)
      | none => (false, shape0)
    else (false, shape0)) = pr
  obtain ⟨sl, sh⟩ := pr
  simp only
  cases sl with
  | true => exact ⟨[⟨.blank, [' ']⟩], sh, rfl, hsp⟩
  | false =>
    simp only [Bool.false_eq_true, if_false]
    split
    · obtain ⟨nl, h1, h2⟩ := indentNl_ok env hind (v.push .blank ['\n']).blockIndent
      rw [h1]
      exact ⟨[⟨.blank, ['\n']⟩, ⟨.blank, nl⟩], sh, rfl, hnl.append (BlankPieces.single h2)⟩
    · obtain ⟨nl, h1, h2⟩ := indentNl_ok env hind v.blockIndent
      rw [h1]
      exact ⟨[⟨.blank, nl⟩], sh, rfl, BlankPieces.single h2⟩

/-- The `Comment` arm of `close_block`'s loop on the comment slice `sub` that follows `done`; `last_hi`
is the end of a prefix of `done`. -/
theorem cbComment_spec (env : Env) (hind : IndentOk env.config) (snippet done sub tail : List Char)
    (hs : snippet = done ++ sub ++ tail) (un al : Bool) (cs : CbState) (v0 v : Vis) (out : List Piece)
    (hhi : ∃ a b, done = a ++ b ∧ cs.lastHi = utf8Len a) (hp : Pushed v0 v out) :
    ∃ cs' v' o, cbComment env snippet un al (utf8Len done) sub cs v = some (cs', v') ∧
      Pushed v0 v' (out ++ o) ∧ cs'.lastHi = utf8Len (done ++ sub) ∧ CommentOut env sub o := by
  obtain ⟨u, v1, hun, hp1⟩ := cbUnindent_spec env un al cs v0 v out hp
  obtain ⟨a, b, hd, hlast⟩ := hhi
  have hsl : sliceBytes? snippet cs.lastHi (utf8Len done) = some b := by
    apply sliceBytes_of_split snippet a b (sub ++ tail)
    · rw [hs, hd]; simp [List.append_assoc]
    · exact hlast
    · rw [hd, utf8Len_append]
  unfold cbComment
  rw [hun]; simp only
  rw [hsl]; simp only
  by_cases h24 : (env.ed2024 && !(b.contains '\n')) = true
  · rw [if_pos h24]
    have hed : env.ed2024 = true := by simp at h24; exact h24.1
    obtain ⟨mid, hmid, hcm⟩ := commentLines_spec env hind sub (v1.push .blank [' ']) v1.blockIndent
      ((Shape.indented v1.blockIndent env.config).comment env.config) true (fun _ => hed)
    rw [hmid]
    refine ⟨_, _, [⟨.blank, [' ']⟩] ++ mid, rfl, ?_, by simp [utf8Len_append],
      ⟨[⟨.blank, [' ']⟩], mid, [], by simp, BlankPieces.single (allWs_single isWs_space), hcm,
        BlankPieces.nil⟩⟩
    have := pushed_foldl (hp1.push .blank [' ']) mid
    simpa [List.append_assoc] using this
  · rw [if_neg h24]
    obtain ⟨pre, sh, hhead, hpre⟩ := cbOldHead_spec env hind b (!(b.contains '\n')) cs.extraNl
      ((Shape.indented v1.blockIndent env.config).comment env.config) v1
    rw [hhead]; simp only
    obtain ⟨mid, hmid, hcm⟩ := commentLines_spec env hind sub
      (pre.foldl (fun v q => v.push q.tag q.text) v1)
      (pre.foldl (fun v q => v.push q.tag q.text) v1).blockIndent sh false (by intro h; cases h)
    rw [hmid]
    refine ⟨_, _, pre ++ mid, rfl, ?_, by simp [utf8Len_append], ⟨pre, mid, [], by simp, hpre, hcm,
      BlankPieces.nil⟩⟩
    have := pushed_foldl (pushed_foldl hp1 pre) mid
    simpa [List.append_assoc] using this

/-- The non-blank characters `close_block` owes for one slice. -/
def sliceContent (s : Slice) : List Char :=
  if s.kind == .comment then squeeze s.text else if skipNormal s.text then [] else squeeze s.text

theorem CommentOut.content {env : Env} {sub : List Char} {o : List Piece} (hrc : RcContent env.rc)
    (h : CommentOut env sub o) : squeeze (render o) = squeeze sub := by
  obtain ⟨pre, mid, post, rfl, hpre, hmid, hpost⟩ := h
  rw [render_append, render_append, squeeze_append, squeeze_append, hpre.content, hpost.content,
    hmid.content hrc]
  simp

/-- The loop of `close_block`. -/
theorem cbLoop_spec (env : Env) (hind : IndentOk env.config) (snippet : List Char) (un al : Bool)
    (v0 : Vis) : ∀ (items : List Slice) (done : List Char) (cs : CbState) (v : Vis) (out : List Piece),
    snippet = done ++ items.flatMap (·.text) → Contiguous (utf8Len done) items →
    (∃ a b, done = a ++ b ∧ cs.lastHi = utf8Len a) → Pushed v0 v out →
    ∃ cs' v' o, cbLoop env snippet un al items cs v = some (cs', v') ∧ Pushed v0 v' (out ++ o) ∧
      (RcContent env.rc → squeeze (render o) = (items.map sliceContent).flatten)
  | [], _, cs, v, out, _, _, _, hp => ⟨cs, v, [], rfl, by simpa using hp, fun _ => rfl⟩
  | sl :: rest, done, cs, v, out, hs, hcont, hhi, hp => by
    obtain ⟨hstart, hcont'⟩ := hcont
    have hs' : snippet = done ++ sl.text ++ rest.flatMap (·.text) := by
      rw [hs]; simp [List.append_assoc]
    -- one step
    have hstep : ∃ cs1 v1 o1, cbStep env snippet un al sl cs v = some (cs1, v1) ∧
        Pushed v0 v1 (out ++ o1) ∧ (∃ a b, done ++ sl.text = a ++ b ∧ cs1.lastHi = utf8Len a) ∧
        (RcContent env.rc → squeeze (render o1) = sliceContent sl) := by
      unfold cbStep
      by_cases hk : sl.kind = .comment
      · rw [if_pos hk, hstart]
        obtain ⟨cs1, v1, o1, hrun, hp1, hhi1, hout⟩ :=
          cbComment_spec env hind snippet done sl.text (rest.flatMap (·.text)) hs' un al cs v0 v out hhi hp
        refine ⟨cs1, v1, o1, hrun, hp1, ⟨done ++ sl.text, [], by simp, hhi1⟩, ?_⟩
        intro hrc
        rw [hout.content hrc]; simp [sliceContent, hk]
      · rw [if_neg hk]
        have hkb : (sl.kind == CodeCharKind.comment) = false := by simpa using hk
        by_cases hskip : skipNormal sl.text = true
        · rw [if_pos hskip]
          obtain ⟨a, b, hd, hl⟩ := hhi
          refine ⟨_, v, [], rfl, by simpa using hp, ⟨a, b ++ sl.text, by rw [hd]; simp, hl⟩, ?_⟩
          intro _; simp [sliceContent, hkb, hskip, render, squeeze_nil]
        · rw [if_neg hskip]
          obtain ⟨nl, h1, h2⟩ := indentNl_ok env hind v.blockIndent
          rw [h1]
          refine ⟨_, _, [⟨.blank, nl⟩, ⟨.code, trim sl.text⟩], rfl, ?_,
            ⟨done ++ sl.text, [], by simp, by simp [hstart, utf8Len_append]⟩, ?_⟩
          · have := (hp.push .blank nl).push .code (trim sl.text)
            simpa [List.append_assoc] using this
          · intro _
            simp only [render, List.flatMap_cons, List.flatMap_nil, List.append_nil, squeeze_append,
              squeeze_of_allWs h2, squeeze_trim, List.nil_append, sliceContent, hkb]
            simp [hskip]
    obtain ⟨cs1, v1, o1, hrun, hp1, hhi1, hc1⟩ := hstep
    obtain ⟨cs', v', o, hrun', hp', hc'⟩ :=
      cbLoop_spec env hind snippet un al v0 rest (done ++ sl.text) cs1 v1 (out ++ o1)
        (by rw [hs]; simp [List.append_assoc]) (by rw [utf8Len_append]; exact hcont') hhi1 hp1
    refine ⟨cs', v', o1 ++ o, ?_, by simpa [List.append_assoc] using hp', ?_⟩
    · simp only [cbLoop, hrun]; exact hrun'
    · intro hrc
      rw [render_append, squeeze_append, hc1 hrc, hc' hrc]; simp

/-- `close_block` on a valid span: no panic; the buffer grows by pieces whose non-blank characters are
`closeContent snippet`. -/
theorem closeBlock_spec (env : Env) (hind : IndentOk env.config) (pre snippet post : List Char)
    (hbig : env.big = pre ++ snippet ++ post) (un : Bool) (v : Vis) :
    ∃ v' o, closeBlock env (utf8Len pre) (utf8Len pre + utf8Len snippet) un v = some v' ∧
      Pushed v v' o ∧ (RcContent env.rc → squeeze (render o) = closeContent snippet) := by
  unfold closeBlock
  have hle : utf8Len pre ≤ utf8Len pre + utf8Len snippet := by omega
  have hsl : sliceBytes? env.big (min (utf8Len pre) (utf8Len pre + utf8Len snippet))
      (max (utf8Len pre) (utf8Len pre + utf8Len snippet)) = some snippet := by
    rw [Nat.min_eq_left hle, Nat.max_eq_right hle]
    exact sliceBytes_of_split env.big pre snippet post _ _ hbig rfl rfl
  rw [hsl]; simp only
  obtain ⟨items, hitems, hcat, _, hcont⟩ := slices_spec snippet
  rw [hitems]; simp only
  generalize (if (un && containsComment snippet) = true then
      decide (lastLineWidth env (List.takeWhile (fun x => x != '/') snippet) > lastLineWidth env snippet)
    else false) = al
  obtain ⟨cs, v1, o1, hrun, hp1, hc1⟩ :=
    cbLoop_spec env hind snippet un al v items [] ⟨0, false, false, false⟩ v [] (by simp [hcat])
      (by simpa [utf8Len] using hcont) ⟨[], [], rfl, rfl⟩ (Pushed.refl v)
  rw [hrun]; simp only
  obtain ⟨j, hj⟩ := blockUnindent_ok env
    (if cs.unindented = true then v1.blockIndent.blockIndent env.config else v1.blockIndent)
  rw [hj]; simp only
  obtain ⟨nl, h1, h2⟩ := indentNl_ok env hind j
  rw [h1]
  refine ⟨_, o1 ++ [⟨.blank, nl⟩, ⟨.code, ['}']⟩], rfl, ?_, ?_⟩
  · have := ((hp1.setIndent j).push .blank nl).push .code ['}']
    simpa [List.append_assoc] using this
  · intro hrc
    rw [render_append, squeeze_append, hc1 hrc]
    unfold closeContent
    rw [hitems]
    simp only [render, List.flatMap_cons, List.flatMap_nil, List.append_nil, squeeze_append,
      squeeze_of_allWs h2, List.nil_append]
    have : (List.map sliceContent items) = List.map (fun s => if (s.kind == CodeCharKind.comment) = true
        then squeeze s.text else if skipNormal s.text = true then [] else squeeze s.text) items := by
      apply List.map_congr_left; intro s _; rfl
    rw [this]; rfl

/-- What one turn of `close_block`'s loop pushes. -/
inductive CbStepOut (env : Env) (sl : Slice) : List Piece → Prop
  | comment (o : List Piece) : sl.kind = .comment → CommentOut env sl.text o → CbStepOut env sl o
  | skipped : sl.kind = .normal → CbStepOut env sl []
  | code (nl : List Char) : sl.kind = .normal → AllWs nl →
      CbStepOut env sl [⟨.blank, nl⟩, ⟨.code, trim sl.text⟩]

inductive CbOut (env : Env) : List Slice → List Piece → Prop
  | nil : CbOut env [] []
  | cons (sl : Slice) (rest : List Slice) (o os : List Piece) : CbStepOut env sl o → CbOut env rest os →
      CbOut env (sl :: rest) (o ++ os)

/-- The loop of `close_block`, slice by slice. -/
theorem cbLoop_out (env : Env) (hind : IndentOk env.config) (snippet : List Char) (un al : Bool)
    (v0 : Vis) : ∀ (items : List Slice) (done : List Char) (cs : CbState) (v : Vis) (out : List Piece),
    snippet = done ++ items.flatMap (·.text) → Contiguous (utf8Len done) items →
    (∃ a b, done = a ++ b ∧ cs.lastHi = utf8Len a) → Pushed v0 v out →
    ∃ cs' v' o, cbLoop env snippet un al items cs v = some (cs', v') ∧ Pushed v0 v' (out ++ o) ∧
      CbOut env items o
  | [], _, cs, v, out, _, _, _, hp => ⟨cs, v, [], rfl, by simpa using hp, CbOut.nil⟩
  | sl :: rest, done, cs, v, out, hs, hcont, hhi, hp => by
    obtain ⟨hstart, hcont'⟩ := hcont
    have hs' : snippet = done ++ sl.text ++ rest.flatMap (·.text) := by
      rw [hs]; simp [List.append_assoc]
    have hstep : ∃ cs1 v1 o1, cbStep env snippet un al sl cs v = some (cs1, v1) ∧
        Pushed v0 v1 (out ++ o1) ∧ (∃ a b, done ++ sl.text = a ++ b ∧ cs1.lastHi = utf8Len a) ∧
        CbStepOut env sl o1 := by
      unfold cbStep
      by_cases hk : sl.kind = .comment
      · rw [if_pos hk, hstart]
        obtain ⟨cs1, v1, o1, hrun, hp1, hhi1, hout⟩ :=
          cbComment_spec env hind snippet done sl.text (rest.flatMap (·.text)) hs' un al cs v0 v out hhi hp
        exact ⟨cs1, v1, o1, hrun, hp1, ⟨done ++ sl.text, [], by simp, hhi1⟩, CbStepOut.comment o1 hk hout⟩
      · rw [if_neg hk]
        have hkn : sl.kind = .normal := by cases h : sl.kind <;> simp_all
        by_cases hskip : skipNormal sl.text = true
        · rw [if_pos hskip]
          obtain ⟨a, b, hd, hl⟩ := hhi
          exact ⟨_, v, [], rfl, by simpa using hp, ⟨a, b ++ sl.text, by rw [hd]; simp, hl⟩,
            CbStepOut.skipped hkn⟩
        · rw [if_neg hskip]
          obtain ⟨nl, h1, h2⟩ := indentNl_ok env hind v.blockIndent
          rw [h1]
          refine ⟨_, _, [⟨.blank, nl⟩, ⟨.code, trim sl.text⟩], rfl, ?_,
            ⟨done ++ sl.text, [], by simp, by simp [hstart, utf8Len_append]⟩, CbStepOut.code nl hkn h2⟩
          have := (hp.push .blank nl).push .code (trim sl.text)
          simpa [List.append_assoc] using this
    obtain ⟨cs1, v1, o1, hrun, hp1, hhi1, hc1⟩ := hstep
    obtain ⟨cs', v', o, hrun', hp', hc'⟩ :=
      cbLoop_out env hind snippet un al v0 rest (done ++ sl.text) cs1 v1 (out ++ o1)
        (by rw [hs]; simp [List.append_assoc]) (by rw [utf8Len_append]; exact hcont') hhi1 hp1
    refine ⟨cs', v', o1 ++ o, ?_, by simpa [List.append_assoc] using hp', CbOut.cons sl rest o1 o hc1 hc'⟩
    simp only [cbLoop, hrun]; exact hrun'

/-- Below style edition 2024 the comment pieces of `close_block`'s loop are the comment slices, each as
`rewrite_comment` returned it, once and in order. -/
theorem CbOut.comments {env : Env} (hed : env.ed2024 = false) : ∀ {items : List Slice}
    {lo : List Piece}, CbOut env items lo →
    ∃ shapes : List Shape, shapes.length = (commentSlices items).length ∧
      commentPieces lo = List.zipWith (fun c sh => rcOr env c sh) (commentSlices items) shapes := by
  intro items lo h
  induction h with
  | nil => exact ⟨[], rfl, rfl⟩
  | cons sl rest o os hstep hrest ih =>
    obtain ⟨shapes, hlen, hzip⟩ := ih
    rw [commentPieces_append]
    cases hstep with
    | comment _ hk hout =>
      obtain ⟨pre, mid, post, rfl, hpre, hmid, hpost⟩ := hout
      have hs : commentSlices (sl :: rest) = sl.text :: commentSlices rest := by
        simp [commentSlices, hk]
      rw [hs, commentPieces_append, commentPieces_append, hpre.noComment, hpost.noComment]
      cases hmid with
      | whole sh =>
        refine ⟨sh :: shapes, by simp [hlen], ?_⟩
        simp only [commentPieces, List.nil_append, List.append_nil] at hzip ⊢
        simp [hzip]
      | raw t h24 _ => rw [hed] at h24; cases h24
      | split first rest' other nl sh h24 _ _ _ => rw [hed] at h24; cases h24
    | skipped hk =>
      have hs : commentSlices (sl :: rest) = commentSlices rest := by simp [commentSlices, hk]
      rw [hs]
      exact ⟨shapes, hlen, by simpa [commentPieces] using hzip⟩
    | code nl hk _ =>
      have hs : commentSlices (sl :: rest) = commentSlices rest := by simp [commentSlices, hk]
      rw [hs]
      exact ⟨shapes, hlen, by simpa [commentPieces] using hzip⟩

/-- `close_block`, below style edition 2024: the comment pieces are the comment slices of the snippet. -/
theorem closeBlock_comments (env : Env) (hind : IndentOk env.config) (hed : env.ed2024 = false)
    (pre snippet post : List Char) (hbig : env.big = pre ++ snippet ++ post) (un : Bool) (v v' : Vis)
    (h : closeBlock env (utf8Len pre) (utf8Len pre + utf8Len snippet) un v = some v') :
    ∃ o shapes, v'.log = v.log ++ o ∧ shapes.length = (commentTexts snippet).length ∧
      commentPieces o = List.zipWith (fun c sh => rcOr env c sh) (commentTexts snippet) shapes := by
  unfold closeBlock at h
  have hle : utf8Len pre ≤ utf8Len pre + utf8Len snippet := by omega
  have hsl : sliceBytes? env.big (min (utf8Len pre) (utf8Len pre + utf8Len snippet))
      (max (utf8Len pre) (utf8Len pre + utf8Len snippet)) = some snippet := by
    rw [Nat.min_eq_left hle, Nat.max_eq_right hle]
    exact sliceBytes_of_split env.big pre snippet post _ _ hbig rfl rfl
  rw [hsl] at h; simp only at h
  obtain ⟨items, hitems, hcat, _, hcont⟩ := slices_spec snippet
  rw [hitems] at h; simp only at h
  generalize (if (un && containsComment snippet) = true then
      decide (lastLineWidth env (List.takeWhile (fun x => x != '/') snippet) > lastLineWidth env snippet)
    else false) = al at h
  obtain ⟨cs, v1, o1, hrun, hp1, hout⟩ :=
    cbLoop_out env hind snippet un al v items [] ⟨0, false, false, false⟩ v [] (by simp [hcat])
      (by simpa [utf8Len] using hcont) ⟨[], [], rfl, rfl⟩ (Pushed.refl v)
  rw [hrun] at h; simp only at h
  obtain ⟨j, hj⟩ := blockUnindent_ok env
    (if cs.unindented = true then v1.blockIndent.blockIndent env.config else v1.blockIndent)
  rw [hj] at h; simp only at h
  obtain ⟨nl, h1, h2⟩ := indentNl_ok env hind j
  rw [h1] at h
  have hv' : v' = (({ v1 with blockIndent := j } : Vis).push .blank nl).push .code ['}'] := by
    injection h with h; exact h.symm
  obtain ⟨shapes, hlen, hzip⟩ := hout.comments hed
  have hp := ((hp1.setIndent j).push .blank nl).push .code ['}']
  rw [← hv'] at hp
  refine ⟨o1 ++ [⟨.blank, nl⟩, ⟨.code, ['}']⟩], shapes, by simpa [List.append_assoc] using hp.log, ?_, ?_⟩
  · simp only [commentTexts, hitems]; exact hlen
  · rw [commentPieces_append]
    have : commentPieces [⟨Tag.blank, nl⟩, ⟨Tag.code, ['}']⟩] = [] := by simp [commentPieces]
    rw [this, hzip]
    simp [commentTexts, hitems, commentSlices]

end RF.Lemmas.Missed
