import RF.Model.Proto
import RF.Model.Lists
import RF.Model.ListsRc
import RF.Model.ListsItemize
import RF.Model.ListsStructLit
/-!
Line-protocol operations for the list machinery (`src/lists.rs`, model `RF/Model/Lists.lean`).

Encodings
  string      hex of UTF-8, `-` for the empty string (RF.Proto)
  optstring   `~` for `None` (for `item`: `Err`), otherwise a string
  item        `<pre:optstring>:<style>:<item:optstring>:<post:optstring>:<new_lines 0|1>`
              style: 0 SameLine, 1 DifferentLine, 2 None
  items       items joined by `;`, `_` for the empty list
  ltactic     `v` `h` `hv` `m` `l<limit>`      ListTactic
  dtactic     `v` `h` `m` `s<n>`               DefinitiveListTactic (`s<n>` = SpecialMacro(n))
  sept        `a` Always, `n` Never, `v` Vertical
  place       `f` Front, `b` Back
  fmt         `<dtactic> <separator:string> <sept> <place> <width> <block_indent> <alignment> <offset>
               <ends_with_newline> <preserve_newline> <nested> <align_comments>
               <hard_tabs> <tab_spaces> <max_width> <normalize_comments>`      (16 tokens)

Operations
  lists.tactic <items> <ltactic> <sep 0=Comma|1=VerticalBar> <width>   -> dtactic        `definitive_tactic`
  lists.needs_trailing <dtactic> <sept> <place>                        -> 0|1            `needs_trailing_separator`
  lists.write <items> <fmt>                -> string | err                               `write_list`
        with `rewrite_comment` := `rewriteCommentLight` (normalize_comments, wrap_comments off, style edition < 2024)
  lists.rc <orig> <block_indent> <alignment> <hard_tabs> <tab_spaces>  -> string | err           `rewrite_comment`
  lists.total_width <items>                                            -> <count>:<width>        `calculate_width`
  lists.itemize <sep> <term> <leave_last 0|1> <first_pre:string> <src>   -> items | panic        `itemize_list(..).collect()`
        src: `<item:optstring>|<post_snippet:string>` joined by `;`, `_` for no item
  lists.comment_end <post> <sep> <term> <is_last>    -> n | panic          `get_comment_end`
  lists.extract_post <post> <comment_end> <sep> <is_last>  -> optstring | panic   `extract_post_comment`
  lists.extract_pre <pre>                            -> <optstring>:<style> | panic   `extract_pre_comment`
  lists.extra_newline <post> <comment_end>           -> 0|1|panic          `has_extra_newline`
  lists.sl_shape <w> <b> <a> <off> <prefix_width> <suffix_width> <indent_style v|b> <tab_spaces> <max_width> <struct_lit_width>
                                                     -> err:<w> | <h_shape or none>/<v_shape>     `struct_lit_shape`
  lists.sl_tactic <h_shape or none> <indent_style> <struct_lit_single_line> <items>   -> dtactic   `struct_lit_tactic`
  lists.shape_for_tactic <dtactic> <h_shape or none> <v_shape>   -> shape | panic                 `shape_for_tactic`
  lists.sl_formatting <shape> <dtactic> <indent_style> <trailing_comma:sept> <force_no_trailing_comma>
        -> <dtactic>|<separator>|<sept>|<place>|<shape>|<ends_with_newline>|<preserve_newline>|<nested>|<align_comments>
        shapes are `w:b:a:off`
ORACLES (judge the output of the real code)
  lists.oracle.gaps <term> <first_pre> <src> <items> -> ok | bad:<k>   every gap's comments are handed on (firstBadGap)
  lists.oracle.content <items> <fmt> <out>  -> ok | bad:<expected content>   squeeze out = contentSpec
  lists.oracle.items <items> <out>          -> ok | bad   the item strings occur in `out`, disjoint, in order
  lists.oracle.comments <items> <out>       -> ok | bad   the squeezed comments occur in `squeeze out`, in order
-/
namespace RF.Driver.Lists
open RF.Proto RF.Lists RF.Shape

def decOpt (s : String) : Option (Option (List Char)) :=
  if s == "~" then some none else (decChars s).map some

def decStyle : String → Option ListItemCommentStyle
  | "0" => some .sameLine | "1" => some .differentLine | "2" => some .none | _ => none

def decBool : String → Option Bool
  | "0" => some false | "1" => some true | _ => none

def decItem (s : String) : Option ListItem :=
  match s.splitOn ":" with
  | [pre, style, item, post, nl] => do
    let pre ← decOpt pre
    let style ← decStyle style
    let item ← decOpt item
    let post ← decOpt post
    let nl ← decBool nl
    pure ⟨pre, style, item, post, nl⟩
  | _ => none

def decItems (s : String) : Option (List ListItem) :=
  if s == "_" then some [] else (s.splitOn ";").mapM decItem

def decLTactic (s : String) : Option ListTactic :=
  match s with
  | "v" => some .vertical | "h" => some .horizontal | "hv" => some .horizontalVertical
  | "m" => some .mixed
  | _ => if s.startsWith "l" then ((s.drop 1).toString.toNat?).map .limitedHorizontalVertical else none

def decDTactic (s : String) : Option DefinitiveListTactic :=
  match s with
  | "v" => some .vertical | "h" => some .horizontal | "m" => some .mixed
  | _ => if s.startsWith "s" then ((s.drop 1).toString.toNat?).map .specialMacro else none

def encDTactic : DefinitiveListTactic → String
  | .vertical => "v" | .horizontal => "h" | .mixed => "m" | .specialMacro n => s!"s{n}"

def decSepT : String → Option SeparatorTactic
  | "a" => some .always | "n" => some .never | "v" => some .vertical | _ => none

def decPlace : String → Option SeparatorPlace
  | "f" => some .front | "b" => some .back | _ => none

def decSep : String → Option Separator
  | "0" => some .comma | "1" => some .verticalBar | _ => none

def decFmt : List String → Option ListFormatting
  | [t, sep, st, pl, w, b, a, off, ewn, pn, ne, ac, ht, ts, mw, nc] => do
    let t ← decDTactic t
    let sep ← decChars sep
    let st ← decSepT st
    let pl ← decPlace pl
    let w ← w.toNat?
    let b ← b.toNat?
    let a ← a.toNat?
    let off ← off.toNat?
    let ewn ← decBool ewn
    let pn ← decBool pn
    let ne ← decBool ne
    let ac ← decBool ac
    let ht ← decBool ht
    let ts ← ts.toNat?
    let mw ← mw.toNat?
    let nc ← decBool nc
    pure { tactic := t, separator := sep, trailingSeparator := st, separatorPlace := pl,
           shape := ⟨w, ⟨b, a⟩, off⟩, endsWithNewline := ewn, preserveNewline := pn, nested := ne,
           alignComments := ac, config := ⟨ht, ts, mw, 80⟩, normalizeComments := nc }
  | _ => none

def encOptS : Option (List Char) → String
  | none => "~"
  | some s => encChars s

def encStyle : ListItemCommentStyle → String
  | .sameLine => "0" | .differentLine => "1" | .none => "2"

def encItem (x : ListItem) : String :=
  encOptS x.preComment ++ ":" ++ encStyle x.preCommentStyle ++ ":" ++ encOptS x.item ++ ":" ++
    encOptS x.postComment ++ ":" ++ (if x.newLines then "1" else "0")

def encItemsOut (xs : List ListItem) : String :=
  if xs.isEmpty then "_" else String.intercalate ";" (xs.map encItem)

def decSrcItem (s : String) : Option SourceItem :=
  match s.splitOn "|" with
  | [it, post] => do
    let it ← decOpt it
    let post ← decChars post
    pure ⟨it, post⟩
  | _ => none

def decSrc (s : String) : Option (List SourceItem) :=
  if s == "_" then some [] else (s.splitOn ";").mapM decSrcItem

def decShape (s : String) : Option Shape :=
  match (s.splitOn ":").mapM String.toNat? with
  | some [w, b, a, o] => some ⟨w, ⟨b, a⟩, o⟩
  | _ => none

def decOptShape (s : String) : Option (Option Shape) :=
  if s == "none" then some none else (decShape s).map some

def encShapeC (s : Shape) : String :=
  s!"{s.width}:{s.indent.block_indent}:{s.indent.alignment}:{s.offset}"

def decIndentStyle : String → Option IndentStyle
  | "v" => some .visual | "b" => some .block | _ => none

def encSepT : SeparatorTactic → String
  | .always => "a" | .never => "n" | .vertical => "v"

def encB (b : Bool) : String := if b then "1" else "0"

def handle (op : String) (args : List String) : Option String :=
  match op, args with
  | "lists.sl_shape", [w, b, a, off, pw, sw, st, ts, mw, slw] => some <| (do
      let w ← w.toNat?
      let b ← b.toNat?
      let a ← a.toNat?
      let off ← off.toNat?
      let pw ← pw.toNat?
      let sw ← sw.toNat?
      let st ← decIndentStyle st
      let ts ← ts.toNat?
      let mw ← mw.toNat?
      let slw ← slw.toNat?
      pure (match structLitShape ⟨w, ⟨b, a⟩, off⟩ ⟨st, ts, mw, slw, false, .vertical⟩ pw sw with
        | .error e => s!"err:{e.configured_width}"
        | .ok (h, v) => (match h with | some h => encShapeC h | none => "none") ++ "/" ++ encShapeC v)).getD "?"
  | "lists.sl_tactic", [h, st, sl, items] => some <| (do
      let h ← decOptShape h
      let st ← decIndentStyle st
      let sl ← decBool sl
      let items ← decItems items
      pure (encDTactic (structLitTactic h ⟨st, 4, 100, 18, sl, .vertical⟩ items))).getD "?"
  | "lists.shape_for_tactic", [t, h, v] => some <| (do
      let t ← decDTactic t
      let h ← decOptShape h
      let v ← decShape v
      pure (match shapeForTactic t h v with
        | some s => encShapeC s
        | none => "panic")).getD "?"
  | "lists.sl_formatting", [sh, t, st, tc, force] => some <| (do
      let sh ← decShape sh
      let t ← decDTactic t
      let st ← decIndentStyle st
      let tc ← decSepT tc
      let force ← decBool force
      let f := structLitFormatting sh t ⟨st, 4, 100, 18, false, tc⟩ force ⟨false, 4, 100, 80⟩ false
      pure (String.intercalate "|" [encDTactic f.tactic, encChars f.separator, encSepT f.trailingSeparator,
        (match f.separatorPlace with | .front => "f" | .back => "b"), encShapeC f.shape,
        encB f.endsWithNewline, encB f.preserveNewline, encB f.nested, encB f.alignComments])).getD "?"
  | "lists.itemize", [sep, term, ll, pre, src] => some <| (do
      let sep ← decChars sep
      let term ← decChars term
      let ll ← decBool ll
      let pre ← decChars pre
      let src ← decSrc src
      pure (match itemize sep term ll pre src with
        | some items => encItemsOut items
        | none => "panic")).getD "?"
  | "lists.comment_end", [post, sep, term, il] => some <| (do
      let post ← decChars post
      let sep ← decChars sep
      let term ← decChars term
      let il ← decBool il
      pure (match getCommentEnd post sep term il with
        | some n => toString n
        | none => "panic")).getD "?"
  | "lists.extract_post", [post, ce, sep, il] => some <| (do
      let post ← decChars post
      let ce ← ce.toNat?
      let sep ← decChars sep
      let il ← decBool il
      pure (match extractPostComment post ce sep il with
        | some r => encOptS r
        | none => "panic")).getD "?"
  | "lists.extract_pre", [pre] => some <| (do
      let pre ← decChars pre
      pure (match extractPreComment pre with
        | some (c, st) => encOptS c ++ ":" ++ encStyle st
        | none => "panic")).getD "?"
  | "lists.extra_newline", [post, ce] => some <| (do
      let post ← decChars post
      let ce ← ce.toNat?
      pure (match hasExtraNewline post ce with
        | some b => if b then "1" else "0"
        | none => "panic")).getD "?"
  | "lists.oracle.gaps", [term, pre, src, items] => some <| (do
      let term ← decChars term
      let pre ← decChars pre
      let src ← decSrc src
      let items ← decItems items
      pure (match firstBadGap term pre src items with
        | none => "ok"
        | some k => s!"bad:{k}")).getD "?"
  | "lists.tactic", [items, t, sep, w] => some <| (do
      let items ← decItems items
      let t ← decLTactic t
      let sep ← decSep sep
      let w ← w.toNat?
      pure (encDTactic (definitiveTactic items t sep w))).getD "?"
  | "lists.needs_trailing", [t, st, pl] => some <| (do
      let t ← decDTactic t
      let st ← decSepT st
      let pl ← decPlace pl
      let f : ListFormatting :=
        { ListFormatting.new (Shape.legacy 0 Indent.empty) ⟨false, 4, 100, 80⟩ false with
          tactic := t, trailingSeparator := st, separatorPlace := pl }
      pure (if f.needsTrailingSeparator then "1" else "0")).getD "?"
  | "lists.total_width", [items] => some <| (do
      let items ← decItems items
      let r := calculateWidth items
      pure s!"{r.1}:{r.2}").getD "?"
  | "lists.rc", [orig, b, a, ht, ts] => some <| (do
      let orig ← decChars orig
      let b ← b.toNat?
      let a ← a.toNat?
      let ht ← decBool ht
      let ts ← ts.toNat?
      pure (match rewriteCommentLight ⟨ht, ts, 100, 80⟩ orig false (Shape.legacy 0 ⟨b, a⟩) with
        | some r => encChars r
        | none => "err")).getD "?"
  | "lists.write", items :: fmt => some <| (do
      let items ← decItems items
      let f ← decFmt fmt
      pure (match writeList f (rewriteCommentLight f.config) items with
        | some r => encChars r
        | none => "err")).getD "?"
  | "lists.oracle.items", [items, out] => some <| (do
      let items ← decItems items
      let out ← decChars out
      pure (if occursInOrder (itemStrings items) out then "ok" else "bad")).getD "?"
  | "lists.oracle.comments", [items, out] => some <| (do
      let items ← decItems items
      let out ← decChars out
      pure (if occursInOrder (commentStrings items) (squeeze out) then "ok" else "bad")).getD "?"
  | "lists.oracle.content", items :: rest => some <| (do
      let items ← decItems items
      let out ← decChars (← rest.getLast?)
      let f ← decFmt rest.dropLast
      let want := contentSpec f items
      pure (if squeeze out = want then "ok" else "bad:" ++ encChars want)).getD "?"
  | _, _ => none

end RF.Driver.Lists
