/-!
# A small declarative specification of the lexical shapes that matter for comments

Written from the Rust reference ("Comments", "String literals", "Raw string literals", "Character
literals", "Lifetimes and loop labels"), independently of rustfmt's `CharClasses`.  A text is
described *generatively*: a list of tokens and the characters each token renders to.  Whether a
character belongs to a comment is then immediate (`commentFlags`).

`WF` collects the side conditions under which the token list is the lexer's reading of the rendered
text: a `/` that is code is not followed by `/` or `*`, a quote that is code (a lifetime or label)
is not the start of a character literal, the body of a raw string does not close it early, …  It
also excludes the shapes on which rustfmt's scanner is known to part from the lexer (a `"` inside
a block comment, a raw identifier `r#…`, an identifier ending in `r` right before a quote):
`RF/Props/C03.lean` proves `CharClasses` right on everything else, and wrong on those.

Import-free (linked into the native driver).
-/
namespace RF.LexSpec

/-- Inside a block comment: an ordinary character, a nested opener `/*` or a closer `*/`
(the last event of a comment is the closer that ends it). -/
inductive BEv where
  | ch (c : Char)
  | opn
  | cls
  deriving DecidableEq, Repr

/-- Inside a string literal: an ordinary character or a backslash escape `\c`. -/
inductive SItem where
  | ch (c : Char)
  | esc (c : Char)
  deriving DecidableEq, Repr

inductive Token where
  /-- one character of code (identifier, punctuation, white space, a lifetime's quote …) -/
  | code (c : Char)
  /-- `//body` followed by a newline (`nl = true`) or by the end of the text -/
  | lineComment (body : List Char) (nl : Bool)
  /-- `/*` then the events; well-nested, the last event closes the comment -/
  | blockComment (evs : List BEv)
  /-- `"items"` (a `b` or `c` prefix is a `code` token before it) -/
  | str (items : List SItem)
  /-- `r#…#"body"#…#` with `n` hashes (a `b` or `c` prefix is a `code` token before it) -/
  | rawStr (n : Nat) (body : List Char)
  /-- `'c'` -/
  | chr (c : Char)
  /-- `'\e…'`: an escape, then the characters up to the closing quote (`'\n'`, `'\u{41}'`, `'\''`) -/
  | chrEsc (e : Char) (more : List Char)
  deriving DecidableEq, Repr

def renderBEv : BEv → List Char
  | .ch c => [c]
  | .opn => ['/', '*']
  | .cls => ['*', '/']

def renderSItem : SItem → List Char
  | .ch c => [c]
  | .esc c => ['\\', c]

def hashes (n : Nat) : List Char := List.replicate n '#'

def renderTok : Token → List Char
  | .code c => [c]
  | .lineComment body nl => '/' :: '/' :: body ++ (if nl then ['\n'] else [])
  | .blockComment evs => '/' :: '*' :: evs.flatMap renderBEv
  | .str items => '"' :: items.flatMap renderSItem ++ ['"']
  | .rawStr n body => 'r' :: hashes n ++ '"' :: body ++ '"' :: hashes n
  | .chr c => ['\'', c, '\'']
  | .chrEsc e more => '\'' :: '\\' :: e :: more ++ ['\'']

def render (ts : List Token) : List Char := ts.flatMap renderTok

def isCommentTok : Token → Bool
  | .lineComment .. | .blockComment .. => true
  | _ => false

/-- One flag per rendered character: does it belong to a comment?  (The newline that ends a line
comment counts as part of it, as in rustfmt's "line comments contain their ending newlines".) -/
def commentFlags (ts : List Token) : List Bool :=
  ts.flatMap fun t => List.replicate (renderTok t).length (isCommentTok t)

/-! ## Well-formedness -/

/-- The events of a block comment opened at depth `d ≥ 1`: the depth reaches 0 exactly at the end;
no `"`; a `*` that is an ordinary character is not followed by `/`, a `/` not by `*` (they would
be a closer / an opener). `next` = the character rendered after the event. -/
def wfEvents : Nat → List BEv → Bool
  | _, [] => false
  | d, .cls :: rest => if rest.isEmpty then d == 1 else d > 1 && wfEvents (d - 1) rest
  | d, .opn :: rest => wfEvents (d + 1) rest
  | d, .ch c :: rest =>
    let next := (rest.flatMap renderBEv).head?
    c != '"' && !(c == '*' && next == some '/') && !(c == '/' && next == some '*') &&
      wfEvents d rest

def wfSItem : SItem → Bool
  | .ch c => c != '"' && c != '\\'
  | .esc _ => true

/-- `isSuffix s n`: the next `n` characters of `s` are all `#` (a raw string with `n` hashes
closes at a `"` followed by them). -/
def hashRun : List Char → Nat → Bool
  | _, 0 => true
  | c :: rest, n + 1 => c == '#' && hashRun rest n
  | [], _ + 1 => false

/-- No `"` of the body is followed by `n` hashes (looking into the real closer where needed). -/
def wfRawBody (n : Nat) : List Char → Bool
  | [] => true
  | c :: rest => !(c == '"' && hashRun (rest ++ '"' :: hashes n) n) && wfRawBody n rest

/-- A code character, given the text rendered after it. -/
def wfCode (c : Char) (after : List Char) : Bool :=
  c != '"' &&
  (c != '/' || !(after.head? == some '/' || after.head? == some '*')) &&
  (c != 'r' || !(after.head? == some '#' || after.head? == some '"')) &&
  (c != '\'' ||
    (match after with
     | c1 :: c2 :: _ => c1 != '\\' && c2 != '\''
     | [c1] => c1 != '\\'
     | [] => true))

def wfTok (t : Token) (after : List Char) : Bool :=
  match t with
  | .code c => wfCode c after
  | .lineComment body nl => body.all (· != '\n') && (nl || after.isEmpty)
  | .blockComment evs => wfEvents 1 evs
  | .str items => items.all wfSItem
  | .rawStr n body => wfRawBody n body
  | .chr c => c != '\\' && c != '\''
  | .chrEsc _ more => more.all fun c => c != '\\' && c != '\''

def WF : List Token → Bool
  | [] => true
  | t :: ts => wfTok t (render ts) && WF ts

/-! ## Reading the pieces of a token's text (used by the driver to turn the tokens of
`rustc_lexer` into `Token`s) -/

/-- The events of the text after `/*`. -/
def scanEvents : List Char → List BEv
  | '/' :: '*' :: rest => .opn :: scanEvents rest
  | '*' :: '/' :: rest => .cls :: scanEvents rest
  | c :: rest => .ch c :: scanEvents rest
  | [] => []

/-- The items of the text between the quotes of a string literal. -/
def scanItems : List Char → List SItem
  | '\\' :: c :: rest => .esc c :: scanItems rest
  | c :: rest => .ch c :: scanItems rest
  | [] => []

end RF.LexSpec
