import RF.Lemmas.MacroFmt
/-!
# C01 inside macro definitions and macro calls: the token-stream scanners of `macros.rs`

Theorems about `RF/Model/MacroFmt.lean` (tied to the code by `rfverif macros`, which runs the real
functions through `verif_hooks::macros` on the same inputs).  For ALL token streams / texts:

* `matcher_tokens_preserved`   the matcher formatter (`format_macro_args` with
  `format_macro_matchers`) either gives up — the definition is then left as written — or returns a
  text that consists of exactly the tokens of the matcher, in order, and white space.
* `replaceNames_roundtrip_partial` / `_counterexample`   substituting `$name` → `zname` and undoing it
  by textual replacement gives back the text up to white space behind a `$`, in every order of the
  `HashMap`, PROVIDED `z ++ name` occurs in the substituted text only where a metavariable was
  renamed.  The guard of the code (`old_body.contains(new)`) is weaker: the counterexample shows a
  body on which the result depends on the iteration order (known finding MAC-UNDO-ORDER).
* `branches_partition`   `MacroParser::parse` cuts the body of a definition into branches whose
  trees, put end to end, are the body.
* `delimiter_rule_exact`   a macro call is emitted with its own delimiter, except `vec!` outside
  another macro call, which gets brackets.
* `trailing_separator_preserved_in_macro_calls`   the list writer is told `Always` / `Never`
  according to the trailing comma found in the source, except for `vec!` outside another macro call
  under block indent (`Vertical`); and `parse_macro_args` finds the trailing comma exactly when the
  argument stream ends with one.
-/
namespace RF.MacroFmt
open RF.Shape

/-! ## 1. Matchers -/

/-- **C01 for macro matchers.**  For every configuration, shape and token stream of real tokens:
if the matcher formatter returns a text, erasing the white space from it leaves exactly the tokens
of the matcher, in order (`none` / `Err` = the definition is left as written). -/
theorem matcher_tokens_preserved (config : Config) (shape : Shape) (ts : List TT)
    (hok : okList ts = true) :
    match formatMatcher config shape ts with
    | some (.ok ps) => toks ps = flatList ts
    | _ => True := by
  unfold formatMatcher
  cases hp : parseMatcher ts with
  | none => trivial
  | some args =>
    simp only
    cases hw : wrapMacroArgs config shape args with
    | error e => trivial
    | ok ps =>
      simp only
      rw [wrapMacroArgs_toks hw, parse_toks hok hp]

/-- **Nothing but white space is added.**  The pieces of the returned text that are not tokens of
the matcher consist of blanks, line feeds and tabs only (so "erasing the white space" in
`matcher_tokens_preserved` erases nothing else). -/
theorem matcher_adds_only_whitespace (config : Config) (shape : Shape) (ts : List TT) :
    match formatMatcher config shape ts with
    | some (.ok ps) => ∀ cs, Piece.ws cs ∈ ps → ∀ c ∈ cs, c = ' ' ∨ c = '\n' ∨ c = '\t'
    | _ => True := by
  unfold formatMatcher
  cases hp : parseMatcher ts with
  | none => trivial
  | some args =>
    simp only
    cases hw : wrapMacroArgs config shape args with
    | error e => trivial
    | ok ps =>
      simp only
      exact wrapMacroArgs_ws (parse_ws hp) hw

/-- The text is the pieces one after the other: tokens as `pprust` prints them, and white space. -/
theorem render_is_concatenation (ps qs : List Piece) : render (ps ++ qs) = render ps ++ render qs :=
  render_append ps qs

/-- The parser alone: the parsed arguments stand for exactly the tokens of the stream. -/
theorem parser_tokens_preserved (ts : List TT) (args : List Arg) (hok : okList ts = true)
    (h : parseMatcher ts = some args) : argsToks args = flatList ts := parse_toks hok h

/-- The rewrite alone, for ANY argument list (parser-built or not), in both layouts. -/
theorem rewrite_tokens_preserved (config : Config) (shape : Shape) (args : List Arg)
    (ps : List Piece) (h : wrapMacroArgs config shape args = .ok ps) : toks ps = argsToks args :=
  wrapMacroArgs_toks h

private def tk (k : Kind) (s : String) : TT := .tok ⟨k, s.toList⟩
/-- `($($k:expr => $v:expr),+ $(,)?)` -/
private def exMatcher : List TT :=
  [.delim .paren
    [tk .Dollar "$", .delim .paren [tk .Dollar "$", tk .Ident "k", tk .Colon ":", tk .Ident "expr",
        tk .FatArrow "=>", tk .Dollar "$", tk .Ident "v", tk .Colon ":", tk .Ident "expr"],
      tk .Comma ",", tk .Plus "+", tk .Dollar "$", .delim .paren [tk .Comma ","], tk .Question "?"]]

/-- Non-vacuity: a real matcher is formatted, on one line at width 95 … -/
example : (formatMatcher ⟨false, 4, 100, 80⟩ ⟨95, ⟨0, 0⟩, 0⟩ exMatcher).map
    (fun r => match r with | .ok ps => render ps | _ => []) =
    some "($($k:expr => $v:expr),+ $(,)?)".toList := by decide +kernel
/-- … and over several lines at width 10, and the hypothesis of the theorem holds for it. -/
example : (formatMatcher ⟨false, 4, 100, 80⟩ ⟨10, ⟨8, 0⟩, 0⟩ exMatcher).map
    (fun r => match r with | .ok ps => render ps | _ => []) =
    some "(\n            $($k:expr => $v:expr),+ $(,)?\n        )".toList := by decide +kernel
example : okList exMatcher = true := by decide
/-- What the parser refuses since the repairs (each used to lose, add or merge a token):
`$crate`, `$$`, a repetition without operator, a separator of two tokens, `/` in front of `*`,
a raw fragment specifier, a doc comment. -/
example : parseMatcher [tk .Dollar "$", tk .Ident "crate"] = none := by decide
example : parseMatcher [tk .Dollar "$", tk .Dollar "$", tk .Ident "a"] = none := by decide
example : parseMatcher [tk .Dollar "$", .delim .paren [tk .Ident "a"]] = none := by decide
example : parseMatcher [tk .Dollar "$", .delim .paren [], tk .Ident "a", tk .Ident "b", tk .Star "*"] = none := by
  decide
example : parseMatcher [tk .Dollar "$", .delim .paren [], tk .Slash "/", tk .Star "*"] = none := by decide
example : parseMatcher [tk .Dollar "$", tk .Ident "a", tk .Colon ":", tk .IdentRaw "r#expr"] = none := by decide
example : parseMatcher [tk .DocCommentLine "/// d", tk .Ident "a"] = none := by decide

/-! ## 2. `replace_names` and its undoing -/

/-- `replace_names` copies every character except white space between a `$` and its name: the
text it returns, read with `$` for each renamed metavariable, is the input up to white space. -/
theorem replaceNames_only_drops_whitespace (input r : List Char) (substs : List Subst)
    (h : replaceNames input = some (r, substs)) :
    r = flatZ (segsOf input) ∧
    (flatS (segsOf input)).filter (fun c => !RF.Comment.isWs c) = input.filter (fun c => !RF.Comment.isWs c) := by
  obtain ⟨h1, h2, _, _⟩ := replaceNames_segs h
  exact ⟨h1, h2.symm⟩

/-- **Substitute, then substitute back.**  If `z ++ name` occurs in the substituted text only
where a metavariable was renamed (`noSpurious`), then the undoing loop of `MacroBranch::rewrite`,
run on the substituted text in ANY order that visits every entry of the map, returns the input with
each metavariable as `$name` — the input up to white space behind a `$`. -/
theorem replaceNames_roundtrip_partial (input r out : List Char) (substs order : List Subst)
    (h : replaceNames input = some (r, substs)) (hsafe : noSpurious input = true)
    (hall : ∀ e, e ∈ order ↔ e ∈ substs) (hu : undo input order r = some out) :
    out = flatS (segsOf input) ∧
    out.filter (fun c => !RF.Comment.isWs c) = input.filter (fun c => !RF.Comment.isWs c) := by
  obtain ⟨h1, h2, h3, h4⟩ := replaceNames_segs h
  unfold noSpurious at hsafe
  simp only [Bool.and_eq_true, List.all_eq_true] at hsafe
  obtain ⟨hs, hv⟩ := hsafe
  have hvar : ∀ (segs : List Seg) k m, Seg.var k m ∈ segs → m ∈ varNames segs := by
    intro segs
    induction segs with
    | nil => intro k m hm; cases hm
    | cons x xs ih =>
      intro k m hm
      cases x with
      | lit c =>
        simp only [varNames]
        rcases List.mem_cons.mp hm with h | h
        · cases h
        · exact ih k m h
      | var k' m' =>
        simp only [varNames]
        rcases List.mem_cons.mp hm with h | h
        · injection h with _ h; subst h; exact List.mem_cons_self
        · exact List.mem_cons_of_mem _ (ih k m h)
  have hone : ∀ (segs : List Seg), singles segs = true → ∀ k m, Seg.var k m ∈ segs → k = 1 := by
    intro segs
    induction segs with
    | nil => intro _ k m hm; cases hm
    | cons x xs ih =>
      intro hsx k m hm
      cases x with
      | lit c =>
        simp only [singles] at hsx
        rcases List.mem_cons.mp hm with h | h
        · cases h
        · exact ih hsx k m h
      | var k' m' =>
        simp only [singles, Bool.and_eq_true, beq_iff_eq] at hsx
        rcases List.mem_cons.mp hm with h | h
        · injection h with h _; subst h; exact hsx.1
        · exact ih hsx.2 k m h
  have hord : ∀ e ∈ order, e.dollars = 1 ∧ '$' ∉ e.name ∧ safeFor e.name (segsOf input) = true := by
    intro e he
    have hes := (hall e).mp he
    obtain ⟨hd, hseg⟩ := h4 e hes
    exact ⟨hone _ hs _ _ hseg, hd, hv _ (hvar _ _ _ hseg)⟩
  rw [h1] at hu
  have hout := undo_fold input (segsOf input) hs order (fun _ => false) out hord hu
  have hfin : out = flatS (segsOf input) := by
    rw [hout]
    apply flatD_congr
    intro k m hm
    have hk := hone _ hs _ _ hm
    subst hk
    have : (⟨1, m⟩ : Subst) ∈ order := (hall _).mpr (h3 1 m hm)
    simp only [Bool.false_or, List.any_eq_true]
    exact ⟨⟨1, m⟩, this, isPrefix_self m⟩
  exact ⟨hfin, by rw [hfin]; exact h2.symm⟩

/-- Non-vacuity: two metavariables, one a prefix of the other, an identifier that starts with `z`;
the hypothesis holds and both orders of the map give the input back. -/
example : noSpurious "f($x, $xs, zeta + $x)".toList = true := by decide
example : roundtrip "f($x, $xs, zeta + $x)".toList [0, 1] = some "f($x, $xs, zeta + $x)".toList := by decide
example : roundtrip "f($x, $xs, zeta + $x)".toList [1, 0] = some "f($x, $xs, zeta + $x)".toList := by decide
/-- White space behind the `$` is the only thing that goes. -/
example : roundtrip "$ a + $  $ b".toList [0, 1] = some "$a + $$b".toList := by decide

/-- **The guard of the code is not enough.**  `zb` written directly in front of `$ab`, next to a
second metavariable `$bza`: the substituted text `zbzab …` holds `z ++ "bza"` where nothing was
renamed.  The guard `old_body.contains(new)` passes (the body contains neither `zab` nor `zbza`),
and the result depends on the order in which the `HashMap` is walked: one order returns the body,
the other turns the identifier `zb` into the metavariable `$b`. -/
theorem replaceNames_roundtrip_counterexample :
    roundtrip "zb$ab $bza".toList [0, 1] = some "zb$ab $bza".toList ∧
    roundtrip "zb$ab $bza".toList [1, 0] = some "$b$ab $bza".toList ∧
    noSpurious "zb$ab $bza".toList = false := by decide

/-- What `replace_names` refuses since the repair (each used to drop, merge or move tokens). -/
example : replaceNames "$a$b".toList = none := by decide
example : replaceNames "$ + b".toList = none := by decide
example : replaceNames "$a; $".toList = none := by decide
example : replaceNames "$ \"s\" a".toList = none := by decide
example : replaceNames "$(x)*".toList = none := by decide
/-- A name that already starts with `z`, a collision the guard sees (`bail`), `$crate`, `$x:ty`. -/
example : roundtrip "$zed + $z".toList [0, 1] = some "$zed + $z".toList := by decide
example : roundtrip "let zfoo = $foo;".toList [0] = none := by decide
example : roundtrip "$crate::f($x:ty)".toList [1, 0] = some "$crate::f($x:ty)".toList := by decide

/-! ## 3. Branches -/

/-- One branch: the trees taken are the branch, the rest is shorter, the arrow is `=>`, the
separator a `;`. -/
theorem parseBranch_spec (ts rest : List TT) (b : Branch) (h : parseBranch ts = some (b, rest)) :
    ts = b.trees ++ rest ∧ rest.length < ts.length ∧ b.arrow.kind = .FatArrow ∧
    (∀ s, b.semi = some s → s.kind = .Semi) := by
  match ts, h with
  | .delim d args :: .tok arrow :: .delim bd body :: tl, h =>
    simp only [parseBranch] at h
    split at h
    · rename_i ha
      have ha' : arrow.kind = .FatArrow := by simpa using ha
      split at h
      · rename_i semi rest'
        split at h
        · rename_i hs
          simp at h
          obtain ⟨rfl, rfl⟩ := h
          refine ⟨by simp [Branch.trees], by simp; omega, ha', ?_⟩
          intro s hs'
          simp at hs'
          subst hs'
          simpa using hs
        · simp at h
          obtain ⟨rfl, rfl⟩ := h
          exact ⟨by simp [Branch.trees], by simp, ha', by simp⟩
      · simp at h
        obtain ⟨rfl, rfl⟩ := h
        exact ⟨by simp [Branch.trees], by simp; omega, ha', by simp⟩
    · cases h

theorem parseBranchesGo_partition : ∀ (fuel : Nat) (ts : List TT) (bs : List Branch),
    parseBranchesGo fuel ts = some bs → bs.flatMap Branch.trees = ts
  | 0, [], bs, h => by simp [parseBranchesGo] at h; subst h; rfl
  | _ + 1, [], bs, h => by simp [parseBranchesGo] at h; subst h; rfl
  | 0, _ :: _, bs, h => by simp [parseBranchesGo] at h
  | fuel + 1, t :: rest, bs, h => by
    simp only [parseBranchesGo] at h
    split at h
    · cases h
    · rename_i b rest' hb
      cases hr : parseBranchesGo fuel rest' with
      | none => simp [hr] at h
      | some bs' =>
        simp [hr] at h
        subst h
        have h1 := (parseBranch_spec _ _ _ hb).1
        have h2 := parseBranchesGo_partition fuel rest' bs' hr
        simp [h2, h1]

/-- **Splitting and re-joining keeps every token.**  The branches `MacroParser::parse` returns,
each as `(matcher) => {body}` with its optional `;`, put end to end, are the trees of the body. -/
theorem branches_partition (ts : List TT) (bs : List Branch) (h : parseBranches ts = some bs) :
    bs.flatMap Branch.trees = ts := parseBranchesGo_partition _ ts bs h

/-- Each branch is `delimited => delimited` and the separator, where present, is a `;`. -/
theorem branches_shape : ∀ (fuel : Nat) (ts : List TT) (bs : List Branch),
    parseBranchesGo fuel ts = some bs →
    ∀ b ∈ bs, b.arrow.kind = .FatArrow ∧ (∀ s, b.semi = some s → s.kind = .Semi)
  | 0, [], bs, h => by simp [parseBranchesGo] at h; subst h; simp
  | _ + 1, [], bs, h => by simp [parseBranchesGo] at h; subst h; simp
  | 0, _ :: _, bs, h => by simp [parseBranchesGo] at h
  | fuel + 1, t :: rest, bs, h => by
    simp only [parseBranchesGo] at h
    split at h
    · cases h
    · rename_i b rest' hb
      cases hr : parseBranchesGo fuel rest' with
      | none => simp [hr] at h
      | some bs' =>
        simp [hr] at h
        subst h
        intro x hx
        rcases List.mem_cons.mp hx with rfl | hx
        · exact (parseBranch_spec _ _ _ hb).2.2
        · exact branches_shape fuel rest' bs' hr x hx

/-- Fuel: more fuel never changes an answer … -/
theorem parseBranchesGo_fuel : ∀ (fuel : Nat) (ts : List TT) (bs : List Branch),
    parseBranchesGo fuel ts = some bs → ∀ k, parseBranchesGo (fuel + k) ts = some bs
  | 0, [], bs, h, k => by
    simp [parseBranchesGo] at h; subst h
    cases k <;> simp [parseBranchesGo]
  | n + 1, [], bs, h, k => by
    simp [parseBranchesGo] at h; subst h
    rw [show n + 1 + k = (n + k) + 1 by omega]
    simp [parseBranchesGo]
  | 0, _ :: _, bs, h, _ => by simp [parseBranchesGo] at h
  | fuel + 1, t :: rest, bs, h, k => by
    rw [show fuel + 1 + k = (fuel + k) + 1 by omega]
    simp only [parseBranchesGo] at h ⊢
    split at h
    · cases h
    · rename_i b rest' hb
      cases hr : parseBranchesGo fuel rest' with
      | none => simp [hr] at h
      | some bs' =>
        simp [hr] at h
        subst h
        simp [parseBranchesGo_fuel fuel rest' bs' hr k]

/-- … and the number of trees is enough: with that much fuel the loop never stops for lack of it
(it answers `none` only where `parse_branch` does). -/
theorem parseBranchesGo_enough : ∀ (fuel : Nat) (ts : List TT), ts.length ≤ fuel →
    parseBranchesGo fuel ts = none → ∃ pre rest, ts = pre ++ rest ∧ rest ≠ [] ∧ parseBranch rest = none
  | 0, [], _, h => by simp [parseBranchesGo] at h
  | _ + 1, [], _, h => by simp [parseBranchesGo] at h
  | 0, _ :: _, hl, _ => by simp at hl
  | fuel + 1, t :: rest, hl, h => by
    simp only [parseBranchesGo] at h
    split at h
    · rename_i hb
      exact ⟨[], t :: rest, rfl, by simp, hb⟩
    · rename_i b rest' hb
      obtain ⟨h1, h2, _⟩ := parseBranch_spec _ _ _ hb
      cases hr : parseBranchesGo fuel rest' with
      | some bs' => simp [hr] at h
      | none =>
        have hlen : rest'.length ≤ fuel := by simp at hl h2; omega
        obtain ⟨pre, r, e1, e2, e3⟩ := parseBranchesGo_enough fuel rest' hlen hr
        exact ⟨b.trees ++ pre, r, by rw [h1, e1]; simp, e2, e3⟩

private def exBody : List TT :=
  [.delim .paren [tk .Ident "a"], tk .FatArrow "=>", .delim .brace [tk .Ident "b"], tk .Semi ";",
   .delim .bracket [], tk .FatArrow "=>", .delim .paren []]
/-- Non-vacuity: two branches, the `;` behind the last one missing. -/
example : (parseBranches exBody).map (·.length) = some 2 := by decide
example : (parseBranches exBody).map (·.flatMap Branch.trees |>.length) = some 7 := by decide
/-- A `,` between branches (declarative macros 2.0) is not understood: the definition is left as written. -/
example : (parseBranches [.delim .paren [], tk .FatArrow "=>", .delim .brace [], tk .Comma ","]).isNone = true := by
  decide

/-! ## 4. Macro calls: delimiter, `;`, trailing separator -/

/-- **Which delimiter is emitted.**  A call keeps its delimiter (or its whole text, when the
arguments do not parse); only `vec!` — by that exact name — outside another macro call changes, and
then to brackets. -/
theorem delimiter_rule_exact (macroName : List Char) (nested : Bool) (original : Delim)
    (position : Position) (tsEmpty hasComment block : Bool) (parsed : Option ParsedArgs) :
    ((callPlan macroName nested original position tsEmpty hasComment block parsed).delim = none ∨
      (callPlan macroName nested original position tsEmpty hasComment block parsed).delim =
        some (chosenStyle macroName nested original)) ∧
    (chosenStyle macroName nested original =
      if macroName = "vec!".toList ∧ nested = false then .bracket else original) := by
  constructor
  · unfold callPlan
    simp only
    generalize chosenStyle macroName nested original = st
    cases st <;> cases parsed <;> simp only [] <;> (repeat' split) <;> simp [Plan.delim]
  · unfold chosenStyle isForcedBracket
    by_cases h1 : macroName = "vec!".toList <;> cases nested <;> simp [h1]

/-- The delimiter changes only for `vec!` outside a macro call, and then to brackets. -/
theorem delimiter_changes_only_for_vec (macroName : List Char) (nested : Bool) (original : Delim)
    (position : Position) (tsEmpty hasComment block : Bool) (parsed : Option ParsedArgs) (d : Delim)
    (h : (callPlan macroName nested original position tsEmpty hasComment block parsed).delim = some d)
    (hd : d ≠ original) : macroName = "vec!".toList ∧ nested = false ∧ d = .bracket := by
  have ⟨h1, h2⟩ := delimiter_rule_exact macroName nested original position tsEmpty hasComment block parsed
  rcases h1 with h1 | h1
  · rw [h1] at h; cases h
  · rw [h1] at h
    injection h with h
    rw [h2] at h
    split at h
    · rename_i hc
      exact ⟨hc.1, hc.2, h.symm⟩
    · exact absurd h.symm hd

example : (callPlan "vec!".toList false .paren .expression false false true (some ⟨false, false, [false, false]⟩)).delim
    = some .bracket := by decide
example : (callPlan "vec!".toList true .paren .expression false false true (some ⟨false, false, [false, false]⟩)).delim
    = some .paren := by decide
example : (callPlan "my::vec!".toList false .brace .item false false true (some {})).delim = some .brace := by decide
example : macroStyle "foo! /* ( */ [a(b)]".toList = .bracket := by decide

/-- In item position (module level, `impl` / `trait` bodies, `extern` blocks) a call written with
`()` or `[]` keeps its `;`: `handle_vec_semi` and the block-like fallback do not add it, the caller
does (for `extern` blocks only since the repair). -/
theorem item_call_keeps_semicolon (original : Delim) (rw : List Char) (h : original ≠ .brace) :
    (finishItemCall original rw).getLast? = some ';' := by
  unfold finishItemCall
  cases original with
  | brace => exact absurd rfl h
  | paren =>
    simp only
    split
    · rename_i hl; simpa using hl
    · simp
  | bracket =>
    simp only
    split
    · rename_i hl; simpa using hl
    · simp

/-- **Trailing separators of macro calls are kept.**  Whenever a list is written, the tactic is
`Always` when the call ended with a comma and `Never` when it did not; the one exception is `vec!`
outside another macro call under block indent, which is written like an array literal (`Vertical`). -/
theorem trailing_separator_preserved_in_macro_calls (macroName : List Char) (nested : Bool)
    (original : Delim) (position : Position) (tsEmpty hasComment block : Bool) (p : ParsedArgs)
    (t : Tactic)
    (h : (callPlan macroName nested original position tsEmpty hasComment block (some p)).tactic = some t) :
    if isForcedBracket macroName && !nested && block then t = .vertical
    else t = (if p.trailingComma then .always else .never) := by
  unfold callPlan at h
  simp only at h
  split at h
  · split at h <;> simp [Plan.tactic] at h
  · split at h
    · simp [Plan.tactic] at h
    · rename_i hch
      generalize hst : chosenStyle macroName nested original = st at h
      cases st with
      | paren =>
        simp only at h
        split at h
        · simp [Plan.tactic] at h
        · simp only [Plan.tactic, Option.some.injEq] at h
          have hf : (isForcedBracket macroName && !nested) = false := by
            unfold chosenStyle at hst
            split at hst
            · cases hst
            · rename_i hc; simpa using hc
          simp [hf, ← h]
      | bracket =>
        simp only at h
        split at h
        · simp [Plan.tactic] at h
        · split at h
          · rename_i hc
            simp only [Plan.tactic, Option.some.injEq] at h
            simp only [hc, Bool.true_and]
            cases block <;> simp_all
          · rename_i hc
            simp only [Plan.tactic, Option.some.injEq] at h
            have : (isForcedBracket macroName && !nested) = false := by simpa using hc
            simp [this, ← h]
      | brace => simp [Plan.tactic] at h

/-- Fuel-free reading of `parse_macro_args`: the flag is set exactly when the stream ends with a
comma, and then the other flag is not; every argument of the stream is in `args`, in order. -/
def elemArgs : List Elem → List Bool
  | [] => []
  | .arg it :: rest => it :: elemArgs rest
  | _ :: rest => elemArgs rest

theorem parseArgsGo_spec (forced : Bool) : ∀ (fuel : Nat) (acc : List Bool) (es : List Elem) (p : ParsedArgs),
    parseArgsGo forced fuel acc es = some p →
    p.args = acc ++ elemArgs es ∧ (p.trailingComma = true ↔ es.getLast? = some .comma) ∧
    (p.trailingComma = true → p.vecWithSemi = false)
  | 0, _, _, _, h => by simp [parseArgsGo] at h
  | fuel + 1, acc, [], p, h => by simp [parseArgsGo] at h
  | fuel + 1, acc, .comma :: _, p, h => by simp [parseArgsGo] at h
  | fuel + 1, acc, .semi :: _, p, h => by simp [parseArgsGo] at h
  | fuel + 1, acc, .other :: _, p, h => by simp [parseArgsGo] at h
  | fuel + 1, acc, .arg it :: rest, p, h => by
    unfold parseArgsGo at h
    simp only at h
    cases rest with
    | nil =>
      simp at h
      subst h
      simp [elemArgs]
    | cons e rest' =>
      cases e with
      | comma =>
        simp only at h
        split at h
        · rename_i hemp
          simp at hemp
          subst hemp
          simp at h
          subst h
          simp [elemArgs]
        · rename_i hne
          obtain ⟨h1, h2, h3⟩ := parseArgsGo_spec forced fuel _ rest' p h
          refine ⟨by simp [h1, elemArgs], ?_, h3⟩
          rw [h2]
          cases rest' with
          | nil => simp at hne
          | cons x xs => simp [List.getLast?_cons_cons]
      | semi =>
        simp only at h
        split at h
        · split at h
          · split at h
            · simp at h
              subst h
              simp [elemArgs]
            · cases h
          · cases h
        · cases h
      | arg it2 =>
        simp only at h
        split at h
        · obtain ⟨h1, h2, h3⟩ := parseArgsGo_spec forced fuel _ _ p h
          refine ⟨by simp [h1, elemArgs], ?_, h3⟩
          rw [h2]
          simp [List.getLast?_cons_cons]
        · cases h
      | other =>
        simp only at h
        split at h
        · obtain ⟨h1, h2, h3⟩ := parseArgsGo_spec forced fuel _ _ p h
          refine ⟨by simp [h1, elemArgs], ?_, h3⟩
          rw [h2]
          simp [List.getLast?_cons_cons]
        · cases h

/-- **`parse_macro_args` sees the trailing comma exactly, and drops no argument.** -/
theorem parseMacroArgs_trailing_comma_exact (style : Delim) (forced : Bool) (es : List Elem)
    (p : ParsedArgs) (hs : style ≠ .brace) (h : parseMacroArgs style forced es = some p) :
    p.args = elemArgs es ∧ (p.trailingComma = true ↔ es.getLast? = some .comma) ∧
    (p.trailingComma = true → p.vecWithSemi = false) := by
  unfold parseMacroArgs at h
  have : (style == Delim.brace) = false := by simpa using hs
  simp only [this, Bool.false_eq_true, ite_false] at h
  simpa using parseArgsGo_spec forced _ [] es p h

example : parseMacroArgs .paren false [.arg false, .comma, .arg false, .comma] = some ⟨false, true, [false, false]⟩ := by
  decide
example : parseMacroArgs .bracket true [.arg false, .semi, .arg false] = some ⟨true, false, [false, false]⟩ := by decide
/-- `vec![a; b c]`: the token behind the second argument is looked at (it used to be skipped). -/
example : parseMacroArgs .bracket true [.arg false, .semi, .arg false, .other] = none := by decide
example : (callPlan "foo!".toList false .paren .statement false false true (some ⟨false, true, [false]⟩)).tactic
    = some .always := by decide
example : (callPlan "vec!".toList false .paren .statement false false true (some ⟨false, false, [false]⟩)).tactic
    = some .vertical := by decide

end RF.MacroFmt
