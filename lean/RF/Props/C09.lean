import RF.Gen.Gates

/-!
# C09  Released style editions are frozen — the gate discipline

`RF.Gen.Gates` is regenerated from /repo on every run: `gates` is every comparison
`<style edition> op StyleEdition::EditionNNNN` in the formatting code (the translator refuses when the
style edition is observed in any other way), `defaults` the per-edition default table, `armOf` the arm of
the defaults macro each edition takes; `pinned*` are the same data at the audited commit.

What these theorems establish: the formatting code cannot tell 2015, 2018 and 2021 apart (every gate
and every default is constant on them), and the set of gates that distinguish released editions, and the
default table released editions see, are exactly those of the audited commit.  What they do not
establish: that an *ungated* change of layout did not happen — that half of C09 is the differential search
against the frozen binary.
-/
namespace RF.Props.C09
open RF.Gates RF.Gen.Gates

/-- The order of editions is linear: 2015 < 2018 < 2021 < 2024 < 2027. -/
theorem order_total : ∀ a b : StyleEdition, a.rank ≤ b.rank ∨ b.rank ≤ a.rank := by
  intro a b; omega

theorem rank_injective : ∀ a b : StyleEdition, a.rank = b.rank → a = b := by
  intro a b; cases a <;> cases b <;> simp [StyleEdition.rank]

/-- Every gate of the current tree has the same truth value under 2015, 2018 and 2021. -/
theorem gates_const_2015_2018_2021 :
    ∀ g ∈ gates, g.eval .e2015 = g.eval .e2018 ∧ g.eval .e2018 = g.eval .e2021 := by
  decide +kernel

/-- Every default is the same under 2015, 2018 and 2021. -/
theorem defaults_const_2015_2018_2021 :
    ∀ r ∈ defaults, defaultOf armOf r .e2015 = defaultOf armOf r .e2018 ∧
      defaultOf armOf r .e2018 = defaultOf armOf r .e2021 := by
  decide +kernel

/-- The gates that distinguish released editions are, file by file and with multiplicity, those of the
audited commit (a new distinguishing gate, a removed one, or a moved boundary breaks this; a gate on
an unreleased edition such as `>= Edition2027` does not). -/
theorem gates_frozen : frozenOK gates pinnedGates = true := by
  decide +kernel

/-- The default every released edition gets, option by option, is the audited one. -/
theorem defaults_frozen :
    ∀ e ∈ StyleEdition.released,
      defaults.map (fun r => (r.1, defaultOf armOf r e)) =
      pinnedDefaults.map (fun r => (r.1, defaultOf armOf r e)) := by
  decide +kernel

/-- Parametricity: a formatter that observes the style edition only through the gates and the defaults
cannot distinguish two editions on which all gates and defaults agree. -/
theorem indistinguishable {Out : Type} (fmt : (List Bool) → (List (List Nat)) → Out)
    (e1 e2 : StyleEdition)
    (hg : gates.map (·.eval e1) = gates.map (·.eval e2))
    (hd : defaults.map (defaultOf armOf · e1) = defaults.map (defaultOf armOf · e2)) :
    fmt (gates.map (·.eval e1)) (defaults.map (defaultOf armOf · e1)) =
    fmt (gates.map (·.eval e2)) (defaults.map (defaultOf armOf · e2)) := by
  rw [hg, hd]

/-- …hence 2015, 2018 and 2021 produce the same output for such a formatter. -/
theorem editions_2015_2018_2021_same {Out : Type} (fmt : (List Bool) → (List (List Nat)) → Out) :
    fmt (gates.map (·.eval .e2015)) (defaults.map (defaultOf armOf · .e2015)) =
      fmt (gates.map (·.eval .e2018)) (defaults.map (defaultOf armOf · .e2018)) ∧
    fmt (gates.map (·.eval .e2018)) (defaults.map (defaultOf armOf · .e2018)) =
      fmt (gates.map (·.eval .e2021)) (defaults.map (defaultOf armOf · .e2021)) := by
  constructor
  · apply indistinguishable <;> decide +kernel
  · apply indistinguishable <;> decide +kernel

/-! Non-vacuity and sensitivity: the gate list is not empty, some gate does distinguish 2021 from 2024,
and `frozenOK` rejects a moved boundary. -/
example : gates.length > 30 := by decide +kernel
example : ∃ g ∈ gates, g.eval .e2021 ≠ g.eval .e2024 := by decide +kernel
example : frozenOK [⟨0, .le, .e2018⟩] [⟨0, .le, .e2021⟩] = false := by decide
example : frozenOK [⟨0, .ge, .e2027⟩, ⟨1, .le, .e2021⟩] [⟨1, .le, .e2021⟩] = true := by decide

end RF.Props.C09
