import RF.Lemmas.FormatDiff

/-!
# C19  format-diff turns a patch into exactly the lines it added

Theorems about `RF.FormatDiff`: the model of `scan_diff`'s two regular expressions (with the
`regex` crate's Unicode `\s`, `\d` and leftmost-first preference), of the `scan_diff` loop, and of
`run_rustfmt` / `main`; compared with `spec`, a reader of unified diffs that follows the hunk
line counts and never looks at a hunk body line as a header.

Quantification: every list of lines (over all of Unicode), every `-p` value `skip`, every filter
predicate `accepts` (the user's pattern is run by the real engine; the model takes the resulting
predicate), both variants of the hunk pattern (`lazy = false`: the pinned tree's greedy
`^@@.*\+(\d+)(,(\d+))?`; `lazy = true`: the repair `^@@.*?\+…`), both build profiles
(`checked`: overflow checks on / off) and every behaviour of the spawned rustfmt.
-/
namespace RF.Props.C19
open RF.FormatDiff

private def L (s : String) : List Char := s.toList

/-- On every well-formed unified diff (`specWalk … = some evs`: hunk bodies have exactly the
announced numbers of old and new lines, every `@@` line outside a hunk is a strict hunk header,
every `+++ ` line has at least `skip` path components) in which
* (greedy pattern only) nothing after the post-image `+` of a hunk header looks like `+digit`,
* no hunk body line is matched by the header pattern (no added line starting `++ ` + enough `/`),
* every post-image `start + count` is below 2^32,
`scan_diff` does not panic and returns exactly the ranges of the specification, in order. -/
theorem scan_eq_spec_partial (cfg : Cfg) (lines : List (List Char))
    (h : specHyp cfg.lazy cfg.skip lines = true) :
    ∃ out, spec cfg.skip cfg.accepts lines = some out ∧ scanDiff cfg lines = .ok out := by
  unfold specHyp at h
  split at h
  · rename_i evs hevs
    simp only [Bool.and_eq_true, Bool.or_eq_true] at h
    refine ⟨specRanges cfg.accepts none evs, by simp [spec, hevs], ?_⟩
    apply RF.Lemmas.FormatDiff.scanLoop_eq_spec cfg lines 0 0 none evs hevs _ h.1.2 h.2
    intro hl
    rcases h.1.1 with h' | h'
    · rw [hl] at h'; cases h'
    · exact h'
  · cases h

/-- A diff with two files, three hunks (one with a missing count, one pure deletion), context
lines, a `\ No newline` marker and git's extra header lines satisfies the hypotheses — for the
greedy pattern too — and yields three ranges. -/
private def sample : List (List Char) :=
  [L "diff --git a/src/x.rs b/src/x.rs", L "index 1..2 100644", L "--- a/src/x.rs",
   L "+++ b/src/x.rs", L "@@ -1,3 +1,4 @@ fn f() {", L " a", L "-b", L "+c", L "+d", L " e",
   L "@@ -10 +11,0 @@", L "-z", L "@@ -20,0 +21 @@ impl X", L "+y", L "\\ No newline at end of file",
   L "--- a/doc.md\t2024-01-01", L "+++ b/doc.md\t2024-01-02", L "@@ -0,0 +1,2 @@", L "+p", L "+q"]

example : specHyp false 1 sample = true := by decide
example : spec 1 (fun f => f != L "doc.md") sample =
    some [⟨L "src/x.rs", 1, 4⟩, ⟨L "src/x.rs", 21, 21⟩] := by decide
example : spec 1 (fun _ => true) sample =
    some [⟨L "src/x.rs", 1, 4⟩, ⟨L "src/x.rs", 21, 21⟩, ⟨L "doc.md", 1, 2⟩] := by decide

/-- With the repaired (lazy) pattern the section-text hypothesis is not needed: on every
well-formed diff without `++ ` body lines and with numbers in range, the repaired scanner equals
the specification. -/
theorem repaired_scan_eq_spec_partial (checked : Bool) (skip : Nat) (accepts : List Char → Bool)
    (lines : List (List Char)) (evs : List Ev)
    (hwf : specWalk skip 0 0 lines = some evs) (hbody : bodyClean skip evs = true)
    (hfit : fitsU32 evs = true) :
    spec skip accepts lines = some (specRanges accepts none evs) ∧
    scanDiff ⟨true, checked, skip, accepts⟩ lines = .ok (specRanges accepts none evs) :=
  ⟨by simp [spec, hwf],
   RF.Lemmas.FormatDiff.scanLoop_eq_spec ⟨true, checked, skip, accepts⟩ lines 0 0 none evs hwf
     (fun hl => by cases hl) hbody hfit⟩

example : specHyp true 1
    [L "+++ b/x.rs", L "@@ -1,3 +1,4 @@ fn f() { x +7 }", L " a", L "+b", L " c", L " d"] = true := by
  decide
example : specHyp false 1
    [L "+++ b/x.rs", L "@@ -1,3 +1,4 @@ fn f() { x +7 }", L " a", L "+b", L " c", L " d"] = false := by
  decide

/-- F10.  The greedy pattern takes the LAST `+digits` of a hunk header line: a section text that
contains `+7` makes `scan_diff` report line 7 instead of lines 1–4.  The line is a strict hunk
header and the diff is well formed; the specification says 1–4. -/
theorem greedy_counterexample :
    hunkMatch false (L "@@ -1,3 +1,4 @@ fn f() { x +7 }") = some (['7'], none) ∧
    scanDiff ⟨false, true, 1, fun _ => true⟩
      [L "+++ b/x.rs", L "@@ -1,3 +1,4 @@ fn f() { x +7 }", L " a", L "+b", L " c", L " d"]
      = .ok [⟨L "x.rs", 7, 7⟩] ∧
    spec 1 (fun _ => true)
      [L "+++ b/x.rs", L "@@ -1,3 +1,4 @@ fn f() { x +7 }", L " a", L "+b", L " c", L " d"]
      = some [⟨L "x.rs", 1, 4⟩] := by
  refine ⟨by decide, by rfl, by decide⟩

/-- … and the lazy variant gets that diff right. -/
theorem lazy_fixes_counterexample :
    hunkMatch true (L "@@ -1,3 +1,4 @@ fn f() { x +7 }") = some (['1'], some ['4']) ∧
    scanDiff ⟨true, true, 1, fun _ => true⟩
      [L "+++ b/x.rs", L "@@ -1,3 +1,4 @@ fn f() { x +7 }", L " a", L "+b", L " c", L " d"]
      = .ok [⟨L "x.rs", 1, 4⟩] := by
  refine ⟨by decide, by rfl⟩

/-- F15.  An added line whose text is `++ b/other.rs` reads `+++ b/other.rs` in the diff and is
taken for a file header: the next hunk of `x.rs` is attributed to `other.rs` (both variants of
the hunk pattern).  The specification, which counts the hunk's lines, keeps `x.rs`. -/
theorem plusplus_body_counterexample :
    (∀ lazy, scanDiff ⟨lazy, true, 1, fun _ => true⟩
      [L "+++ b/x.rs", L "@@ -1,2 +1,3 @@", L " a", L "+++ b/other.rs", L " c",
       L "@@ -10 +11,2 @@", L " d", L "+e"]
      = .ok [⟨L "x.rs", 1, 3⟩, ⟨L "other.rs", 11, 12⟩]) ∧
    spec 1 (fun _ => true)
      [L "+++ b/x.rs", L "@@ -1,2 +1,3 @@", L " a", L "+++ b/other.rs", L " c",
       L "@@ -10 +11,2 @@", L " d", L "+e"]
      = some [⟨L "x.rs", 1, 3⟩, ⟨L "x.rs", 11, 12⟩] := by
  refine ⟨fun lazy => by cases lazy <;> rfl, by decide⟩

/-- A hunk header whose post-image count is 0 (a pure deletion) pushes no range, whatever the
state: the line either panics (start not a `u32`) or contributes nothing. -/
theorem zero_count_skipped (cfg : Cfg) (cur cur' : Option (List Char)) (line g1 g : List Char)
    (r : FileRange) (hm : hunkMatch cfg.lazy line = some (g1, some g))
    (h0 : parseU32 g = .ok 0) : scanLine cfg cur line ≠ .ok (cur', some r) := by
  intro h
  unfold scanLine at h
  simp only [hm, h0] at h
  split at h
  · cases h
  · split at h
    · cases h
    · split at h
      · cases h
      · simp at h

example : hunkMatch false (L "@@ -3,2 +2,0 @@") = some (['2'], some ['0']) ∧
    parseU32 ['0'] = .ok 0 := by refine ⟨by decide, by rfl⟩
example : scanLine ⟨false, true, 0, fun _ => true⟩ (some (L "x.rs")) (L "@@ -3,2 +2,0 @@") =
    .ok (some (L "x.rs"), none) := by rfl

/-- A hunk header without a post-image count stands for one line: the range pushed is
`[start, start]`. -/
theorem missing_count_is_one (cfg : Cfg) (file line g1 : List Char) (s : Nat)
    (hh : headerMatch cfg.skip line = none) (hacc : cfg.accepts file = true)
    (hm : hunkMatch cfg.lazy line = some (g1, none)) (hs : parseU32 g1 = .ok s)
    (hfit : s + 1 < 2 ^ 32) :
    scanLine cfg (some file) line = .ok (some file, some ⟨file, s, s⟩) := by
  unfold scanLine
  simp only [hh, hacc, hm, hs, Bool.not_true, Bool.false_eq_true, if_false, Nat.succ_ne_zero,
    RF.Lemmas.FormatDiff.endLine_ok cfg.checked s 1 (Nat.le_refl _) hfit]
  rfl

example : scanLine ⟨false, true, 0, fun _ => true⟩ (some (L "x.rs")) (L "@@ -3,2 +12 @@") =
    .ok (some (L "x.rs"), some ⟨L "x.rs", 12, 12⟩) := by rfl

/-- Every range `scan_diff` returns names a file that passes the filter (and fits `u32`). -/
theorem nonmatching_files_contribute_nothing (cfg : Cfg) (lines : List (List Char))
    (rs : List FileRange) (h : scanDiff cfg lines = .ok rs) :
    ∀ r ∈ rs, cfg.accepts r.file = true ∧ r.lo < 2 ^ 32 ∧ r.hi < 2 ^ 32 :=
  RF.Lemmas.FormatDiff.scanLoop_all_accepted cfg lines none rs h

/-- While the current file does not pass the filter, a line that is not itself a file header is
a no-op; it is not even parsed, so it cannot panic. -/
theorem nonmatching_file_lines_ignored (cfg : Cfg) (file line : List Char)
    (hacc : cfg.accepts file = false) (hh : headerMatch cfg.skip line = none) :
    scanLine cfg (some file) line = .ok (some file, none) :=
  RF.Lemmas.FormatDiff.scanLine_nonmatching cfg file line hacc hh

/-- A filter that accepts no file yields no range for any input (and no panic). -/
theorem rejecting_filter_yields_nothing (cfg : Cfg) (hrej : ∀ f, cfg.accepts f = false)
    (lines : List (List Char)) : scanDiff cfg lines = .ok [] :=
  RF.Lemmas.FormatDiff.scanLoop_rejecting cfg hrej lines none

/-- The file set handed to rustfmt is exactly the set of files of the ranges, without
duplicates. -/
theorem files_are_range_files (rs : List FileRange) :
    (∀ f, f ∈ filesOf rs ↔ ∃ r ∈ rs, r.file = f) ∧ (filesOf rs).Nodup :=
  ⟨RF.Lemmas.FormatDiff.mem_filesOf rs, RF.Lemmas.FormatDiff.filesOf_nodup rs⟩

/-- An empty result runs nothing and the tool succeeds. -/
theorem empty_runs_nothing (lazy checked : Bool) (skip : Nat) (m : List Char → Bool)
    (lines : List (List Char)) (rustfmt : List (List Char) → List FileRange → Status)
    (h : scanDiff ⟨lazy, checked, skip, m⟩ lines = .ok []) :
    run lazy checked skip (some m) lines rustfmt = ⟨none, 0⟩ := by
  simp [run, h, runRustfmt, filesOf]

/-- rustfmt is spawned exactly when the scan succeeded with at least one range, and then with
exactly the scanned files and ranges. -/
theorem spawned_iff (lazy checked : Bool) (skip : Nat) (m : List Char → Bool)
    (lines : List (List Char)) (rustfmt : List (List Char) → List FileRange → Status)
    (inv : List (List Char) × List FileRange) :
    (run lazy checked skip (some m) lines rustfmt).spawned = some inv ↔
      ∃ rs, scanDiff ⟨lazy, checked, skip, m⟩ lines = .ok rs ∧ rs ≠ [] ∧ inv = (filesOf rs, rs) := by
  unfold run
  simp only
  cases hs : scanDiff ⟨lazy, checked, skip, m⟩ lines with
  | error e => simp
  | ok rs =>
    cases rs with
    | nil => simp [runRustfmt, filesOf]
    | cons r rs' =>
      simp only [runRustfmt, filesOf, List.isEmpty_cons, Bool.or_self, Bool.false_eq_true,
        if_false, Except.ok.injEq, ne_eq, exists_eq_left', reduceCtorEq, not_false_eq_true,
        true_and]
      cases rustfmt (r.file :: List.filter (fun f => f != r.file) (filesOf rs')) (r :: rs') with
      | spawnError => simp [eq_comm]
      | exited ok => cases ok <;> simp [eq_comm]

/-- A rustfmt that cannot be spawned or that exits unsuccessfully makes the tool exit with
status 1; it exits 0 exactly when the filter compiles, the scan does not panic, and either there
was nothing to do or rustfmt succeeded. -/
theorem failure_propagates (lazy checked : Bool) (skip : Nat) (filter : Option (List Char → Bool))
    (lines : List (List Char)) (rustfmt : List (List Char) → List FileRange → Status) :
    (run lazy checked skip filter lines rustfmt).exitCode = 0 ↔
      ∃ m rs, filter = some m ∧ scanDiff ⟨lazy, checked, skip, m⟩ lines = .ok rs ∧
        (rs = [] ∨ rustfmt (filesOf rs) rs = .exited true) := by
  unfold run
  cases filter with
  | none => simp
  | some m =>
    simp only [Option.some.injEq, exists_and_left, exists_eq_left']
    cases hs : scanDiff ⟨lazy, checked, skip, m⟩ lines with
    | error e => simp
    | ok rs =>
      cases rs with
      | nil => simp [runRustfmt, filesOf]
      | cons r rs' =>
        simp only [runRustfmt, filesOf, List.isEmpty_cons, Bool.or_self, Bool.false_eq_true,
          if_false, Except.ok.injEq, exists_eq_left', reduceCtorEq, false_or]
        cases rustfmt (r.file :: List.filter (fun f => f != r.file) (filesOf rs')) (r :: rs') with
        | spawnError => simp
        | exited ok => cases ok <;> simp

/-- The same, in the direction the property names: a failing rustfmt gives a non-zero status. -/
theorem failing_rustfmt_fails (lazy checked : Bool) (skip : Nat) (m : List Char → Bool)
    (lines : List (List Char)) (rustfmt : List (List Char) → List FileRange → Status)
    (rs : List FileRange) (hs : scanDiff ⟨lazy, checked, skip, m⟩ lines = .ok rs) (hne : rs ≠ [])
    (hfail : rustfmt (filesOf rs) rs ≠ .exited true) :
    (run lazy checked skip (some m) lines rustfmt).exitCode ≠ 0 := by
  intro h
  rw [failure_propagates] at h
  obtain ⟨m', rs', hm, hs', h'⟩ := h
  cases hm
  rw [hs] at hs'
  cases hs'
  rcases h' with h' | h'
  · exact hne h'
  · exact hfail h'

example : (run false true 1 (some fun _ => true) [L "+++ b/x.rs", L "@@ -1 +3,2 @@"]
    (fun _ _ => .exited false)) = ⟨some ([L "x.rs"], [⟨L "x.rs", 3, 4⟩]), 1⟩ := by decide

/-- `start + count - 1` is computed without overflow, and is the announced last line, when
`start + count < 2^32` — in both build profiles. -/
theorem no_u32_overflow_partial (checked : Bool) (s c : Nat) (hc : 1 ≤ c) (h : s + c < 2 ^ 32) :
    endLine checked s c = .ok (s + c - 1) ∧ s + c - 1 < 2 ^ 32 :=
  ⟨RF.Lemmas.FormatDiff.endLine_ok checked s c hc h, by omega⟩

example : (4294967294 : Nat) + 1 < 2 ^ 32 := by decide

/-- The hypothesis cannot be weakened to "the last line fits" for the profile with overflow
checks: `@@ -1 +4294967295 @@` announces the single line 2^32-1, and `start + count` panics
(main.rs:179) — while a release build computes the right range by wrapping twice. -/
theorem u32_overflow_counterexample :
    endLine true 4294967295 1 = .error .addOverflow ∧
    scanDiff ⟨false, true, 1, fun _ => true⟩ [L "+++ b/x.rs", L "@@ -1 +4294967295 @@"]
      = .error .addOverflow ∧
    scanDiff ⟨false, false, 1, fun _ => true⟩ [L "+++ b/x.rs", L "@@ -1 +4294967295 @@"]
      = .ok [⟨L "x.rs", 4294967295, 4294967295⟩] := by
  refine ⟨by rfl, by rfl, by rfl⟩

/-- In a release build the end line is right whenever it fits. -/
theorem release_end_line (s c : Nat) (hc : 1 ≤ c) (hs : s < 2 ^ 32) (hcc : c < 2 ^ 32)
    (h : s + c - 1 < 2 ^ 32) : endLine false s c = .ok (s + c - 1) :=
  RF.Lemmas.FormatDiff.endLine_unchecked s c hc hs hcc h

/-- `\d` of the `regex` crate is Unicode `Nd`, `u32::from_str` is ASCII only: a hunk header with
an Arabic-Indic digit matches the pattern and then panics in `.parse::<u32>().unwrap()`; likewise
a start of 2^32 or more. -/
theorem parse_panic_counterexample :
    scanDiff ⟨false, true, 1, fun _ => true⟩ [L "+++ b/x.rs", L "@@ -1 +١ @@"]
      = .error .parseInt ∧
    scanDiff ⟨false, true, 1, fun _ => true⟩ [L "+++ b/x.rs", L "@@ -1 +4294967296 @@"]
      = .error .parseInt := by
  refine ⟨by rfl, by rfl⟩

/-- The header pattern agrees with the declarative reading "`+++`, one blank, the path token up
to the next blank, with `skip` leading `/`-terminated components removed" whenever the token has
that many components. -/
theorem header_eq_spec_partial (skip : Nat) (line f : List Char)
    (h : specHeader skip line = some f) : headerMatch skip line = some f :=
  RF.Lemmas.FormatDiff.headerMatch_of_spec skip line f h

example : specHeader 1 (L "+++ b/src/x.rs\t2024-01-02 10:00") = some (L "src/x.rs") := by decide

/-- When the token has too few components the line is not recognised as a header at all
(`(?:.*?/){N}` cannot be satisfied), so the hunks that follow are attributed to the PREVIOUS
file; and a `/` after a blank later on the line is counted too. -/
theorem header_too_few_components_counterexample :
    headerMatch 2 (L "+++ b/x.rs") = none ∧
    scanDiff ⟨false, true, 2, fun _ => true⟩
      [L "+++ b/d/y.rs", L "@@ -1 +1 @@", L "+++ b/x.rs", L "@@ -5 +5,2 @@"]
      = .ok [⟨L "y.rs", 1, 1⟩, ⟨L "y.rs", 5, 6⟩] ∧
    headerMatch 1 (L "+++ x.rs 2024/01/02") = some (L "01/02") := by
  refine ⟨by decide, by rfl, by decide⟩

/-! ### The matchers against the reference (backtracking, leftmost-first) semantics -/

/-- For every `N` and every line, the hand-written header matcher returns what the backtracking
matcher returns on the abstract syntax of `^\+\+\+\s(?:.*?/){N}(\S*)`: same success, same
group 1. -/
theorem header_pattern_semantics (n : Nat) (line : List Char) :
    (headerRe n).captures line = (headerMatch n line).map (fun f => [(1, f)]) :=
  RF.Lemmas.FormatDiff.headerRe_eq n line

/-- For both variants and every line, the hand-written hunk matcher returns what the
backtracking matcher returns on `^@@.*\+(\d+)(,(\d+))?` / `^@@.*?\+(\d+)(,(\d+))?`: same
success, same groups 1 and 3. -/
theorem hunk_pattern_semantics (lazy : Bool) (line : List Char) :
    ((hunkRe lazy).captures line).map (fun c => (c.lookup 1, c.lookup 3)) =
      (hunkMatch lazy line).map (fun g => (some g.1, g.2)) := by
  rw [RF.Lemmas.FormatDiff.hunkRe_eq]
  cases hunkMatch lazy line with
  | none => rfl
  | some t =>
    obtain ⟨g1, g3⟩ := t
    cases g3 <;> rfl

example : (hunkRe false).captures (L "@@ -1,3 +1,4 @@ fn f() { x +7 }") = some [(1, ['7'])] := by
  rw [RF.Lemmas.FormatDiff.hunkRe_eq]; decide
example : (headerRe 1).captures (L "+++ b/src/x.rs\t2024") = some [(1, L "src/x.rs")] := by
  rw [header_pattern_semantics]; decide

end RF.Props.C19
