import RF.Model.Diff
/-!
Proofs for C12 (`RF/Props/C12.lean`) about the model `RF/Model/Diff.lean`.
Core Lean only.
-/
namespace RF.Diff

/-- Hunk `m` is consistent with both texts at the line numbers it states. -/
def Consistent {α} (m : Mismatch α) (orig new : List α) : Prop :=
  (∃ A T, orig = A ++ origSide m.lines ++ T ∧ A.length + 1 = m.lineNumberOrig) ∧
  (∃ A T, new = A ++ newSide m.lines ++ T ∧ A.length + 1 = m.lineNumber)

end RF.Diff

namespace RF.Lemmas.Diff
open RF.Diff

/-! ### side projections and append -/

section sides
variable {α : Type}

@[simp] theorem numRemoved_append (a b : List (DiffLine α)) :
    numRemoved (a ++ b) = numRemoved a + numRemoved b := by
  induction a with
  | nil => simp [numRemoved]
  | cons x a ih => cases x <;> simp [numRemoved, ih] <;> omega

@[simp] theorem newLines_append (a b : List (DiffLine α)) :
    newLines (a ++ b) = newLines a ++ newLines b := by
  induction a with
  | nil => simp [newLines]
  | cons x a ih => cases x <;> simp [newLines, ih]

@[simp] theorem oldLines_append (a b : List (DiffLine α)) :
    oldLines (a ++ b) = oldLines a ++ oldLines b := by
  induction a with
  | nil => simp [oldLines]
  | cons x a ih => cases x <;> simp [oldLines, ih]

@[simp] theorem origSide_append (a b : List (DiffLine α)) :
    origSide (a ++ b) = origSide a ++ origSide b := by
  induction a with
  | nil => simp [origSide]
  | cons x a ih => cases x <;> simp [origSide, ih]

@[simp] theorem newSide_append (a b : List (DiffLine α)) :
    newSide (a ++ b) = newSide a ++ newSide b := by
  induction a with
  | nil => simp [newSide]
  | cons x a ih => cases x <;> simp [newSide, ih]

@[simp] theorem origSide_context (q : List α) : origSide (q.map DiffLine.context) = q := by
  induction q with
  | nil => rfl
  | cons x q ih => simp [origSide, ih]

@[simp] theorem newSide_context (q : List α) : newSide (q.map DiffLine.context) = q := by
  induction q with
  | nil => rfl
  | cons x q ih => simp [newSide, ih]

@[simp] theorem numRemoved_context (q : List α) : numRemoved (q.map DiffLine.context) = 0 := by
  induction q with
  | nil => rfl
  | cons x q ih => simp [numRemoved, ih]

@[simp] theorem newLines_context (q : List α) : newLines (q.map DiffLine.context) = [] := by
  induction q with
  | nil => rfl
  | cons x q ih => simp [newLines, ih]

@[simp] theorem oldLines_context (q : List α) : oldLines (q.map DiffLine.context) = [] := by
  induction q with
  | nil => rfl
  | cons x q ih => simp [oldLines, ih]

theorem oldLines_length (l : List (DiffLine α)) : (oldLines l).length = numRemoved l := by
  induction l with
  | nil => rfl
  | cons x l ih => cases x <;> simp [oldLines, numRemoved, ih]

end sides

/-! ### the head of `go` keeps the line numbers of the current mismatch -/

theorem go_head {α} (ctx : Nat) (ds : List (Edit α)) :
    ∀ ln lno q since (cur : Mismatch α), ∃ m ms, go ctx ln lno q since cur ds = m :: ms ∧
      m.lineNumberOrig = cur.lineNumberOrig ∧ m.lineNumber = cur.lineNumber := by
  induction ds with
  | nil => intro ln lno q since cur; exact ⟨cur, [], rfl, rfl, rfl⟩
  | cons d ds ih =>
    intro ln lno q since cur
    cases d with
    | left s =>
      simp only [go]
      split
      · exact ⟨cur, _, rfl, rfl, rfl⟩
      · exact ih _ _ _ _ _
    | right s =>
      simp only [go]
      split
      · exact ⟨cur, _, rfl, rfl, rfl⟩
      · exact ih _ _ _ _ _
    | both s =>
      simp only [go]
      split
      · exact ih _ _ _ _ _
      · split
        · exact ih _ _ _ _ _
        · exact ih _ _ _ _ _

/-! ### `apply_modified_lines` -/

/-- `applyFrom` copies a common prefix that ends before the first chunk. -/
theorem applyFrom_skip {α} (pos : Nat) (c : Chunk α) (cs : List (Chunk α)) (B X : List α)
    (h : pos + B.length ≤ c.lineNumberOrig) :
    applyFrom pos (c :: cs) (B ++ X) = B ++ applyFrom (pos + B.length) (c :: cs) X := by
  simp only [applyFrom]
  have e : c.lineNumberOrig - pos = B.length + (c.lineNumberOrig - (pos + B.length)) := by omega
  rw [e, List.take_length_add_append, Nat.add_assoc, List.drop_length_add_append]
  simp [List.append_assoc]

/-- One emitted mismatch followed by a list whose first hunk starts right after the common
lines `B`. -/
theorem applyFrom_emit {α} (cur m : Mismatch α) (ms : List (Mismatch α)) (B X Y : List α)
    (lno : Nat) (hm : m.lineNumberOrig = lno)
    (hl : cur.lineNumberOrig + numRemoved cur.lines + B.length = lno)
    (hrec : applyFrom lno (ofMismatches (m :: ms)) X = Y) :
    applyFrom cur.lineNumberOrig (ofMismatches (cur :: m :: ms)) (oldLines cur.lines ++ B ++ X) =
      newLines cur.lines ++ B ++ Y := by
  have hc : (toChunk m).lineNumberOrig = lno := hm
  simp only [ofMismatches, List.map_cons] at hrec ⊢
  rw [applyFrom]
  simp only [toChunk, Nat.sub_self, List.take_zero, List.nil_append, Nat.zero_add]
  rw [List.append_assoc (oldLines cur.lines), ← oldLines_length, List.drop_left, oldLines_length]
  have := applyFrom_skip (cur.lineNumberOrig + numRemoved cur.lines) (toChunk m)
    (ms.map toChunk) B X (by rw [hc]; omega)
  simp only [toChunk] at this hrec
  rw [this, hl, hrec, List.append_assoc]

/-- Main invariant at context 0: `B` are the common lines seen since `cur` was last extended. -/
theorem apply_go {α} (ds : List (Edit α)) :
    ∀ ln lno since (cur : Mismatch α) (B : List α),
      (since = 0 → B = []) → cur.lineNumberOrig + numRemoved cur.lines + B.length = lno →
      applyFrom cur.lineNumberOrig (ofMismatches (go 0 ln lno [] since cur ds))
        (oldLines cur.lines ++ B ++ lefts ds) = newLines cur.lines ++ B ++ rights ds := by
  induction ds with
  | nil =>
    intro ln lno since cur B _ _
    simp [go, ofMismatches, toChunk, applyFrom, lefts, rights, ← oldLines_length]
  | cons d ds ih =>
    intro ln lno since cur B hB hl
    cases d with
    | left s =>
      simp only [go, Nat.zero_le, true_and, List.length_nil, Nat.sub_zero, List.map_nil,
        List.append_nil, List.nil_append, lefts, rights]
      split
      · -- emit `cur`, start a new mismatch at `lno`
        obtain ⟨m, ms, hgo, hm, _⟩ := go_head 0 ds ln (lno + 1) [] 0 ⟨ln, lno, [.resulting s]⟩
        have ih' := ih ln (lno + 1) 0 ⟨ln, lno, [.resulting s]⟩ [] (fun _ => rfl)
          (by simp [numRemoved])
        rw [hgo] at ih' ⊢
        exact applyFrom_emit cur m ms B _ _ lno hm hl (by simpa [oldLines, newLines] using ih')
      · -- extend `cur`
        have hs : since = 0 := by omega
        have hB' := hB hs
        subst hB'
        have ih' := ih ln (lno + 1) 0 { cur with lines := cur.lines ++ [.resulting s] } []
          (fun _ => rfl) (by simp [numRemoved] at hl ⊢; omega)
        simpa [oldLines, newLines] using ih'
    | right s =>
      simp only [go, Nat.zero_le, true_and, List.length_nil, Nat.sub_zero, List.map_nil,
        List.append_nil, List.nil_append, lefts, rights]
      split
      · obtain ⟨m, ms, hgo, hm, _⟩ := go_head 0 ds (ln + 1) lno [] 0 ⟨ln, lno, [.expected s]⟩
        have ih' := ih (ln + 1) lno 0 ⟨ln, lno, [.expected s]⟩ [] (fun _ => rfl)
          (by simp [numRemoved])
        rw [hgo] at ih' ⊢
        exact applyFrom_emit cur m ms B _ _ lno hm hl (by simpa [oldLines, newLines] using ih')
      · have hs : since = 0 := by omega
        have hB' := hB hs
        subst hB'
        have ih' := ih (ln + 1) lno 0 { cur with lines := cur.lines ++ [.expected s] } []
          (fun _ => rfl) (by simp [numRemoved] at hl ⊢; omega)
        simpa [oldLines, newLines] using ih'
    | both s =>
      have ih' := ih (ln + 1) (lno + 1) (since + 1) cur (B ++ [s]) (by omega)
        (by simp; omega)
      simpa [go, lefts, rights] using ih'

/-- The dummy initial mismatch is dropped: `X` are the common lines before the first change. -/
theorem apply_go_tail {α} (ds : List (Edit α)) :
    ∀ ln lno since (cur : Mismatch α) (pos : Nat) (X : List α),
      since > 0 → pos + X.length = lno →
      applyFrom pos (ofMismatches (go 0 ln lno [] since cur ds).tail) (X ++ lefts ds) =
        X ++ rights ds := by
  induction ds with
  | nil => intro ln lno since cur pos X _ _; simp [go, ofMismatches, applyFrom, lefts, rights]
  | cons d ds ih =>
    intro ln lno since cur pos X hs hp
    cases d with
    | left s =>
      simp only [go, Nat.zero_le, true_and, hs, if_true, List.tail_cons, List.length_nil,
        Nat.sub_zero, List.map_nil, List.nil_append, lefts, rights]
      obtain ⟨m, ms, hgo, hm, _⟩ := go_head 0 ds ln (lno + 1) [] 0 ⟨ln, lno, [.resulting s]⟩
      have h := apply_go ds ln (lno + 1) 0 ⟨ln, lno, [.resulting s]⟩ [] (fun _ => rfl)
        (by simp [numRemoved])
      rw [hgo] at h ⊢
      simp only [ofMismatches, List.map_cons] at h ⊢
      rw [applyFrom_skip _ _ _ _ _ (by show pos + X.length ≤ m.lineNumberOrig; have hm' : m.lineNumberOrig = lno := hm; rw [hm']; omega), hp]
      simpa [oldLines, newLines] using h
    | right s =>
      simp only [go, Nat.zero_le, true_and, hs, if_true, List.tail_cons, List.length_nil,
        Nat.sub_zero, List.map_nil, List.nil_append, lefts, rights]
      obtain ⟨m, ms, hgo, hm, _⟩ := go_head 0 ds (ln + 1) lno [] 0 ⟨ln, lno, [.expected s]⟩
      have h := apply_go ds (ln + 1) lno 0 ⟨ln, lno, [.expected s]⟩ [] (fun _ => rfl)
        (by simp [numRemoved])
      rw [hgo] at h ⊢
      simp only [ofMismatches, List.map_cons] at h ⊢
      rw [applyFrom_skip _ _ _ _ _ (by show pos + X.length ≤ m.lineNumberOrig; have hm' : m.lineNumberOrig = lno := hm; rw [hm']; omega), hp]
      simpa [oldLines, newLines] using h
    | both s =>
      have ih' := ih (ln + 1) (lno + 1) (since + 1) cur pos (X ++ [s]) (by omega) (by simp; omega)
      simpa [go, lefts, rights] using ih'

theorem apply_modified_lines {α} (ds : List (Edit α)) :
    apply (ofMismatches (makeDiff ds 0)) (lefts ds) = rights ds := by
  have := apply_go_tail ds 1 1 1 ⟨0, 0, []⟩ 1 [] (by omega) rfl
  simpa [apply, makeDiff] using this

/-! ### `hunks_consistent`, `line_numbers_positive` -/

local macro "len_omega" : tactic =>
  `(tactic| (simp only [List.length_append, List.length_cons, List.length_nil, List.length_map,
      List.length_tail] at *; omega))

theorem consistent_append {α} {m : Mismatch α} {L R : List α} (h : Consistent m L R)
    (X Y : List α) : Consistent m (L ++ X) (R ++ Y) := by
  obtain ⟨⟨A, T, rfl, hA⟩, ⟨A', T', rfl, hA'⟩⟩ := h
  exact ⟨⟨A, T ++ X, by simp, hA⟩, ⟨A', T' ++ Y, by simp, hA'⟩⟩

/-- Loop invariant of `make_diff` once a real mismatch is current.  `L0`/`R0` are the consumed
parts of the original / formatted text; `Z` the common lines after the last line of `cur`. -/
def Inv {α} (ctx ln lno : Nat) (q : List α) (since : Nat) (cur : Mismatch α) (L0 R0 : List α) :
    Prop :=
  lno = L0.length + 1 ∧ ln = R0.length + 1 ∧ q.length ≤ ctx ∧
  ∃ A A' Z, L0 = A ++ origSide cur.lines ++ Z ∧ R0 = A' ++ newSide cur.lines ++ Z ∧
    A.length + 1 = cur.lineNumberOrig ∧ A'.length + 1 = cur.lineNumber ∧
    q <:+ Z ∧ (since ≤ ctx → Z = [])

/-- State invariant that also holds for the dummy initial mismatch. -/
def QInv {α} (ctx ln lno : Nat) (q : List α) (since : Nat) (L0 R0 : List α) : Prop :=
  lno = L0.length + 1 ∧ ln = R0.length + 1 ∧ q.length ≤ ctx ∧ q <:+ L0 ∧ q <:+ R0 ∧
  (since < ctx → q = [])

theorem Inv.toQInv {α} {ctx ln lno : Nat} {q : List α} {since : Nat} {cur : Mismatch α}
    {L0 R0 : List α} (h : Inv ctx ln lno q since cur L0 R0) : QInv ctx ln lno q since L0 R0 := by
  obtain ⟨h1, h2, h3, A, A', Z, rfl, rfl, _, _, hq, hZ⟩ := h
  exact ⟨h1, h2, h3, hq.trans (List.suffix_append _ _), hq.trans (List.suffix_append _ _),
    fun h => by rw [hZ (by omega)] at hq; exact List.suffix_nil.1 hq⟩

theorem Inv.cur_consistent {α} {ctx ln lno : Nat} {q : List α} {since : Nat} {cur : Mismatch α}
    {L0 R0 : List α} (h : Inv ctx ln lno q since cur L0 R0) : Consistent cur L0 R0 := by
  obtain ⟨_, _, _, A, A', Z, rfl, rfl, hA, hA', _, _⟩ := h
  exact ⟨⟨A, Z, rfl, hA⟩, ⟨A', Z, rfl, hA'⟩⟩

/-- A new mismatch started at a removed line satisfies the invariant. -/
theorem QInv.start_left {α} {ctx ln lno : Nat} {q : List α} {since : Nat} {L0 R0 : List α}
    (h : QInv ctx ln lno q since L0 R0) (s : α) :
    Inv ctx ln (lno + 1) [] 0
      ⟨ln - q.length, lno - q.length, q.map .context ++ [.resulting s]⟩ (L0 ++ [s]) R0 := by
  obtain ⟨h1, h2, _, ⟨P, rfl⟩, ⟨P', rfl⟩, _⟩ := h
  refine ⟨by len_omega, h2, by simp, P, P', [], ?_, ?_, ?_, ?_, List.nil_suffix, fun _ => rfl⟩
  · simp [origSide]
  · simp [newSide]
  · len_omega
  · len_omega

theorem QInv.start_right {α} {ctx ln lno : Nat} {q : List α} {since : Nat} {L0 R0 : List α}
    (h : QInv ctx ln lno q since L0 R0) (s : α) :
    Inv ctx (ln + 1) lno [] 0
      ⟨ln - q.length, lno - q.length, q.map .context ++ [.expected s]⟩ L0 (R0 ++ [s]) := by
  obtain ⟨h1, h2, _, ⟨P, rfl⟩, ⟨P', rfl⟩, _⟩ := h
  refine ⟨h1, by len_omega, by simp, P, P', [], ?_, ?_, ?_, ?_, List.nil_suffix, fun _ => rfl⟩
  · simp [origSide]
  · simp [newSide]
  · len_omega
  · len_omega

/-- Extending the current mismatch (only possible when no common line is pending). -/
theorem Inv.extend_left {α} {ctx ln lno : Nat} {q : List α} {since : Nat} {cur : Mismatch α}
    {L0 R0 : List α} (h : Inv ctx ln lno q since cur L0 R0) (hc : ¬(since ≥ ctx ∧ since > 0))
    (s : α) :
    Inv ctx ln (lno + 1) [] 0
      ⟨cur.lineNumber, cur.lineNumberOrig, cur.lines ++ q.map .context ++ [.resulting s]⟩
      (L0 ++ [s]) R0 := by
  obtain ⟨h1, h2, _, A, A', Z, hL, hR, hA, hA', hq, hZ⟩ := h
  have hz : Z = [] := hZ (by omega)
  subst hz
  have hq' : q = [] := List.suffix_nil.1 hq
  subst hq'
  exact ⟨by len_omega, h2, by simp, A, A', [], by simp [hL, origSide], by simp [hR, newSide],
    hA, hA', List.nil_suffix, fun _ => rfl⟩

theorem Inv.extend_right {α} {ctx ln lno : Nat} {q : List α} {since : Nat} {cur : Mismatch α}
    {L0 R0 : List α} (h : Inv ctx ln lno q since cur L0 R0) (hc : ¬(since ≥ ctx ∧ since > 0))
    (s : α) :
    Inv ctx (ln + 1) lno [] 0
      ⟨cur.lineNumber, cur.lineNumberOrig, cur.lines ++ q.map .context ++ [.expected s]⟩
      L0 (R0 ++ [s]) := by
  obtain ⟨h1, h2, _, A, A', Z, hL, hR, hA, hA', hq, hZ⟩ := h
  have hz : Z = [] := hZ (by omega)
  subst hz
  have hq' : q = [] := List.suffix_nil.1 hq
  subst hq'
  exact ⟨h1, by len_omega, by simp, A, A', [], by simp [hL, origSide], by simp [hR, newSide],
    hA, hA', List.nil_suffix, fun _ => rfl⟩

/-- A common line inside the trailing context of `cur`. -/
theorem Inv.both_context {α} {ctx ln lno : Nat} {q : List α} {since : Nat} {cur : Mismatch α}
    {L0 R0 : List α} (h : Inv ctx ln lno q since cur L0 R0) (hc : since < ctx) (s : α) :
    Inv ctx (ln + 1) (lno + 1) (if q.length ≥ ctx then q.tail else q) (since + 1)
      ⟨cur.lineNumber, cur.lineNumberOrig, cur.lines ++ [.context s]⟩ (L0 ++ [s]) (R0 ++ [s]) := by
  obtain ⟨h1, h2, _, A, A', Z, hL, hR, hA, hA', hq, hZ⟩ := h
  have hz : Z = [] := hZ (by omega)
  subst hz
  have hq' : q = [] := List.suffix_nil.1 hq
  subst hq'
  exact ⟨by len_omega, by len_omega, by simp, A, A', [], by simp [hL, origSide],
    by simp [hR, newSide], hA, hA', by simp, fun _ => rfl⟩

/-- A common line queued as possible leading context of the next mismatch. -/
theorem Inv.both_push {α} {ctx ln lno : Nat} {q : List α} {since : Nat} {cur : Mismatch α}
    {L0 R0 : List α} (h : Inv ctx ln lno q since cur L0 R0) (hc : ¬ since < ctx) (h0 : ctx > 0)
    (s : α) :
    Inv ctx (ln + 1) (lno + 1) ((if q.length ≥ ctx then q.tail else q) ++ [s]) (since + 1) cur
      (L0 ++ [s]) (R0 ++ [s]) := by
  obtain ⟨h1, h2, h3, A, A', Z, hL, hR, hA, hA', hq, hZ⟩ := h
  refine ⟨by len_omega, by len_omega, ?_, A, A', Z ++ [s], by simp [hL], by simp [hR], hA, hA',
    ?_, fun h => by omega⟩
  · split <;> len_omega
  · have hq1 : (if q.length ≥ ctx then q.tail else q) <:+ Z := by
      split
      · exact (List.tail_suffix q).trans hq
      · exact hq
    obtain ⟨t, ht⟩ := hq1
    exact ⟨t, by rw [← ht]; simp⟩

/-- A common line dropped (context size 0). -/
theorem Inv.both_drop {α} {ctx ln lno : Nat} {q : List α} {since : Nat} {cur : Mismatch α}
    {L0 R0 : List α} (h : Inv ctx ln lno q since cur L0 R0) (hc : ¬ since < ctx) (h0 : ¬ ctx > 0)
    (s : α) :
    Inv ctx (ln + 1) (lno + 1) (if q.length ≥ ctx then q.tail else q) (since + 1) cur
      (L0 ++ [s]) (R0 ++ [s]) := by
  obtain ⟨h1, h2, h3, A, A', Z, hL, hR, hA, hA', hq, hZ⟩ := h
  have hq' : q = [] := List.length_eq_zero_iff.1 (by omega)
  subst hq'
  exact ⟨by len_omega, by len_omega, by simp, A, A', Z ++ [s], by simp [hL], by simp [hR], hA, hA',
    by simp, fun h => by omega⟩

theorem QInv.reset_left {α} {ctx ln lno : Nat} {q : List α} {since : Nat} {L0 R0 : List α}
    (h : QInv ctx ln lno q since L0 R0) (s : α) : QInv ctx ln (lno + 1) [] 0 (L0 ++ [s]) R0 := by
  obtain ⟨h1, h2, _⟩ := h
  exact ⟨by len_omega, h2, by simp, List.nil_suffix, List.nil_suffix, fun _ => rfl⟩

theorem QInv.reset_right {α} {ctx ln lno : Nat} {q : List α} {since : Nat} {L0 R0 : List α}
    (h : QInv ctx ln lno q since L0 R0) (s : α) : QInv ctx (ln + 1) lno [] 0 L0 (R0 ++ [s]) := by
  obtain ⟨h1, h2, _⟩ := h
  exact ⟨h1, by len_omega, by simp, List.nil_suffix, List.nil_suffix, fun _ => rfl⟩

theorem QInv.both_keep {α} {ctx ln lno : Nat} {q : List α} {since : Nat} {L0 R0 : List α}
    (h : QInv ctx ln lno q since L0 R0) (hc : since < ctx ∨ ¬ ctx > 0) (s : α) :
    QInv ctx (ln + 1) (lno + 1) (if q.length ≥ ctx then q.tail else q) (since + 1)
      (L0 ++ [s]) (R0 ++ [s]) := by
  obtain ⟨h1, h2, h3, _, _, h6⟩ := h
  have hq' : q = [] := by
    rcases hc with hc | hc
    · exact h6 hc
    · exact List.length_eq_zero_iff.1 (by omega)
  subst hq'
  exact ⟨by len_omega, by len_omega, by simp, by simp, by simp, fun _ => by simp⟩

theorem QInv.both_push {α} {ctx ln lno : Nat} {q : List α} {since : Nat} {L0 R0 : List α}
    (h : QInv ctx ln lno q since L0 R0) (hc : ¬ since < ctx) (h0 : ctx > 0) (s : α) :
    QInv ctx (ln + 1) (lno + 1) ((if q.length ≥ ctx then q.tail else q) ++ [s]) (since + 1)
      (L0 ++ [s]) (R0 ++ [s]) := by
  obtain ⟨h1, h2, h3, h4, h5, h6⟩ := h
  have hq1 : ∀ Z, q <:+ Z → ((if q.length ≥ ctx then q.tail else q) ++ [s]) <:+ Z ++ [s] := by
    intro Z hq
    have : (if q.length ≥ ctx then q.tail else q) <:+ Z := by
      split
      · exact (List.tail_suffix q).trans hq
      · exact hq
    obtain ⟨t, ht⟩ := this
    exact ⟨t, by rw [← ht]; simp⟩
  refine ⟨by len_omega, by len_omega, ?_, hq1 _ h4, hq1 _ h5, fun h => by omega⟩
  split <;> len_omega

theorem consistent_go {α} (ctx : Nat) (ds : List (Edit α)) :
    ∀ ln lno q since (cur : Mismatch α) (L0 R0 : List α), Inv ctx ln lno q since cur L0 R0 →
      ∀ m ∈ go ctx ln lno q since cur ds, Consistent m (L0 ++ lefts ds) (R0 ++ rights ds) := by
  induction ds with
  | nil =>
    intro ln lno q since cur L0 R0 hI m hm
    simp only [go, List.mem_singleton] at hm
    subst hm
    exact consistent_append hI.cur_consistent _ _
  | cons d ds ih =>
    intro ln lno q since cur L0 R0 hI m hm
    cases d with
    | left s =>
      simp only [go] at hm
      simp only [lefts, rights]
      split at hm
      · rcases List.mem_cons.1 hm with rfl | hm
        · exact consistent_append hI.cur_consistent _ _
        · simpa using ih _ _ _ _ _ _ _ (hI.toQInv.start_left s) m hm
      · next hc => simpa using ih _ _ _ _ _ _ _ (hI.extend_left hc s) m hm
    | right s =>
      simp only [go] at hm
      simp only [lefts, rights]
      split at hm
      · rcases List.mem_cons.1 hm with rfl | hm
        · exact consistent_append hI.cur_consistent _ _
        · simpa using ih _ _ _ _ _ _ _ (hI.toQInv.start_right s) m hm
      · next hc => simpa using ih _ _ _ _ _ _ _ (hI.extend_right hc s) m hm
    | both s =>
      simp only [go] at hm
      simp only [lefts, rights]
      split at hm
      · next hc => simpa using ih _ _ _ _ _ _ _ (hI.both_context hc s) m hm
      · next hc =>
        split at hm
        · next h0 => simpa using ih _ _ _ _ _ _ _ (hI.both_push hc h0 s) m hm
        · next h0 => simpa using ih _ _ _ _ _ _ _ (hI.both_drop hc h0 s) m hm

theorem consistent_go_tail {α} (ctx : Nat) (ds : List (Edit α)) :
    ∀ ln lno q since (cur : Mismatch α) (L0 R0 : List α), QInv ctx ln lno q since L0 R0 →
      ∀ m ∈ (go ctx ln lno q since cur ds).tail,
        Consistent m (L0 ++ lefts ds) (R0 ++ rights ds) := by
  induction ds with
  | nil => intro ln lno q since cur L0 R0 _ m hm; simp [go] at hm
  | cons d ds ih =>
    intro ln lno q since cur L0 R0 hI m hm
    cases d with
    | left s =>
      simp only [go] at hm
      simp only [lefts, rights]
      split at hm
      · simpa using consistent_go ctx ds _ _ _ _ _ _ _ (hI.start_left s) m hm
      · simpa using ih _ _ _ _ _ _ _ (hI.reset_left s) m hm
    | right s =>
      simp only [go] at hm
      simp only [lefts, rights]
      split at hm
      · simpa using consistent_go ctx ds _ _ _ _ _ _ _ (hI.start_right s) m hm
      · simpa using ih _ _ _ _ _ _ _ (hI.reset_right s) m hm
    | both s =>
      simp only [go] at hm
      simp only [lefts, rights]
      split at hm
      · next hc => simpa using ih _ _ _ _ _ _ _ (hI.both_keep (Or.inl hc) s) m hm
      · next hc =>
        split at hm
        · next h0 => simpa using ih _ _ _ _ _ _ _ (hI.both_push hc h0 s) m hm
        · next h0 => simpa using ih _ _ _ _ _ _ _ (hI.both_keep (Or.inr h0) s) m hm

theorem hunks_consistent {α} (ds : List (Edit α)) (ctx : Nat) :
    ∀ m ∈ makeDiff ds ctx, Consistent m (lefts ds) (rights ds) := by
  intro m hm
  have := consistent_go_tail ctx ds 1 1 [] (ctx + 1) ⟨0, 0, []⟩ [] []
    ⟨rfl, rfl, by simp, List.nil_suffix, List.nil_suffix, fun _ => rfl⟩ m hm
  simpa using this

theorem line_numbers_positive {α} (ds : List (Edit α)) (ctx : Nat) :
    ∀ m ∈ makeDiff ds ctx, 1 ≤ m.lineNumber ∧ 1 ≤ m.lineNumberOrig := by
  intro m hm
  obtain ⟨⟨A, _, _, hA⟩, ⟨A', _, _, hA'⟩⟩ := hunks_consistent ds ctx m hm
  omega

/-! ### `hunks_nonempty` -/

def NonEmpty {α} (m : Mismatch α) : Prop := numRemoved m.lines + (newLines m.lines).length > 0

theorem nonEmpty_resulting {α} (a b : Nat) (l : List (DiffLine α)) (s : α) :
    NonEmpty ⟨a, b, l ++ [.resulting s]⟩ := by
  simp only [NonEmpty, numRemoved_append, numRemoved]; omega

theorem nonEmpty_expected {α} (a b : Nat) (l : List (DiffLine α)) (s : α) :
    NonEmpty ⟨a, b, l ++ [.expected s]⟩ := by
  simp only [NonEmpty, newLines_append, newLines, List.length_append, List.length_singleton]; omega

theorem nonempty_go {α} (ctx : Nat) (ds : List (Edit α)) :
    ∀ ln lno q since (cur : Mismatch α), NonEmpty cur →
      ∀ m ∈ go ctx ln lno q since cur ds, NonEmpty m := by
  induction ds with
  | nil => intro ln lno q since cur hc m hm; simp only [go, List.mem_singleton] at hm; exact hm ▸ hc
  | cons d ds ih =>
    intro ln lno q since cur hc m hm
    cases d with
    | left s =>
      simp only [go] at hm
      split at hm
      · rcases List.mem_cons.1 hm with rfl | hm
        · exact hc
        · exact ih _ _ _ _ _ (by first | exact nonEmpty_resulting .. | exact nonEmpty_expected ..) m hm
      · exact ih _ _ _ _ _ (by first | exact nonEmpty_resulting .. | exact nonEmpty_expected ..) m hm
    | right s =>
      simp only [go] at hm
      split at hm
      · rcases List.mem_cons.1 hm with rfl | hm
        · exact hc
        · exact ih _ _ _ _ _ (by first | exact nonEmpty_resulting .. | exact nonEmpty_expected ..) m hm
      · exact ih _ _ _ _ _ (by first | exact nonEmpty_resulting .. | exact nonEmpty_expected ..) m hm
    | both s =>
      simp only [go] at hm
      split at hm
      · exact ih _ _ _ _ _ (by simpa [NonEmpty, newLines, numRemoved] using hc) m hm
      · split at hm <;> exact ih _ _ _ _ _ hc m hm

theorem nonempty_go_tail {α} (ctx : Nat) (ds : List (Edit α)) :
    ∀ ln lno q since (cur : Mismatch α),
      ∀ m ∈ (go ctx ln lno q since cur ds).tail, NonEmpty m := by
  induction ds with
  | nil => intro ln lno q since cur m hm; simp [go] at hm
  | cons d ds ih =>
    intro ln lno q since cur m hm
    cases d with
    | left s =>
      simp only [go] at hm
      split at hm
      · exact nonempty_go ctx ds _ _ _ _ _ (by first | exact nonEmpty_resulting .. | exact nonEmpty_expected ..) m hm
      · exact ih _ _ _ _ _ m hm
    | right s =>
      simp only [go] at hm
      split at hm
      · exact nonempty_go ctx ds _ _ _ _ _ (by first | exact nonEmpty_resulting .. | exact nonEmpty_expected ..) m hm
      · exact ih _ _ _ _ _ m hm
    | both s =>
      simp only [go] at hm
      split at hm
      · exact ih _ _ _ _ _ m hm
      · split at hm <;> exact ih _ _ _ _ _ m hm

theorem hunks_nonempty {α} (ds : List (Edit α)) (ctx : Nat) :
    ∀ m ∈ makeDiff ds ctx, numRemoved m.lines + (newLines m.lines).length > 0 :=
  nonempty_go_tail ctx ds _ _ _ _ _

/-! ### `empty_iff_no_change`, `no_change_same_lines` -/

theorem go_ne_nil {α} (ctx : Nat) (ds : List (Edit α)) ln lno q since (cur : Mismatch α) :
    go ctx ln lno q since cur ds ≠ [] := by
  obtain ⟨m, ms, h, _⟩ := go_head ctx ds ln lno q since cur
  simp [h]

theorem go_tail_nil_iff {α} (ctx : Nat) (ds : List (Edit α)) :
    ∀ ln lno q since (cur : Mismatch α), since ≥ ctx ∧ since > 0 →
      ((go ctx ln lno q since cur ds).tail = [] ↔ hasChange ds = false) := by
  induction ds with
  | nil => intro ln lno q since cur _; simp [go, hasChange]
  | cons d ds ih =>
    intro ln lno q since cur hs
    cases d with
    | left s => simp [go, hs, hasChange, go_ne_nil]
    | right s => simp [go, hs, hasChange, go_ne_nil]
    | both s =>
      have h1 : ¬ since < ctx := by omega
      simp only [go, h1, if_false, hasChange]
      split <;> exact ih _ _ _ _ _ (by omega)

theorem empty_iff_no_change {α} (ds : List (Edit α)) (ctx : Nat) :
    makeDiff ds ctx = [] ↔ hasChange ds = false :=
  go_tail_nil_iff ctx ds _ _ _ _ _ (by omega)

theorem no_change_same_lines {α} (ds : List (Edit α)) (h : hasChange ds = false) :
    lefts ds = rights ds := by
  induction ds with
  | nil => rfl
  | cons d ds ih =>
    cases d with
    | left s => simp [hasChange] at h
    | right s => simp [hasChange] at h
    | both s => simp only [hasChange] at h; simp [lefts, rights, ih h]

/-! ### `hunks_ordered_disjoint` -/

/-- hunk `a` ends before hunk `b` starts, in both texts -/
def Before {α} (a b : Mismatch α) : Prop :=
  a.lineNumberOrig + (origSide a.lines).length ≤ b.lineNumberOrig ∧
  a.lineNumber + (newSide a.lines).length ≤ b.lineNumber

/-- numeric loop invariant (also true of the dummy initial mismatch) -/
def NInv {α} (ln lno : Nat) (q : List α) (cur : Mismatch α) : Prop :=
  cur.lineNumberOrig + (origSide cur.lines).length + q.length ≤ lno ∧
  cur.lineNumber + (newSide cur.lines).length + q.length ≤ ln

theorem q1_length_le {α} (ctx : Nat) (q : List α) :
    (if q.length ≥ ctx then q.tail else q).length ≤ q.length := by
  split <;> simp

theorem ordered_go {α} (ctx : Nat) (ds : List (Edit α)) :
    ∀ ln lno q since (cur : Mismatch α), NInv ln lno q cur →
      (go ctx ln lno q since cur ds).Pairwise Before ∧
      ∀ m ∈ go ctx ln lno q since cur ds,
        cur.lineNumberOrig ≤ m.lineNumberOrig ∧ cur.lineNumber ≤ m.lineNumber := by
  induction ds with
  | nil => intro ln lno q since cur _; simp [go]
  | cons d ds ih =>
    intro ln lno q since cur hI
    obtain ⟨h1, h2⟩ := hI
    cases d with
    | left s =>
      simp only [go]
      split
      · obtain ⟨ihp, ihm⟩ := ih ln (lno + 1) [] 0
          ⟨ln - q.length, lno - q.length, q.map .context ++ [.resulting s]⟩
          ⟨by simp [origSide]; omega, by simp [newSide]; omega⟩
        refine ⟨List.pairwise_cons.2 ⟨fun m hm => ?_, ihp⟩, fun m hm => ?_⟩
        · have := ihm m hm; simp only [Before] at this ⊢; omega
        · rcases List.mem_cons.1 hm with rfl | hm
          · omega
          · have := ihm m hm; simp only at this; omega
      · exact ih ln (lno + 1) [] 0 _ ⟨by simp [origSide]; omega, by simp [newSide]; omega⟩
    | right s =>
      simp only [go]
      split
      · obtain ⟨ihp, ihm⟩ := ih (ln + 1) lno [] 0
          ⟨ln - q.length, lno - q.length, q.map .context ++ [.expected s]⟩
          ⟨by simp [origSide]; omega, by simp [newSide]; omega⟩
        refine ⟨List.pairwise_cons.2 ⟨fun m hm => ?_, ihp⟩, fun m hm => ?_⟩
        · have := ihm m hm; simp only [Before] at this ⊢; omega
        · rcases List.mem_cons.1 hm with rfl | hm
          · omega
          · have := ihm m hm; simp only at this; omega
      · exact ih (ln + 1) lno [] 0 _ ⟨by simp [origSide]; omega, by simp [newSide]; omega⟩
    | both s =>
      have hq := q1_length_le ctx q
      simp only [go]
      generalize (if q.length ≥ ctx then q.tail else q) = q1 at hq ⊢
      split
      · exact ih _ _ _ _ _ ⟨by simp [origSide]; omega, by simp [newSide]; omega⟩
      · split
        · exact ih _ _ _ _ _ ⟨by simp; omega, by simp; omega⟩
        · exact ih _ _ _ _ _ ⟨by omega, by omega⟩

theorem hunks_ordered_disjoint {α} (ds : List (Edit α)) (ctx : Nat) :
    (makeDiff ds ctx).Pairwise
      (fun a b => a.lineNumberOrig + (origSide a.lines).length ≤ b.lineNumberOrig ∧
                  a.lineNumber + (newSide a.lines).length ≤ b.lineNumber) :=
  (ordered_go ctx ds 1 1 [] (ctx + 1) ⟨0, 0, []⟩ ⟨by simp [origSide], by simp [newSide]⟩).1.sublist
    (List.tail_sublist _)

/-! ### `print_parse` -/

theorem takeLines_print {α} (asText : Sum (Nat × Nat × Nat) α → α)
    (ht : ∀ s, asText (Sum.inr s) = s) (ls : List α) (rest : List (Sum (Nat × Nat × Nat) α)) :
    takeLines asText ls.length (ls.map Sum.inr ++ rest) = some (ls, rest) := by
  induction ls with
  | nil => simp [takeLines]
  | cons x ls ih => simp [takeLines, ih, ht]

theorem print_parse {α} (header : Sum (Nat × Nat × Nat) α → Option (Nat × Nat × Nat))
    (asText : Sum (Nat × Nat × Nat) α → α)
    (hh : ∀ h, header (Sum.inl h) = some h) (ht : ∀ s, asText (Sum.inr s) = s)
    (cs : List (Chunk α)) :
    parseChunks header asText (printChunks cs) = some cs := by
  induction cs with
  | nil => simp [printChunks, parseChunks]
  | cons c cs ih =>
    rw [printChunks, parseChunks]
    simp only [hh]
    split
    · next h => rw [takeLines_print asText ht] at h; simp at h
    · next ls rest' h =>
      rw [takeLines_print asText ht] at h
      simp only [Option.some.injEq, Prod.mk.injEq] at h
      obtain ⟨rfl, rfl⟩ := h
      simp [ih]

/-! ### json and checkstyle numbering -/

theorem jsonLoop_spec {α} (ob eb : Nat) (ls : List (DiffLine α)) :
    ∀ oe ee oc ec (o e : List α),
      (jsonLoop ob eb oe ee oc ec o e ls).2.2.1 = o ++ oldLines ls ∧
      (jsonLoop ob eb oe ee oc ec o e ls).2.2.2 = e ++ newLines ls ∧
      (numRemoved ls = 0 → (jsonLoop ob eb oe ee oc ec o e ls).1 = oe) ∧
      (numRemoved ls > 0 → (jsonLoop ob eb oe ee oc ec o e ls).1 + 1 = ob + oc + numRemoved ls) ∧
      ((newLines ls).length = 0 → (jsonLoop ob eb oe ee oc ec o e ls).2.1 = ee) ∧
      ((newLines ls).length > 0 →
        (jsonLoop ob eb oe ee oc ec o e ls).2.1 + 1 = eb + ec + (newLines ls).length) := by
  induction ls with
  | nil => intro oe ee oc ec o e; simp [jsonLoop, numRemoved, newLines, oldLines]
  | cons x ls ih =>
    intro oe ee oc ec o e
    cases x with
    | context s => simpa [jsonLoop, numRemoved, newLines, oldLines] using ih oe ee oc ec o e
    | expected s =>
      obtain ⟨h1, h2, h3, h4, h5, h6⟩ := ih oe (eb + ec) oc (ec + 1) o (e ++ [s])
      have e1 : numRemoved (.expected s :: ls) = numRemoved ls := rfl
      have e2 : (newLines (.expected s :: ls)).length = (newLines ls).length + 1 := rfl
      simp only [jsonLoop]
      refine ⟨by simpa [oldLines] using h1, by simpa [newLines] using h2, by omega, by omega,
        by omega, fun _ => ?_⟩
      rcases Nat.eq_zero_or_pos (newLines ls).length with h | h
      · have := h5 h; omega
      · have := h6 h; omega
    | resulting s =>
      obtain ⟨h1, h2, h3, h4, h5, h6⟩ := ih (ob + oc) ee (oc + 1) ec (o ++ [s]) e
      have e1 : numRemoved (.resulting s :: ls) = numRemoved ls + 1 := rfl
      have e2 : (newLines (.resulting s :: ls)).length = (newLines ls).length := rfl
      simp only [jsonLoop]
      refine ⟨by simpa [oldLines] using h1, by simpa [newLines] using h2, by omega, fun _ => ?_,
        by omega, by omega⟩
      rcases Nat.eq_zero_or_pos (numRemoved ls) with h | h
      · have := h3 h; omega
      · have := h4 h; omega

theorem json_lines_agree {α} (m : Mismatch α) :
    let b := jsonBlock m
    let c := toChunk m
    b.originalBeginLine = c.lineNumberOrig ∧ b.expected = c.lines ∧
    b.original = oldLines m.lines ∧ b.original.length = c.linesRemoved ∧ b.expectedBeginLine = m.lineNumber ∧
    (c.linesRemoved > 0 → b.originalEndLine + 1 = b.originalBeginLine + c.linesRemoved) ∧
    (c.lines.length > 0 → b.expectedEndLine + 1 = b.expectedBeginLine + c.lines.length) := by
  obtain ⟨h1, h2, _, h4, _, h6⟩ :=
    jsonLoop_spec m.lineNumberOrig m.lineNumber m.lines m.lineNumberOrig m.lineNumber 0 0 [] []
  simp only [List.nil_append, Nat.add_zero] at h1 h2 h4 h6
  exact ⟨rfl, h2, h1, by show (jsonLoop _ _ _ _ _ _ _ _ _).2.2.1.length = _; rw [h1, oldLines_length]; rfl,
    rfl, h4, h6⟩

theorem checkstyleLoop_spec {α} (b : Nat) (ls : List (DiffLine α)) :
    ∀ c, checkstyleLoop b c ls =
      List.zipWith (fun i s => (b + i, s)) (List.range' c (newLines ls).length) (newLines ls) := by
  induction ls with
  | nil => intro c; simp [checkstyleLoop, newLines]
  | cons x ls ih =>
    intro c
    cases x <;> simp [checkstyleLoop, newLines, ih, List.range'_succ]

theorem checkstyle_lines_agree {α} (m : Mismatch α) :
    checkstyleLoop m.lineNumber 0 m.lines =
      (List.range (toChunk m).lines.length).zipWith (fun i s => (m.lineNumber + i, s))
        (toChunk m).lines := by
  rw [checkstyleLoop_spec, List.range_eq_range']; rfl

/-! ### `XmlEscaped` -/

theorem xmlEscapeChar_eq (c : Char) :
    xmlEscapeChar c =
      if c = '<' then ['&', 'l', 't', ';']
      else if c = '>' then ['&', 'g', 't', ';']
      else if c = '"' then ['&', 'q', 'u', 'o', 't', ';']
      else if c = '\'' then ['&', 'a', 'p', 'o', 's', ';']
      else if c = '&' then ['&', 'a', 'm', 'p', ';']
      else [c] := by
  have h1 : "&lt;".toList = ['&', 'l', 't', ';'] := by decide
  have h2 : "&gt;".toList = ['&', 'g', 't', ';'] := by decide
  have h3 : "&quot;".toList = ['&', 'q', 'u', 'o', 't', ';'] := by decide
  have h4 : "&apos;".toList = ['&', 'a', 'p', 'o', 's', ';'] := by decide
  have h5 : "&amp;".toList = ['&', 'a', 'm', 'p', ';'] := by decide
  rw [xmlEscapeChar, h1, h2, h3, h4, h5]

theorem xmlEscape_safe (s : List Char) :
    ∀ c ∈ xmlEscape s, c ≠ '<' ∧ c ≠ '>' ∧ c ≠ '"' ∧ c ≠ '\'' := by
  intro c hc
  simp only [xmlEscape, List.mem_flatMap] at hc
  obtain ⟨d, _, hd⟩ := hc
  rw [xmlEscapeChar_eq] at hd
  repeat' split at hd
  all_goals simp only [List.mem_cons, List.not_mem_nil, or_false] at hd
  all_goals first
    | (rcases hd with rfl | rfl | rfl | rfl | rfl | rfl <;> decide)
    | (rcases hd with rfl | rfl | rfl | rfl | rfl <;> decide)
    | (rcases hd with rfl | rfl | rfl | rfl <;> decide)
    | (subst hd; refine ⟨?_, ?_, ?_, ?_⟩ <;> assumption)

theorem xmlUnescape_plain (c : Char) (r : List Char) (h1 : c ≠ '&') (h2 : c ≠ '<') :
    xmlUnescape (c :: r) = (xmlUnescape r).map (c :: ·) := by
  rw [xmlUnescape.eq_def]
  split <;> simp_all

theorem xmlUnescape_escapeChar (c : Char) (r : List Char) :
    xmlUnescape (xmlEscapeChar c ++ r) = (xmlUnescape r).map (c :: ·) := by
  rw [xmlEscapeChar_eq]
  split
  · next h => subst h; simp [xmlUnescape]
  split
  · next h => subst h; simp [xmlUnescape]
  split
  · next h => subst h; simp [xmlUnescape]
  split
  · next h => subst h; simp [xmlUnescape]
  split
  · next h => subst h; simp [xmlUnescape]
  next h1 _ _ _ h5 => exact xmlUnescape_plain c r h5 h1

theorem xmlUnescape_escape (s : List Char) : xmlUnescape (xmlEscape s) = some s := by
  induction s with
  | nil => simp [xmlEscape, xmlUnescape]
  | cons c s ih =>
    have : xmlEscape (c :: s) = xmlEscapeChar c ++ xmlEscape s := by simp [xmlEscape]
    rw [this, xmlUnescape_escapeChar, ih]; rfl

/-! ### the decidable oracle `consistentB` -/

theorem occurs_at_iff {α} (l S : List α) (n : Nat) :
    (∃ A T, l = A ++ S ++ T ∧ A.length + 1 = n) ↔
      1 ≤ n ∧ n - 1 + S.length ≤ l.length ∧ (l.drop (n - 1)).take S.length = S := by
  constructor
  · rintro ⟨A, T, rfl, rfl⟩
    refine ⟨by omega, by simp only [List.length_append]; omega, ?_⟩
    simp [List.append_assoc]
  · rintro ⟨h1, h2, h3⟩
    refine ⟨l.take (n - 1), l.drop (n - 1 + S.length), ?_, ?_⟩
    · conv => lhs; rw [← List.take_append_drop (n - 1) l]
      rw [List.append_assoc]
      congr 1
      conv => lhs; rw [← List.take_append_drop S.length (l.drop (n - 1))]
      rw [h3, List.drop_drop]
    · rw [List.length_take]; omega

theorem consistentB_iff {α} [DecidableEq α] (m : Mismatch α) (orig new : List α) :
    consistentB m orig new = true ↔ Consistent m orig new := by
  simp only [consistentB, Consistent, occurs_at_iff, Bool.and_eq_true, decide_eq_true_eq]
  constructor
  · rintro ⟨⟨⟨⟨⟨a, b⟩, c⟩, d⟩, e⟩, f⟩; exact ⟨⟨a, c, e⟩, ⟨b, d, f⟩⟩
  · rintro ⟨⟨a, c, e⟩, ⟨b, d, f⟩⟩; exact ⟨⟨⟨⟨⟨a, b⟩, c⟩, d⟩, e⟩, f⟩

end RF.Lemmas.Diff
