//! C16: rustfmt never terminates abnormally.
//! Search: the real formatter in-process (workers: a panic that escapes `Session::format`, an abort,
//! a stack overflow or a signal is seen as Panic/Died) and the real binary (exit status must be 0 or 1)
//! on token-level mutants, re-layouts, deep nesting, narrow pages and option sets.  A case over its
//! time limit is inconclusive, never a failure.
use std::path::Path;
use std::process::Command;
use std::time::Duration;

use serde_json::json;

use crate::corpus;
use crate::gen::*;
use crate::pool::{self, Job, Status};
use crate::util::*;

/// "usable page": max_width at least 20 and at least five indentation steps wide
fn usable(cfg: &[(String, String)]) -> bool {
    let mw: usize = cfg_get(cfg, "max_width").and_then(|s| s.parse().ok()).unwrap_or(100);
    let ts: usize = cfg_get(cfg, "tab_spaces").and_then(|s| s.parse().ok()).unwrap_or(4);
    mw >= 20 && mw >= 5 * ts && ts >= 1
}

/// `file:line:col` of a panic -> `file:enclosing fn` (robust against unrelated edits that move lines)
fn site_fn(loc: &str) -> String {
    let mut it = loc.split(':');
    let file = it.next().unwrap_or("");
    let line: usize = it.next().and_then(|s| s.parse().ok()).unwrap_or(0);
    let rel = file.rsplit_once("/src/").map(|(_, r)| format!("src/{}", r)).unwrap_or_else(|| file.trim_start_matches("./").to_string());
    let path = repo_dir().join(&rel);
    let mut name = String::from("?");
    if let Ok(src) = std::fs::read_to_string(&path) {
        for (i, l) in src.lines().enumerate() {
            if i + 1 > line {
                break;
            }
            let t = l.trim_start();
            let t = t.strip_prefix("pub(crate) ").or_else(|| t.strip_prefix("pub(super) ")).or_else(|| t.strip_prefix("pub ")).unwrap_or(t);
            let t = t.strip_prefix("const ").unwrap_or(t);
            let t = t.strip_prefix("unsafe ").unwrap_or(t);
            if let Some(rest) = t.strip_prefix("fn ") {
                name = rest.chars().take_while(|c| c.is_alphanumeric() || *c == '_').collect();
            }
        }
    }
    format!("{}:{}", rel, name)
}

fn sig_of(status: &Status) -> Option<String> {
    match status {
        Status::Panic(m) => {
            // "file:line:col: message"; a payload-less unwind (rustc's FatalError) is "?"
            if m.starts_with('?') {
                return Some("c16:panic:fatal-error-unwind".to_string());
            }
            let loc = m.split(": ").next().unwrap_or("?");
            Some(format!("c16:panic:{}", site_fn(loc)))
        }
        Status::Died(m) => Some(format!("c16:died:{}", m.replace(' ', "_"))),
        _ => None,
    }
}

pub fn run(tier: &str, seed: u64, out: &Path) -> i32 {
    let mut o = Outcome::new("C16", tier, seed);
    let thorough = tier == "thorough";
    // the Shape/Indent correspondence (arithmetic that can panic) is part of this property
    {
        let mut rng = Rng::new(seed ^ 0x5a9e);
        crate::shape_corr::shape_cases(&mut o, &mut rng, thorough);
        crate::missed_corr::cases_c16(&mut o, &mut rng, thorough);
        crate::budgets_corr::cases_c16(&mut o, &mut rng, thorough);
    }
    let progs = corpus::programs(&["tests/source", "tests/target"]);
    let progs: Vec<_> = progs.into_iter().filter(|p| p.src.len() < 40000).collect();
    let singles = option_singles();
    let mut jobs: Vec<Job> = vec![];
    let mut names: Vec<String> = vec![];
    let mut push = |jobs: &mut Vec<Job>, names: &mut Vec<String>, fam: &str, name: &str, src: String, cfg: Vec<(String, String)>| {
        if usable(&cfg) {
            jobs.push(Job { src, cfg, file_lines: None });
            names.push(format!("{}:{}", fam, name));
        }
    };
    // A. a fixed regression set of mutants (independent of VERIF_SEED) and a seed-dependent set
    for (label, s, per) in [("mutant-fixed", 0xC16_0001u64, if thorough { 6 } else { 2 }), ("mutant-seed", seed ^ 0xC16_5EED, if thorough { 12 } else { 2 })] {
        let mut rng = Rng::new(s);
        for p in &progs {
            for _ in 0..per {
                let src = mutate(&p.src, &mut rng.fork());
                let mut cfg = p.cfg.clone();
                if rng.chance(1, 3) {
                    cfg = merge_cfg(&cfg, &[("max_width".into(), rng.range(20, 200).to_string())]);
                }
                push(&mut jobs, &mut names, label, &p.name, src, cfg);
            }
        }
    }
    // B. re-layouts under random widths / tab_spaces / options
    let mut rng = Rng::new(seed ^ 0xC16_0002);
    for p in &progs {
        for _ in 0..(if thorough { 4 } else { 1 }) {
            let src = relayout(&p.src, &mut rng.fork());
            let mut cfg = merge_cfg(&p.cfg, &[("max_width".into(), rng.range(20, 200).to_string())]);
            if rng.chance(1, 2) {
                cfg = merge_cfg(&cfg, &[("tab_spaces".into(), rng.range(1, 8).to_string())]);
            }
            if rng.chance(1, 2) {
                let (k, v) = rng.pick(&singles).clone();
                cfg = merge_cfg(&cfg, &[(k, v)]);
            }
            if rng.chance(1, 4) {
                let (k, v) = rng.pick(&singles).clone();
                cfg = merge_cfg(&cfg, &[(k, v)]);
            }
            push(&mut jobs, &mut names, "relayout", &p.name, src, cfg);
        }
    }
    // C. nesting up to 40 levels on narrow and wide pages
    for depth in 1..=40usize {
        for _ in 0..(if thorough { 12 } else { 3 }) {
            let ts = rng.range(1, 8);
            let mw = *rng.pick(&[20usize, 23, 37, 40, 60, 100, 200]);
            let mut cfg = vec![("max_width".to_string(), mw.max(5 * ts).max(20).to_string()), ("tab_spaces".to_string(), ts.to_string())];
            if rng.chance(1, 3) {
                cfg.push(("hard_tabs".into(), "true".into()));
            }
            if rng.chance(1, 3) {
                cfg.push(("wrap_comments".into(), "true".into()));
            }
            if rng.chance(1, 4) {
                cfg.push(("indent_style".into(), "Visual".into()));
            }
            push(&mut jobs, &mut names, "nesting", &format!("depth{}", depth), nested_program(&mut rng, depth), cfg);
        }
    }
    // D. every option single on a slice of the corpus (all of it in thorough), narrow and default page
    for (i, p) in progs.iter().enumerate() {
        if !thorough && i % 6 != (seed % 6) as usize {
            continue;
        }
        for (k, v) in &singles {
            if !thorough && !rng.chance(1, 4) {
                continue;
            }
            let mut cfg = merge_cfg(&p.cfg, &[(k.clone(), v.clone())]);
            if rng.chance(1, 3) {
                cfg = merge_cfg(&cfg, &[("max_width".into(), rng.pick(&[20usize, 37, 60]).to_string())]);
            }
            push(&mut jobs, &mut names, "option", &p.name, p.src.clone(), cfg);
        }
    }
    // F. hostile text in comments and strings with the text-rewriting options on, narrow and wide pages
    for k in 0..(if thorough { 8000 } else { 1200 }) {
        let src = text_program(&mut rng);
        let mut cfg: Vec<(String, String)> = vec![("max_width".to_string(), rng.pick(&[20usize, 30, 40, 60, 80, 100]).to_string())];
        for (key, val) in [("wrap_comments", "true"), ("format_strings", "true"), ("normalize_comments", "true"), ("format_code_in_doc_comments", "true"), ("normalize_doc_attributes", "true"), ("error_on_line_overflow", "true"), ("error_on_unformatted", "true"), ("hard_tabs", "true")] {
            if rng.chance(1, 2) {
                cfg.push((key.to_string(), val.to_string()));
            }
        }
        if rng.chance(1, 3) {
            cfg.push(("comment_width".into(), rng.pick(&[10usize, 20, 40, 80]).to_string()));
        }
        push(&mut jobs, &mut names, "text", &format!("text{}", k), src, cfg);
    }
    // G. numeric literals in every spelling with the literal-rewriting options
    for k in 0..(if thorough { 3000 } else { 500 }) {
        let src = literal_program(&mut rng);
        let mut cfg: Vec<(String, String)> = vec![];
        if rng.chance(2, 3) {
            cfg.push(("float_literal_trailing_zero".into(), rng.pick(&["Always", "IfNoPostfix", "Never"]).to_string()));
        }
        if rng.chance(2, 3) {
            cfg.push(("hex_literal_case".into(), rng.pick(&["Upper", "Lower"]).to_string()));
        }
        if rng.chance(1, 4) {
            cfg.push(("max_width".into(), "20".into()));
        }
        push(&mut jobs, &mut names, "literal", &format!("lit{}", k), src, cfg);
    }
    // I. white space that is not ASCII, where byte offsets are computed from line and character counts
    for k in 0..(if thorough { 6000 } else { 1000 }) {
        let src = blank_program(&mut rng);
        let mut cfg: Vec<(String, String)> = vec![];
        for (key, val) in [("wrap_comments", "true"), ("normalize_comments", "true"), ("hard_tabs", "true"), ("error_on_line_overflow", "true"), ("newline_style", "Windows")] {
            if rng.chance(1, 3) {
                cfg.push((key.to_string(), val.to_string()));
            }
        }
        if rng.chance(1, 3) {
            cfg.push(("max_width".into(), rng.pick(&[20usize, 30, 60]).to_string()));
        }
        push(&mut jobs, &mut names, "blank", &format!("blank{}", k), src, cfg);
    }
    // L. names that are not ASCII in the lists the formatter sorts (imports, names in an import list, `mod` and
    //    `extern crate` declarations): the orderings walk the names by character and by byte.  Own PRNG stream.
    {
        let mut r2 = Rng::new(seed ^ 0x1de47);
        let import_opts: Vec<(String, String)> = singles.iter().filter(|(k, _)| k.starts_with("imports_") || k == "group_imports" || k.starts_with("reorder_")).cloned().collect();
        for k in 0..(if thorough { 4000 } else { 600 }) {
            let src = names_program(&mut r2);
            let mut cfg: Vec<(String, String)> = vec![("style_edition".into(), r2.pick(&["2015", "2021", "2024", "2024"]).to_string())];
            if r2.chance(1, 2) {
                let (a, b) = r2.pick(&import_opts).clone();
                cfg = merge_cfg(&cfg, &[(a, b)]);
            }
            if r2.chance(1, 4) {
                cfg = merge_cfg(&cfg, &[("max_width".into(), r2.pick(&[20usize, 40, 60]).to_string())]);
            }
            push(&mut jobs, &mut names, "names", &format!("names{}", k), src, cfg);
        }
    }
    // K. option values at their extremes and contradictory pairs (every one is an accepted configuration)
    {
        const EXTREME: &[(&str, &[&str])] = &[
            ("blank_lines_lower_bound", &["2", "3", "100"]), ("blank_lines_upper_bound", &["0", "100"]), ("comment_width", &["0", "1", "10000"]),
            ("fn_call_width", &["0", "10000"]), ("attr_fn_like_width", &["0", "10000"]), ("struct_lit_width", &["0", "10000"]), ("struct_variant_width", &["0", "10000"]),
            ("array_width", &["0", "10000"]), ("chain_width", &["0", "10000"]), ("single_line_if_else_max_width", &["0", "10000"]), ("single_line_let_else_max_width", &["0", "10000"]),
            ("short_array_element_width_threshold", &["0", "10000"]), ("enum_discrim_align_threshold", &["10000"]), ("struct_field_align_threshold", &["10000"]),
            ("inline_attribute_width", &["10000"]), ("doc_comment_code_block_width", &["0", "1", "10000"]), ("generated_marker_line_search_limit", &["0", "10000"]),
            ("max_width", &["10000", "1000000"]), ("tab_spaces", &["1", "4"]), ("use_small_heuristics", &["Off", "Max"]),
        ];
        let small: Vec<&corpus::Program> = progs.iter().filter(|p| p.src.len() < 6000).collect();
        for k in 0..(if thorough { 12000 } else { 2500 }) {
            let (src, base): (String, Vec<(String, String)>) = match rng.below(4) {
                0 => (blank_program(&mut rng), vec![]),
                1 => { let dd = rng.range(1, 6); (nested_program(&mut rng, dd), vec![]) }
                _ => { let p = *rng.pick(&small); (p.src.clone(), p.cfg.clone()) }
            };
            let mut cfg = base;
            for _ in 0..rng.range(1, 3) {
                let (key, vals) = *rng.pick(EXTREME);
                cfg = merge_cfg(&cfg, &[(key.to_string(), rng.pick(vals).to_string())]);
            }
            if rng.chance(1, 4) {
                let (a, b) = rng.pick(&singles).clone();
                cfg = merge_cfg(&cfg, &[(a, b)]);
            }
            push(&mut jobs, &mut names, "extreme", &format!("extreme{}", k), src, cfg);
        }
    }
    // J. regression inputs of repaired crashes (corpus/c16_regress), default options and two option sets
    {
        let dir = if Path::new("corpus/c16_regress").exists() { std::path::PathBuf::from("corpus/c16_regress") } else { std::path::PathBuf::from("/verif/corpus/c16_regress") };
        if let Ok(rd) = std::fs::read_dir(&dir) {
            let mut fs: Vec<_> = rd.flatten().map(|e| e.path()).collect();
            fs.sort();
            for f in fs {
                if let Ok(src) = std::fs::read_to_string(&f) {
                    let name = f.file_name().unwrap().to_string_lossy().into_owned();
                    push(&mut jobs, &mut names, "regress", &name, src.clone(), corpus::header_config(&src));
                    push(&mut jobs, &mut names, "regress", &name, src.clone(), vec![]);
                    push(&mut jobs, &mut names, "regress", &name, src.clone(), vec![("wrap_comments".into(), "true".into()), ("normalize_comments".into(), "true".into())]);
                    push(&mut jobs, &mut names, "regress", &name, src, vec![("max_width".into(), "20".into()), ("hard_tabs".into(), "true".into())]);
                }
            }
        }
    }
    // H. boundary widths (boundary.rs): the items of the fixtures at the widths where one of their lines is exactly as
    //    wide as the page (thorough: at every width 20..200), half of them under one more option
    {
        let mut its = crate::boundary::items(&progs);
        its.retain(|it| !it.id.contains("issue-3465.rs#0")); // minutes per run at narrow widths
        let plan = crate::boundary::plan(&its, Duration::from_secs(10));
        for (it, ws) in its.iter().zip(plan.iter()) {
            if ws.is_empty() {
                continue;
            }
            let all: Vec<usize> = (20..=200).collect();
            for w in if thorough { &all } else { ws } {
                let mut cfg = merge_cfg(&it.cfg, &[("max_width".into(), w.to_string())]);
                if rng.chance(1, 2) {
                    let (k, v) = rng.pick(&singles).clone();
                    if k != "max_width" {
                        cfg = merge_cfg(&cfg, &[(k, v)]);
                    }
                }
                push(&mut jobs, &mut names, "boundary", &it.id, it.src.clone(), cfg);
            }
        }
    }
    let timeout = Duration::from_secs(if thorough { 20 } else { 8 });
    let res = pool::run_jobs(&jobs, jobs_n(), timeout);
    let mut distinct = std::collections::HashSet::new();
    for ((job, name), r) in jobs.iter().zip(names.iter()).zip(res.iter()) {
        let fam = name.split(':').next().unwrap_or("?");
        o.count(&format!("{}:{}", fam, match &r.status { Status::Ok => if r.flags[1] { "parse-error" } else { "formatted" }, Status::Err(_) => "err", Status::Panic(_) => "PANIC", Status::Timeout => "timeout", Status::Died(_) => "DIED", Status::BadConfig(_) => "badconfig", Status::Infra(_) => "infra" }));
        distinct.insert((job.src.len(), cfg_text(&job.cfg), name.clone()));
        if let Some(sig) = sig_of(&r.status) {
            o.direct_failures.push(json!({"sig": sig, "what": format!("abnormal termination: {:?}", r.status), "case": name, "config": cfg_text(&job.cfg), "src": job.src}));
        }
    }
    o.direct_evals += jobs.len() as u64;
    o.direct_distinct += distinct.len() as u64;
    // E. the real binary: exit status must be 0 or 1 (covers main.rs / option handling / stdin path)
    // <V>/.build/target/debug/rfverif -> <V>/.build/repo-target/debug/rustfmt (built by ./check, `needs_bins`)
    let bin = std::env::var("RUSTFMT_BIN").unwrap_or_else(|_| std::env::current_exe().ok().and_then(|e| Some(e.parent()?.parent()?.parent()?.join("repo-target/debug/rustfmt").display().to_string())).unwrap_or_else(|| "/verif/.build/repo-target/debug/rustfmt".into()));
    if Path::new(&bin).exists() {
        let n_cli = if thorough { 1500 } else { 250 };
        let mut idx: Vec<usize> = (0..jobs.len()).collect();
        let mut r2 = Rng::new(seed ^ 0xC16_0003);
        for i in 0..n_cli.min(idx.len()) {
            let j = i + r2.below(idx.len() - i);
            idx.swap(i, j);
        }
        idx.truncate(n_cli.min(jobs.len()));
        // the report renderer only runs in the binary: add cases that ask for diagnostics
        let diag: Vec<usize> = (0..jobs.len()).filter(|&i| names[i].starts_with("text:") && cfg_get(&jobs[i].cfg, "error_on_line_overflow") == Some("true")).take(if thorough { 1500 } else { 200 }).collect();
        idx.extend(diag);
        let cli: Vec<(usize, CliOut)> = par_map(&idx, |&i| {
            let mut cmd = Command::new(&bin);
            cmd.current_dir("/verif/frozen").arg("--config-path").arg("/verif/frozen/empty.toml").arg("--emit").arg("stdout");
            if !jobs[i].cfg.is_empty() {
                cmd.arg("--config").arg(cfg_text(&jobs[i].cfg));
            }
            (i, run_cmd(&mut cmd, jobs[i].src.as_bytes(), timeout))
        });
        for (i, c) in cli {
            if c.timed_out {
                o.count("cli:timeout");
                continue;
            }
            match c.code {
                Some(0) | Some(1) => o.count("cli:exit-0-or-1"),
                other => {
                    o.count("cli:ABNORMAL");
                    let first = c.stderr.lines().find(|l| l.contains("panicked") || l.starts_with("error")).unwrap_or("").to_string();
                    let site = if first.contains("panicked at ") { site_fn(first.split("panicked at ").nth(1).unwrap_or("").trim_end_matches(':')) } else { "fatal-error-unwind".to_string() };
                    // message class: the line after "panicked at", digits and quoted text removed
                    let msg = c.stderr.lines().skip_while(|l| !l.contains("panicked at ")).nth(1).unwrap_or("").to_string();
                    let mut class = String::new();
                    let mut in_tick = false;
                    for ch in msg.chars() {
                        if ch == '`' { in_tick = !in_tick; continue; }
                        if in_tick { continue; }
                        if ch.is_ascii_digit() { if !class.ends_with('N') { class.push('N'); } } else { class.push(ch); }
                    }
                    let class: String = class.split(';').next().unwrap_or("").trim().chars().take(60).collect();
                    let site = format!("{}:{}", site, class.replace(' ', "_"));
                    o.direct_failures.push(json!({"sig": format!("c16:cli-exit:{:?}:{}", other, site), "what": format!("the rustfmt binary ended with status {:?}: {}", other, first), "case": names[i], "config": cfg_text(&jobs[i].cfg), "src": jobs[i].src}));
                }
            }
            o.direct_evals += 1;
        }
        // option handling of the binary: command lines and configuration files with values that are wrong, missing or odd; every one
        // must end with status 0 or 1 (a usage or configuration error is an ordinary failure)
        {
            let d = out.join("opts");
            let _ = std::fs::remove_dir_all(&d);
            let _ = std::fs::create_dir_all(d.join("sub"));
            let _ = std::fs::write(d.join("x.rs"), "fn  main( ){ }\n");
            let _ = std::fs::write(d.join("sub/y.rs"), "fn  y( ){ }\n");
            let tomls: &[&str] = &["", "file_lines = []\n", "file_lines = 3\n", "ignore = 3\n", "ignore = [\"[\"]\n", "max_width = \"abc\"\n", "max_width = -1\n", "max_width = 99999999999999999999\n", "tab_spaces = 1.5\n", "unknown_key = 1\n", "width_heuristics = 1\n", "emit_mode = \"Json\"\n", "verbose = \"Loud\"\n", "edition = \"1999\"\n", "style_edition = 2024\n", "required_version = \"x\"\n", "skip_macro_invocations = [1]\n", "skip_macro_invocations = \"*\"\n", "newline_style = []\n", "[section]\nmax_width = 1\n", "max_width = 50\nmax_width = 60\n", "\u{feff}max_width = 50\n", "max_width = 100 # c\n\n\n"];
            let argvs: Vec<Vec<&str>> = vec![
                vec!["--print-config", "current", "/"], vec!["--print-config", "current", "."], vec!["--print-config", "current", "nope/x.rs"], vec!["--print-config", "current", "x.rs"], vec!["--print-config", "current"],
                vec!["--print-config", "default", "/"], vec!["--print-config", "minimal", "out.toml", "x.rs"], vec!["--print-config", "bogus"], vec!["--print-config"],
                vec!["--config", "", "x.rs"], vec!["--config", "=", "x.rs"], vec!["--config", "a=", "x.rs"], vec!["--config", "=b", "x.rs"], vec!["--config", "max_width=abc", "x.rs"], vec!["--config", "max_width=50,", "x.rs"], vec!["--config", ",", "x.rs"], vec!["--config", "max_width=50=60", "x.rs"], vec!["--config", "file_lines=[]", "x.rs"], vec!["--config", "ignore=[]", "x.rs"], vec!["--config", "max_width=18446744073709551616", "x.rs"],
                vec!["--file-lines", "[]", "x.rs"], vec!["--file-lines", "{}", "x.rs"], vec!["--file-lines", "[", "x.rs"], vec!["--file-lines", "[{\"file\":\"zzz.rs\",\"range\":[1,2]}]", "x.rs"], vec!["--file-lines", "[{\"file\":\"x.rs\",\"range\":[5,1]}]", "x.rs"], vec!["--file-lines", "[{\"file\":\"x.rs\",\"range\":[0,0]}]", "x.rs"], vec!["--file-lines", "[{\"file\":\"stdin\",\"range\":[1,1]}]"], vec!["--file-lines", "[{\"file\":\"x.rs\",\"range\":[1]}]", "x.rs"], vec!["--file-lines", "[{\"file\":3,\"range\":[1,2]}]", "x.rs"],
                vec!["--edition", "1999", "x.rs"], vec!["--style-edition", "2030", "x.rs"], vec!["--emit", "nonsense", "x.rs"], vec!["--emit", "files", "--check", "x.rs"], vec!["--color", "x", "x.rs"], vec!["--help=bogus"], vec!["--help=config"], vec!["--help=file-lines"], vec!["-V"], vec!["--version", "x.rs"], vec!["-q", "-v", "x.rs"], vec!["--check", "-l", "--backup", "x.rs"],
                vec!["--config-path", "nope.toml", "x.rs"], vec!["--config-path", "sub", "x.rs"], vec!["--config-path", "x.rs", "x.rs"], vec!["--config-path", "/", "x.rs"],
                vec!["sub"], vec!["/"], vec![""], vec!["x.rs", "x.rs", "x.rs"], vec!["nope.rs", "x.rs"], vec!["-"], vec!["--", "x.rs"], vec!["--unstable-features", "--skip-children", "x.rs"], vec!["--error-on-unformatted", "x.rs"],
            ];
            let mut jobs2: Vec<(usize, usize)> = vec![];
            for t in 0..tomls.len() {
                for a in 0..argvs.len() {
                    // every command line under the empty configuration; every configuration file under a few command lines
                    if t == 0 || a == 3 || a == 16 || a % 17 == t % 17 {
                        jobs2.push((t, a));
                    }
                }
            }
            let counter = std::sync::atomic::AtomicUsize::new(0);
            let results: Vec<CliOut> = par_map(&jobs2, |(t, a)| {
                let n = counter.fetch_add(1, std::sync::atomic::Ordering::SeqCst);
                let w = d.join(format!("w{}", n));
                let _ = std::fs::create_dir_all(w.join("sub"));
                let _ = std::fs::write(w.join("x.rs"), "fn  main( ){ }\n");
                let _ = std::fs::write(w.join("sub/y.rs"), "fn  y( ){ }\n");
                if !tomls[*t].is_empty() {
                    let _ = std::fs::write(w.join("rustfmt.toml"), tomls[*t]);
                }
                let mut cmd = Command::new(&bin);
                cmd.current_dir(&w).env("HOME", &w).env("XDG_CONFIG_HOME", &w).args(&argvs[*a]);
                let r = run_cmd(&mut cmd, b"fn  s( ){ }\n", Duration::from_secs(20));
                let _ = std::fs::remove_dir_all(&w);
                r
            });
            for ((t, a), c) in jobs2.iter().zip(results.iter()) {
                if c.timed_out {
                    o.count("opts:timeout");
                    continue;
                }
                o.direct_evals += 1;
                match c.code {
                    Some(0) | Some(1) => o.count("opts:exit-0-or-1"),
                    other => {
                        o.count("opts:ABNORMAL");
                        let first = c.stderr.lines().find(|l| l.contains("panicked")).unwrap_or("").to_string();
                        let site = if first.contains("panicked at ") { site_fn(first.split("panicked at ").nth(1).unwrap_or("").trim_end_matches(':')) } else { "no-panic-message".to_string() };
                        o.direct_failures.push(json!({"sig": format!("c16:cli-options:{:?}:{}", other, site), "what": format!("the rustfmt binary ended with status {:?} on a command line / configuration file with odd values: {}", other, first), "argv": argvs[*a], "rustfmt.toml": tomls[*t]}));
                    }
                }
            }
            let _ = std::fs::remove_dir_all(&d);
        }
        // enumerated probe F27: annotate-snippets (outside /repo) cuts a long reported line inside a
        // multi-byte character
        if let Ok(src) = std::fs::read_to_string("/verif/corpus/c16_f27.rs") {
            let mut cmd = Command::new(&bin);
            cmd.current_dir("/verif/frozen").arg("--config-path").arg("/verif/frozen/empty.toml").arg("--emit").arg("stdout").arg("--config").arg("max_width=80,wrap_comments=true,format_strings=true,normalize_comments=true,error_on_line_overflow=true,error_on_unformatted=true,hard_tabs=true,comment_width=20");
            let c = run_cmd(&mut cmd, src.as_bytes(), timeout);
            let bad = !c.timed_out && !matches!(c.code, Some(0) | Some(1));
            o.probes.push(json!({"id": "F27", "fails": bad, "what": format!("rustfmt on corpus/c16_f27.rs with diagnostics on: exit status {:?}; {}", c.code, c.stderr.lines().find(|l| l.contains("char boundary")).unwrap_or(""))}));
        }
    } else {
        o.notes.push(format!("binary {} not found: CLI stage skipped", bin));
    }
    o.sample(json!({"family": names.get(0), "config": jobs.get(0).map(|j| cfg_text(&j.cfg)), "src_head": jobs.get(0).map(|j| j.src.chars().take(200).collect::<String>())}));
    o.sample(json!({"family": names.last(), "config": jobs.last().map(|j| cfg_text(&j.cfg)), "src_head": jobs.last().map(|j| j.src.chars().take(200).collect::<String>())}));
    o.finish(out, jobs_n())
}

/// an identifier put together from ASCII and non-ASCII letters, underscores and digit runs
fn mixed_ident(rng: &mut Rng) -> String {
    const HEADS: &[&str] = &["a", "B", "z", "é", "ß", "Ü", "ö", "日", "ǅ", "gr", "Max", "X"];
    const TAILS: &[&str] = &["a", "B", "é", "ß", "Ü", "öße", "日本", "_", "_", "1", "02", "10", "9", "x", "__", "٣"];
    let mut s = rng.pick(HEADS).to_string();
    for _ in 0..rng.range(0, 5) {
        s.push_str(*rng.pick(TAILS));
    }
    s
}

/// groups of imports / `mod` / `extern crate` declarations over `mixed_ident`
fn names_program(rng: &mut Rng) -> String {
    let mut s = String::new();
    for _ in 0..rng.range(1, 4) {
        match rng.below(4) {
            0 => {
                for _ in 0..rng.range(2, 5) {
                    s.push_str(&format!("{}mod {};\n", if rng.chance(1, 5) { "pub " } else { "" }, mixed_ident(rng)));
                }
            }
            1 => {
                for _ in 0..rng.range(2, 4) {
                    s.push_str(&format!("extern crate {};\n", mixed_ident(rng)));
                }
            }
            2 => {
                let k = rng.range(2, 6);
                let items: Vec<String> = (0..k).map(|_| if rng.chance(1, 6) { format!("{} as {}", mixed_ident(rng), mixed_ident(rng)) } else { mixed_ident(rng) }).collect();
                s.push_str(&format!("use {}::{{{}}};\n", mixed_ident(rng), items.join(", ")));
            }
            _ => {
                for _ in 0..rng.range(2, 5) {
                    s.push_str(&format!("use {}::{};\n", mixed_ident(rng), mixed_ident(rng)));
                }
            }
        }
        s.push_str(*rng.pick(&["\n", "\nfn f() {}\n\n", "\n// group\n"]));
    }
    s
}

fn jobs_n() -> usize {
    jobs()
}
