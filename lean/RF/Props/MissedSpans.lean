import RF.Model.MissedSpans
import RF.Model.ListsRc
import RF.Lemmas.MissedSpans
import RF.Lemmas.ListsRc
import RF.Lemmas.Newline
/-!
# The missed-span writer (`src/missed_spans.rs`) — part of C03, C08 and C16

`format_missing(end)`, `format_missing_with_indent(end)`, `format_missing_no_indent(end)` write the text
between two nodes the formatter handles itself: white space, comments, and code it failed to format.
Model: `RF.Model.MissedSpans` (byte offsets, `none` = panic; `rewrite_comment` and `unicode_str_width` are
parameters).  The statements below are about one call on a visitor `v` whose `last_pos` and `end` cut the
snippet out of the file's text on character boundaries (`ValidSpan`); `written v v'` is what the call
pushed, piece by piece.

  * `missed_no_panic` (C16): no slice off a character boundary or out of range, no failed assertion, no
    division by zero — for EVERY snippet (code included), provided `hard_tabs → tab_spaces ≥ 1`.  The
    precondition is exact: `missed_tab_spaces_zero_counterexample`; the span conditions are exact too
    (`missed_inverted_span_counterexample`, `missed_off_boundary_counterexample`).
    `missed_line_start_counterexample`: the formula the code had before repair 01f650e
    (`line_start = offset + lf_count + crlf_count * 2`) panics on `// c` LF U+2028 LF (F34).
  * `missed_content_preserved` (C03): for every snippet the non-blank characters written are exactly those
    of the snippet, when the comment rewriter keeps the non-blank characters of a comment
    (`rcLight_content`: the rewriter under the default comment options does).
  * `missed_comments_emitted_partial` (C03): below style edition 2024 the comment pieces are the comment
    slices of the snippet, exactly once, in order, each as `rewrite_comment` returned it;
    `missed_comments_emitted_counterexample`: style edition 2024 writes a comment that trails code as it
    stands, without asking the rewriter; `missed_comments_emitted`: in every edition the comments' non-blank
    characters are written in order (the oracle the harness runs on the real code's output).
  * `missed_only_whitespace_and_comments` (C03/C08): for a gap of white space and comments every piece
    that is not a comment is white space, and no piece is code.
  * `missed_blank_lines_clamped` (C08): every run of line breaks pushed by `push_vertical_spaces` obeys
    `RF.Props.C08.clamp_bounds` with respect to the buffer in front of it.
  * `close_block_no_panic`, `close_block_content`, `close_block_comments_emitted_partial` (C03, C16): the
    same for the comments in front of a closing brace (`visitor.rs::close_block`).
  * `missed_code_kept_verbatim` / `missed_code_stripped_partial` / `missed_code_stripped_counterexample`
    (C08): `process_missing_code` copies code line by line, dropping the LAST trailing blank of a line when
    the line ends in an odd number of blanks (`last_wspace` is cleared by the second blank of a pair), and
    re-indents the unfinished last line; trailing blanks are therefore stripped only from lines that end in
    at most one blank.
-/
namespace RF.Props.MissedSpans
open RF.Missed RF.Comment RF.Shape
open RF.Lemmas.Missed

/-! ## Setting -/

/-- `last_pos .. end` cuts `snippet` out of the file's text: both ends on character boundaries, in range,
not inverted. -/
def ValidSpan (env : Env) (v : Vis) (end_ : Nat) (snippet : List Char) : Prop :=
  ∃ pre post, env.big = pre ++ snippet ++ post ∧ v.lastPos = utf8Len pre ∧
    end_ = utf8Len pre + utf8Len snippet

/-- The three entry points. -/
inductive Entry where
  | plain | withIndent | noIndent
  deriving DecidableEq, Repr

def run (env : Env) (e : Entry) (end_ : Nat) (v : Vis) : Option Vis :=
  match e with
  | .plain => formatMissing env end_ v
  | .withIndent => formatMissingIndent env true end_ v
  | .noIndent => formatMissingIndent env false end_ v

/-- The pieces pushed between `v` and `v'`. -/
def written (v v' : Vis) : List Piece := v'.log.drop v.log.length

/-- The comment rewriter of the default comment options (`normalize_comments = wrap_comments = false`),
as the driver instantiates it. -/
def rcLight (config : Config) (ed2024 : Bool) : Rc := fun orig _ shape =>
  RF.Lists.identifyCommentLight (RF.Lists.indentString shape.indent config)
    (fun g => RF.Lists.trimLeftPreserveLayout g shape.indent config ed2024) (orig.length + 1) orig

/-- A small concrete setting for the examples: the identity rewriter, one column per character. -/
def env0 (big : List Char) : Env :=
  { config := ⟨false, 4, 100, 80⟩, lower := 0, upper := 1, ed2024 := false, base := 0, big := big,
    rc := fun c _ _ => some c, width := List.length }

def vis0 (buffer : List Char) (lastPos : Nat) : Vis :=
  { buffer := buffer, lineNumber := 0, lastPos := lastPos, blockIndent := ⟨4, 0⟩, log := [] }

/-- `x;` `// c` LF LF `y`: the gap between the two statements. -/
def big0 : List Char := ['x', ';', '/', '/', ' ', 'c', '\n', '\n', 'y']

theorem run_spec (env : Env) (e : Entry) (v : Vis) (end_ : Nat) (snippet : List Char)
    (hspan : ValidSpan env v end_ snippet)
    (hts : env.config.hard_tabs = true → 1 ≤ env.config.tab_spaces) :
    ∃ v' o, run env e end_ v = some v' ∧ Result env v end_ snippet v' o := by
  obtain ⟨pre, post, hbig, hpos, hend⟩ := hspan
  cases e with
  | plain => exact formatMissing_spec env hts pre snippet post hbig v hpos end_ hend
  | withIndent => exact formatMissingInner_spec env hts (.indent true) pre snippet post hbig v hpos end_ hend
  | noIndent => exact formatMissingInner_spec env hts (.indent false) pre snippet post hbig v hpos end_ hend

theorem written_of_result {env : Env} {v v' : Vis} {end_ : Nat} {snippet : List Char} {o : List Piece}
    (h : Result env v end_ snippet v' o) : written v v' = o := by
  unfold written; rw [h.log]; simp

/-! ## No panic (C16) -/

/-- One call of the missed-span writer on a valid span never panics — whatever the snippet holds
(comments, any Unicode white space, code, unterminated comments or strings), whatever the buffer, the
indentation, the page width and the blank-line bounds — provided `tab_spaces ≥ 1` under `hard_tabs`. -/
theorem missed_no_panic (env : Env) (e : Entry) (v : Vis) (end_ : Nat) (snippet : List Char)
    (hspan : ValidSpan env v end_ snippet)
    (hts : env.config.hard_tabs = true → 1 ≤ env.config.tab_spaces) :
    (run env e end_ v).isSome = true := by
  obtain ⟨v', o, h, _⟩ := run_spec env e v end_ snippet hspan hts
  rw [h]; rfl

/-- … and afterwards `last_pos = end`, `block_indent` is untouched and the buffer has only grown. -/
theorem missed_frame (env : Env) (e : Entry) (v v' : Vis) (end_ : Nat) (snippet : List Char)
    (hspan : ValidSpan env v end_ snippet)
    (hts : env.config.hard_tabs = true → 1 ≤ env.config.tab_spaces) (h : run env e end_ v = some v') :
    v'.lastPos = end_ ∧ v'.blockIndent = v.blockIndent ∧ v'.buffer = v.buffer ++ render (written v v') := by
  obtain ⟨v'', o, h', hres⟩ := run_spec env e v end_ snippet hspan hts
  rw [h] at h'; cases h'
  rw [written_of_result hres]
  exact ⟨hres.pos, hres.indent, hres.buffer⟩

/-- `line_number` counts the line breaks pushed (the invariant `line_number = count_newlines(buffer)`
of C04's buffer machine is kept). -/
theorem missed_line_number (env : Env) (e : Entry) (v v' : Vis) (end_ : Nat) (snippet : List Char)
    (hspan : ValidSpan env v end_ snippet)
    (hts : env.config.hard_tabs = true → 1 ≤ env.config.tab_spaces) (h : run env e end_ v = some v') :
    v'.lineNumber = v.lineNumber + RF.Newline.countNewlines (render (written v v')) := by
  obtain ⟨v'', o, h', hres⟩ := run_spec env e v end_ snippet hspan hts
  rw [h] at h'; cases h'
  rw [written_of_result hres]; exact hres.line

example : ValidSpan (env0 big0) (vis0 ['x', ';'] 2) 8 ['/', '/', ' ', 'c', '\n', '\n'] :=
  ⟨['x', ';'], ['y'], rfl, rfl, rfl⟩

/-- The gap of `big0`: the comment stays on the statement's line, one blank line is kept, the next
statement is indented. -/
example : (run (env0 big0) .withIndent 8 (vis0 ['x', ';'] 2)).map (·.buffer) =
    some ['x', ';', ' ', '/', '/', ' ', 'c', '\n', '\n', ' ', ' ', ' ', ' '] := by decide +kernel

/-- `hard_tabs = true`, `tab_spaces = 0`: `Indent::to_string` divides by zero. -/
theorem missed_tab_spaces_zero_counterexample :
    run { env0 ['x', '\n', 'y'] with config := ⟨true, 0, 100, 80⟩ } .withIndent 2 (vis0 ['x'] 1) = none := by
  decide +kernel

/-- `last_pos > end`: `assert!(start < end)`. -/
theorem missed_inverted_span_counterexample :
    run (env0 ['x', ' ', 'y']) .withIndent 1 (vis0 ['x'] 2) = none := by decide +kernel

/-- `end` inside the two-byte character `é`: the snippet slice panics. -/
theorem missed_off_boundary_counterexample :
    run (env0 ['x', ' ', 'é']) .withIndent 3 (vis0 ['x'] 1) = none := by decide +kernel

/-! ### The formula before repair 01f650e (F34) -/

/-- One turn of the loop as it was: behind a blank slice the line was taken to start at
`offset + lf_count + crlf_count * 2`, which counts one byte per line break and nothing for any other
white space of the slice. -/
def wsiStepOld (env : Env) (snippet : List Char) (bigDiff : Nat) (sl : Slice) (st : RF.Missed.Status)
    (v : Vis) : Option (RF.Missed.Status × Vis) :=
  let (lf, crlf) := countLfCrlf false sl.text
  let newlineCount := lf + crlf
  if sl.kind = .comment then
    match takeBytes? (sl.start + bigDiff) env.big with
    | none => none
    | some bigPrefix => processComment env snippet bigPrefix sl.text sl.start st v
  else if (trim sl.text).isEmpty && newlineCount > 0 then
    some ({ st with cur_line := st.cur_line + newlineCount, line_start := sl.start + lf + crlf * 2 },
          v.pushVerticalSpaces env newlineCount)
  else processMissingCode env snippet sl.text sl.start st v

def wsiLoopOld (env : Env) (snippet : List Char) (bigDiff : Nat) :
    List Slice → RF.Missed.Status → Vis → Option (RF.Missed.Status × Vis)
  | [], st, v => some (st, v)
  | sl :: rest, st, v =>
    match wsiStepOld env snippet bigDiff sl st v with
    | none => none
    | some (st1, v1) => wsiLoopOld env snippet bigDiff rest st1 v1

/-- `write_snippet` up to the closure, old formula: the final `&snippet[status.line_start..]`. -/
def lastSnippetOld (env : Env) (start : Nat) (snippet : List Char) (v : Vis) : Option (List Char) :=
  match commentCodeSlices? snippet with
  | none => none
  | some slices =>
    match wsiLoopOld env snippet start slices ⟨0, none, 1⟩ v with
    | none => none
    | some (st, _) => dropBytes? st.line_start snippet

/-- `// c` LF U+2028 LF between two items: the blank slice U+2028 LF is 4 bytes with one line break, the
old formula puts `line_start` one byte into U+2028 and `&snippet[line_start..]` panics — while the
repaired code writes the gap (`missed_no_panic`). -/
theorem missed_line_start_counterexample :
    lastSnippetOld (env0 ['x', '/', '/', ' ', 'c', '\n', '\u2028', '\n', 'y']) 1
        ['/', '/', ' ', 'c', '\n', '\u2028', '\n'] (vis0 ['x'] 1) = none ∧
      (run (env0 ['x', '/', '/', ' ', 'c', '\n', '\u2028', '\n', 'y']) .withIndent 10 (vis0 ['x'] 1)).isSome
        = true := by
  constructor <;> decide +kernel

/-! ## Content (C03) -/

/-- The rewriter of the default comment options keeps the non-blank characters of a comment. -/
theorem rcLight_content (config : Config) (ed2024 : Bool) : RcContent (rcLight config ed2024) := by
  intro c bs sh r h
  unfold rcLight at h
  have hsq : ∀ s, RF.Missed.squeeze s = RF.Lists.squeeze s := fun _ => rfl
  rw [hsq, hsq]
  exact RF.Lemmas.ListsRc.identifyCommentLight_content _
    (RF.Lemmas.Lists.squeeze_of_ws (RF.Lemmas.Lists.indentString_ws sh.indent config)) _
    (fun g r hg => RF.Lemmas.ListsRc.trimLeftPreserveLayout_content g sh.indent config ed2024 r hg) _ _ _ h

/-- For EVERY snippet — comments, white space, code — the non-blank characters the call writes are
exactly the non-blank characters of the snippet, in order: no comment character and no code character is
dropped, duplicated or invented.  (At the start of the file a blank snippet is dropped whole.) -/
theorem missed_content_preserved (env : Env) (e : Entry) (v v' : Vis) (end_ : Nat) (snippet : List Char)
    (hspan : ValidSpan env v end_ snippet)
    (hts : env.config.hard_tabs = true → 1 ≤ env.config.tab_spaces) (hrc : RcContent env.rc)
    (h : run env e end_ v = some v') :
    squeeze (render (written v v')) = squeeze snippet := by
  obtain ⟨v'', o, h', hres⟩ := run_spec env e v end_ snippet hspan hts
  rw [h] at h'; cases h'
  rw [written_of_result hres]; exact hres.content hrc

/-- … with the rewriter of the default options. -/
theorem missed_content_preserved_default (env : Env) (e : Entry) (v v' : Vis) (end_ : Nat)
    (snippet : List Char) (hspan : ValidSpan env v end_ snippet)
    (hts : env.config.hard_tabs = true → 1 ≤ env.config.tab_spaces)
    (hrc : env.rc = rcLight env.config env.ed2024) (h : run env e end_ v = some v') :
    contentOk snippet (render (written v v')) = true := by
  have := missed_content_preserved env e v v' end_ snippet hspan hts
    (by rw [hrc]; exact rcLight_content _ _) h
  simp [contentOk, this]

example : RcContent (env0 big0).rc := by intro c bs sh r h; cases h; rfl

/-! ## Comments are written exactly once, in order (C03) -/

theorem commentTexts_eq (snippet : List Char) (items : List Slice)
    (h : commentCodeSlices? snippet = some items) : commentTexts snippet = commentSlices items := by
  simp [commentTexts, h, commentSlices]

/-- Below style edition 2024: the comment pieces written are the comment slices of the snippet
(`CommentCodeSlices`), exactly once each and in order, each as `rewrite_comment` returned it for some
shape — or as written where `rewrite_comment` failed.  For every snippet that is not blank, code
included.  (Under `format_missing` the `;` shortcut must not apply.) -/
theorem missed_comments_emitted_partial (env : Env) (e : Entry) (v v' : Vis) (end_ : Nat)
    (snippet : List Char) (hspan : ValidSpan env v end_ snippet)
    (hts : env.config.hard_tabs = true → 1 ≤ env.config.tab_spaces) (hed : env.ed2024 = false)
    (hsemi : trim snippet ≠ [';']) (hnb : trim snippet ≠ []) (h : run env e end_ v = some v') :
    ∃ shapes : List Shape, shapes.length = (commentTexts snippet).length ∧
      commentPieces (written v v') =
        List.zipWith (fun c sh => rcOr env c sh) (commentTexts snippet) shapes := by
  obtain ⟨v'', o, h', hres⟩ := run_spec env e v end_ snippet hspan hts
  rw [h] at h'; cases h'
  rw [written_of_result hres]
  have hnws : ¬ AllWs snippet := fun hws => hnb ((trim_nil_iff snippet).mpr hws)
  cases hres.shape with
  | nothing hws => exact absurd hws hnws
  | empty last hnil _ => subst hnil; exact absurd allWs_nil hnws
  | blank t last hws _ _ => exact absurd hws hnws
  | written items lo last hitems hlo hlast =>
    obtain ⟨shapes, hlen, hzip⟩ := hlo.comments hed
    rw [commentTexts_eq snippet items hitems]
    exact ⟨shapes, hlen, by rw [commentPieces_append, hlast.noComment, hzip]; simp⟩
  | semi hs => exact absurd hs hsemi

/-- `x;` then `// c` LF: one comment slice, one comment piece (the identity rewriter returns it whole,
the line break is pushed separately). -/
example : (run (env0 ['x', ';', '/', '/', ' ', 'c', '\n', 'y']) .withIndent 7 (vis0 ['x', ';'] 2)).map
      (fun v' => commentPieces v'.log) = some [['/', '/', ' ', 'c', '\n']] ∧
    commentTexts ['/', '/', ' ', 'c', '\n'] = [['/', '/', ' ', 'c', '\n']] := by
  constructor <;> decide +kernel

/-- Style edition 2024 does not hand a comment that trails code to `rewrite_comment`: with a rewriter
that answers `!` for every comment, the comment behind `x;` is written as it stands (without its line
break), not as `!`. -/
theorem missed_comments_emitted_counterexample :
    (run { env0 ['x', ';', '/', '/', ' ', 'c', '\n', 'y'] with ed2024 := true, rc := fun _ _ _ => some ['!'] }
        .withIndent 7 (vis0 ['x', ';'] 2)).map (fun v' => commentPieces v'.log) =
      some [['/', '/', ' ', 'c']] := by decide +kernel

/-- Every edition, gaps of white space and comments: the non-blank characters of the comments are
written in order, and nothing else that is not blank is written — the two oracles the harness evaluates
on the real code's output hold of the model's. -/
theorem missed_comments_emitted (env : Env) (e : Entry) (v v' : Vis) (end_ : Nat) (snippet : List Char)
    (hspan : ValidSpan env v end_ snippet)
    (hts : env.config.hard_tabs = true → 1 ≤ env.config.tab_spaces) (hrc : RcContent env.rc)
    (hgap : isBlankGap snippet = true) (h : run env e end_ v = some v') :
    commentsEmitted snippet (render (written v v')) = true ∧
      onlyBlanksAndComments snippet (render (written v v')) = true := by
  have hc := missed_content_preserved env e v v' end_ snippet hspan hts hrc h
  obtain ⟨items, hitems, hblank⟩ := (isBlankGap_iff snippet).mp hgap
  obtain ⟨items', hitems', hcat, _, _⟩ := RF.Lemmas.Comment.slices_spec snippet
  rw [hitems] at hitems'; cases hitems'
  have hsq : squeeze snippet = ((commentTexts snippet).map squeeze).flatten := by
    rw [commentTexts_eq snippet items hitems, ← blankSlices_squeeze items hblank, hcat]
  constructor
  · unfold commentsEmitted
    rw [hc, hsq]
    have := occursInOrder_flatten ((commentTexts snippet).map squeeze) []
    simpa using this
  · unfold onlyBlanksAndComments
    rw [hc, hsq]; simp

example : isBlankGap ['/', '/', ' ', 'c', '\n', '\n'] = true := by decide +kernel

/-! ## Nothing else is written (C03 / C08) -/

/-- For a gap made of white space (any Unicode white space) and comments — what a well-formed source has
between two nodes — every piece written is a comment or white space, and none was copied as code. -/
theorem missed_only_whitespace_and_comments (env : Env) (e : Entry) (v v' : Vis) (end_ : Nat)
    (snippet : List Char) (hspan : ValidSpan env v end_ snippet)
    (hts : env.config.hard_tabs = true → 1 ≤ env.config.tab_spaces)
    (hgap : isBlankGap snippet = true) (hsemi : trim snippet ≠ [';'])
    (h : run env e end_ v = some v') :
    ∀ q ∈ written v v', q.tag ≠ .code ∧ (q.tag ≠ .comment → ∀ c ∈ q.text, isWs c = true) := by
  obtain ⟨v'', o, h', hres⟩ := run_spec env e v end_ snippet hspan hts
  rw [h] at h'; cases h'
  rw [written_of_result hres]
  obtain ⟨items, hitems, hblank⟩ := (isBlankGap_iff snippet).mp hgap
  intro q hq
  have : PieceBlank q := by
    cases hres.shape with
    | nothing _ => simp at hq
    | empty last _ hlast => exact hlast.pieceBlank q hq
    | blank t last _ ht hlast =>
      rcases List.mem_cons.mp hq with rfl | hq
      · obtain ⟨k, rfl⟩ := ht
        exact ⟨by simp, fun _ => allWs_replicate _ _ isWs_nl⟩
      · exact hlast.pieceBlank q hq
    | written items' lo last hitems' hlo hlast =>
      rw [hitems] at hitems'; cases hitems'
      rcases List.mem_append.mp hq with hq | hq
      · exact hlo.pieceBlank hblank q hq
      · exact hlast.pieceBlank q hq
    | semi hs => exact absurd hs hsemi
  exact this

/-- What the closure of `format_missing*` receives as `last_snippet` is white space, for every snippet:
`write_snippet_inner` has always written everything else before (so the `trim_end` of
`format_missing_indent` pushes the empty string, and `format_missing` ends with blanks of the source). -/
theorem missed_last_snippet_blank (env : Env) (e : Entry) (v v' : Vis) (end_ : Nat)
    (snippet : List Char) (hspan : ValidSpan env v end_ snippet)
    (hts : env.config.hard_tabs = true → 1 ≤ env.config.tab_spaces) (h : run env e end_ v = some v') :
    ∀ q ∈ written v v', q.tag = .last → ∀ c ∈ q.text, isWs c = true := by
  obtain ⟨v'', o, h', hres⟩ := run_spec env e v end_ snippet hspan hts
  rw [h] at h'; cases h'
  rw [written_of_result hres]
  exact hres.shape.lastBlank

/-- `x` blank `y` blanks through `format_missing`: the code is copied behind fresh indentation and the
`last` piece is empty. -/
example : (run (env0 ['x', ' ', 'y', ' ', ' ', 'z']) .plain 5 (vis0 ['x'] 1)).map (·.log) =
    some [⟨.blank, [' ', ' ', ' ', ' ']⟩, ⟨.code, ['y']⟩, ⟨.last, []⟩] := by decide +kernel

/-! ## Blank lines (C08) -/

/-- Every run of line breaks that `push_vertical_spaces` pushes during the call — between two comments,
between a comment and the next node, for a blank gap — is clamped against the run already at the end of
the buffer exactly as `RF.Props.C08.clamp_bounds` says: afterwards the run is at least
`blank_lines_lower_bound + 1` long and at most `blank_lines_upper_bound + 1`, or no longer than it was.
(`lower ≤ upper`; for `lower > upper` see `RF.Props.C08.clamp_lower_gt_upper_counterexample`.) -/
theorem missed_blank_lines_clamped (env : Env) (e : Entry) (v v' : Vis) (end_ : Nat)
    (snippet : List Char) (hspan : ValidSpan env v end_ snippet)
    (hts : env.config.hard_tabs = true → 1 ≤ env.config.tab_spaces) (hlu : env.lower ≤ env.upper)
    (h : run env e end_ v = some v') (l1 l2 : List Piece) (t : List Char)
    (hsplit : written v v' = l1 ++ ⟨.vspace, t⟩ :: l2) :
    ∃ k, t = List.replicate k '\n' ∧
      RF.Newline.trailingNewlines (v.buffer ++ render l1 ++ t) =
        RF.Newline.trailingNewlines (v.buffer ++ render l1) + k ∧
      env.lower + 1 ≤ RF.Newline.trailingNewlines (v.buffer ++ render l1) + k ∧
      RF.Newline.trailingNewlines (v.buffer ++ render l1) + k ≤
        max (RF.Newline.trailingNewlines (v.buffer ++ render l1)) (env.upper + 1) := by
  obtain ⟨v'', o, h', hres⟩ := run_spec env e v end_ snippet hspan hts
  rw [h] at h'; cases h'
  rw [written_of_result hres] at hsplit
  obtain ⟨n, hn⟩ := hres.vs l1 t l2 hsplit
  have hb := RF.Lemmas.Newline.clamp_bounds
    (RF.Newline.trailingNewlines (v.buffer ++ render l1)) n env.lower env.upper hlu
  unfold RF.Newline.clampBlank at hb
  refine ⟨_, hn, ?_, hb.1, hb.2⟩
  rw [hn, RF.Lemmas.Newline.trailingNewlines_push]

/-- `x;` LF LF LF LF `y` under the default bounds (0, 1): four line breaks asked for, two pushed. -/
example : (run (env0 ['x', ';', '\n', '\n', '\n', '\n', 'y']) .withIndent 6 (vis0 ['x', ';'] 2)).map
    (fun v' => v'.log.head?) = some (some ⟨.vspace, ['\n', '\n']⟩) := by decide +kernel

/-! ## Code that was not formatted is copied (C08) -/

/-- `process_missing_code` on a slice `sub` of the snippet that starts at `line_start` with `last_wspace`
clear (which is how `write_snippet_inner` calls it: `RF.Lemmas.Missed.Inv`): no panic, and exactly
`pmcSpec indent sub` is appended to the buffer — the complete lines of `sub`, each through `keepLine`,
then the indented, trimmed rest if it is not blank. -/
theorem missed_code_kept_verbatim (env : Env) (snippet pre sub tail : List Char)
    (hs : snippet = pre ++ sub ++ tail) (st : RF.Missed.Status) (v : Vis)
    (hls : st.line_start = utf8Len pre) (hlw : st.last_wspace = none) (indent : List Char)
    (hind : indentStr? env v.blockIndent = some indent) :
    ∃ st' v', processMissingCode env snippet sub (utf8Len pre) st v = some (st', v') ∧
      v'.buffer = v.buffer ++ pmcSpec indent sub :=
  processMissingCode_exact env snippet pre sub tail hs st v hls hlw indent hind

/-- "Verbatim modulo trailing white space", exactly: a complete line is copied as it is, or without its
last character, which is then white space — the latter precisely when the line ends in an odd number
of white-space characters. -/
theorem missed_code_line_verbatim (l : List Char) :
    (keepLine l = l ∨ ∃ c, isWs c = true ∧ l = keepLine l ++ [c]) ∧
      (keepLine l ≠ l → trailWs l % 2 = 1) := by
  refine ⟨keepLine_cases l, ?_⟩
  intro h
  unfold keepLine at h
  by_cases hodd : trailWs l % 2 = 1
  · exact hodd
  · rw [if_neg hodd] at h; exact absurd rfl h

/-- When every complete line ends in at most one blank, the lines come out without trailing white
space (`str::trim_end`). -/
theorem missed_code_stripped_partial (indent sub : List Char) (h : oneTrail [] sub = true) :
    pmcSpec indent sub = stripLines [] sub ++
      (if (trim (lastPart [] sub)).isEmpty then [] else indent ++ trim (lastPart [] sub)) := by
  unfold pmcSpec; rw [pmcLines_stripped sub [] h]

example : oneTrail [] ['a', ' ', '\n', 'b', '\r', '\n', ' ', 'c'] = true ∧
    pmcSpec [' ', ' '] ['a', ' ', '\n', 'b', '\r', '\n', ' ', 'c'] =
      ['a', '\n', 'b', '\n', ' ', ' ', 'c'] := by decide +kernel

/-- Two blanks at the end of a line are both kept (`last_wspace` is set by the first and cleared by the
second), three lose only the last: trailing white space is not stripped in general. -/
theorem missed_code_stripped_counterexample :
    pmcSpec [] ['a', ' ', ' ', '\n'] = ['a', ' ', ' ', '\n'] ∧
      pmcSpec [] ['a', ' ', ' ', ' ', '\n'] = ['a', ' ', ' ', '\n'] ∧
      stripLines [] ['a', ' ', ' ', '\n'] = ['a', '\n'] := by decide +kernel

/-- … seen through the whole call: `x;` then a line of code with two trailing blanks. -/
example : (run (env0 ['x', ';', '\n', 'a', ' ', ' ', '\n', 'y']) .withIndent 7 (vis0 ['x', ';'] 2)).map
    (·.buffer) = some ['x', ';', '\n', 'a', ' ', ' ', '\n', ' ', ' ', ' ', ' '] := by decide +kernel

/-! ## close_block: the comments in front of a closing brace (C03, C16) -/

/-- `close_block(span, unindent_comment)` on a span cut out of the file's text on character boundaries
never panics (`block_unindent` is guarded, every slice is on a boundary), provided
`hard_tabs → tab_spaces ≥ 1`. -/
theorem close_block_no_panic (env : Env) (pre snippet post : List Char)
    (hbig : env.big = pre ++ snippet ++ post) (unindentComment : Bool) (v : Vis)
    (hts : env.config.hard_tabs = true → 1 ≤ env.config.tab_spaces) :
    (closeBlock env (utf8Len pre) (utf8Len pre + utf8Len snippet) unindentComment v).isSome = true := by
  obtain ⟨v', o, h, _⟩ := closeBlock_spec env hts pre snippet post hbig unindentComment v
  rw [h]; rfl

/-- What `close_block` writes is, blanks aside, the comments of the snippet, the code in it that is more
than `;`, and the closing brace — in this order, nothing dropped, nothing added (when the comment
rewriter keeps the non-blank characters of a comment). -/
theorem close_block_content (env : Env) (pre snippet post : List Char)
    (hbig : env.big = pre ++ snippet ++ post) (unindentComment : Bool) (v v' : Vis)
    (hts : env.config.hard_tabs = true → 1 ≤ env.config.tab_spaces) (hrc : RcContent env.rc)
    (h : closeBlock env (utf8Len pre) (utf8Len pre + utf8Len snippet) unindentComment v = some v') :
    v'.buffer = v.buffer ++ render (written v v') ∧
      closeContentOk snippet (render (written v v')) = true := by
  obtain ⟨v'', o, h', hp, hc⟩ := closeBlock_spec env hts pre snippet post hbig unindentComment v
  rw [h] at h'; cases h'
  have hw : written v v' = o := by unfold written; rw [hp.log]; simp
  rw [hw]
  exact ⟨hp.buffer, by simp [closeContentOk, hc hrc]⟩

/-- Below style edition 2024 `close_block` writes the comment slices of the snippet as comment pieces,
exactly once each and in order, each as `rewrite_comment` returned it for some shape (or as written
where it failed). -/
theorem close_block_comments_emitted_partial (env : Env) (pre snippet post : List Char)
    (hbig : env.big = pre ++ snippet ++ post) (unindentComment : Bool) (v v' : Vis)
    (hts : env.config.hard_tabs = true → 1 ≤ env.config.tab_spaces) (hed : env.ed2024 = false)
    (h : closeBlock env (utf8Len pre) (utf8Len pre + utf8Len snippet) unindentComment v = some v') :
    ∃ shapes : List Shape, shapes.length = (commentTexts snippet).length ∧
      commentPieces (written v v') =
        List.zipWith (fun c sh => rcOr env c sh) (commentTexts snippet) shapes := by
  obtain ⟨o, shapes, hlog, hlen, hzip⟩ :=
    closeBlock_comments env hts hed pre snippet post hbig unindentComment v v' h
  have hw : written v v' = o := by unfold written; rw [hlog]; simp
  rw [hw]; exact ⟨shapes, hlen, hzip⟩

/-- `{ x; /* c */ }`: the comment stays behind the statement, the brace goes to its own line. -/
example : (closeBlock (env0 ['{', ' ', 'x', ';', ' ', '/', '*', ' ', 'c', ' ', '*', '/', ' ', '}']) 4 13 false
      (vis0 ['{', ' ', 'x', ';'] 4)).map (·.buffer) =
    some ['{', ' ', 'x', ';', ' ', '/', '*', ' ', 'c', ' ', '*', '/', '\n', '}'] ∧
    closeContent [' ', '/', '*', ' ', 'c', ' ', '*', '/', ' '] = ['/', '*', 'c', '*', '/', '}'] := by
  constructor <;> decide +kernel

/-- A stray `;` in front of the brace is dropped: `closeContent` does not count it. -/
example : closeContent [' ', ';', ' '] = ['}'] := by decide +kernel

theorem close_block_tab_spaces_zero_counterexample :
    closeBlock { env0 ['{', '}'] with config := ⟨true, 0, 100, 80⟩ } 1 1 false (vis0 ['{'] 1) = none := by
  decide +kernel

end RF.Props.MissedSpans
