import RF.Lemmas.Emit

/-!
# C06  Check mode is read-only and exact; all emit modes agree on the text

Theorems about `RF/Model/Emit.lean` and the GENERATED tables `RF.Gen.Emitters.fsOps` /
`createEmitter` (from `src/lib.rs::create_emitter` and `src/emitter/*.rs`).  If a write is added
to another emitter, an arm of `create_emitter` changes, or an op is added under the guard, the
generated file changes and these stop checking.

Assumption on the external `diff` crate (`ScriptOk`, checked per case by the correspondence): the
script's sides are the line lists of the two texts and it is all-`both` when they are equal.
-/
namespace RF.Props.C06
open RF.Gen.Emitters RF.Diff RF.Emit RF.Backup

/-- paths an op touches -/
def touched : FsOp → List P
  | .write d => [d]
  | .rename s d => [s, d]
  | .remove p => [p]
  | .copy s d => [s, d]

/-- **only_files_emitters_write.**  An emitter makes a file-system call only in `Files` mode;
the plain one touches only the file itself, and the only path either of them *writes bytes to*
is the file (plain) or the `.tmp` sibling (backup) — the `.bk` is only ever a rename target. -/
theorem only_files_emitters_write :
    (∀ mode backup, fsOps (createEmitter mode backup) ≠ [] → mode = .files) ∧
    (∀ kind, fsOps kind ≠ [] → kind = .files ∨ kind = .filesWithBackup) ∧
    (∀ op ∈ fsOps .files, ∀ p ∈ touched op, p = .file) ∧
    (∀ op ∈ fsOps .filesWithBackup, ∀ d, op = .write d → d = .tmp) ∧
    (∀ op ∈ fsOps .filesWithBackup, ∀ s d, op ≠ .copy s d ∧ op ≠ .remove d) := by
  refine ⟨?_, ?_, by decide, ?_, ?_⟩
  · intro mode backup; cases mode <;> cases backup <;> decide
  · intro kind; cases kind <;> decide
  · intro op hop d h; subst h; revert hop; cases d <;> decide
  · intro op hop s d
    simp only [fsOps, List.mem_cons, List.mem_nil_iff, or_false] at hop
    rcases hop with rfl | rfl | rfl <;> simp

/-- Every non-`Files` mode, hence `--check` (which is `Diff`, see `check_is_diff`), stdout, json,
checkstyle, modified-lines and coverage, makes no file-system call, with or without `--backup`,
for every input. -/
theorem non_files_modes_read_only {α} (mode : EmitMode) (backup : Bool) (cfg : Cfg) (i : Input α)
    (h : mode ≠ .files) : (emit (createEmitter mode backup) cfg i).ops = [] := by
  rw [RF.Lemmas.Emit.emit_ops]
  unfold guardedOps
  split
  · cases mode <;> first | exact absurd rfl h | (cases backup <;> rfl)
  · rfl

/-- **files_touch_iff_differs.**  The ops an emitter performs on a file are non-empty exactly when
it is one of the two `Files` emitters and the formatted text differs from the original text it
was given; and a file whose text is unchanged is left exactly as it was (no op = contents and
modification time untouched, no `.bk`). -/
theorem files_touch_iff_differs {α} (kind : EmitterKind) (cfg : Cfg) (i : Input α) :
    ((emit kind cfg i).ops ≠ [] ↔
      (kind = .files ∨ kind = .filesWithBackup) ∧ i.orig ≠ i.fmt) ∧
    (i.orig = i.fmt → ∀ (fs s : Fs P Char),
      Reachable id i.fmt (emit kind cfg i).ops fs s → s = fs) := by
  rw [RF.Lemmas.Emit.emit_ops]
  constructor
  · unfold guardedOps
    by_cases e : i.orig = i.fmt
    · simp [e]
    · cases kind <;> simp [e, fsOps]
  · intro e fs s r
    have : guardedOps kind i.orig i.fmt = [] := by simp [guardedOps, e]
    rw [this] at r
    exact RF.Lemmas.Backup.reachable_nil id i.fmt fs s r

/-! ### `--check` -/

/-- `--check` selects the Diff emitter when files are given as paths, provided no
`--config emit_mode=…` is passed; on standard input it always does. -/
theorem check_is_diff (c : Cli) (b : Base) (hc : c.check = true) :
    (c.inlineEmit = none → (applyTo c b).kind = .diff) ∧
    (∀ r, stdinResolve c b = .ok r → r.kind = .diff) := by
  constructor
  · intro hi
    simp [applyTo, Resolved.kind, hc, hi, createEmitter]
  · intro r hr
    simp only [stdinResolve, hc, if_true, Except.ok.injEq] at hr
    subst hr
    simp [Resolved.kind, createEmitter]

/-- `--emit` and `--check` together are refused. -/
theorem emit_check_exclusive (nightly : Bool) (s : List Char) (bk l q v : Bool)
    (ie : Option EmitMode) (ib : Option Bool) :
    fromMatches nightly true (some s) bk l q v ie ib = .error .emitAndCheck ∨
    fromMatches nightly true (some s) bk l q v ie ib = .error .verboseAndQuiet := by
  unfold fromMatches parseEmit
  by_cases h : (v && q) = true <;> simp [h]

/-- `--emit` can only name files, stdout, coverage, checkstyle or json: never `Diff` or
`ModifiedLines` (those are reached through `--check` or the configuration). -/
theorem emit_values (s : List Char) (m : EmitMode) (h : emitModeFromStr s = some m) :
    m ≠ .diff ∧ m ≠ .modifiedLines := by
  unfold emitModeFromStr at h
  repeat' split at h
  all_goals first | (simp only [Option.some.injEq] at h; subst h; simp) | simp at h

/-- **check_read_only_counterexample (finding).**  `rustfmt --check --config emit_mode=files f.rs`:
`apply_to` applies the `--config` pairs after `--check` has set `Diff`, so the Files emitter runs,
the file IS rewritten, and because that emitter never reports `has_diff` the exit status is 0. -/
theorem check_read_only_counterexample :
    let c : Cli := ⟨true, none, false, false, false, false, some .files, none⟩
    let i : Input Nat := ⟨['a'], ['b'], [.left 0, .right 1]⟩
    let r := applyTo c Base.default
    r.kind = .files ∧ (emit r.kind r.cfg i).ops = [.write .file] ∧
    exitFormat c.check ⟨false, false, false, false, false, sessionDiff r.kind r.cfg [i], false⟩ = 0 := by
  decide

/-- **check_read_only_partial.**  With `--check`, files given as paths and no
`--config emit_mode=…`, no file-system call is made for any input, with or without `--backup`,
`-l`, `--quiet`, whatever the configuration file says. -/
theorem check_read_only_partial {α} (c : Cli) (b : Base) (i : Input α) (hc : c.check = true)
    (hi : c.inlineEmit = none) : (emit (applyTo c b).kind (applyTo c b).cfg i).ops = [] := by
  rw [(check_is_diff c b hc).1 hi, RF.Lemmas.Emit.emit_ops]
  simp [guardedOps, fsOps]

/-- On standard input nothing is ever written: the mode is forced to one of Diff, Stdout,
Checkstyle, Json after the configuration is loaded, whatever `--config` or the file says. -/
theorem stdin_read_only {α} (c : Cli) (b : Base) (r : Resolved) (i : Input α)
    (h : stdinResolve c b = .ok r) : (emit r.kind r.cfg i).ops = [] := by
  have hm : r.emitMode ≠ .files := by
    unfold stdinResolve at h
    split at h
    · simp only [Except.ok.injEq] at h; subst h; simp
    · split at h <;> first | (simp only [Except.ok.injEq] at h; subst h; simp) | simp at h
  exact non_files_modes_read_only r.emitMode r.makeBackup r.cfg i hm

/-- **diff_hasDiff_iff.**  The Diff emitter reports `has_diff` exactly when the two texts differ
(the newline-style-only branch included), given the diff-crate assumption in its weakest form:
equal texts give an all-`both` script. -/
theorem diff_hasDiff_iff {α} (cfg : Cfg) (i : Input α)
    (h : i.orig = i.fmt → hasChange i.script = false) :
    (emit .diff cfg i).hasDiff = true ↔ i.orig ≠ i.fmt :=
  RF.Lemmas.Emit.diff_hasDiff_iff cfg i h

/-- `ScriptOk` implies the hypothesis of `diff_hasDiff_iff`. -/
theorem scriptOk_weak {α} (lines : List Char → List α) (i : Input α) (h : ScriptOk lines i) :
    i.orig = i.fmt → hasChange i.script = false :=
  fun e => h.all_both (by rw [e])

/-- **check_exact_paths.**  Files given as paths, `--check`, no `--config emit_mode`, and no
operational / parsing / check error flag: the exit status is 1 exactly when some emitted file's
formatted text differs from its original text, which is exactly when plain `rustfmt` (the Files
emitter, with or without `--backup`) would perform a write on at least one of them; else 0. -/
theorem check_exact_paths {α} (c : Cli) (b : Base) (files : List (Input α)) (f : Flags)
    (hc : c.check = true) (hi : c.inlineEmit = none)
    (hs : ∀ i ∈ files, i.orig = i.fmt → hasChange i.script = false)
    (hop : f.operational = false) (hpa : f.parsing = false) (hck : f.checkErrors = false)
    (hd : f.diff = sessionDiff (applyTo c b).kind (applyTo c b).cfg files) :
    (exitCode false c b f = 1 ↔ ∃ i ∈ files, i.orig ≠ i.fmt) ∧
    (exitCode false c b f = 1 ↔ ∃ i ∈ files, ∀ cfg bk,
        (emit (createEmitter .files bk) cfg i).ops ≠ []) ∧
    (exitCode false c b f = 0 ∨ exitCode false c b f = 1) := by
  have hk := (check_is_diff c b hc).1 hi
  have h1 : exitCode false c b f = 1 ↔ ∃ i ∈ files, i.orig ≠ i.fmt := by
    simp only [exitCode, exitFormat, hop, hpa, hck, hc, hd, hk, Bool.false_or, Bool.or_false,
      Bool.and_true, Bool.false_eq_true, if_false, sessionDiff]
    constructor
    · intro h
      split at h
      · next hany =>
        obtain ⟨i, hi, hdiff⟩ := List.any_eq_true.mp hany
        exact ⟨i, hi, (diff_hasDiff_iff _ i (hs i hi)).mp hdiff⟩
      · exact absurd h (by simp)
    · rintro ⟨i, hi, hne⟩
      have : (files.any fun i => (emit .diff (applyTo c b).cfg i).hasDiff) = true :=
        List.any_eq_true.mpr ⟨i, hi, (diff_hasDiff_iff _ i (hs i hi)).mpr hne⟩
      simp [this]
  refine ⟨h1, ?_, ?_⟩
  · rw [h1]
    constructor
    · rintro ⟨i, hi, hne⟩
      refine ⟨i, hi, fun cfg bk => ?_⟩
      rw [(files_touch_iff_differs _ cfg i).1]
      exact ⟨by cases bk <;> simp [createEmitter], hne⟩
    · rintro ⟨i, hi, h⟩
      exact ⟨i, hi, ((files_touch_iff_differs _ ⟨false, false⟩ i).1.mp (h ⟨false, false⟩ false)).2⟩
  · cases hx : (f.operational || f.parsing || ((f.diff || f.checkErrors) && c.check)) <;>
      simp [exitCode, exitFormat, hx]

/-- **check_exact_stdin_counterexample (F4).**  `rustfmt --check < f.rs` with the unformatted
`fn main(){let x=1;}`: the Diff emitter runs and reports `has_diff`, no error flag is set, and the
exit status is 0 — `format_string` does not read `has_diff`.  So "exit 1 iff a rewrite would
happen" is false on standard input. -/
theorem check_exact_stdin_counterexample :
    let c : Cli := ⟨true, none, false, false, false, false, none, none⟩
    let i : Input (List Char) :=
      ⟨"fn main(){let x=1;}\n".toList, "fn main() {\n    let x = 1;\n}\n".toList,
       [.left "fn main(){let x=1;}".toList, .right "fn main() {".toList,
        .right "    let x = 1;".toList, .right "}".toList]⟩
    ∃ r, stdinResolve c Base.default = .ok r ∧ r.kind = .diff ∧
      i.orig ≠ i.fmt ∧ sessionDiff r.kind r.cfg [i] = true ∧
      exitCode true c Base.default
        ⟨false, false, false, false, false, sessionDiff r.kind r.cfg [i], false⟩ = 0 := by
  refine ⟨_, rfl, by decide, by decide, by decide, by decide⟩

/-- and it does not depend on the input: on standard input the status never depends on `has_diff`
(nor on `--check`). -/
theorem stdin_exit_ignores_diff (c : Cli) (b : Base) (f : Flags) (d : Bool) :
    exitCode true c b { f with diff := d } = exitCode true c b f := by
  simp [exitCode, exitFormatString]

/-- **check_exact_stdin_partial.**  What does hold on standard input: when the options are
accepted, the status is 1 exactly when an operational or parsing error was flagged. -/
theorem check_exact_stdin_partial (c : Cli) (b : Base) (f : Flags) (r : Resolved)
    (h : stdinResolve c b = .ok r) :
    (exitCode true c b f = 1 ↔ (f.operational = true ∨ f.parsing = true)) ∧
    (exitCode true c b f = 0 ∨ exitCode true c b f = 1) := by
  simp only [exitCode, h, exitFormatString]
  cases f.operational <;> cases f.parsing <;> simp

/-- **modes_agree.**  For one `(orig, fmt)` and a script satisfying the diff-crate assumption:
stdout prints `fmt`; after a fault-free run of either Files emitter the file holds `fmt` (also
when nothing was written, because then `orig = fmt`); the modified-lines chunks and the json
blocks, applied to the lines of `orig`, give the lines of `fmt`; every checkstyle error `(n, s)`
names line `n` of `fmt` and that line is `s`.  (Checkstyle reports added lines only, so it cannot
rebuild the text by itself; what it says agrees with `fmt`.) -/
theorem modes_agree {α} (lines : List Char → List α) (cfg : Cfg) (i : Input α)
    (h : ScriptOk lines i) :
    (∃ hdr, (emit .stdout cfg i).out = .formatted hdr i.fmt) ∧
    (∀ bk (fs : Fs P Char), fs .file = some i.orig →
      ∃ s, run id i.fmt (emit (createEmitter .files bk) cfg i).ops fs = some s ∧
        s .file = some i.fmt) ∧
    (∃ cs, (emit .modifiedLines cfg i).out = .modified cs ∧
      apply cs (lines i.orig) = lines i.fmt) ∧
    (∃ bs, (emit .json cfg i).out = .json bs ∧
      apply ((bs.getD []).map blockChunk) (lines i.orig) = lines i.fmt) ∧
    (∃ es, (emit .checkstyle cfg i).out = .checkstyle es ∧
      ∀ e ∈ es, 1 ≤ e.1 ∧ (lines i.fmt)[e.1 - 1]? = some e.2) := by
  refine ⟨⟨_, rfl⟩, ?_, ⟨_, rfl, ?_⟩, ⟨_, rfl, ?_⟩, ⟨_, rfl, ?_⟩⟩
  · intro bk fs hfs
    rw [RF.Lemmas.Emit.emit_ops]
    unfold guardedOps
    by_cases e : i.orig = i.fmt
    · exact ⟨fs, by simp [e, run], by rw [hfs, e]⟩
    · cases bk <;> simp [e, createEmitter, fsOps, run, step, Fs.set, hfs]
  · rw [← h.lefts_eq, ← h.rights_eq]
    exact RF.Lemmas.Diff.apply_modified_lines i.script
  · rw [← h.lefts_eq, ← h.rights_eq]
    by_cases e : (makeDiff i.script 0).isEmpty = true
    · have hnil : makeDiff i.script 0 = [] := List.isEmpty_iff.mp e
      have := RF.Lemmas.Diff.no_change_same_lines i.script
        ((RF.Lemmas.Diff.empty_iff_no_change i.script 0).mp hnil)
      simp [e, apply, applyFrom, this]
    · have e' : (makeDiff i.script 0).isEmpty = false := by simpa using e
      simp only [e', Bool.not_false, if_true, Option.getD_some]
      rw [RF.Lemmas.Emit.json_chunks]
      exact RF.Lemmas.Diff.apply_modified_lines i.script
  · rw [← h.rights_eq]
    exact RF.Lemmas.Emit.checkstyle_points_at_fmt i.script

/-! ### Non-vacuity -/

/-- `str::lines` on texts without `\r`: split at `\n`, no final empty piece (`acc` reversed) -/
def splitNl : List Char → List Char → List (List Char)
  | [], [] => []
  | acc, [] => [acc.reverse]
  | acc, '\n' :: r => acc.reverse :: splitNl [] r
  | acc, c :: r => splitNl (c :: acc) r

/-- `ScriptOk` (the hypothesis of `modes_agree`) holds of a real pair of texts and a script -/
example : ScriptOk (splitNl [])
    ⟨"a\nb\n".toList, "a\nc\n".toList, [.both ['a'], .left ['b'], .right ['c']]⟩ :=
  ⟨by decide, by decide, fun h => absurd h (by decide)⟩

/-- … and of a pair that differs in newline style only, with the all-`both` script -/
example : ScriptOk (fun s => splitNl [] (s.filter (· ≠ '\r')))
    ⟨"a\n".toList, "a\r\n".toList, [.both ['a']]⟩ :=
  ⟨by decide, by decide, fun _ => by decide⟩

/-- a script for a real pair of texts (`a\nb\n` → `a\nc\n`) whose sides are the line lists, on
which `modes_agree` and `check_exact_paths` say something -/
example :
    let i : Input (List Char) :=
      ⟨"a\nb\n".toList, "a\nc\n".toList, [.both ['a'], .left ['b'], .right ['c']]⟩
    lefts i.script = [['a'], ['b']] ∧ rights i.script = [['a'], ['c']] ∧
    hasChange i.script = true ∧ (emit .diff ⟨false, false⟩ i).hasDiff = true ∧
    (emit .modifiedLines ⟨false, false⟩ i).out = .modified [⟨2, 1, [['c']]⟩] ∧
    (emit .checkstyle ⟨false, false⟩ i).out = .checkstyle [(2, ['c'])] := by
  decide

/-- the newline-style-only branch: same lines, different texts, `has_diff` set -/
example :
    let i : Input Nat := ⟨['a', '\n'], ['a', '\r', '\n'], [.both 0]⟩
    hasChange i.script = false ∧ (emit .diff ⟨false, false⟩ i).hasDiff = true ∧
    (emit .diff ⟨false, false⟩ i).out = .newlineStyle ∧
    (emit .json ⟨false, false⟩ i).hasDiff = false := by
  decide

/-- the hypotheses of `check_exact_paths` are satisfiable with a file that differs -/
example :
    let c : Cli := ⟨true, none, true, false, false, false, none, none⟩
    let i : Input Nat := ⟨['a'], ['b'], [.left 0, .right 1]⟩
    c.check = true ∧ c.inlineEmit = none ∧ (i.orig = i.fmt → hasChange i.script = false) ∧
    exitCode false c Base.default
      ⟨false, false, false, false, false,
       sessionDiff (applyTo c Base.default).kind (applyTo c Base.default).cfg [i], false⟩ = 1 := by
  decide

/-- `stdinResolve` accepts `--emit json` and refuses `--emit files` -/
example :
    (∃ r, stdinResolve ⟨false, some .json, false, false, false, false, none, none⟩ Base.default = .ok r) ∧
    stdinResolve ⟨false, some .files, false, false, false, false, none, none⟩ Base.default
      = .error .stdinBadEmit := by
  exact ⟨⟨_, rfl⟩, rfl⟩

end RF.Props.C06
