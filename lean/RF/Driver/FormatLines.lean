import RF.Model.Proto
import RF.Model.CharClasses
import RF.Model.FormatLines
import RF.Model.FormatLinesSpec
/-!
Line-protocol operations for `CharClasses` / `LineClasses` (C03, C07, C08) and the
`format_lines` scanner (C07).

  cc.classes <text>   -> kinds | panic
        `CharClasses::new(text.chars())` collected; one letter per character of the text
        (`-` for the empty text); `panic` if the Rust code would panic (proved impossible).
  cc.status <text>    -> status
        `iter.status` after the iterator is exhausted: `normal`, `litString`, `litStringEscape`,
        `litRawString:<n>`, `rawStringPrefix:<n>`, `rawStringSuffix:<n>`, `litChar`,
        `litCharEscape`, `blockComment:<n>`, `stringInBlockComment:<n>`,
        `blockCommentOpening:<n>`, `blockCommentClosing:<n>`, `lineComment`.
  cc.lines <text>     -> `_` or `<kind letter>:<line>` joined by `;`
        `LineClasses::new(text)` collected (line = string encoding).
  fl.scan <max_width> <tab_spaces> <overflow:0|1> <unformatted:0|1> <skipped> <selected> <text>
                      -> `<errors> <text>` | panic
        `format_lines` on `text` with the given configuration; `skipped` = `_` or `lo-hi,…`
        (the `skipped_range` list); `selected` = `all` or `_` or `lo-hi,…` (a line is selected when
        some range contains it: `file_lines().contains_line`).  Response: the entries appended to
        the report and the buffer after truncation.
  fl.buffers (same arguments) -> list of strings | panic
        the `line_buffer` of each entry, in order.
  fl.spec (same arguments)    -> `<errors> <text>` | panic
        the line-based *specification* (`RF.FormatLines.Spec.result`) evaluated on the text
        tagged by the `CharClasses` model: the oracle for real rustfmt output.
  fl.lineinfo <tab_spaces> <text> -> `_` or `n:width:reportedWidth:endsBlank:commentLine:stringLine`
        joined by `;`: the per-line quantities of the specification for every terminated line
        (1-based `n`, booleans `0|1`), text tagged by the `CharClasses` model; with these the
        harness can evaluate `reported_iff` / `no_spurious` on a real report.
  fl.track <flags> <kinds>    -> flags
        `FormatReport::track_errors`: `flags` = seven `0|1` characters in the order
        operational, parsing, formatting, macro_format_failure, check, diff, unformatted_code;
        `kinds` = `_` or one letter per error: `O` LineOverflow, `T` TrailingWhitespace,
        `D` DeprecatedAttr, `B` BadAttr, `V` VersionMismatch, `L` LostComment, `X` any other.
  fl.exit <flags> <check:0|1> -> `<files> <stdin>`
        exit status of `rustfmt <files>` resp. `rustfmt` on standard input for a session whose
        `ReportedErrors` are `flags`.

kinds    one letter per character: `N` Normal, `S` StartComment, `C` InComment, `E` EndComment,
         `P` StartStringCommented, `Q` EndStringCommented, `R` InStringCommented,
         `T` StartString, `U` EndString, `I` InString
errors   `_` or `line:kind:found:max:is_comment:is_string` joined by `;` with kind `T`
         (TrailingWhitespace, found = max = 0) or `O` (LineOverflow(found, max)), booleans `0|1`
-/
namespace RF.Driver.FormatLines
open RF.Proto RF.CharClasses RF.FormatLines

def kindLetter : Kind → Char
  | .normal => 'N' | .startComment => 'S' | .inComment => 'C' | .endComment => 'E'
  | .startStringCommented => 'P' | .endStringCommented => 'Q' | .inStringCommented => 'R'
  | .startString => 'T' | .endString => 'U' | .inString => 'I'

def encStatus : Status → String
  | .normal => "normal" | .litString => "litString" | .litStringEscape => "litStringEscape"
  | .litRawString n => s!"litRawString:{n}" | .rawStringPrefix n => s!"rawStringPrefix:{n}"
  | .rawStringSuffix n => s!"rawStringSuffix:{n}" | .litChar => "litChar"
  | .litCharEscape => "litCharEscape" | .blockComment n => s!"blockComment:{n}"
  | .stringInBlockComment n => s!"stringInBlockComment:{n}"
  | .blockCommentOpening n => s!"blockCommentOpening:{n}"
  | .blockCommentClosing n => s!"blockCommentClosing:{n}" | .lineComment => "lineComment"

def joinOr (xs : List String) : String := if xs.isEmpty then "_" else String.intercalate ";" xs

def bit (b : Bool) : String := if b then "1" else "0"

def decBit (s : String) : Option Bool :=
  if s == "1" then some true else if s == "0" then some false else none

def decRanges (s : String) : Option (List (Nat × Nat)) :=
  if s == "_" then some [] else
  (s.splitOn ",").mapM fun part =>
    match part.splitOn "-" with
    | [a, b] => do
      let a ← a.toNat?
      let b ← b.toNat?
      pure (a, b)
    | _ => none

def decSelected (s : String) : Option (Nat → Bool) :=
  if s == "all" then some (fun _ => true) else
  (decRanges s).map fun rs => fun n => rs.any fun (lo, hi) => lo ≤ n && n ≤ hi

def encError (e : FormattingError) : String :=
  match e.kind with
  | .lineOverflow f m => s!"{e.line}:O:{f}:{m}:{bit e.isComment}:{bit e.isString}"
  | .trailingWhitespace => s!"{e.line}:T:0:0:{bit e.isComment}:{bit e.isString}"
  | _ => s!"{e.line}:X:0:0:{bit e.isComment}:{bit e.isString}"

def encResult : Option Result → String
  | none => "panic"
  | some r => s!"{joinOr (r.errors.map encError)} {encChars r.text}"

def decFlags (s : String) : Option ReportedErrors :=
  match s.toList.mapM (fun c => decBit (String.singleton c)) with
  | some [a, b, c, d, e, f, g] => some ⟨a, b, c, d, e, f, g⟩
  | _ => none

def encFlags (r : ReportedErrors) : String :=
  String.join ([r.hasOperationalErrors, r.hasParsingErrors, r.hasFormattingErrors,
    r.hasMacroFormatFailure, r.hasCheckErrors, r.hasDiff, r.hasUnformattedCodeErrors].map bit)

def decKinds (s : String) : Option (List ErrorKind) :=
  if s == "_" then some [] else
  s.toList.mapM fun
    | 'O' => some (.lineOverflow 0 0) | 'T' => some .trailingWhitespace
    | 'D' => some .deprecatedAttr | 'B' => some .badAttr | 'V' => some .versionMismatch
    | 'L' => some .lostComment | 'X' => some .other | _ => none

structure ScanArgs where
  cfg : Config
  skipped : List (Nat × Nat)
  selected : Nat → Bool
  text : List Char

def decScanArgs : List String → Option ScanArgs
  | [mw, ts, o, u, sk, sel, text] => do
    let mw ← mw.toNat?
    let ts ← ts.toNat?
    let o ← decBit o
    let u ← decBit u
    let sk ← decRanges sk
    let sel ← decSelected sel
    let text ← decChars text
    pure ⟨⟨mw, ts, o, u⟩, sk, sel, text⟩
  | _ => none

def handle (op : String) (args : List String) : Option String :=
  match op, args with
  | "cc.classes", [t] => do
    let t ← decChars t
    match classes? t with
    | none => pure "panic"
    | some r => pure (if r.isEmpty then "-" else String.ofList (r.map fun p => kindLetter p.1))
  | "cc.status", [t] => do
    let t ← decChars t
    pure (encStatus (endStatus .normal t))
  | "cc.lines", [t] => do
    let t ← decChars t
    pure (joinOr ((lineClasses t).map fun (k, l) => s!"{kindLetter k}:{encChars l}"))
  | "fl.scan", args => do
    let a ← decScanArgs args
    pure (encResult (formatLines a.cfg a.skipped a.selected a.text))
  | "fl.buffers", args => do
    let a ← decScanArgs args
    match formatLines a.cfg a.skipped a.selected a.text with
    | none => pure "panic"
    | some r => pure (encList (r.errors.map fun e => String.ofList e.lineBuffer))
  | "fl.spec", args => do
    let a ← decScanArgs args
    pure (encResult (Spec.result a.cfg a.skipped a.selected (classes a.text)))
  | "fl.lineinfo", [ts, t] => do
    let ts ← ts.toNat?
    let t ← decChars t
    pure (joinOr (((Spec.lines (classes t)).zipIdx 1).map fun (l, n) =>
      s!"{n}:{Spec.width ts l}:{Spec.reportedWidth ts l}:{bit (Spec.endsBlank l)}:{bit (Spec.commentLine l)}:{bit (Spec.stringLine l)}"))
  | "fl.track", [fl, ks] => do
    let fl ← decFlags fl
    let ks ← decKinds ks
    pure (encFlags (trackErrors fl ks))
  | "fl.exit", [fl, chk] => do
    let fl ← decFlags fl
    let chk ← decBit chk
    pure s!"{exitCodeFiles fl chk} {exitCodeStdin fl}"
  | _, _ => none

end RF.Driver.FormatLines
