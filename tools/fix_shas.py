#!/usr/bin/env python3
"""fix_shas.py: commits of /repo that were cherry-picked from builder branches (or rebased) have new shas on main.
Rewrites every 7-hex sha in known_findings.jsonl, DESIGN.md, checks/*.json, seeded/*/meta.json that names a commit
of ANY ref of /repo whose subject also exists on main, to main's sha for that subject."""
import re, subprocess, sys, glob
def git(*a): return subprocess.run(("git","-C","/repo")+a,capture_output=True,text=True).stdout
main={}
for l in git("log","--format=%h\t%s","main").splitlines():
    h,s=l.split("\t",1); main.setdefault(s,h)
old={}
for l in git("log","--all","--reflog","--format=%h\t%s").splitlines():
    h,s=l.split("\t",1)
    if s in main and main[s]!=h: old[h]=main[s]
print(len(old),"stale shas known")
files=["/verif/known_findings.jsonl","/verif/DESIGN.md","/verif/checks/table.json","/verif/checks/manifest_meta.json"]+glob.glob("/verif/seeded/*/meta.json")
for f in files:
    s=open(f).read(); n=0
    def rep(m):
        global n
        h=m.group(0)
        if h in old: n+=1; return old[h]
        return h
    t=re.sub(r"\b[0-9a-f]{7}\b",rep,s)
    if n: open(f,"w").write(t); print(f,n,"replaced")
