import RF.Model.Literal
/-!
Helper lemmas for `RF/Props/C01lit.lean`: the float-symbol parser on the strings the rewriter prints.
-/
namespace RF.Lemmas.Literal
open RF.Lit

/-- what follows a run of `[0-9_]` in a printed literal: nothing, or a character outside the class -/
def Stops (r : List Char) : Prop := r = [] ∨ ∃ c t, r = c :: t ∧ isDigU c = false

theorem takeWhile_append_stop (a r : List Char) (ha : a.all isDigU = true) (hr : Stops r) :
    (a ++ r).takeWhile isDigU = a ∧ (a ++ r).dropWhile isDigU = r := by
  induction a with
  | nil =>
    rcases hr with rfl | ⟨c, t, rfl, hc⟩
    · simp
    · simp [List.takeWhile, List.dropWhile, hc]
  | cons x xs ih =>
    simp only [List.all_cons, Bool.and_eq_true] at ha
    obtain ⟨hx, hxs⟩ := ha
    obtain ⟨h1, h2⟩ := ih hxs
    simp [List.takeWhile, List.dropWhile, hx, h1, h2]

theorem takeWhile_all (s : List Char) : (s.takeWhile isDigU).all isDigU = true := by
  induction s with
  | nil => rfl
  | cons x xs ih =>
    by_cases hx : isDigU x = true
    · simp [List.takeWhile, hx, ih]
    · simp [List.takeWhile, hx]

theorem dropWhile_stops (s : List Char) : Stops (s.dropWhile isDigU) := by
  induction s with
  | nil => exact Or.inl rfl
  | cons x xs ih =>
    by_cases hx : isDigU x = true
    · simpa [List.dropWhile, hx] using ih
    · right
      refine ⟨x, xs, ?_, by simpa using hx⟩
      simp [List.dropWhile, hx]

/-- a well-formed exponent `[eE][+-]?[0-9_]+` -/
structure ExpWF (e : List Char) : Prop where
  ex : ∃ c sign d, e = c :: sign ++ d ∧ (c = 'e' ∨ c = 'E') ∧ (sign = [] ∨ sign = ['+'] ∨ sign = ['-']) ∧
        d.all isDigU = true ∧ d ≠ []

theorem stops_of_expWF {e : List Char} (h : ExpWF e) : Stops e := by
  obtain ⟨c, sign, d, rfl, hc, -, -, -⟩ := h.ex
  right
  refine ⟨c, sign ++ d, rfl, ?_⟩
  rcases hc with rfl | rfl <;> decide

theorem splitSign_spec (t : List Char) :
    ((splitSign t).1 = [] ∨ (splitSign t).1 = ['+'] ∨ (splitSign t).1 = ['-']) ∧
      t = (splitSign t).1 ++ (splitSign t).2 := by
  unfold splitSign
  split <;> simp

theorem splitSign_render (sign d : List Char) (hs : sign = [] ∨ sign = ['+'] ∨ sign = ['-'])
    (hd : ∃ x xs, d = x :: xs ∧ isDigU x = true) : splitSign (sign ++ d) = (sign, d) := by
  obtain ⟨x, xs, rfl, hx⟩ := hd
  have hxp : x ≠ '+' := by intro h; subst h; revert hx; decide
  have hxm : x ≠ '-' := by intro h; subst h; revert hx; decide
  rcases hs with rfl | rfl | rfl
  · unfold splitSign
    split
    · rename_i heq; cases heq; exact absurd rfl hxp
    · rename_i heq; cases heq; exact absurd rfl hxm
    · rfl
  · rfl
  · rfl

theorem parseExponent_wf {e : List Char} (h : ExpWF e) : parseExponent e = some (some e) := by
  obtain ⟨c, sign, d, rfl, hc, hs, hd, hne⟩ := h.ex
  have hd1 : d.takeWhile isDigU = d ∧ d.dropWhile isDigU = [] := by
    have := takeWhile_append_stop d [] hd (Or.inl rfl)
    simpa using this
  have hdne : d.isEmpty = false := by cases d with | nil => exact absurd rfl hne | cons _ _ => rfl
  have hd0 : ∃ x xs, d = x :: xs ∧ isDigU x = true := by
    cases d with
    | nil => exact absurd rfl hne
    | cons x xs =>
      simp only [List.all_cons, Bool.and_eq_true] at hd
      exact ⟨x, xs, rfl, hd.1⟩
  have hss := splitSign_render sign d hs hd0
  have hce : (c == 'e' || c == 'E') = true := by rcases hc with rfl | rfl <;> decide
  show (if (c == 'e' || c == 'E') = true then
      (if ((splitSign (sign ++ d)).2.takeWhile isDigU).isEmpty then none
        else if (splitSign (sign ++ d)).2.dropWhile isDigU == [] then
          some (some (c :: (splitSign (sign ++ d)).1 ++ (splitSign (sign ++ d)).2.takeWhile isDigU)) else none)
      else none) = some (some (c :: sign ++ d))
  rw [hss]
  simp [hce, hd1.1, hd1.2, hdne]

theorem parseExponent_sound {r : List Char} {e : List Char} (h : parseExponent r = some (some e)) :
    r = e ∧ ExpWF e := by
  unfold parseExponent at h
  cases r with
  | nil => simp at h
  | cons c t =>
    simp only at h
    split at h
    · rename_i hc
      obtain ⟨hs, ht⟩ := splitSign_spec t
      generalize splitSign t = st at h hs ht
      split at h
      · simp at h
      · rename_i hne
        split at h
        · rename_i hdrop
          have hdrop' : st.2.dropWhile isDigU = [] := by simpa using hdrop
          have htw : st.2.takeWhile isDigU = st.2 := by
            have := List.takeWhile_append_dropWhile (p := isDigU) (l := st.2)
            rw [hdrop', List.append_nil] at this
            exact this
          simp only [Option.some.injEq] at h
          subst h
          rw [htw]
          refine ⟨by rw [ht]; rfl, ⟨c, st.1, st.2, rfl, ?_, hs, ?_, ?_⟩⟩
          · simpa using hc
          · rw [← htw]; exact takeWhile_all st.2
          · intro h0; rw [htw, h0] at hne; simp at hne
        · simp at h
    · simp at h

theorem parseExponent_none_iff {r : List Char} (h : parseExponent r = some none) : r = [] := by
  unfold parseExponent at h
  cases r with
  | nil => rfl
  | cons c t =>
    simp only at h
    split at h
    · split at h
      · simp at h
      · split at h <;> simp at h
    · simp at h

/-- the parts the parser returns are well formed -/
structure WF (p : FloatParts) : Prop where
  ip_all : p.integerPart.all isDigU = true
  ip_ne : p.integerPart ≠ []
  fp_ok : ∀ f, p.fractionalPart = some f → f.all isDigU = true ∧ f ≠ []
  ex_ok : ∀ e, p.exponent = some e → ExpWF e

/-- how the parser sees a printed literal: integer digits, optionally a point and (possibly no) digits, optionally a
well-formed exponent -/
theorem parse_render (ip frac : List Char) (point : Bool) (ex : Option (List Char))
    (hip : ip.all isDigU = true) (hne : ip ≠ []) (hfr : frac.all isDigU = true)
    (hpf : point = false → frac = []) (hex : ∀ e, ex = some e → ExpWF e) :
    parseFloatSymbol (ip ++ (if point then '.' :: frac else []) ++ ex.getD []) =
      some ⟨ip, if frac.isEmpty then none else some frac, ex⟩ := by
  have hexStops : Stops (ex.getD []) := by
    cases ex with
    | none => exact Or.inl rfl
    | some e => exact stops_of_expWF (hex e rfl)
  have hexParse : parseExponent (ex.getD []) = some ex := by
    cases ex with
    | none => rfl
    | some e => exact parseExponent_wf (hex e rfl)
  have hipe : ip.isEmpty = false := by cases ip with | nil => exact absurd rfl hne | cons _ _ => rfl
  cases point with
  | true =>
    have h1 := takeWhile_append_stop ip ('.' :: frac ++ ex.getD []) hip
      (Or.inr ⟨'.', frac ++ ex.getD [], rfl, by decide⟩)
    have h2 := takeWhile_append_stop frac (ex.getD []) hfr hexStops
    unfold parseFloatSymbol
    simp only [if_true, List.append_assoc, List.cons_append] at h1 ⊢
    rw [h1.1, h1.2]
    simp only [hipe, Bool.false_eq_true, if_false]
    rw [h2.1, h2.2, hexParse]
  | false =>
    have hf : frac = [] := hpf rfl
    subst hf
    have h1 := takeWhile_append_stop ip (ex.getD []) hip hexStops
    unfold parseFloatSymbol
    simp only [Bool.false_eq_true, if_false, List.append_nil] at h1 ⊢
    rw [h1.1, h1.2]
    simp only [hipe, Bool.false_eq_true, if_false]
    cases ex with
    | none => simp [parseExponent]
    | some e =>
      obtain ⟨c, sign, d, rfl, hc, -, -, -⟩ := (hex e rfl).ex
      have hcne : c ≠ '.' := by rcases hc with rfl | rfl <;> decide
      simp only [Option.getD_some] at hexParse ⊢
      split
      · rename_i heq; cases heq; exact absurd rfl hcne
      · rw [hexParse]; simp

theorem parse_wf {s : List Char} {p : FloatParts} (h : parseFloatSymbol s = some p) : WF p := by
  unfold parseFloatSymbol at h
  simp only at h
  split at h
  · simp at h
  · rename_i hne
    have hipne : s.takeWhile isDigU ≠ [] := by intro h0; rw [h0] at hne; simp at hne
    split at h
    · rename_i r hdrop
      split at h
      · rename_i ex hex
        simp only [Option.some.injEq] at h
        subst h
        refine ⟨takeWhile_all s, hipne, ?_, ?_⟩
        · intro f hf
          simp only at hf
          split at hf
          · simp at hf
          · rename_i hfe
            simp only [Option.some.injEq] at hf
            subst hf
            exact ⟨takeWhile_all r, by intro h0; rw [h0] at hfe; simp at hfe⟩
        · intro e he
          simp only at he
          subst he
          exact (parseExponent_sound hex).2
      · simp at h
    · split at h
      · rename_i ex hex
        simp only [Option.some.injEq] at h
        subst h
        refine ⟨takeWhile_all s, hipne, by intro f hf; simp at hf, ?_⟩
        intro e he
        simp only at he
        subst he
        exact (parseExponent_sound hex).2
      · simp at h

theorem zeros_den (f : List Char) (h : f.all (fun c => c == '0' || c == '_') = true) :
    dropTrailingZeros (stripUnderscores f) = [] := by
  have h1 : (stripUnderscores f).all (· == '0') = true := by
    induction f with
    | nil => rfl
    | cons x xs ih =>
      simp only [List.all_cons, Bool.and_eq_true, Bool.or_eq_true] at h
      obtain ⟨hx, hxs⟩ := h
      unfold stripUnderscores at ih ⊢
      rcases hx with hx | hx
      · have : x = '0' := by simpa using hx
        subst this
        simpa [List.filter] using ih hxs
      · have : x = '_' := by simpa using hx
        subst this
        simpa [List.filter] using ih hxs
  unfold dropTrailingZeros
  have h2 : (stripUnderscores f).reverse.all (· == '0') = true := by simpa using h1
  have : (stripUnderscores f).reverse.dropWhile (· == '0') = [] := by
    generalize (stripUnderscores f).reverse = l at h2
    induction l with
    | nil => rfl
    | cons x xs ih =>
      simp only [List.all_cons, Bool.and_eq_true] at h2
      simp [List.dropWhile, h2.1, ih h2.2]
  simp [this]

end RF.Lemmas.Literal
