import RF.Model.Session
import RF.Gen.Phases
import RF.Gen.Emitters
/-!
Control-flow model of one crate root going through `format_project` (src/formatting.rs:102-172), C05.

The *order* of the phases is not written here: `runProject` is an interpreter of a phase list and the
theorems of `RF/Props/C05.lean` are about the list `RF.Gen.Phases.formatProject` that the translator
`translate/c05_phases.py` extracts from the current source on every run (likewise `formatFile` for the steps
of `FormatContext::format_file` and `formatInputInner` for `Session::format_input_inner`).

What is abstract: the rewriter forest (each file carries `visited`, the text the visitor produces for
it), the two text passes after it (`FileOps`), the diagnostics `format_lines` would report (`lineFlags`),
the outcome of the rustc parser on each file (`Parse`) and of the file-system look-up of each `mod m;`
(`Mods`).  What is literal: which phase can leave `format_project` and how (`?`, `return Ok(report)`),
which flag each exit sets, what the emitter is handed and under which guard it touches the file system
(`RF.Gen.Emitters.fsOps`), and the `BTreeMap` that orders the files.

Only `Input::File` roots are modelled (standard input never reaches a writing emitter:
`format_string` refuses the emit modes that write, main.rs:285-301).
-/
namespace RF.Project
open RF.Session RF.Gen.Phases RF.Gen.Emitters

abbrev Text := List Char

/-- What the rustc parser makes of one file (src/parse/parser.rs:104-169): `lexErr` and `unclosed` are
reported as `ParserError::ParseError`, a panic inside the parser is caught and becomes
`ParserError::ParsePanicError`.  Every non-`ok` value is a *fault*. -/
inductive Parse where | ok | lexErr | unclosed | panic
  deriving DecidableEq, Repr

/-- One source file as `format_project` sees it under the configuration at hand. -/
structure File where
  path : Nat               -- stands for the `FileName`; numeric order = `Ord for FileName` order
  parse : Parse
  orig : Text              -- bytes on disk (`original_text` handed to the emitter)
  visited : Text           -- `visitor.buffer` after `format_separate_mod`
  skipAttr : Bool := false -- inner `#![rustfmt::skip]`
  ignored : Bool := false  -- matches the `ignore` list (`psess.ignore_file(path)`)
  generated : Bool := false -- `is_generated_file(src) && !format_generated_files`
  lineFlags : Flags := {}  -- what `format_lines` → `report.append` → `track_errors` sets for this file
  macroFailure : Bool := false -- `visitor.macro_rewrite_failure`
  ioErr : Bool := false    -- the emitter's write (or `fs::read_to_string` of the original) fails
  deriving DecidableEq, Repr

/-- what `default_submod_path` gives for a `mod m;` that also carries nested paths -/
inductive DfltKind where | found | notFound | multiple
  deriving DecidableEq, Repr
/-- what `find_mods_outside_of_ast` does with one nested-path candidate after parsing it -/
inductive AltAct where | fail | use | skip
  deriving DecidableEq, Repr
/-- what `find_external_module` does once the candidates are collected: `fail` = `Err`; `none` = `Ok(None)`
(nothing is inserted, the candidates are dropped too); `file` = the default file is taken (`External`, or
`MultiExternal` with the candidates); `declaringItem` = the candidates are taken and the default file's *path*
is registered with the declaring item's module; `candidates` = no default file, the candidates are taken -/
inductive DfltAct where | fail | none | file | declaringItem | candidates
  deriving DecidableEq, Repr

mutual
/-- A file together with the out-of-line module declarations (`mod m;`) in it, in source order. -/
inductive Tree where
  | node (f : File) (mods : Mods)
/-- The `mod m;` items of a file, each with the outcome of `find_external_module`. -/
inductive Mods where
  | nil
  /-- resolved to a file, which is then parsed (`parse_file_as_module`) and visited -/
  | found (t : Tree) (rest : Mods)
  /-- `#[rustfmt::skip] mod m;`, or a file the parse session has already parsed: not visited -/
  | skipped (rest : Mods)
  /-- `ModError::FileNotFound` -/
  | notFound (rest : Mods)
  /-- `ModError::MultipleCandidates` (both `m.rs` and `m/mod.rs`) -/
  | multiple (rest : Mods)
  /-- `#[cfg_attr(pred, path = "alt.rs")] mod m;` (src/modules.rs:395-470): the nested-path candidates that
  exist and were not parsed before, in attribute order, each with what the resolver did with it; what the
  default look-up gives (`dflt` is only meaningful for `DfltKind.found`) and what the resolver did then;
  `ghost` is the file-map entry the path of the default file gets when it is registered with the declaring
  item's module (the path and bytes of the default file, the text of the *parent*). -/
  | cfgAttr (alts : Alts) (dk : DfltKind) (act : DfltAct) (dflt : Tree) (ghost : File) (rest : Mods)
/-- nested-path candidates -/
inductive Alts where
  | nil
  | cons (act : AltAct) (t : Tree) (rest : Alts)
end

def Tree.file : Tree → File | .node f _ => f
def Tree.mods : Tree → Mods | .node _ m => m

/-- The options `format_project` reads (the rest of `Config` only influences `visited`).  The emitter is
*not* here: `Session::new` builds it once from the configuration the session was created with
(`create_emitter(&config)` = `RF.Gen.Emitters.createEmitter emit_mode make_backup`, src/lib.rs:450-451) and
`override_config` swaps `config` only, so every input of a session goes through the same emitter kind;
it is the parameter `kind` below. -/
structure Cfg where
  skipChildren : Bool := false     -- `skip_children`
  ignoreGlobOk : Bool := true      -- `ParseSess::new`: the `ignore` list compiles (`IgnorePathSet::from_ignore_list`)
  deriving DecidableEq, Repr

/-- The passes of `format_file` after the visitor, as functions of the buffer. -/
structure FileOps where
  formatLines : Text → Text             -- `format_lines`: truncation of trailing newlines
  newlineStyle : Text → Text → Text     -- `apply_newline_style(style, buffer, original snippet)`

/-- One file-system call of an emitter: which of `file` / `file.tmp` / `file.bk` of `path`, and the
text it is given (the formatted text the emitter was handed). -/
structure Effect where
  path : Nat
  op : FsOp
  text : Text
  deriving DecidableEq, Repr

/-! ### the file map (`BTreeMap<FileName, Module>`, src/modules.rs:23) as a path-sorted list -/

/-- `file_map.entry(path).or_insert(m)` (modules.rs:292-300): an existing entry wins. -/
def orInsert (f : File) : List File → List File
  | [] => [f]
  | g :: r => if f.path < g.path then f :: g :: r else if f.path = g.path then g :: r else g :: orInsert f r

/-- `file_map.insert(path, m)` (modules.rs:138, the root): an existing entry is replaced. -/
def mapInsert (f : File) : List File → List File
  | [] => [f]
  | g :: r => if f.path < g.path then f :: g :: r else if f.path = g.path then f :: r else g :: mapInsert f r

/-! ### module resolution (`ModResolver::visit_crate`, src/modules.rs:121-148) -/

/-- a candidate made `find_mods_outside_of_ast` return an error -/
def altsFail : Alts → Bool
  | .nil => false
  | .cons act _ rest => act == .fail || altsFail rest

/-- a candidate was taken (`outside_mods_empty` is false) -/
def altsAnyUse : Alts → Bool
  | .nil => false
  | .cons act _ rest => act == .use || altsAnyUse rest

/-- `insert_sub_mod` on the `MultiExternal` list: the candidates that were taken, in order, `or_insert` -/
def insertAlts : Alts → List File → List File
  | .nil, acc => acc
  | .cons .use (.node f _) rest, acc => insertAlts rest (orInsert f acc)
  | .cons _ _ rest, acc => insertAlts rest acc

mutual
/-- `visit_sub_mod` for a `mod m;` that resolved to file `t`: parse it (any fault is an `Err`), a file
with `#![rustfmt::skip]` is dropped together with everything below it (`Ok(None)`), otherwise it is put
into the map and its own `mod` items are visited.  `acc` is `self.file_map`. -/
def visitTree : Tree → List File → Option (List File)
  | .node f mods, acc =>
    if f.parse ≠ .ok then none
    else if f.skipAttr then some acc
    else visitMods mods (orInsert f acc)
/-- `visit_mod_from_ast`: the items in order, `?` on each. -/
def visitMods : Mods → List File → Option (List File)
  | .nil, acc => some acc
  | .found t rest, acc =>
    match visitTree t acc with
    | none => none
    | some acc' => visitMods rest acc'
  | .skipped rest, acc => visitMods rest acc
  | .notFound _, _ => none
  | .multiple _, _ => none
  | .cfgAttr alts _ act (.node df dm) ghost rest, acc =>
    if altsFail alts then none
    else
      match act with
      | .fail => none
      | .none => visitMods rest acc
      | .file =>
        match visitAlts alts (orInsert df (insertAlts alts acc)) with
        | none => none
        | some a1 =>
          match visitMods dm a1 with
          | none => none
          | some a2 => visitMods rest a2
      | .declaringItem =>
        match visitAlts alts (orInsert ghost (insertAlts alts acc)) with
        | none => none
        | some a1 => visitMods rest a1
      | .candidates =>
        match visitAlts alts (insertAlts alts acc) with
        | none => none
        | some a1 => visitMods rest a1
/-- `visit_sub_mod_inner` on `MultiExternal`: the `mod` items of every candidate that was taken, in order -/
def visitAlts : Alts → List File → Option (List File)
  | .nil, acc => some acc
  | .cons .use (.node _ m) rest, acc =>
    match visitMods m acc with
    | none => none
    | some a => visitAlts rest a
  | .cons .fail _ rest, acc => visitAlts rest acc
  | .cons .skip _ rest, acc => visitAlts rest acc
end

/-- `visit_crate`: sub-modules first (only if `recursive`), the root inserted last with `insert`. -/
def visitCrate (recursive : Bool) (root : Tree) : Option (List File) :=
  match (if recursive then visitMods root.mods [] else some []) with
  | none => none
  | some m => some (mapInsert root.file m)

mutual
/-- a fault that module resolution runs into below this (sub-module) file -/
def faultT : Tree → Bool
  | .node f mods => f.parse != .ok || (!f.skipAttr && faultM mods)
def faultM : Mods → Bool
  | .nil => false
  | .found t rest => faultT t || faultM rest
  | .skipped rest => faultM rest
  | .notFound _ => true
  | .multiple _ => true
  | .cfgAttr alts _ act (.node _ dm) _ rest =>
    altsFail alts ||
    (match act with
     | .fail => true
     | .none => faultM rest
     | .file => faultA alts || faultM dm || faultM rest
     | .declaringItem => faultA alts || faultM rest
     | .candidates => faultA alts || faultM rest)
def faultA : Alts → Bool
  | .nil => false
  | .cons .use (.node _ m) rest => faultM m || faultA rest
  | .cons .fail _ rest => faultA rest
  | .cons .skip _ rest => faultA rest
end

/-- The root cannot be processed: a fault in the root file, or (unless `skip_children`) a fault in a
file module resolution reaches, or a `mod` that has no file or two. -/
def faulty (cfg : Cfg) (root : Tree) : Bool :=
  root.file.parse != .ok || (!cfg.skipChildren && faultM root.mods)

mutual
/-- every file mentioned in the tree -/
def allFilesT : Tree → List File
  | .node f mods => f :: allFilesM mods
def allFilesM : Mods → List File
  | .nil => []
  | .found t rest => allFilesT t ++ allFilesM rest
  | .skipped rest => allFilesM rest
  | .notFound rest => allFilesM rest
  | .multiple rest => allFilesM rest
  | .cfgAttr alts _ _ dflt ghost rest => allFilesA alts ++ allFilesT dflt ++ ghost :: allFilesM rest
def allFilesA : Alts → List File
  | .nil => []
  | .cons _ t rest => allFilesT t ++ allFilesA rest
end

/-! ### one file (`FormatContext::format_file`, src/formatting.rs:205-261) -/

/-- The emitter call at the end of `handle_formatted_file` → `write_file` → `emit_formatted_file`
(src/emitter/files.rs:24-36, files_with_backup.rs): every file-system call sits under
`if original_text != formatted_text` and is followed by `?`.  `none` = `Err(io::Error)`. -/
def emitFile (kind : EmitterKind) (f : File) (text : Text) : Option (List Effect) :=
  if f.orig ≠ text then
    if f.ioErr then none else some ((fsOps kind).map fun op => ⟨f.path, op, text⟩)
  else some []

/-- `EmitterResult.has_diff`: the diff, json and modified-lines emitters report a non-empty mismatch list;
files, stdout and checkstyle return `EmitterResult::default()`.  (Approximation: json and modified-lines
compare line lists, so two texts that differ only in their line terminators count as equal there; the
exact statement is C06's.) -/
def hasDiff (kind : EmitterKind) (orig text : Text) : Bool :=
  (kind == .diff || kind == .json || kind == .modifiedLines) && orig != text

structure FileSt where
  buffer : Text := []
  flags : Flags := {}
  effects : List Effect := []
  deriving DecidableEq, Repr

/-- Interpreter of the step list of `format_file`; `none` = `handle_formatted_file` returned `Err`
(which `format_file` returns as is, so later steps do not run). -/
def runFileSteps (ops : FileOps) (kind : EmitterKind) (f : File) : List FileStep → FileSt → Option FileSt
  | [], s => some s
  | .visit :: r, s =>
    runFileSteps ops kind f r { s with buffer := f.visited, flags := { s.flags with macroFailure := s.flags.macroFailure || f.macroFailure } }
  | .appendNewline :: r, s => runFileSteps ops kind f r { s with buffer := s.buffer ++ ['\n'] }
  | .formatLines :: r, s =>
    runFileSteps ops kind f r { s with buffer := ops.formatLines s.buffer, flags := s.flags.add f.lineFlags }
  | .applyNewlineStyle :: r, s =>
    runFileSteps ops kind f r { s with buffer := ops.newlineStyle s.buffer f.orig }
  | .emit :: r, s =>
    match emitFile kind f s.buffer with
    | none => none
    | some effs =>
      runFileSteps ops kind f r
        { s with effects := s.effects ++ effs, flags := { s.flags with diff := s.flags.diff || hasDiff kind f.orig s.buffer } }

def runFile (steps : List FileStep) (ops : FileOps) (kind : EmitterKind) (f : File) : Option FileSt :=
  runFileSteps ops kind f steps {}

/-- The text a step list computes for a file when the emission is left out: "the complete result of
the per-file pipeline". -/
def pipeline (ops : FileOps) (f : File) : List FileStep → Text → Text
  | [], b => b
  | .visit :: r, _ => pipeline ops f r f.visited
  | .appendNewline :: r, b => pipeline ops f r (b ++ ['\n'])
  | .formatLines :: r, b => pipeline ops f r (ops.formatLines b)
  | .applyNewlineStyle :: r, b => pipeline ops f r (ops.newlineStyle b f.orig)
  | .emit :: r, b => pipeline ops f r b

def complete (steps : List FileStep) (ops : FileOps) (f : File) : Text := pipeline ops f steps []

/-- Emission is the last step and happens once. -/
def fileStepsSafe : List FileStep → Bool
  | [] => false
  | [s] => s == .emit
  | s :: r => s != .emit && fileStepsSafe r

/-! ### the phases of `format_project` -/

inductive Outcome where
  | ok (report : Flags)   -- `Ok(report)`
  | err                   -- `Err(ErrorKind)`
  | stuck                 -- the phase list uses a value no earlier phase produced (would not compile)
  deriving DecidableEq, Repr

/-- `Ok(report)` ↦ the report's flags, anything else ↦ `none` (what `Session::format` hands back) -/
def Outcome.toReport : Outcome → Option Flags
  | .ok fl => some fl
  | _ => none

structure Result where
  outcome : Outcome
  log : List Effect
  deriving DecidableEq, Repr

/-- the run recorded a failure: `Err(_)`, or `Ok(report)` with `has_parsing_errors` -/
def Result.flagged (r : Result) : Bool :=
  match r.outcome with
  | .err => true
  | .ok fl => fl.parsing
  | .stuck => false

structure St where
  psess : Bool := false          -- `psess` exists
  krate : Option Tree := none    -- `krate`, the parsed root
  queue : List File := []        -- the files parsed so far, in map order: what a format loop iterates over
  report : Flags := {}
  log : List Effect := []

structure Env where
  steps : List FileStep
  ops : FileOps
  kind : EmitterKind
  cfg : Cfg
  root : Tree

/-- `should_skip_module` for a path input (formatting.rs:60-92). -/
def shouldSkip (cfg : Cfg) (mainPath : Nat) (f : File) : Bool :=
  f.skipAttr || (cfg.skipChildren && f.path != mainPath) || f.ignored || f.generated

/-- `for (path, module) in files { context.format_file(path, &module, is_macro_def)?; }`:
`none` = `Err` from the emitter; the effects of the files already handled stay. -/
def formatLoop (steps : List FileStep) (ops : FileOps) (kind : EmitterKind) :
    List File → Flags → List Effect → Option Flags × List Effect
  | [], rep, log => (some rep, log)
  | f :: r, rep, log =>
    match runFile steps ops kind f with
    | none => (none, log)
    | some fs => formatLoop steps ops kind r (rep.add fs.flags) (log ++ fs.effects)

inductive Step where
  | next (s : St)
  | done (r : Result)

/-- One phase.  Every way of leaving `format_project` early is a `done`. -/
def step (e : Env) (p : Phase) (s : St) : Step :=
  match p with
  | .newParseSess =>      -- `ParseSess::new(config)?`
    if e.cfg.ignoreGlobOk then .next { s with psess := true } else .done ⟨.err, s.log⟩
  | .ignoreRootCheck =>   -- `if config.skip_children() && psess.ignore_file(&main_file) { return Ok(FormatReport::new()) }`
    if !s.psess then .done ⟨.stuck, s.log⟩
    else if e.cfg.skipChildren && e.root.file.ignored then .done ⟨.ok {}, s.log⟩
    else .next s
  | .parseCrate =>        -- `Parser::parse_crate`; `Err` ⇒ `report.add_parsing_error(); return Ok(report)`
    if !s.psess then .done ⟨.stuck, s.log⟩
    else if e.root.file.parse ≠ .ok then .done ⟨.ok { s.report with parsing := true }, s.log⟩
    else .next { s with krate := some e.root, queue := [e.root.file] }
      -- (`queue := [root]`: what a loop placed between this phase and `resolveModules` would iterate over;
      --  in the pinned order `resolveModules` overwrites it before any loop runs)
  | .resolveModules =>    -- `ModResolver::new(.., recursive).visit_crate(&krate)?`
    match s.krate with
    | none => .done ⟨.stuck, s.log⟩
    | some k =>
      match visitCrate (!e.cfg.skipChildren) k with
      | none => .done ⟨.err, s.log⟩
      | some files => .next { s with queue := files }
  | .filterFiles =>       -- `.filter(|(path, module)| … !should_skip_module(..))`
    .next { s with queue := s.queue.filter fun f => !shouldSkip e.cfg e.root.file.path f }
  | .formatLoop =>
    match formatLoop e.steps e.ops e.kind s.queue s.report s.log with
    | (none, log) => .done ⟨.err, log⟩
    | (some rep, log) => .next { s with report := rep, log := log }

/-- The phases in order; falling off the end is `Ok(context.report)`. -/
def exec (e : Env) : List Phase → St → Result
  | [], s => ⟨.ok s.report, s.log⟩
  | p :: ps, s =>
    match step e p s with
    | .next s' => exec e ps s'
    | .done r => r

/-- `format_project` as an interpreter of a phase list. -/
def runProject (phases : List Phase) (steps : List FileStep) (ops : FileOps) (kind : EmitterKind)
    (cfg : Cfg) (root : Tree) : Result :=
  exec ⟨steps, ops, kind, cfg, root⟩ phases {}

/-- Static check of a phase list: every value is produced before it is used, a format loop only runs
after `parseCrate` and `resolveModules` (the two phases that parse) and after the filter, there is
exactly one loop, and resolution does take place.  The four Booleans say what has happened so far. -/
def safeFrom (psess krate resolved filtered : Bool) : List Phase → Bool
  | [] => resolved
  | .newParseSess :: r => safeFrom true krate resolved filtered r
  | .ignoreRootCheck :: r => psess && safeFrom psess krate resolved filtered r
  | .parseCrate :: r => psess && !resolved && safeFrom psess true resolved filtered r
  | .resolveModules :: r => krate && safeFrom psess krate true false r
  | .filterFiles :: r => safeFrom psess krate resolved true r
  | .formatLoop :: r => resolved && filtered && safeFrom psess krate resolved filtered r

def phasesSafe (ps : List Phase) : Bool :=
  safeFrom false false false false ps && ps.count .formatLoop == 1

/-! ### `format_input_inner` and the instance of the C15 parameter `F` -/

/-- Interpreter of the step list of `Session::format_input_inner` (formatting.rs:30-56): the version
check returns `Err(VersionMismatch)`, `disable_all_formatting` returns an empty report, and the result of
`format_project` is the result of the function. -/
def runInput (isteps : List InputStep) (phases : List Phase) (steps : List FileStep) (ops : FileOps)
    (kind : EmitterKind) (c : Config Cfg) (root : Tree) : Result :=
  match isteps with
  | [] => ⟨.ok {}, []⟩
  | .versionCheck :: r => if !c.versionOk then ⟨.err, []⟩ else runInput r phases steps ops kind c root
  | .disableAllCheck :: r => if c.disableAll then ⟨.ok {}, []⟩ else runInput r phases steps ops kind c root
  | .formatProject :: _ => runProject phases steps ops kind c.opts root

/-- `format_project` in the shape `RF.Session` expects of the formatter proper: it is given the
configuration and the input, returns what it did to the file system and `Ok(flags)` / `Err`. -/
def projectF (phases : List Phase) (steps : List FileStep) (ops : FileOps) (kind : EmitterKind) :
    Config Cfg → Tree → List Effect × Option Flags :=
  fun c root =>
    let r := runProject phases steps ops kind c.opts root
    (r.log, r.outcome.toReport)

/-- The effect log of one command-line entry (`[]` for a path that does not exist and for an input the
formatter was not run on). -/
def entryLog : Entry (List Effect) → List Effect
  | .missing => []
  | .formatted o => o.emitted.getD []

end RF.Project
