#!/usr/bin/env python3
"""translator:c05_mods — what `ModResolver::find_external_module` / `find_mods_outside_of_ast`
(src/modules.rs) do with the result of each `Parser::parse_file_as_module` call -> RF/Gen/ModArms.lean.

Three matches on a parse result exist: (1) the `#[path = ".."]` file, (2) every candidate of a nested path
(`#[cfg_attr(pred, path = "..")]`), (3) the default file `m.rs` / `m/mod.rs`.  Each arm either makes module
resolution fail (`Err(..)`, `return Err(..)`), or goes on with the file (`External`, pushed to the
`MultiExternal` list, `m`), or goes on WITHOUT it (`continue`, `Ok(None)`, the arm that only registers the
path with the declaring item's module).  C05 needs that a file that does not parse is never skipped over
silently; the theorem `fault_implies_no_write` interprets these tables.
Refuses on every arm pattern / guard / body it does not know."""
import os, re, sys
sys.path.insert(0, os.path.dirname(os.path.abspath(__file__)))
from common import *

NAME = "c05_mods"


def squeeze(s):
    return re.sub(r"\s+", "", s)


def match_body(src, start, what):
    """body of the `match Parser::parse_file_as_module(..) {` that starts at or after `start`"""
    m = re.compile(r"matchParser::parse_file_as_module\(self\.psess,&\w+,sub_mod\.span\)\{").search(src, start)
    if not m:
        refuse(NAME, f"{what}: `match Parser::parse_file_as_module(self.psess, &.., sub_mod.span) {{` not found")
    body, end = block_after(src, m.end() - 1)
    return body, m.start(), end


def split_arms(body, what):
    arms = []
    i, n = 0, len(body)
    while i < n:
        k = body.find("=>", i)
        if k < 0:
            if body[i:].strip(","):
                refuse(NAME, f"{what}: trailing text `{body[i:i + 60]}` after the last arm")
            break
        head = body[i:k]
        j = k + 2
        if body[j] == "{":
            blk, e = block_after(body, j)
            arms.append((head, "{" + blk + "}"))
            i = e
            if i < n and body[i] == ",":
                i += 1
        else:
            d = 0
            e = j
            while e < n:
                c = body[e]
                if c in "({[":
                    d += 1
                elif c in ")}]":
                    d -= 1
                elif c == "," and d == 0:
                    break
                e += 1
            arms.append((head, body[j:e]))
            i = e + 1
    return arms


PATS = [
    (r"^Ok\(\(refattrs,_,_\)\)ifcontains_skip\(attrs\)$", ".okSkip", ".always"),
    (r"^Ok\(\(attrs,items,span\)\)ifoutside_mods_empty$", ".ok", ".outsideEmpty"),
    (r"^Ok\(\(attrs,items,span\)\)$", ".ok", ".always"),
    (r"^Ok\(m\)$", ".ok", ".always"),
    (r"^Err\(ParserError::ParseError\)$", ".errParse", ".always"),
    (r"^Err\(\.\.\)ifoutside_mods_empty$", ".errAny", ".outsideEmpty"),
    (r"^Err\(\.\.\)$", ".errAny", ".always"),
    (r"^Err\(_\)$", ".errAny", ".always"),
]

GHOST = r"ifshould_insert\{mods_outside_ast\.push\(\(file_path,dir_ownership,sub_mod\.clone\(\)\)\);\}"
MULTI = r"Ok\(Some\(SubModKind::MultiExternal\(mods_outside_ast\)\)\)"
NEWMOD = r"Module::new\(span,Some\(Cow::Owned\(ast::ModKind::Unloaded\)\),Cow::Owned\(items\),Cow::Owned\(attrs\),?\)"
BODIES = [
    (r"^Ok\(None\)$", ".skip"),
    (r"^continue$", ".skip"),
    (r"^m$", ".use"),
    (r"^\{?Ok\(Some\(SubModKind::External\((path|file_path),(DirectoryOwnership::Owned\{relative:None\}|dir_ownership),"
     + NEWMOD + r",?\)\)\)\}?$", ".use"),
    (r"^\{mods_outside_ast\.push\(\(file_path\.clone\(\),dir_ownership," + NEWMOD + r",?\)\);" + GHOST + MULTI + r"\}$", ".useWithOthers"),
    (r"^\{" + GHOST + MULTI + r"\}$", ".registerDeclaringItem"),
    (r"^\{?(return)?Err\(.*\);?\}?$", ".fail"),
]


def arms_of(body, what):
    res = []
    for head, text in split_arms(body, what):
        for rx, pat, guard in PATS:
            if re.match(rx, head):
                break
        else:
            refuse(NAME, f"{what}: arm pattern `{head[:100]}` not understood")
        for rx, act in BODIES:
            if re.match(rx, text):
                break
        else:
            refuse(NAME, f"{what}: body of arm `{head[:60]}` not understood: `{text[:200]}`")
        if act == ".fail" and ("Ok(" in text or "continue" in text):
            refuse(NAME, f"{what}: arm `{head[:60]}` mixes an error with going on")
        res.append(f"⟨{pat}, {guard}, {act}⟩")
    return res


def lst(xs):
    return "[" + ", ".join(xs) + "]"


def main():
    a = args()
    src = cut_tests(strip_rust_comments(read(a.repo, "src/modules.rs", NAME)))
    m = re.search(r"fn\s+find_external_module\s*\(", src)
    if not m:
        refuse(NAME, "fn find_external_module not found")
    m2 = re.search(r"fn\s+push_inline_mod_directory\s*\(", src)
    fem = squeeze(src[m.start():m2.start() if m2 else len(src)])
    # (1) explicit #[path]
    i1 = fem.find("ifletSome(path)=Parser::submod_path_from_attr(attrs,&self.directory.path){")
    if i1 < 0:
        refuse(NAME, "find_external_module: the `#[path]` branch `if let Some(path) = Parser::submod_path_from_attr(..)` not found")
    if not fem[i1:].startswith("ifletSome(path)=Parser::submod_path_from_attr(attrs,&self.directory.path){ifself.psess.is_file_parsed(&path){returnOk(None);}returnmatchParser::parse_file_as_module(self.psess,&path,sub_mod.span){"):
        refuse(NAME, "find_external_module: the `#[path]` branch is no longer `if is_file_parsed { return Ok(None) } return match parse_file_as_module(..) {..}`")
    body1, _, end1 = match_body(fem, i1, "#[path] branch")
    path_arms = arms_of(body1, "#[path] branch")
    # (2) nested paths are collected first, errors propagated or not
    mo = re.search(r"letmutmods_outside_ast=self\.find_mods_outside_of_ast\((?:mod_name,)?attrs,sub_mod\)(\??);", fem[end1:])
    if not mo:
        refuse(NAME, "find_external_module: `let mut mods_outside_ast = self.find_mods_outside_of_ast(..)` not found after the `#[path]` branch")
    propagates = mo.group(1) == "?"
    # (3) default file
    i3 = fem.find("matchself.psess.default_submod_path(mod_name,relative,&self.directory.path){", end1)
    if i3 < 0:
        refuse(NAME, "find_external_module: `match self.psess.default_submod_path(..)` not found")
    dflt, _ = block_after(fem, i3)
    pre = ("Ok(ModulePathSuccess{file_path,dir_ownership,..})=>{letoutside_mods_empty=mods_outside_ast.is_empty();"
           "letshould_insert=!mods_outside_ast.iter().any(|(outside_path,_,_)|outside_path==&file_path);"
           "ifself.psess.is_file_parsed(&file_path){ifoutside_mods_empty{returnOk(None);}else{"
           "ifshould_insert{mods_outside_ast.push((file_path,dir_ownership,sub_mod.clone()));}"
           "returnOk(Some(SubModKind::MultiExternal(mods_outside_ast)));}}")
    if not dflt.startswith(pre):
        refuse(NAME, "find_external_module: the `Ok(ModulePathSuccess {..})` arm no longer starts with outside_mods_empty / should_insert / the is_file_parsed branch")
    body3, _, end3 = match_body(dflt, len(pre), "default file")
    dflt_arms = arms_of(body3, "default file")
    rest = dflt[end3:]
    if not rest.startswith("}"):
        refuse(NAME, "find_external_module: text after the match on the default file")
    rest = rest[1:]
    no_file = ("Err(mod_err)if!mods_outside_ast.is_empty()=>{ifletModError::ParserError(e)=mod_err{e.cancel();}"
               "Ok(Some(SubModKind::MultiExternal(mods_outside_ast)))}Err(e)=>matche{")
    if not rest.startswith(no_file):
        refuse(NAME, "find_external_module: the arms for a module without a default file changed "
                     "(`Err(mod_err) if !mods_outside_ast.is_empty() => MultiExternal`, `Err(e) => match e {..}`)")
    inner, _ = block_after(rest, len(no_file) - 1)
    for head, text in split_arms(inner, "module without a file"):
        if not re.match(r"^\{?Err\(ModuleResolutionError\{.*\}\)\}?$", text):
            refuse(NAME, f"find_external_module: `{head[:80]}` (no default file, no candidate) no longer is an error")
    # (4) the candidates
    m4 = re.search(r"fn\s+find_mods_outside_of_ast\s*\(", src)
    if not m4:
        refuse(NAME, "fn find_mods_outside_of_ast not found")
    fo = squeeze(src[m4.start():])
    loop = "forpathinpath_visitor.paths(){letmutactual_path=self.directory.path.clone();actual_path.push(&path);if!actual_path.exists(){continue;}ifself.psess.is_file_parsed(&actual_path){result.push((actual_path,DirectoryOwnership::Owned{relative:None},sub_mod.clone(),));continue;}let(attrs,items,span)="
    i4 = fo.find(loop)
    if i4 < 0:
        refuse(NAME, "find_mods_outside_of_ast: the loop over the nested paths (exists / is_file_parsed / parse) changed")
    body4, _, end4 = match_body(fo, i4 + len(loop), "nested path candidate")
    alt_arms = arms_of(body4, "nested path candidate")
    after = fo[end4:]
    if not re.match(r"^;result\.push\(\(actual_path,DirectoryOwnership::Owned\{relative:None\}," + NEWMOD + r",?\)\)\}(Ok\(result\)|result)\}", after):
        refuse(NAME, "find_mods_outside_of_ast: a parsed candidate is no longer pushed with its own Module")
    if any(".fail" in x for x in alt_arms) and not propagates:
        refuse(NAME, "find_mods_outside_of_ast returns an error that find_external_module does not propagate")
    if len(re.findall(r"parse_file_as_module\(", src)) != 3:
        refuse(NAME, "src/modules.rs: expected exactly three calls of Parser::parse_file_as_module")

    L = f"""/- GENERATED by translate/c05_mods.py from src/modules.rs.  Do not edit. -/
namespace RF.Gen.ModArms

/-- the result of `Parser::parse_file_as_module` as the arms tell it apart: `okSkip` = `Ok` with an inner
`#![rustfmt::skip]`; `errParse` = `Err(ParserError::ParseError)`; `errAny` = `Err(..)` -/
inductive MPat where | okSkip | ok | errParse | errAny
  deriving DecidableEq, Repr
/-- `outsideEmpty`: `if outside_mods_empty` (no nested-path candidate was collected) -/
inductive MGuard where | always | outsideEmpty
  deriving DecidableEq, Repr
/-- what the arm does: `fail` = module resolution returns `Err`; `use` = the file is taken (`External`, `m`);
`useWithOthers` = it joins the `MultiExternal` list; `skip` = resolution goes on without the file (`Ok(None)`,
`continue`); `registerDeclaringItem` = resolution goes on, and the file's path is put into the file map with
the *declaring item's* module (its text is the parent's) -/
inductive MAct where | fail | use | useWithOthers | skip | registerDeclaringItem
  deriving DecidableEq, Repr

structure MArm where
  pat : MPat
  guard : MGuard
  act : MAct
  deriving DecidableEq, Repr

/-- `#[path = ".."] mod m;` -/
def pathArms : List MArm := {lst(path_arms)}

/-- one candidate of `#[cfg_attr(pred, path = "..")]` (`find_mods_outside_of_ast`) -/
def altArms : List MArm := {lst(alt_arms)}

/-- the default file `m.rs` / `m/mod.rs` -/
def dfltArms : List MArm := {lst(dflt_arms)}

end RF.Gen.ModArms
"""
    changed = write_if_changed(os.path.join(a.out, "ModArms.lean"), L)
    print(f"c05_mods: ok ({'rewritten' if changed else 'unchanged'}); pathArms = {path_arms}; altArms = {alt_arms}; dfltArms = {dflt_arms}")


if __name__ == "__main__":
    main()
