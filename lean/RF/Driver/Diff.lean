import RF.Model.Proto
import RF.Model.Diff
/-!
Line-protocol operations for the diff family (C12, used by C06).

  diff.make <ctx> <script>            -> mismatches
  diff.chunks <script>                -> chunks          (context 0, as the emitters use)
  diff.json <script>                  -> json blocks     (context 0)
  diff.checkstyle <script>            -> errors          (context 0)
  diff.apply <chunks> <lines>         -> lines           (the oracle `apply`)
  diff.consistent <mismatches> <orig lines> <new lines>  -> ok | bad:<index>
  diff.print <chunks>                 -> string          (`Display`)
  diff.parse <string>                 -> chunks | err    (`FromStr`)
  diff.xml <string>                   -> string          (`XmlEscaped`)
  diff.unxml <string>                 -> string | err

script      list of strings, each `L`/`R`/`B` followed by the line
mismatches  `_` or `ln:lno:<list>` joined by `;`, list items prefixed ` ` context, `+` expected, `-` resulting
chunks      `_` or `lno:removed:<list>` joined by `;`
json blocks `_` or `ob:oe:eb:ee:<list original>:<list expected>` joined by `;`
errors      `_` or `line:<string>` joined by `;`
-/
namespace RF.Driver.Diff
open RF.Proto RF.Diff

def decScript (s : String) : Option (List (Edit String)) := do
  let items ← decList s
  items.mapM fun it =>
    match it.toList with
    | 'L' :: r => some (.left (String.ofList r))
    | 'R' :: r => some (.right (String.ofList r))
    | 'B' :: r => some (.both (String.ofList r))
    | _ => none

def encDiffLine : DiffLine String → String
  | .context s => " " ++ s
  | .expected s => "+" ++ s
  | .resulting s => "-" ++ s

def decDiffLine (s : String) : Option (DiffLine String) :=
  match s.toList with
  | ' ' :: r => some (.context (String.ofList r))
  | '+' :: r => some (.expected (String.ofList r))
  | '-' :: r => some (.resulting (String.ofList r))
  | _ => none

def joinOr (xs : List String) : String := if xs.isEmpty then "_" else String.intercalate ";" xs

def encMismatches (ms : List (Mismatch String)) : String :=
  joinOr (ms.map fun m => s!"{m.lineNumber}:{m.lineNumberOrig}:{encList (m.lines.map encDiffLine)}")

def decMismatches (s : String) : Option (List (Mismatch String)) :=
  if s == "_" then some [] else
  (s.splitOn ";").mapM fun part =>
    match part.splitOn ":" with
    | [a, b, l] => do
      let a ← a.toNat?
      let b ← b.toNat?
      let l ← decList l
      let l ← l.mapM decDiffLine
      pure ⟨a, b, l⟩
    | _ => none

def encChunks (cs : List (Chunk String)) : String :=
  joinOr (cs.map fun c => s!"{c.lineNumberOrig}:{c.linesRemoved}:{encList c.lines}")

def decChunks (s : String) : Option (List (Chunk String)) :=
  if s == "_" then some [] else
  (s.splitOn ";").mapM fun part =>
    match part.splitOn ":" with
    | [a, b, l] => do
      let a ← a.toNat?
      let b ← b.toNat?
      let l ← decList l
      pure ⟨a, b, l⟩
    | _ => none

/-- Rust's `str::lines`: pieces of `split_inclusive('\n')`; a piece that ends in `\n` loses it and
then one `\r` before it; a final piece without `\n` is kept as is (a bare `\r` stays). -/
def rustLines (s : String) : List String :=
  let parts := s.splitOn "\n"
  let n := parts.length
  let body := (parts.take (n - 1)).map fun p => if p.endsWith "\r" then (p.dropEnd 1).toString else p
  match parts.drop (n - 1) with
  | [""] => body
  | last => body ++ last

/-- `char::is_whitespace` (Unicode White_Space), as used by `split_whitespace` -/
def isWs (c : Char) : Bool :=
  let n := c.toNat
  (9 ≤ n && n ≤ 13) || n == 0x20 || n == 0x85 || n == 0xA0 || n == 0x1680 ||
  (0x2000 ≤ n && n ≤ 0x200A) || n == 0x2028 || n == 0x2029 || n == 0x202F || n == 0x205F || n == 0x3000

def splitWs (cs : List Char) : List (List Char) :=
  let rec go : List Char → List Char → List (List Char)
    | [], cur => if cur.isEmpty then [] else [cur.reverse]
    | c :: r, cur => if isWs c then (if cur.isEmpty then go r [] else cur.reverse :: go r []) else go r (c :: cur)
  go cs []

/-- `str::parse::<uN>()`: optional `+`, at least one ASCII digit, value below `bound`. -/
def parseUnsigned (bound : Nat) (cs : List Char) : Option Nat :=
  let ds := match cs with | '+' :: r => r | _ => cs
  if ds.isEmpty then none
  else if ds.all (fun c => '0' ≤ c && c ≤ '9') then
    let v := ds.foldl (fun a c => a * 10 + (c.toNat - 48)) 0
    if v < bound then some v else none
  else none

def header (l : String) : Option (Nat × Nat × Nat) :=
  match splitWs l.toList with
  | a :: b :: c :: _ =>
    match parseUnsigned (2^32) a, parseUnsigned (2^32) b, parseUnsigned (2^64) c with
    | some a, some b, some c => some (a, b, c)
    | _, _, _ => none
  | _ => none

def printStr (cs : List (Chunk String)) : String :=
  String.join ((printChunks cs).map fun
    | .inl (a, b, c) => s!"{a} {b} {c}\n"
    | .inr s => s ++ "\n")

def handle (op : String) (args : List String) : Option String :=
  match op, args with
  | "diff.make", [ctx, sc] => do
    let ctx ← ctx.toNat?
    let ds ← decScript sc
    pure (encMismatches (makeDiff ds ctx))
  | "diff.chunks", [sc] => do
    let ds ← decScript sc
    pure (encChunks (ofMismatches (makeDiff ds 0)))
  | "diff.json", [sc] => do
    let ds ← decScript sc
    pure (joinOr ((makeDiff ds 0).map fun m =>
      let b := jsonBlock m
      s!"{b.originalBeginLine}:{b.originalEndLine}:{b.expectedBeginLine}:{b.expectedEndLine}:{encList b.original}:{encList b.expected}"))
  | "diff.checkstyle", [sc] => do
    let ds ← decScript sc
    pure (joinOr ((checkstyleErrors (makeDiff ds 0)).map fun (n, s) => s!"{n}:{encStr s}"))
  | "diff.apply", [cs, ls] => do
    let cs ← decChunks cs
    let ls ← decList ls
    pure (encList (apply cs ls))
  | "diff.consistent", [ms, o, n] => do
    let ms ← decMismatches ms
    let o ← decList o
    let n ← decList n
    match (ms.zipIdx).find? (fun (m, _) => !consistentB m o n) with
    | some (_, i) => pure s!"bad:{i}"
    | none => pure "ok"
  | "diff.print", [cs] => do
    let cs ← decChunks cs
    pure (encStr (printStr cs))
  | "diff.parse", [s] => do
    let s ← decStr s
    match parseChunks (β := String) header id (rustLines s) with
    | some cs => pure (encChunks cs)
    | none => pure "err"
  | "diff.xml", [s] => do
    let s ← decStr s
    pure (encStr (String.ofList (xmlEscape s.toList)))
  | "diff.unxml", [s] => do
    let s ← decStr s
    match xmlUnescape s.toList with
    | some r => pure (encStr (String.ofList r))
    | none => pure "err"
  | _, _ => none

end RF.Driver.Diff
