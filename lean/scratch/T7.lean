import RF.Lemmas.TokEquiv
namespace RF.Tok

theorem wrapTok_inj {a b : Tok} (h : wrapTok a = wrapTok b) : a = b := by
  obtain ⟨c1, t1⟩ := a; obtain ⟨c2, t2⟩ := b
  simp [wrapTok] at h
  simp [h]

theorem wrapTok_ne_sep (a : Tok) : wrapTok a ≠ regSep := by
  intro h; simp [wrapTok, regSep] at h
theorem wrapTok_ne_close (a : Tok) : wrapTok a ≠ regClose := by
  intro h; simp [wrapTok, regClose] at h
theorem regSep_ne_close : regSep ≠ regClose := by decide

theorem encLeaf_inj : ∀ (x y : List Tok) (u v : List Tok),
    x.map wrapTok ++ regSep :: u = y.map wrapTok ++ regSep :: v → x = y ∧ u = v := by
  intro x
  induction x with
  | nil =>
    intro y u v h
    cases y with
    | nil => simp at h; exact ⟨rfl, h⟩
    | cons b y => simp at h; exact absurd h.1.symm (wrapTok_ne_sep b)
  | cons a x ih =>
    intro y u v h
    cases y with
    | nil => simp at h; exact absurd h.1 (wrapTok_ne_sep a)
    | cons b y =>
      simp only [List.map_cons, List.cons_append, List.cons.injEq] at h
      obtain ⟨h1, h2⟩ := ih y u v h.2
      exact ⟨by rw [wrapTok_inj h.1, h1], h2⟩

theorem encLeaves_cons_head (l : List Tok) (ls : List (List Tok)) (r : List Tok) :
    encLeaves (l :: ls) ++ r = l.map wrapTok ++ regSep :: (encLeaves ls ++ r) := by
  simp [encLeaves, encLeaf]

theorem encLeaves_inj : ∀ (l1 l2 : List (List Tok)) (r1 r2 : List Tok),
    encLeaves l1 ++ regClose :: r1 = encLeaves l2 ++ regClose :: r2 → l1 = l2 ∧ r1 = r2 := by
  intro l1
  induction l1 with
  | nil =>
    intro l2 r1 r2 h
    cases l2 with
    | nil => simp [encLeaves] at h; exact ⟨rfl, h⟩
    | cons y ys =>
      rw [encLeaves_cons_head] at h
      simp only [encLeaves, List.nil_append] at h
      cases y with
      | nil => simp at h; exact absurd h.1.symm regSep_ne_close
      | cons b y => simp at h; exact absurd h.1.symm (wrapTok_ne_close b)
  | cons x xs ih =>
    intro l2 r1 r2 h
    cases l2 with
    | nil =>
      rw [encLeaves_cons_head] at h
      simp only [encLeaves, List.nil_append] at h
      cases x with
      | nil => simp at h; exact absurd h.1 regSep_ne_close
      | cons b y => simp at h; exact absurd h.1 (wrapTok_ne_close b)
    | cons y ys =>
      rw [encLeaves_cons_head, encLeaves_cons_head] at h
      obtain ⟨h1, h2⟩ := encLeaf_inj x y _ _ h
      obtain ⟨h3, h4⟩ := ih ys r1 r2 h2
      exact ⟨by rw [h1, h3], h4⟩

def Seg.wf : Seg → Prop
  | .plain t => isR t = false
  | .region _ l => l ≠ []

theorem regOpen_inj {k k' : Kind} (h : regOpen k = regOpen k') : k = k' := by
  simp [regOpen] at h
  exact h

theorem encRegion_cons (k : Kind) (x : List Tok) (xs : List (List Tok)) (r : List Tok) :
    encRegion k (x :: xs) ++ r = regOpen k :: (encLeaves (x :: xs) ++ regClose :: r) := by
  simp [encRegion]

theorem render_inj : ∀ (s1 s2 : List Seg), (∀ s ∈ s1, s.wf) → (∀ s ∈ s2, s.wf) →
    render s1 = render s2 → s1 = s2 := by
  intro s1
  induction s1 with
  | nil =>
    intro s2 _ h2 h
    cases s2 with
    | nil => rfl
    | cons b s2 =>
      cases b with
      | plain t => simp [render] at h
      | region k l =>
        have := h2 _ (List.mem_cons_self)
        cases l with
        | nil => exact absurd rfl this
        | cons x xs => simp only [render] at h; rw [encRegion_cons] at h; cases h
  | cons a s1 ih =>
    intro s2 h1 h2 h
    have ha := h1 a (List.mem_cons_self)
    have h1' : ∀ s ∈ s1, s.wf := fun s hs => h1 s (List.mem_cons_of_mem _ hs)
    cases s2 with
    | nil =>
      cases a with
      | plain t => simp [render] at h
      | region k l =>
        cases l with
        | nil => exact absurd rfl ha
        | cons x xs => simp only [render] at h; rw [encRegion_cons] at h; cases h
    | cons b s2 =>
      have hb := h2 b (List.mem_cons_self)
      have h2' : ∀ s ∈ s2, s.wf := fun s hs => h2 s (List.mem_cons_of_mem _ hs)
      cases a with
      | plain t =>
        cases b with
        | plain u =>
          simp only [render, List.cons.injEq] at h
          rw [h.1, ih s2 h1' h2' h.2]
        | region k l =>
          cases l with
          | nil => exact absurd rfl hb
          | cons x xs =>
            simp only [render] at h; rw [encRegion_cons] at h
            simp only [List.cons.injEq] at h
            have : isR t = true := by rw [h.1]; rfl
            simp [Seg.wf] at ha; rw [ha] at this; cases this
      | region k l =>
        cases l with
        | nil => exact absurd rfl ha
        | cons x xs =>
          cases b with
          | plain u =>
            simp only [render] at h; rw [encRegion_cons] at h
            simp only [List.cons.injEq] at h
            have : isR u = true := by rw [← h.1]; rfl
            simp [Seg.wf] at hb; rw [hb] at this; cases this
          | region k' l' =>
            cases l' with
            | nil => exact absurd rfl hb
            | cons y ys =>
              simp only [render] at h; rw [encRegion_cons, encRegion_cons] at h
              simp only [List.cons.injEq] at h
              have hk := regOpen_inj h.1
              obtain ⟨hl, hr⟩ := encLeaves_inj _ _ _ _ h.2
              rw [hk, hl, ih s2 h1' h2' hr]

end RF.Tok
