//! C09: released style editions are frozen.
//! (a) the working tree gives identical text under style editions 2015, 2018 and 2021;
//! (b) the working tree gives, under every released edition, the text of the frozen binary built from
//!     the audited commit, on inputs that binary formats without error.
use std::path::Path;
use std::process::Command;
use std::time::Duration;

use serde_json::json;

use crate::corpus;
use crate::gen::*;
use crate::pool::{self, Job, Status};
use crate::util::*;

const EDITIONS: [&str; 4] = ["2015", "2018", "2021", "2024"];

fn frozen(src: &str, cfg: &[(String, String)], timeout: Duration) -> CliOut {
    let mut cmd = Command::new("/verif/frozen/rustfmt-pinned");
    cmd.current_dir("/verif/frozen").arg("--config-path").arg("/verif/frozen/empty.toml").arg("--emit").arg("stdout");
    if !cfg.is_empty() {
        cmd.arg("--config").arg(cfg_text(cfg));
    }
    run_cmd(&mut cmd, src.as_bytes(), timeout)
}

pub fn run(tier: &str, seed: u64, out: &Path) -> i32 {
    let mut o = Outcome::new("C09", tier, seed);
    let thorough = tier == "thorough";
    let mut rng = Rng::new(seed ^ 0xc09);
    let mut progs = corpus::programs(&["tests/target", "tests/source"]);
    progs.retain(|p| !p.src.trim().is_empty());
    for p in progs.iter_mut() {
        p.cfg.retain(|(k, _)| k != "style_edition" && k != "version");
    }
    // cases: (program, cfg)
    let mut cases: Vec<(String, String, Vec<(String, String)>)> = vec![];
    let singles: Vec<(String, String)> = option_singles().into_iter().filter(|(k, _)| k != "style_edition").collect();
    let per_prog = if thorough { 6 } else { 1 };
    for p in &progs {
        cases.push((p.name.clone(), p.src.clone(), p.cfg.clone()));
        for _ in 0..per_prog {
            if !thorough && !rng.chance(1, 3) {
                continue;
            }
            let mut cfg = p.cfg.clone();
            if rng.chance(2, 3) {
                cfg = merge_cfg(&cfg, &[("max_width".into(), rng.pick(WIDTHS_QUICK).to_string())]);
            }
            if rng.chance(2, 3) {
                let (k, v) = rng.pick(&singles).clone();
                // options that contain a comma in --config would need escaping; none in the table
                cfg = merge_cfg(&cfg, &[(k, v)]);
            }
            let src = if rng.chance(1, 4) { relayout(&p.src, &mut rng.fork()) } else { p.src.clone() };
            cases.push((p.name.clone(), src, cfg));
        }
    }
    // generated import / mod / extern crate groups over an identifier universe aimed at the ordering code
    let import_opts: Vec<(String, String)> = singles.iter().filter(|(k, _)| k.starts_with("imports_") || k == "group_imports" || k.starts_with("reorder_")).cloned().collect();
    for k in 0..(if thorough { 4000 } else { 600 }) {
        let src = import_program(&mut rng);
        let mut cfg: Vec<(String, String)> = vec![];
        if rng.chance(1, 2) {
            let (a, b) = rng.pick(&import_opts).clone();
            cfg.push((a, b));
        }
        if rng.chance(1, 4) {
            cfg = merge_cfg(&cfg, &[("max_width".into(), rng.pick(WIDTHS_QUICK).to_string())]);
        }
        cases.push((format!("gen-imports{}", k), src, cfg));
    }
    o.count_n("cases", cases.len() as u64);
    // current tree, in-process, every released edition
    let mut jobs = vec![];
    for (_, src, cfg) in &cases {
        for e in EDITIONS {
            jobs.push(Job { src: src.clone(), cfg: merge_cfg(cfg, &[("style_edition".into(), e.into())]), file_lines: None });
        }
    }
    let timeout = Duration::from_secs(if thorough { 30 } else { 10 });
    let cur = pool::run_jobs(&jobs, jobs_n(), timeout);
    let fro: Vec<CliOut> = par_map(&jobs, |j| frozen(&j.src, &j.cfg, timeout));
    let mut nontrivial = 0u64;
    let mut distinct = std::collections::HashSet::new();
    for (ci, (name, src, cfg)) in cases.iter().enumerate() {
        let r = &cur[ci * 4..ci * 4 + 4];
        let f = &fro[ci * 4..ci * 4 + 4];
        // (a) 2015 = 2018 = 2021 on the working tree
        let ok3 = r[..3].iter().all(|x| x.status == Status::Ok);
        if ok3 {
            o.count("a:compared");
            if !(r[0].out == r[1].out && r[1].out == r[2].out) {
                o.direct_failures.push(json!({"sig": "c09:editions-2015-2018-2021-differ", "what": "style editions 2015/2018/2021 give different text on the working tree", "program": name, "config": cfg_text(cfg), "src": src, "out2015": r[0].out, "out2018": r[1].out, "out2021": r[2].out}));
            }
        } else if r[..3].iter().any(|x| x.status == Status::Timeout) {
            o.count("a:timeout");
        } else {
            let sts: Vec<String> = r[..3].iter().map(|x| format!("{:?}", x.status).chars().take(12).collect()).collect();
            if !(sts[0] == sts[1] && sts[1] == sts[2]) {
                o.direct_failures.push(json!({"sig": "c09:editions-2015-2018-2021-differ", "what": "style editions 2015/2018/2021 end differently on the working tree", "program": name, "config": cfg_text(cfg), "src": src, "statuses": sts}));
            }
            o.count("a:not-ok");
        }
        // (b) working tree vs frozen binary
        for k in 0..4 {
            let key = format!("{}|{}|{}", src.len(), cfg_text(cfg), k);
            if f[k].timed_out || r[k].status == Status::Timeout {
                o.count("b:timeout");
                continue;
            }
            if f[k].code != Some(0) {
                o.count("b:pinned-reports-error");
                continue;
            }
            let echoed = r[k].status == Status::Ok && r[k].out.is_empty() && !f[k].stdout.is_empty();
            if echoed {
                // inner skip attribute / disable_all_formatting on stdin: the input is echoed on the
                // process' stdout, which the in-process session does not capture
                o.count("b:echo");
                if f[k].stdout != src.as_bytes() {
                    o.count("b:echo-differs-from-input");
                }
                continue;
            }
            o.count("b:compared");
            let same = r[k].status == Status::Ok && r[k].out.as_bytes() == &f[k].stdout[..];
            if r[2].out != r[3].out {
                nontrivial += 1;
            }
            distinct.insert(key);
            if !same {
                o.direct_failures.push(json!({"sig": "c09:differs-from-pinned-release", "what": format!("style edition {}: the working tree's text differs from the pinned release's", EDITIONS[k]), "program": name, "config": cfg_text(cfg), "edition": EDITIONS[k], "src": src, "pinned": String::from_utf8_lossy(&f[k].stdout), "working_tree": r[k].out, "working_tree_status": format!("{:?}", r[k].status)}));
            }
        }
        if ci < 3 {
            o.sample(json!({"program": name, "config": cfg_text(cfg), "src_bytes": src.len(), "out2021_eq_out2024": r[2].out == r[3].out}));
        }
    }
    boundary_family(&mut o, &progs, thorough, seed, out, &mut distinct);
    o.count_n("cases_where_2021_and_2024_differ(x editions)", nontrivial);
    o.notes.push("non-trivial case = one (program, config, edition) comparison against the frozen binary; the distribution counts how many cases actually exercise a gate (2021 output differs from 2024 output)".into());
    // account the direct comparisons as evaluations
    let evals = o.distribution.get("b:compared").copied().unwrap_or(0) + o.distribution.get("a:compared").copied().unwrap_or(0) + o.distribution.get("bw:compared").copied().unwrap_or(0);
    o.count_n("evaluations_direct", evals);
    o.direct_evals = evals;
    o.direct_distinct = distinct.len() as u64;
    o.finish(out, jobs_n())
}

fn jobs_n() -> usize {
    jobs()
}

/// the pinned binary on a batch of files that share one configuration: `--emit files` on scratch copies.
/// Returns None for the whole batch when the run did not end with status 0 (the caller then runs them one by one).
fn frozen_batch(dir: &Path, srcs: &[&str], cfg: &[(String, String)], timeout: Duration) -> Option<Vec<Vec<u8>>> {
    let _ = std::fs::remove_dir_all(dir);
    std::fs::create_dir_all(dir).ok()?;
    let mut cmd = Command::new("/verif/frozen/rustfmt-pinned");
    cmd.current_dir(dir).arg("--config-path").arg("/verif/frozen/empty.toml").arg("--emit").arg("files");
    if !cfg.is_empty() {
        cmd.arg("--config").arg(cfg_text(cfg));
    }
    for (i, s) in srcs.iter().enumerate() {
        let f = dir.join(format!("i{}.rs", i));
        std::fs::write(&f, s).ok()?;
        cmd.arg(format!("i{}.rs", i));
    }
    let r = run_cmd(&mut cmd, b"", timeout);
    let res = if r.code == Some(0) && !r.timed_out { (0..srcs.len()).map(|i| std::fs::read(dir.join(format!("i{}.rs", i))).ok()).collect::<Option<Vec<_>>>() } else { None };
    let _ = std::fs::remove_dir_all(dir);
    res
}

/// Boundary-width family (see boundary.rs): the items of the fixtures at the widths where one of their lines is exactly
/// as wide as the page, under every released style edition, working tree against the pinned binary.
fn boundary_family(o: &mut Outcome, progs: &[corpus::Program], thorough: bool, seed: u64, out: &Path, distinct: &mut std::collections::HashSet<String>) {
    let mut its = crate::boundary::items(progs);
    for it in its.iter_mut() {
        it.cfg.retain(|(k, _)| k != "style_edition" && k != "version");
    }
    let plan = crate::boundary::plan(&its, Duration::from_secs(10));
    let mut pairs: Vec<(usize, usize)> = vec![];
    for (i, ws) in plan.iter().enumerate() {
        for w in ws {
            pairs.push((i, *w));
        }
    }
    o.count_n("bw:planned (item, width) pairs", pairs.len() as u64);
    let chosen: Vec<(usize, usize)> = if thorough {
        pairs
    } else {
        let mut r = Rng::new(seed ^ 0xb09);
        (0..10000usize.min(pairs.len())).map(|_| *r.pick(&pairs)).collect()
    };
    // group by configuration (options, width, edition)
    let mut groups: std::collections::BTreeMap<String, (Vec<(String, String)>, Vec<usize>)> = Default::default();
    for (k, (i, w)) in chosen.iter().enumerate() {
        for e in EDITIONS {
            let cfg = merge_cfg(&its[*i].cfg, &[("max_width".into(), w.to_string()), ("style_edition".into(), e.into())]);
            groups.entry(cfg_text(&cfg)).or_insert_with(|| (cfg.clone(), vec![])).1.push(k);
        }
    }
    let glist: Vec<(Vec<(String, String)>, Vec<usize>)> = groups.into_values().collect();
    o.count_n("bw:pinned-binary batches", glist.len() as u64);
    // working tree, in-process
    let mut jobs = vec![];
    for (cfg, ks) in &glist {
        for k in ks {
            jobs.push(Job { src: its[chosen[*k].0].src.clone(), cfg: cfg.clone(), file_lines: None });
        }
    }
    let cur = pool::run_jobs(&jobs, jobs_n(), Duration::from_secs(5));
    // pinned binary, batched
    let scratch = out.join("bw");
    let idx: Vec<usize> = (0..glist.len()).collect();
    let fro: Vec<Vec<Option<Vec<u8>>>> = par_map(&idx, |gi| {
        let (cfg, ks) = &glist[*gi];
        let srcs: Vec<&str> = ks.iter().map(|k| its[chosen[*k].0].src.as_str()).collect();
        match frozen_batch(&scratch.join(format!("g{}", gi)), &srcs, cfg, Duration::from_secs(60)) {
            Some(v) => v.into_iter().map(Some).collect(),
            None => srcs.iter().map(|s| { let r = frozen(s, cfg, Duration::from_secs(5)); if r.code == Some(0) && !r.timed_out { Some(r.stdout) } else { None } }).collect(),
        }
    });
    let _ = std::fs::remove_dir_all(&scratch);
    let mut j = 0;
    for (gi, (cfg, ks)) in glist.iter().enumerate() {
        for (n, k) in ks.iter().enumerate() {
            let r = &cur[j];
            j += 1;
            let it = &its[chosen[*k].0];
            let f = match &fro[gi][n] { Some(f) => f, None => { o.count("bw:pinned-reports-error"); continue; } };
            if r.status == Status::Timeout {
                o.count("bw:timeout");
                continue;
            }
            o.count("bw:compared");
            distinct.insert(format!("{}|{}", it.id, cfg_text(cfg)));
            let same = r.status == Status::Ok && r.out.as_bytes() == &f[..];
            if !same {
                o.direct_failures.push(json!({"sig": "c09:differs-from-pinned-release", "what": format!("boundary width: the working tree's text differs from the pinned release's ({})", cfg_text(cfg)), "program": it.id, "config": cfg_text(cfg), "src": it.src, "pinned": String::from_utf8_lossy(f), "working_tree": r.out, "working_tree_status": format!("{:?}", r.status)}));
            }
        }
    }
    o.notes.push("boundary family: top-level items of the fixtures at the widths within one column of the length of a line of the item's own output at max_width 200 (where a construct is exactly as wide as the page), x 4 released style editions; thorough takes every such pair, quick a seeded sample of 10000".into());
}
