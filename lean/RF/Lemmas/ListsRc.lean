import RF.Lemmas.Lists
import RF.Model.ListsRc
import RF.Lemmas.CharClasses
/-!
The instance of the comment rewriter the driver uses (`rewriteCommentLight`, the model of
`rewrite_comment` under the default comment options) keeps the non-blank characters of a comment:
the hypothesis of `writeList_content` holds for it.
-/
namespace RF.Lemmas.ListsRc
open RF.Lists RF.Shape RF.Lemmas.Lists

theorem splitInclusiveGo_flatten (s : List Char) :
    ∀ cur : List Char, (splitInclusiveGo cur s).flatten = cur.reverse ++ s := by
  induction s with
  | nil =>
    intro cur
    simp only [splitInclusiveGo]
    split
    · rename_i h; simp [List.isEmpty_iff.mp h]
    · simp
  | cons c rest ih =>
    intro cur
    simp only [splitInclusiveGo]
    split
    · simp [ih]
    · simp [ih]

theorem squeeze_stripLineEnding (l : List Char) : squeeze (stripLineEnding l) = squeeze l := by
  unfold stripLineEnding
  split
  · rename_i r h
    have : l = r.reverse ++ ['\r', '\n'] := by
      have := congrArg List.reverse h
      simpa using this
    rw [this, squeeze_append]
    simp [squeeze, isWhitespace]
  · rename_i r _ h
    have : l = r.reverse ++ ['\n'] := by
      have := congrArg List.reverse h
      simpa using this
    rw [this, squeeze_append]
    simp [squeeze, isWhitespace]
  · rfl

theorem squeeze_flatten (xs : List (List Char)) : squeeze xs.flatten = (xs.map squeeze).flatten := by
  induction xs with
  | nil => rfl
  | cons x xs ih => simp [squeeze_append, ih]

theorem squeeze_rustLines (g : List Char) : ((rustLines g).map squeeze).flatten = squeeze g := by
  unfold rustLines
  rw [List.map_map]
  have : (squeeze ∘ stripLineEnding) = squeeze := by
    funext l; exact squeeze_stripLineEnding l
  rw [this, ← squeeze_flatten, splitInclusiveGo_flatten]
  simp

theorem mem_takeWhile_ws : ∀ (l : List Char) (c : Char), c ∈ l.takeWhile isWhitespace →
    isWhitespace c = true := by
  intro l
  induction l with
  | nil => intro c hc; simp at hc
  | cons x xs ih =>
    intro c hc
    simp only [List.takeWhile_cons] at hc
    split at hc
    · rename_i hx
      rcases List.mem_cons.mp hc with rfl | h
      · exact hx
      · exact ih c h
    · simp at hc

theorem squeeze_takeWhile_ws (l : List Char) : squeeze (l.takeWhile isWhitespace) = [] :=
  squeeze_of_ws (mem_takeWhile_ws l)

theorem squeeze_lightLine (l : List Char) : squeeze (lightLine l) = squeeze l := by
  unfold lightLine
  simp only
  rw [squeeze_trimEnd]
  have hsplit : squeeze l = squeeze (l.dropWhile isWhitespace) := by
    conv => lhs; rw [← List.takeWhile_append_dropWhile (p := isWhitespace) (l := l)]
    rw [squeeze_append, squeeze_takeWhile_ws, List.nil_append]
  rw [hsplit]
  split
  · rename_i h; rw [h]
  · rename_i c rest' h
    split
    · rw [h, squeeze_append]
      have : squeeze (l.takeWhile isWhitespace).getLast?.toList = [] := by
        apply squeeze_of_ws
        intro x hx
        cases hg : (l.takeWhile isWhitespace).getLast? with
        | none => simp [hg] at hx
        | some y =>
          simp only [hg, Option.toList, List.mem_singleton] at hx
          subst hx
          exact mem_takeWhile_ws l _ (List.mem_of_getLast? hg)
      rw [this, List.nil_append]
    · rw [h]

theorem squeeze_intercalate (sep : List Char) (hsep : squeeze sep = []) :
    ∀ xs : List (List Char), squeeze (sep.intercalate xs) = (xs.map squeeze).flatten := by
  intro xs
  induction xs with
  | nil => simp [List.intercalate, squeeze]
  | cons x rest ih =>
    cases rest with
    | nil => simp [List.intercalate]
    | cons y r =>
      have h2 : sep.intercalate (x :: y :: r) = x ++ sep ++ sep.intercalate (y :: r) := by
        simp [List.intercalate, List.intersperse]
      rw [h2, squeeze_append, squeeze_append, hsep, ih]
      simp

theorem squeeze_lightRewriteComment (g nl : List Char) (hnl : squeeze nl = []) :
    squeeze (lightRewriteComment g nl) = squeeze g := by
  unfold lightRewriteComment
  rw [squeeze_intercalate nl hnl, List.map_map]
  have : (squeeze ∘ lightLine) = squeeze := by funext l; exact squeeze_lightLine l
  rw [this, squeeze_rustLines]

/-- The consumed lines are a prefix of the lines. -/
theorem consume_prefix (style : CommentStyle) (ls : List Char) :
    ∀ raws : List (List Char), ∃ rem, raws = (consumeSameLineComments style ls raws).2 ++ rem := by
  intro raws
  induction raws with
  | nil => exact ⟨[], by simp [consumeSameLineComments]⟩
  | cons raw rest ih =>
    simp only [consumeSameLineComments]
    split
    · exact ⟨raw :: rest, by simp⟩
    · split
      · obtain ⟨rem, hrem⟩ := ih
        exact ⟨rem, by simp [← hrem]⟩
      · exact ⟨raw :: rest, by simp⟩

theorem blockGroup_prefix (ol : Nat) :
    ∀ (raws : List (List Char)) (first : Bool) (count : Nat) (hbl : Bool),
      ∃ rem, raws = (blockGroup ol raws first count hbl).2 ++ rem := by
  intro raws
  induction raws with
  | nil => intro first count hbl; exact ⟨[], by simp [blockGroup]⟩
  | cons raw rest ih =>
    intro first count hbl
    simp only [blockGroup]
    generalize (if first = true then List.drop ol (trimStart (stripLineEnding raw))
      else trimStart (stripLineEnding raw)) = tl
    split
    · split
      · exact ⟨rest, by simp⟩
      · obtain ⟨rem, hrem⟩ := ih false (count - 1) (hbl || isBareLine raw)
        exact ⟨rem, by simp [← hrem]⟩
    · obtain ⟨rem, hrem⟩ := ih false count (hbl || isBareLine raw)
      exact ⟨rem, by simp [← hrem]⟩

/-- The first group is a prefix of the comment. -/
theorem firstGroup_prefix (orig : List Char) :
    ∃ rest, orig = (firstGroupOf orig).2.flatten ++ rest := by
  have hflat : (splitInclusiveGo [] orig).flatten = orig := by
    simpa using splitInclusiveGo_flatten orig []
  have key : ∀ got : List (List Char), (∃ rem, splitInclusiveGo [] orig = got ++ rem) →
      ∃ rest, orig = got.flatten ++ rest := by
    intro got ⟨rem, hrem⟩
    refine ⟨rem.flatten, ?_⟩
    conv => lhs; rw [← hflat, hrem]
    simp
  unfold firstGroupOf
  simp only
  split
  · exact key _ (consume_prefix _ _ _)
  · exact key _ (consume_prefix _ _ _)
  · exact key _ (consume_prefix _ _ _)
  · exact key _ (consume_prefix _ _ _)
  · exact key _ (blockGroup_prefix _ _ _ _ _)

/-! ### `trim_left_preserve_layout` keeps the content -/

theorem squeeze_nil : squeeze [] = [] := rfl

theorem squeeze_popCr (l : List Char) : squeeze (RF.CharClasses.popCr l) = squeeze l := by
  unfold RF.CharClasses.popCr
  split
  · rename_i h
    obtain ⟨l', hl'⟩ := List.getLast?_eq_some_iff.mp h
    subst hl'
    rw [List.dropLast_concat, squeeze_append]
    have : squeeze ['\r'] = [] := by decide
    rw [this, List.append_nil]
  · rfl

theorem squeeze_cons_newline (l : List Char) : squeeze ('\n' :: l) = squeeze l := by
  have : ('\n' :: l) = ['\n'] ++ l := rfl
  rw [this, squeeze_append]
  have h : squeeze ['\n'] = [] := by decide
  rw [h, List.nil_append]

theorem squeeze_linesGo : ∀ (t : List (RF.CharClasses.Kind × Char)) (start : RF.CharClasses.Kind)
    (acc : List Char) (last : RF.CharClasses.Kind),
    ((RF.CharClasses.linesGo start acc last t).map (fun kl => squeeze kl.2)).flatten =
      squeeze acc ++ squeeze (t.map (·.2)) := by
  intro t
  induction t with
  | nil =>
    intro start acc last
    simp only [RF.CharClasses.linesGo, List.map_cons, List.map_nil, List.flatten_cons,
      List.flatten_nil, List.append_nil, squeeze_popCr, squeeze_nil]
  | cons kc rest ih =>
    intro start acc last
    obtain ⟨k, c⟩ := kc
    simp only [RF.CharClasses.linesGo]
    split
    · rename_i hc
      subst hc
      simp only [List.map_cons, List.flatten_cons, squeeze_popCr, squeeze_cons_newline]
      congr 1
      cases rest with
      | nil => simp only [List.map_nil, List.flatten_nil, squeeze_nil]
      | cons kc' rest' =>
        obtain ⟨k', c'⟩ := kc'
        simp only
        rw [ih k' [] k', squeeze_nil, List.nil_append]
    · rw [ih start (acc ++ [c]) k, squeeze_append, List.append_assoc]
      congr 1
      simp only [List.map_cons]
      exact (squeeze_append [c] _).symm

theorem squeeze_lineClasses (s : List Char) :
    ((RF.CharClasses.lineClasses s).map (fun kl => squeeze kl.2)).flatten = squeeze s := by
  unfold RF.CharClasses.lineClasses RF.CharClasses.lineClassesOf
  have hs := RF.Lemmas.CharClasses.classes_map_snd s
  cases hcl : RF.CharClasses.classes s with
  | nil =>
    rw [hcl] at hs
    simp only [List.map_nil] at hs
    subst hs
    rfl
  | cons kc rest =>
    obtain ⟨k, c⟩ := kc
    simp only
    rw [squeeze_linesGo, ← hcl, hs, squeeze_nil, List.nil_append]

theorem squeeze_of_isEmptyLine {l : List Char} (h : isEmptyLine l = true) : squeeze l = [] := by
  apply squeeze_of_ws
  intro c hc
  exact List.all_eq_true.mp h c hc

theorem squeeze_tlplLines (ts : Nat) (ed : Bool) (render : Bool × List Char × Option Nat → List Char)
    (hr1 : ∀ l p, render (false, l, p) = l)
    (hr2 : ∀ l w, squeeze (render (true, l, some w)) = squeeze l)
    (hr3 : ∀ l, render (true, l, none) = []) :
    ∀ (lines : List (RF.CharClasses.Kind × List Char)) (veto : Bool),
      (((tlplLines ts ed lines veto).1.map render).map squeeze).flatten =
        (lines.map (fun kl => squeeze kl.2)).flatten := by
  intro lines
  induction lines with
  | nil => intro veto; simp [tlplLines]
  | cons kl rest ih =>
    intro veto
    obtain ⟨kind, line⟩ := kl
    simp only [tlplLines, List.map_cons, List.flatten_cons]
    split
    · rename_i hv
      simp only [hr1, ih]
    · simp only [ih]
      congr 1
      cases he : isEmptyLine line with
      | true =>
        simp only [↓reduceIte, hr3, squeeze_nil]
        exact (squeeze_of_isEmptyLine he).symm
      | false => simp [hr2, squeeze_trim]

theorem trimLeftPreserveLayout_content (orig : List Char) (indent : Indent) (config : Config)
    (ed : Bool) (r : List Char) (h : trimLeftPreserveLayout orig indent config ed = some r) :
    squeeze r = squeeze orig := by
  unfold trimLeftPreserveLayout at h
  have hlc := squeeze_lineClasses orig
  split at h
  · simp at h
  · rename_i k first rest hl
    rw [hl] at hlc
    simp only at h
    generalize htl : tlplLines config.tab_spaces ed rest false = tl at h
    obtain ⟨entries, widths⟩ := tl
    simp only at h
    split at h
    · simp at h
    · rename_i w ws
      simp only [Option.some.injEq] at h
      subst h
      have hn1 : squeeze ['\n'] = [] := by decide
      rw [squeeze_append, squeeze_append, squeeze_trimEnd, hn1, List.append_nil,
        squeeze_intercalate ['\n'] hn1, List.map_map]
      have := squeeze_tlplLines config.tab_spaces ed
        (fun e => if (!e.1) = true then e.2.1 else
          match e.2.2 with
          | some originalIndentWidth =>
            (match Indent.from_width config (indent.width + (originalIndentWidth - List.foldl min w ws)) with
              | .ok ni => indentString ni config
              | .error _ => []) ++ e.2.1
          | none => [])
        (by intro l p; simp)
        (by
          intro l w'
          simp only [Bool.not_true, Bool.false_eq_true, ↓reduceIte, squeeze_append]
          have : squeeze (match Indent.from_width config (indent.width + (w' - List.foldl min w ws)) with
              | .ok ni => indentString ni config
              | .error _ => []) = [] := by
            split
            · exact squeeze_of_ws (indentString_ws _ _)
            · rfl
          rw [this, List.nil_append])
        (by intro l; simp)
        rest false
      rw [htl] at this
      simp only [List.map_map] at this
      rw [← hlc]
      simp only [List.map_cons, List.flatten_cons]
      congr 1

/-- **The light rewriter keeps the content of a comment**, for every indentation string made of white
space and every rewriter of bare-line block comments that keeps the content. -/
theorem identifyCommentLight_content (ind : List Char) (hind : squeeze ind = [])
    (bare : List Char → Option (List Char)) (hbare : ∀ g r, bare g = some r → squeeze r = squeeze g) :
    ∀ (fuel : Nat) (orig r : List Char), identifyCommentLight ind bare fuel orig = some r →
      squeeze r = squeeze orig := by
  intro fuel
  induction fuel with
  | zero => intro orig r h; simp [identifyCommentLight] at h
  | succ fuel ih =>
    intro orig r h
    obtain ⟨rest, hrest⟩ := firstGroup_prefix orig
    unfold identifyCommentLight at h
    generalize hfg : firstGroupOf orig = fg at h hrest
    obtain ⟨hbl, group⟩ := fg
    simp only at h hrest
    have hdrop : orig.drop group.flatten.length = rest := by
      conv => lhs; rw [hrest]
      simp
    rw [hdrop] at h
    have hnl : squeeze ('\n' :: ind) = [] := by
      have : squeeze ['\n'] = [] := by decide
      have h2 : ('\n' :: ind) = ['\n'] ++ ind := rfl
      rw [h2, squeeze_append, this, hind]
      rfl
    split at h
    · simp at h
    · rename_i rw1 hrw1
      have hfirst : squeeze rw1 = squeeze group.flatten := by
        split at hrw1
        · exact hbare _ _ hrw1
        · simp only [Option.some.injEq] at hrw1
          subst hrw1
          exact squeeze_lightRewriteComment _ _ hnl
      split at h
      · rename_i hre
        simp only [Option.some.injEq] at h
        subst h
        have : rest = [] := List.isEmpty_iff.mp hre
        rw [hfirst]
        conv => rhs; rw [hrest, this]
        simp
      · split at h
        · simp at h
        · rename_i restStr hrec
          simp only [Option.some.injEq] at h
          subst h
          have hr := ih _ _ hrec
          rw [squeeze_trimStart] at hr
          have hmid : squeeze (if (hbl && (commentStyle orig).isLineComment) = true then ['\n'] else []) = [] := by
            split <;> decide
          have hn1 : squeeze ['\n'] = [] := by decide
          simp only [squeeze_append, hfirst, hn1, hmid, hind, hr, List.append_nil]
          conv => rhs; rw [hrest, squeeze_append]

/-- `rewriteCommentLight` satisfies the hypothesis of `writeList_content`. -/
theorem rewriteCommentLight_content (config : Config) :
    ∀ c bs sh r, rewriteCommentLight config c bs sh = some r → squeeze r = squeeze c := by
  intro c bs sh r h
  unfold rewriteCommentLight at h
  exact identifyCommentLight_content _ (squeeze_of_ws (indentString_ws sh.indent config)) _
    (fun g r hg => trimLeftPreserveLayout_content g sh.indent config false r hg) _ _ _ h

end RF.Lemmas.ListsRc
