//! Token streams for C01/C03: lexing with rustc_lexer (independent of rustfmt's own scanners) and the
//! encoding sent to the Lean validator.
//!
//! Encoding of a token list: `_` when empty, else items joined by `,`; an item is `<class>:<hex text>`
//! with class  i ident/keyword · r raw ident · l lifetime · p punct (one char) · o open delim · c close delim ·
//! d doc comment (line or block, text as written) · n non-doc comment · u unknown/invalid ·
//! literals by kind:  Li int · Lf float · Lc char · Lb byte · Ls str · LB byte str · LC c str ·
//! Lr raw str · LR raw byte str · Lq raw c str.   Whitespace is dropped; non-doc comments are kept only
//! when `keep_comments`.
use crate::util::*;

pub fn encode_tokens(src: &str, keep_comments: bool) -> String {
    use rustc_lexer::{LiteralKind as LK, TokenKind as K};
    let mut items: Vec<String> = vec![];
    let mut pos = 0usize;
    if let Some(n) = rustc_lexer::strip_shebang(src) {
        items.push(format!("u:{}", enc_str(&src[..n])));
        pos = n;
    }
    for t in rustc_lexer::tokenize(&src[pos..]) {
        let len = t.len as usize;
        let text = &src[pos..pos + len];
        pos += len;
        let class: String = match t.kind {
            K::Whitespace | K::Eof => continue,
            K::LineComment { doc_style } | K::BlockComment { doc_style, .. } => {
                if doc_style.is_some() { "d".into() } else if keep_comments { "n".into() } else { continue }
            }
            K::Ident | K::InvalidIdent => "i".into(),
            K::RawIdent => "r".into(),
            K::Lifetime { .. } | K::RawLifetime => "l".into(),
            K::Literal { kind, .. } => match kind {
                LK::Int { .. } => "Li",
                LK::Float { .. } => "Lf",
                LK::Char { .. } => "Lc",
                LK::Byte { .. } => "Lb",
                LK::Str { .. } => "Ls",
                LK::ByteStr { .. } => "LB",
                LK::CStr { .. } => "LC",
                LK::RawStr { .. } => "Lr",
                LK::RawByteStr { .. } => "LR",
                LK::RawCStr { .. } => "Lq",
            }
            .into(),
            K::OpenParen | K::OpenBrace | K::OpenBracket => "o".into(),
            K::CloseParen | K::CloseBrace | K::CloseBracket => "c".into(),
            K::Unknown | K::UnknownPrefix | K::UnknownPrefixLifetime | K::GuardedStrPrefix => "u".into(),
            _ => "p".into(),
        };
        items.push(format!("{}:{}", class, enc_str(text)));
    }
    if items.is_empty() { "_".into() } else { items.join(",") }
}
