import RF.Model.MissedSpans
import RF.Lemmas.Comment
import RF.Lemmas.Shape
import RF.Lemmas.Newline
/-!
Lemmas about `RF.Model.MissedSpans` (the missed-span writer).  Core + Std only.

The central device is one loop invariant (`Inv`) for `write_snippet_inner`: the part of the snippet
consumed so far splits as `p ++ q` with `status.line_start = utf8Len p` (so every slice the code takes at
`line_start` is on a character boundary), `q` white space, and the non-blank characters written so far
are those of the consumed part.  No-panic and content preservation both follow from it.
-/
namespace RF.Lemmas.Missed
open RF.Missed RF.Comment RF.CharClasses RF.Shape
open RF.Lemmas.Comment (utf8Len_append utf8Size_pos takeBytes_prefix Alternates Contiguous slices_spec)

/-! ## Byte slices -/

/-- `&s[a.len()..]` of `a ++ b` is `b`. -/
theorem dropBytes_prefix : ∀ (a b : List Char), dropBytes? (utf8Len a) (a ++ b) = some b
  | [], b => by simp [utf8Len, dropBytes?]
  | c :: cs, b => by
    have hp := utf8Size_pos c
    have ih := dropBytes_prefix cs b
    obtain ⟨n, hn⟩ : ∃ n, utf8Len (c :: cs) = n + 1 :=
      ⟨c.utf8Size + utf8Len cs - 1, by simp [utf8Len]; omega⟩
    rw [hn]
    simp only [List.cons_append, dropBytes?]
    have h1 : c.utf8Size ≤ n + 1 := by simp [utf8Len] at hn; omega
    have h2 : n + 1 - c.utf8Size = utf8Len cs := by simp [utf8Len] at hn; omega
    simp [h1, h2, ih]

/-- `&s[a.len() .. a.len() + b.len()]` of `a ++ b ++ c` is `b`. -/
theorem sliceBytes_mid (a b c : List Char) :
    sliceBytes? (a ++ b ++ c) (utf8Len a) (utf8Len a + utf8Len b) = some b := by
  unfold sliceBytes?
  have h1 : takeBytes? (utf8Len a + utf8Len b) (a ++ b ++ c) = some (a ++ b) := by
    rw [← utf8Len_append]; exact takeBytes_prefix (a ++ b) c
  rw [h1]
  simpa using dropBytes_prefix a b

/-- The same with the two ends given as numbers. -/
theorem sliceBytes_of_split (s a b c : List Char) (i j : Nat) (hs : s = a ++ b ++ c)
    (hi : i = utf8Len a) (hj : j = utf8Len a + utf8Len b) : sliceBytes? s i j = some b := by
  subst hs hi hj; exact sliceBytes_mid a b c

theorem takeBytes_of_split (s a b : List Char) (i : Nat) (hs : s = a ++ b) (hi : i = utf8Len a) :
    takeBytes? i s = some a := by
  subst hs hi; exact takeBytes_prefix a b

theorem dropBytes_of_split (s a b : List Char) (i : Nat) (hs : s = a ++ b) (hi : i = utf8Len a) :
    dropBytes? i s = some b := by
  subst hs hi; exact dropBytes_prefix a b

/-! ## `str::find(char)`, `str::rfind(char)` -/

/-- `find` answers the byte offset of the first character that satisfies `p`. -/
theorem findChar_split (p : Char → Bool) : ∀ (s : List Char) (i : Nat), findChar p s = some i →
    ∃ a c b, s = a ++ c :: b ∧ i = utf8Len a ∧ p c = true ∧ ∀ x ∈ a, p x = false
  | [], i, h => by simp [findChar] at h
  | c :: cs, i, h => by
    simp only [findChar] at h
    by_cases hc : p c = true
    · simp only [hc, if_true, Option.some.injEq] at h
      exact ⟨[], c, cs, rfl, by simp [utf8Len, ← h], hc, by simp⟩
    · simp only [hc] at h
      cases hf : findChar p cs with
      | none => simp [hf] at h
      | some j =>
        have hi : j + c.utf8Size = i := by simpa [hf] using h
        obtain ⟨a, d, b, hs, hj, hd, ha⟩ := findChar_split p cs j hf
        refine ⟨c :: a, d, b, by simp [hs], by simp only [utf8Len]; omega, hd, ?_⟩
        intro x hx
        rcases List.mem_cons.mp hx with rfl | hx
        · simpa using hc
        · exact ha x hx

theorem findChar_none (p : Char → Bool) : ∀ (s : List Char), findChar p s = none →
    ∀ x ∈ s, p x = false
  | [], _ => by simp
  | c :: cs, h => by
    simp only [findChar] at h
    by_cases hc : p c = true
    · simp [hc] at h
    · simp only [hc] at h
      cases hf : findChar p cs with
      | some j => simp [hf] at h
      | none =>
        intro x hx
        rcases List.mem_cons.mp hx with rfl | hx
        · simpa using hc
        · exact findChar_none p cs hf x hx

/-- `rfind` answers the byte offset of the last character that satisfies `p`. -/
theorem rfindChar_split (p : Char → Bool) : ∀ (s : List Char) (i : Nat), rfindChar p s = some i →
    ∃ a c b, s = a ++ c :: b ∧ i = utf8Len a ∧ p c = true ∧ ∀ x ∈ b, p x = false
  | [], i, h => by simp [rfindChar] at h
  | c :: cs, i, h => by
    simp only [rfindChar] at h
    cases hf : rfindChar p cs with
    | some j =>
      have hi : j + c.utf8Size = i := by simpa [hf] using h
      obtain ⟨a, d, b, hs, hj, hd, hb⟩ := rfindChar_split p cs j hf
      exact ⟨c :: a, d, b, by simp [hs], by simp only [utf8Len]; omega, hd, hb⟩
    | none =>
      simp only [hf] at h
      by_cases hc : p c = true
      · simp only [hc, if_true, Option.some.injEq] at h
        refine ⟨[], c, cs, rfl, by simp [utf8Len, ← h], hc, ?_⟩
        exact rfindChar_none p cs hf
      · simp [hc] at h
where
  rfindChar_none (p : Char → Bool) : ∀ (s : List Char), rfindChar p s = none → ∀ x ∈ s, p x = false
    | [], _ => by simp
    | c :: cs, h => by
      simp only [rfindChar] at h
      cases hf : rfindChar p cs with
      | some j => simp [hf] at h
      | none =>
        simp only [hf] at h
        by_cases hc : p c = true
        · simp [hc] at h
        · intro x hx
          rcases List.mem_cons.mp hx with rfl | hx
          · simpa using hc
          · exact rfindChar_none p cs hf x hx

/-! ## White space and `squeeze` -/

def AllWs (s : List Char) : Prop := ∀ c ∈ s, isWs c = true

theorem allWs_nil : AllWs [] := by intro c h; simp at h

theorem allWs_append {a b : List Char} : AllWs (a ++ b) ↔ AllWs a ∧ AllWs b := by
  unfold AllWs
  constructor
  · intro h; exact ⟨fun c hc => h c (by simp [hc]), fun c hc => h c (by simp [hc])⟩
  · rintro ⟨ha, hb⟩ c hc
    rcases List.mem_append.mp hc with h | h
    · exact ha c h
    · exact hb c h

theorem allWs_cons {c : Char} {s : List Char} : AllWs (c :: s) ↔ isWs c = true ∧ AllWs s := by
  unfold AllWs; simp

theorem squeeze_append (a b : List Char) : squeeze (a ++ b) = squeeze a ++ squeeze b := by
  simp [squeeze]

theorem squeeze_nil : squeeze [] = [] := rfl

theorem squeeze_of_allWs {s : List Char} (h : AllWs s) : squeeze s = [] := by
  unfold squeeze
  rw [List.filter_eq_nil_iff]
  intro c hc; simp [h c hc]

theorem allWs_of_squeeze {s : List Char} (h : squeeze s = []) : AllWs s := by
  unfold squeeze at h
  rw [List.filter_eq_nil_iff] at h
  intro c hc
  have := h c hc
  simpa using this

theorem isWs_nl : isWs '\n' = true := by decide
theorem isWs_space : isWs ' ' = true := by decide
theorem isWs_tab : isWs '\t' = true := by decide

theorem allWs_replicate (k : Nat) (c : Char) (h : isWs c = true) : AllWs (List.replicate k c) := by
  intro x hx; rw [List.eq_of_mem_replicate hx]; exact h

/-- `trim_start` keeps the non-blank characters. -/
theorem squeeze_trimStart (s : List Char) : squeeze (trimStart s) = squeeze s := by
  unfold trimStart
  induction s with
  | nil => rfl
  | cons c cs ih =>
    simp only [List.dropWhile]
    cases hc : isWs c with
    | true => simp [squeeze, hc] at ih ⊢; exact ih
    | false => rfl

/-- `trim_end` keeps the non-blank characters. -/
theorem squeeze_trimEnd (s : List Char) : squeeze (trimEnd s) = squeeze s := by
  unfold trimEnd
  have h : ∀ t : List Char, squeeze (t.dropWhile isWs) = squeeze t := fun t => squeeze_trimStart t
  have hr : ∀ t : List Char, squeeze t.reverse = (squeeze t).reverse := by
    intro t; simp [squeeze]
  rw [hr, h, hr, List.reverse_reverse]

theorem squeeze_trim (s : List Char) : squeeze (trim s) = squeeze s := by
  unfold trim; rw [squeeze_trimEnd, squeeze_trimStart]

theorem dropWhile_nil_of_all {p : Char → Bool} : ∀ {s : List Char}, (∀ c ∈ s, p c = true) →
    s.dropWhile p = []
  | [], _ => rfl
  | c :: cs, h => by
    simp only [List.dropWhile, h c (by simp)]
    exact dropWhile_nil_of_all (fun x hx => h x (by simp [hx]))

theorem all_of_dropWhile_nil {p : Char → Bool} : ∀ {s : List Char}, s.dropWhile p = [] →
    ∀ c ∈ s, p c = true
  | [], _ => by simp
  | c :: cs, h => by
    simp only [List.dropWhile] at h
    cases hc : p c with
    | false => simp [hc] at h
    | true =>
      simp only [hc] at h
      intro x hx
      rcases List.mem_cons.mp hx with rfl | hx
      · exact hc
      · exact all_of_dropWhile_nil h x hx

/-- `s.trim().is_empty()` means `s` is white space. -/
theorem trim_nil_iff (s : List Char) : trim s = [] ↔ AllWs s := by
  constructor
  · intro h
    have := congrArg squeeze h
    rw [squeeze_trim] at this
    exact allWs_of_squeeze this
  · intro h
    unfold trim trimStart
    rw [dropWhile_nil_of_all h]; rfl

theorem allWs_trim_nil {s : List Char} (h : AllWs s) : trim s = [] := (trim_nil_iff s).mpr h

theorem allWs_trimEnd {s : List Char} (h : AllWs s) : trimEnd s = [] := by
  unfold trimEnd
  rw [dropWhile_nil_of_all (by intro c hc; exact h c (List.mem_reverse.mp hc))]; rfl

/-! ## Indentation strings -/

/-- `hard_tabs → tab_spaces ≥ 1`: the exact condition under which `Indent::to_string` does not divide
by zero (`RF.Props.C16shape`). -/
def IndentOk (c : Config) : Prop := c.hard_tabs = true → 1 ≤ c.tab_spaces

theorem allWs_indentChars (i : Indent) (c : Config) : AllWs (RF.Lemmas.Shape.indentChars i c) := by
  unfold RF.Lemmas.Shape.indentChars
  split
  · exact allWs_append.mpr ⟨allWs_replicate _ _ isWs_tab, allWs_replicate _ _ isWs_space⟩
  · exact allWs_replicate _ _ isWs_space

theorem indentStr_ok (env : Env) (h : IndentOk env.config) (i : Indent) :
    ∃ s, indentStr? env i = some s ∧ AllWs s := by
  refine ⟨RF.Lemmas.Shape.indentChars i env.config, ?_, allWs_indentChars i env.config⟩
  unfold indentStr?
  rw [RF.Lemmas.Shape.to_string_eq i env.config h]

theorem indentNl_ok (env : Env) (h : IndentOk env.config) (i : Indent) :
    ∃ s, indentNl? env i = some s ∧ AllWs s := by
  refine ⟨'\n' :: RF.Lemmas.Shape.indentChars i env.config, ?_,
    allWs_cons.mpr ⟨isWs_nl, allWs_indentChars i env.config⟩⟩
  unfold indentNl?
  rw [RF.Lemmas.Shape.to_string_with_newline_eq i env.config h]

/-! ## What has been pushed -/

theorem render_append (a b : List Piece) : render (a ++ b) = render a ++ render b := by
  simp [render]

theorem render_single (t : Tag) (s : List Char) : render [⟨t, s⟩] = s := by simp [render]

theorem render_nil : render [] = [] := rfl

/-- `v` is `v0` after the pieces `out` were pushed. -/
structure Wrote (v0 v : Vis) (out : List Piece) : Prop where
  buffer : v.buffer = v0.buffer ++ render out
  log : v.log = v0.log ++ out
  indent : v.blockIndent = v0.blockIndent
  pos : v.lastPos = v0.lastPos

theorem Wrote.refl (v : Vis) : Wrote v v [] := ⟨by simp [render], by simp, rfl, rfl⟩

theorem Wrote.push {v0 v : Vis} {out : List Piece} (h : Wrote v0 v out) (t : Tag) (s : List Char) :
    Wrote v0 (v.push t s) (out ++ [⟨t, s⟩]) := by
  refine ⟨?_, ?_, h.indent, h.pos⟩
  · simp [Vis.push, h.buffer, render_append, render_single]
  · simp [Vis.push, h.log]

theorem Wrote.pushVerticalSpaces {v0 v : Vis} {out : List Piece} (h : Wrote v0 v out) (env : Env)
    (n : Nat) :
    Wrote v0 (v.pushVerticalSpaces env n) (out ++ [⟨.vspace, List.replicate
      (RF.Newline.pushVerticalSpaces (RF.Newline.trailingNewlines v.buffer) n env.lower env.upper) '\n'⟩]) :=
  h.push _ _

/-! ## process_missing_code -/

theorem nl_size : ('\n' : Char).utf8Size = 1 := by decide

/-- The loop of `process_missing_code` from a state in which `line_start` is on a character boundary in
front of the current position: it does not panic, keeps that, and what it pushed plus what is pending
(`cur'`, from `line_start` on) has the non-blank characters of what was pending plus what it read. -/
theorem pmcLoop_spec (snippet : List Char) : ∀ (rest p cur tail : List Char) (i : Nat) (st : RF.Missed.Status)
    (v0 v : Vis) (out : List Piece),
    snippet = p ++ cur ++ rest ++ tail → i = utf8Len (p ++ cur) → st.line_start = utf8Len p →
    (∀ lw, st.last_wspace = some lw → ∃ c1 c2, cur = c1 ++ c2 ∧ lw = utf8Len (p ++ c1) ∧ AllWs c2) →
    Wrote v0 v out →
    ∃ st' v' out' p' cur', pmcLoop snippet i rest st v = some (st', v') ∧ Wrote v0 v' (out ++ out') ∧
      p ++ cur ++ rest = p' ++ cur' ∧ st'.line_start = utf8Len p' ∧
      squeeze (render out') ++ squeeze cur' = squeeze cur ++ squeeze rest ∧
      (∀ q ∈ out', q.tag = .code)
  | [], p, cur, tail, i, st, v0, v, out, _, _, hls, _, hw => by
    refine ⟨st, v, [], p, cur, rfl, by simpa using hw, by simp, hls, by simp [render, squeeze], by simp⟩
  | c :: rest, p, cur, tail, i, st, v0, v, out, hs, hi, hls, hlw, hw => by
    by_cases hc : c = '\n'
    · subst hc
      have hi1 : i + 1 = utf8Len (p ++ (cur ++ ['\n']) ++ []) := by
        rw [hi]; simp [utf8Len_append, utf8Len, nl_size]; omega
      cases hl : st.last_wspace with
      | some lw =>
        obtain ⟨c1, c2, hcur, hlwv, hc2⟩ := hlw lw hl
        have hsl : sliceBytes? snippet st.line_start lw = some c1 := by
          apply sliceBytes_of_split snippet p c1 (c2 ++ '\n' :: rest ++ tail)
          · rw [hs, hcur]; simp [List.append_assoc]
          · exact hls
          · rw [hlwv, utf8Len_append]
        have hw' := (hw.push .code c1).push .code ['\n']
        obtain ⟨st', v', out', p', cur', hrun, hwr, hsplit, hls', hsq, htag⟩ :=
          pmcLoop_spec snippet rest (p ++ (cur ++ ['\n'])) [] tail (i + 1)
            { line_start := i + 1, last_wspace := none, cur_line := st.cur_line + 1 } v0 _ _
            (by rw [hs]; simp [List.append_assoc]) hi1
            (by show i + 1 = _; rw [hi]; simp [utf8Len_append, utf8Len, nl_size]; omega)
            (by intro lw h; simp at h) hw'
        refine ⟨st', v', [⟨.code, c1⟩, ⟨.code, ['\n']⟩] ++ out', p', cur', ?_, ?_, ?_, hls', ?_, ?_⟩
        · simp only [pmcLoop, if_true, hl, hsl]; exact hrun
        · simpa [List.append_assoc] using hwr
        · rw [← hsplit]; simp [List.append_assoc]
        · rw [render_append, squeeze_append]
          have h1 : squeeze (render [⟨Tag.code, c1⟩, ⟨Tag.code, ['\n']⟩]) = squeeze cur := by
            rw [hcur, squeeze_append, squeeze_of_allWs hc2]
            simp [render, squeeze_append]
            exact squeeze_of_allWs (by intro x hx; simp at hx; subst hx; exact isWs_nl)
          rw [h1, List.append_assoc, hsq]
          simp [squeeze_append, squeeze_nil]
          have : squeeze ('\n' :: rest) = squeeze rest := by
            show squeeze (['\n'] ++ rest) = _
            rw [squeeze_append, squeeze_of_allWs (by intro x hx; simp at hx; subst hx; exact isWs_nl)]; rfl
          rw [this]
        · intro q hq
          rcases List.mem_append.mp hq with h | h
          · simp at h; rcases h with rfl | rfl <;> rfl
          · exact htag q h
      | none =>
        have hsl : sliceBytes? snippet st.line_start (i + 1) = some (cur ++ ['\n']) := by
          apply sliceBytes_of_split snippet p (cur ++ ['\n']) (rest ++ tail)
          · rw [hs]; simp [List.append_assoc]
          · exact hls
          · rw [hi]; simp [utf8Len_append, utf8Len, nl_size]; omega
        have hw' := hw.push .code (cur ++ ['\n'])
        obtain ⟨st', v', out', p', cur', hrun, hwr, hsplit, hls', hsq, htag⟩ :=
          pmcLoop_spec snippet rest (p ++ (cur ++ ['\n'])) [] tail (i + 1)
            { line_start := i + 1, last_wspace := none, cur_line := st.cur_line + 1 } v0 _ _
            (by rw [hs]; simp [List.append_assoc]) hi1
            (by show i + 1 = _; rw [hi]; simp [utf8Len_append, utf8Len, nl_size]; omega)
            (by intro lw h; simp at h) hw'
        refine ⟨st', v', [⟨.code, cur ++ ['\n']⟩] ++ out', p', cur', ?_, ?_, ?_, hls', ?_, ?_⟩
        · simp only [pmcLoop, if_true, hl, hsl]; exact hrun
        · simpa [List.append_assoc] using hwr
        · rw [← hsplit]; simp [List.append_assoc]
        · rw [render_append, squeeze_append, List.append_assoc, hsq]
          simp [render, squeeze_append, squeeze_nil]
          have h1 : squeeze ['\n'] = [] :=
            squeeze_of_allWs (by intro x hx; simp at hx; subst hx; exact isWs_nl)
          have : squeeze ('\n' :: rest) = squeeze rest := by
            show squeeze (['\n'] ++ rest) = _
            rw [squeeze_append, h1]; rfl
          rw [this, h1]; simp
        · intro q hq
          rcases List.mem_append.mp hq with h | h
          · simp at h; subst h; rfl
          · exact htag q h
    · have hi1 : i + c.utf8Size = utf8Len (p ++ (cur ++ [c])) := by
        rw [hi]; simp [utf8Len_append, utf8Len]; omega
      have hs1 : snippet = p ++ (cur ++ [c]) ++ rest ++ tail := by rw [hs]; simp [List.append_assoc]
      by_cases hws : (isWs c && st.last_wspace.isNone) = true
      · obtain ⟨st', v', out', p', cur', hrun, hwr, hsplit, hls', hsq, htag⟩ :=
          pmcLoop_spec snippet rest p (cur ++ [c]) tail (i + c.utf8Size)
            { st with last_wspace := some i } v0 v out hs1 hi1 hls
            (by
              intro lw h
              simp at h; subst h
              refine ⟨cur, [c], rfl, hi, ?_⟩
              intro x hx; simp at hx; subst hx
              simp at hws; exact hws.1) hw
        refine ⟨st', v', out', p', cur', ?_, hwr, ?_, hls', ?_, htag⟩
        · simp only [pmcLoop, hc, if_false, hws, if_true]; exact hrun
        · rw [← hsplit]; simp [List.append_assoc]
        · rw [hsq]; simp only [squeeze_append, List.append_assoc]
          show squeeze cur ++ (squeeze [c] ++ squeeze rest) = squeeze cur ++ squeeze ([c] ++ rest)
          rw [squeeze_append]
      · obtain ⟨st', v', out', p', cur', hrun, hwr, hsplit, hls', hsq, htag⟩ :=
          pmcLoop_spec snippet rest p (cur ++ [c]) tail (i + c.utf8Size)
            { st with last_wspace := none } v0 v out hs1 hi1 hls
            (by intro lw h; simp at h) hw
        refine ⟨st', v', out', p', cur', ?_, hwr, ?_, hls', ?_, htag⟩
        · simp only [pmcLoop, hc, if_false, hws]; exact hrun
        · rw [← hsplit]; simp [List.append_assoc]
        · rw [hsq]; simp only [squeeze_append, List.append_assoc]
          show squeeze cur ++ (squeeze [c] ++ squeeze rest) = squeeze cur ++ squeeze ([c] ++ rest)
          rw [squeeze_append]

/-- Without a line break the loop pushes nothing. -/
theorem pmcLoop_noNl (snippet : List Char) : ∀ (rest : List Char) (i : Nat) (st : RF.Missed.Status)
    (v : Vis), (∀ c ∈ rest, c ≠ '\n') → ∃ st', pmcLoop snippet i rest st v = some (st', v)
  | [], _, st, v, _ => ⟨st, rfl⟩
  | c :: rest, i, st, v, h => by
    have hc : c ≠ '\n' := h c (by simp)
    have hr : ∀ x ∈ rest, x ≠ '\n' := fun x hx => h x (by simp [hx])
    simp only [pmcLoop, hc, if_false]
    split
    · exact pmcLoop_noNl snippet rest _ _ v hr
    · exact pmcLoop_noNl snippet rest _ _ v hr

/-- `rewrite_comment` keeps the non-blank characters of a comment (true of the rewriter under the
default comment options: `RF.Lemmas.ListsRc.rewriteCommentLight_content`). -/
def RcContent (rc : Rc) : Prop := ∀ c bs sh r, rc c bs sh = some r → squeeze r = squeeze c

theorem squeeze_rcOr (env : Env) (h : RcContent env.rc) (c : List Char) (sh : Shape) :
    squeeze (rcOr env c sh) = squeeze c := by
  unfold rcOr
  cases hr : env.rc c false sh with
  | none => rfl
  | some r => exact h c false sh r hr

/-- Every `vspace` piece of `out` is what `push_vertical_spaces` computes from the run of line breaks
at the end of the buffer (`b0` followed by the pieces in front of it) for some request. -/
def VspaceOk (env : Env) (b0 : List Char) (out : List Piece) : Prop :=
  ∀ l1 t l2, out = l1 ++ ⟨.vspace, t⟩ :: l2 →
    ∃ n, t = List.replicate (RF.Newline.pushVerticalSpaces
      (RF.Newline.trailingNewlines (b0 ++ render l1)) n env.lower env.upper) '\n'

theorem VspaceOk.nil (env : Env) (b0 : List Char) : VspaceOk env b0 [] := by
  intro l1 t l2 h; simp at h

/-- Appending pieces that are not vertical spaces. -/
theorem VspaceOk.append {env : Env} {b0 : List Char} {out o : List Piece} (h : VspaceOk env b0 out)
    (ho : ∀ q ∈ o, q.tag ≠ .vspace) : VspaceOk env b0 (out ++ o) := by
  intro l1 t l2 heq
  rcases List.append_eq_append_iff.mp heq with ⟨a, _, h2⟩ | ⟨a, h1, h2⟩
  · have : (⟨.vspace, t⟩ : Piece) ∈ o := by rw [h2]; simp
    exact absurd rfl (ho _ this)
  · cases a with
    | nil =>
      have : (⟨.vspace, t⟩ : Piece) ∈ o := by
        have : o = ⟨.vspace, t⟩ :: l2 := by simpa using h2.symm
        rw [this]; simp
      exact absurd rfl (ho _ this)
    | cons x a =>
      have hx : x = ⟨.vspace, t⟩ := by
        have := h2; simp at this; exact this.1.symm
      subst hx
      exact h l1 t a h1

/-- Appending the piece `push_vertical_spaces` pushes. -/
theorem VspaceOk.vspace {env : Env} {b0 : List Char} {out : List Piece} (h : VspaceOk env b0 out)
    (n : Nat) :
    VspaceOk env b0 (out ++ [⟨.vspace, List.replicate (RF.Newline.pushVerticalSpaces
      (RF.Newline.trailingNewlines (b0 ++ render out)) n env.lower env.upper) '\n'⟩]) := by
  intro l1 t l2 heq
  rcases List.append_eq_append_iff.mp heq with ⟨a, h1, h2⟩ | ⟨a, h1, h2⟩
  · cases a with
    | nil =>
      have h3 : l1 = out := by simpa using h1
      subst h3
      refine ⟨n, ?_⟩
      have := h2; simp at this; exact this.1.symm
    | cons x a =>
      exfalso
      have := congrArg List.length h2
      simp at this
  · cases a with
    | nil =>
      have h3 : out = l1 := by simpa using h1
      subst h3
      refine ⟨n, ?_⟩
      have := h2; simp at this; exact this.1
    | cons x a =>
      have hx : x = ⟨.vspace, t⟩ := by
        have := h2; simp at this; exact this.1.symm
      subst hx
      exact h l1 t a h1

/-! ## The loop invariant of `write_snippet_inner` -/

/-- After the part `done` of the snippet has been consumed (`k` = the kind of the slice that comes
next): `out` has been pushed; `done = p ++ q` with `line_start` at the end of `p` and `q` white space;
`last_wspace` is clear in front of a `Normal` slice; the non-blank characters written are those of
`done` (when the comment rewriter keeps them); every `vspace` piece is a `push_vertical_spaces`. -/
structure Inv (env : Env) (v0 : Vis) (k : CodeCharKind) (done : List Char) (st : RF.Missed.Status)
    (v : Vis) (out : List Piece) : Prop where
  wrote : Wrote v0 v out
  split : ∃ p q, done = p ++ q ∧ AllWs q ∧ st.line_start = utf8Len p
  lw : k = .normal → st.last_wspace = none
  content : RcContent env.rc → squeeze (render out) = squeeze done
  vs : VspaceOk env v0.buffer out

theorem utf8Len_inj_prefix : ∀ (a b x y : List Char), a ++ x = b ++ y → utf8Len a = utf8Len b → a = b
  | [], [], _, _, _, _ => rfl
  | [], c :: b, _, _, _, h => by
    have := utf8Size_pos c; simp [utf8Len] at h; omega
  | c :: a, [], _, _, _, h => by
    have := utf8Size_pos c; simp [utf8Len] at h; omega
  | c :: a, d :: b, x, y, h, hl => by
    simp at h
    obtain ⟨rfl, h⟩ := h
    have : utf8Len a = utf8Len b := by simp [utf8Len] at hl; omega
    rw [utf8Len_inj_prefix a b x y h this]

/-- `process_missing_code` on the slice `sub` that follows `done`. -/
theorem processMissingCode_spec (env : Env) (hind : IndentOk env.config)
    (snippet done sub tail : List Char) (hs : snippet = done ++ sub ++ tail)
    (st : RF.Missed.Status) (v0 v : Vis) (out : List Piece)
    (hinv : Inv env v0 .normal done st v out) :
    ∃ st' v' o, processMissingCode env snippet sub (utf8Len done) st v = some (st', v') ∧
      Inv env v0 .comment (done ++ sub) st' v' (out ++ o) ∧
      (∀ q ∈ o, q.tag = .code ∨ (q.tag = .blank ∧ AllWs q.text)) ∧
      (AllWs sub → (∀ c ∈ sub, c ≠ '\n') → o = []) := by
  obtain ⟨p, q, hd, hq, hls⟩ := hinv.split
  have hlw := hinv.lw rfl
  obtain ⟨st1, v1, o1, p', cur', hrun, hw1, hsplit, hls1, hsq, htag⟩ :=
    pmcLoop_spec snippet sub p q tail (utf8Len done) st v0 v out (by rw [hs, hd]) (by rw [hd]) hls
      (by intro lw h; rw [hlw] at h; cases h) hinv.wrote
  have hsl : sliceBytes? snippet st1.line_start (utf8Len sub + utf8Len done) = some cur' := by
    apply sliceBytes_of_split snippet p' cur' tail
    · rw [hs, hd, hsplit]
    · exact hls1
    · have := congrArg utf8Len hsplit
      rw [← hd] at this
      simp only [utf8Len_append] at this
      omega
  have hsq' : squeeze (render o1) ++ squeeze cur' = squeeze sub := by
    rw [hsq, squeeze_of_allWs hq]; rfl
  -- nothing is pushed by the loop when there is no line break
  have hnone : (∀ c ∈ sub, c ≠ '\n') → o1 = [] := by
    intro hnl
    obtain ⟨st'', hrun'⟩ := pmcLoop_noNl snippet sub (utf8Len done) st v hnl
    rw [hrun] at hrun'
    have hv : v1 = v := by injection hrun' with h; exact (Prod.mk.inj h).2
    have h1 := hw1.log
    rw [hv, hinv.wrote.log] at h1
    have : v0.log ++ out ++ [] = v0.log ++ out ++ o1 := by simpa [List.append_assoc] using h1
    exact (List.append_cancel_left this).symm
  unfold processMissingCode
  rw [hrun]
  simp only
  rw [hsl]
  simp only
  cases hrem : (trim cur').isEmpty with
  | true =>
    have hcur : AllWs cur' := (trim_nil_iff cur').mp (by simpa using hrem)
    refine ⟨st1, v1, o1, by simp, ?_, ?_, ?_⟩
    · refine ⟨hw1, ⟨p', cur', by rw [hd, hsplit], hcur, hls1⟩, (by intro h; cases h), ?_, ?_⟩
      · intro hrc
        rw [render_append, squeeze_append, hinv.content hrc, squeeze_append]
        rw [← hsq', squeeze_of_allWs hcur]; simp
      · exact hinv.vs.append (by intro x hx; rw [htag x hx]; decide)
    · intro x hx; exact Or.inl (htag x hx)
    · intro _ hnl; exact hnone hnl
  | false =>
    obtain ⟨ind, hindS, hindW⟩ := indentStr_ok env hind v1.blockIndent
    refine ⟨{ st1 with line_start := utf8Len sub + utf8Len done }, (v1.push .blank ind).push .code (trim cur'),
      o1 ++ [⟨.blank, ind⟩, ⟨.code, trim cur'⟩], by simp [hindS], ?_, ?_, ?_⟩
    · refine ⟨?_, ⟨done ++ sub, [], by simp, allWs_nil, (by simp [utf8Len_append]; omega)⟩,
        (by intro h; cases h), ?_, ?_⟩
      · have := (hw1.push .blank ind).push .code (trim cur')
        simpa [List.append_assoc] using this
      · intro hrc
        rw [← List.append_assoc, render_append, squeeze_append, render_append, squeeze_append,
          hinv.content hrc, squeeze_append]
        have h2 : squeeze (render [⟨Tag.blank, ind⟩, ⟨Tag.code, trim cur'⟩]) = squeeze cur' := by
          simp only [render, List.flatMap_cons, List.flatMap_nil, List.append_nil, squeeze_append,
            squeeze_of_allWs hindW, squeeze_trim, List.nil_append]
        rw [h2, List.append_assoc, hsq']
      · rw [← List.append_assoc]
        apply (hinv.vs.append (by intro x hx; rw [htag x hx]; decide)).append
        intro x hx
        simp at hx
        rcases hx with rfl | rfl <;> simp
    · intro x hx
      rcases List.mem_append.mp hx with h | h
      · exact Or.inl (htag x h)
      · simp at h
        rcases h with rfl | rfl
        · exact Or.inr ⟨rfl, hindW⟩
        · exact Or.inl rfl
    · intro hsub hnl
      exfalso
      have h1 := hnone hnl
      rw [h1] at hsq'
      have : squeeze cur' = [] := by
        rw [squeeze_of_allWs hsub] at hsq'
        simp [render, squeeze_nil] at hsq'
        exact hsq'
      have := (trim_nil_iff cur').mpr (allWs_of_squeeze this)
      simp [this] at hrem

/-! ## process_comment -/

/-- Pieces of fixed white space. -/
def BlankPieces (l : List Piece) : Prop := ∀ q ∈ l, q.tag = .blank ∧ AllWs q.text

theorem BlankPieces.nil : BlankPieces [] := by intro q h; simp at h

theorem BlankPieces.single {s : List Char} (h : AllWs s) : BlankPieces [⟨.blank, s⟩] := by
  intro q hq; simp at hq; subst hq; exact ⟨rfl, h⟩

theorem BlankPieces.append {a b : List Piece} (ha : BlankPieces a) (hb : BlankPieces b) :
    BlankPieces (a ++ b) := by
  intro q hq
  rcases List.mem_append.mp hq with h | h
  · exact ha q h
  · exact hb q h

theorem BlankPieces.squeeze {l : List Piece} (h : BlankPieces l) : squeeze (render l) = [] := by
  induction l with
  | nil => rfl
  | cons x l ih =>
    have hx := h x (by simp)
    have : render (x :: l) = x.text ++ render l := by simp [render]
    rw [this, squeeze_append, squeeze_of_allWs hx.2, ih (fun q hq => h q (by simp [hq]))]; rfl

theorem BlankPieces.noVspace {l : List Piece} (h : BlankPieces l) : ∀ q ∈ l, q.tag ≠ .vspace := by
  intro q hq; rw [(h q hq).1]; decide

theorem allWs_single {c : Char} (h : isWs c = true) : AllWs [c] := by
  intro x hx; simp at hx; subst hx; exact h

/-- The tail of `process_comment`: no panic; at most a `"\n"` is pushed; `line_start` is the end of
the comment and `last_wspace` is clear. -/
theorem commentTail_spec (snippet done sub tail : List Char) (hs : snippet = done ++ sub ++ tail)
    (st : RF.Missed.Status) (v : Vis) :
    ∃ st' post, commentTail snippet sub (utf8Len done) st v =
        some (st', post.foldl (fun v q => v.push q.tag q.text) v) ∧
      BlankPieces post ∧ st'.line_start = utf8Len (done ++ sub) ∧ st'.last_wspace = none := by
  have hle : utf8Len done + utf8Len sub ≤ utf8Len snippet := by
    rw [hs]; simp only [utf8Len_append]; omega
  have hdrop : dropBytes? (utf8Len done + utf8Len sub) snippet = some tail :=
    dropBytes_of_split snippet (done ++ sub) tail _ hs (by rw [utf8Len_append])
  have hnl : BlankPieces [⟨.blank, ['\n']⟩] := BlankPieces.single (allWs_single isWs_nl)
  unfold commentTail
  simp only [hle, if_true, hdrop]
  split
  · split
    · split
      · exact ⟨_, [⟨.blank, ['\n']⟩], rfl, hnl, by simp [utf8Len_append], rfl⟩
      · exact ⟨_, [], rfl, BlankPieces.nil, by simp [utf8Len_append], rfl⟩
    · exact ⟨_, [⟨.blank, ['\n']⟩], rfl, hnl, by simp [utf8Len_append], rfl⟩
  · exact ⟨_, [⟨.blank, ['\n']⟩], rfl, hnl, by simp [utf8Len_append], rfl⟩

theorem wrote_foldl {v0 v : Vis} {out : List Piece} (h : Wrote v0 v out) : ∀ (post : List Piece),
    Wrote v0 (post.foldl (fun v q => v.push q.tag q.text) v) (out ++ post) := by
  intro post
  induction post generalizing v out with
  | nil => simpa using h
  | cons x post ih =>
    have := ih (h.push x.tag x.text)
    simpa [List.append_assoc] using this

end RF.Lemmas.Missed
