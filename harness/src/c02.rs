//! C02: formatting is idempotent.  Search over a FIXED universe of cases
//!   U = fixtures x { base, width w, option single (k, v), re-layout j }
//! (re-layouts are seeded from the fixture's name and j, not from VERIF_SEED), every element of which
//! was measured on the pinned tree: the dirty ones are listed in /verif/corpus/c02_dirty.txt and run as
//! enumerated probes (known findings); VERIF_SEED only selects which clean elements a quick run takes,
//! thorough takes all of them.  Oracle: fmt(fmt(x)) = fmt(x) byte for byte whenever the first pass
//! reported nothing.
use std::collections::HashSet;
use std::path::Path;
use std::time::Duration;

use serde_json::json;

use crate::corpus::{self, Program};
use crate::gen::*;
use crate::pool::{self, Job, Status};
use crate::util::*;

pub const RELAYOUTS: usize = 3;
pub const WIDTHS: &[usize] = &[20, 37, 50, 60, 80, 137, 200];

fn fnv(s: &str) -> u64 {
    let mut h: u64 = 0xcbf29ce484222325;
    for b in s.bytes() {
        h ^= b as u64;
        h = h.wrapping_mul(0x100000001b3);
    }
    h
}

#[derive(Clone)]
pub struct Case {
    pub id: String,
    pub src: String,
    pub cfg: Vec<(String, String)>,
}

pub fn universe(progs: &[Program]) -> Vec<Case> {
    let singles = option_singles();
    let mut v = vec![];
    for p in progs {
        if p.src.trim().is_empty() {
            continue;
        }
        v.push(Case { id: format!("{}|base", p.name), src: p.src.clone(), cfg: p.cfg.clone() });
        for w in WIDTHS {
            v.push(Case { id: format!("{}|w{}", p.name, w), src: p.src.clone(), cfg: merge_cfg(&p.cfg, &[("max_width".into(), w.to_string())]) });
        }
        for (k, val) in &singles {
            if cfg_get(&p.cfg, k) == Some(val.as_str()) {
                continue;
            }
            v.push(Case { id: format!("{}|{}={}", p.name, k, val), src: p.src.clone(), cfg: merge_cfg(&p.cfg, &[(k.clone(), val.clone())]) });
        }
        for j in 0..RELAYOUTS {
            let mut r = Rng::new(fnv(&p.name) ^ (j as u64 + 1));
            v.push(Case { id: format!("{}|relayout{}", p.name, j), src: relayout(&p.src, &mut r), cfg: p.cfg.clone() });
        }
    }
    v
}

#[derive(PartialEq, Eq, Debug)]
pub enum Verdict {
    Idempotent,
    NotIdempotent,
    FirstPassNotClean,
    Timeout,
    SecondPassFailed(String),
}

/// runs the two passes for every case
pub fn judge(cases: &[Case], timeout: Duration) -> Vec<(Verdict, String, String)> {
    let jobs: Vec<Job> = cases.iter().map(|c| Job { src: c.src.clone(), cfg: c.cfg.clone(), file_lines: None }).collect();
    let r1 = pool::run_jobs(&jobs, jobs_n(), timeout);
    let mut idx = vec![];
    let mut jobs2 = vec![];
    for (i, r) in r1.iter().enumerate() {
        if r.clean() && !r.out.is_empty() {
            idx.push(i);
            jobs2.push(Job { src: r.out.clone(), cfg: cases[i].cfg.clone(), file_lines: None });
        }
    }
    let r2 = pool::run_jobs(&jobs2, jobs_n(), timeout);
    let mut res: Vec<(Verdict, String, String)> = r1
        .iter()
        .map(|r| (if r.status == Status::Timeout { Verdict::Timeout } else { Verdict::FirstPassNotClean }, String::new(), String::new()))
        .collect();
    for (k, r) in r2.iter().enumerate() {
        let i = idx[k];
        let v = match &r.status {
            Status::Ok if r.out == r1[i].out => Verdict::Idempotent,
            Status::Ok => Verdict::NotIdempotent,
            Status::Timeout => Verdict::Timeout,
            other => Verdict::SecondPassFailed(format!("{:?}", other)),
        };
        res[i] = (v, r1[i].out.clone(), r.out.clone());
    }
    res
}

/// variant family of a universe element: `relayout`, `width`, `base`, or the option name
pub fn family_of(id: &str) -> String {
    let v = id.rsplit('|').next().unwrap_or("");
    if v.starts_with("relayout") {
        "relayout".into()
    } else if v == "base" {
        "base".into()
    } else if let Some((k, _)) = v.split_once('=') {
        k.to_string()
    } else {
        "width".into()
    }
}

fn first_diff_line(a: &str, b: &str) -> String {
    for (i, (x, y)) in a.lines().zip(b.lines()).enumerate() {
        if x != y {
            return format!("line {}: {:?} -> {:?}", i + 1, x, y);
        }
    }
    format!("line counts {} -> {}", a.lines().count(), b.lines().count())
}

pub fn load_dirty() -> HashSet<String> {
    std::fs::read_to_string("corpus/c02_dirty.txt").or_else(|_| std::fs::read_to_string("/verif/corpus/c02_dirty.txt")).unwrap_or_default().lines().map(|l| l.trim().to_string()).filter(|l| !l.is_empty() && !l.starts_with('#')).collect()
}

pub fn run(tier: &str, seed: u64, out: &Path) -> i32 {
    let mut o = Outcome::new("C02", tier, seed);
    let progs = corpus::programs(&["tests/target", "tests/source"]);
    let all = universe(&progs);
    let dirty = load_dirty();
    o.count_n("universe", all.len() as u64);
    o.count_n("universe_dirty_listed", dirty.len() as u64);
    let timeout = Duration::from_secs(if tier == "quick" { 10 } else { 30 });
    if tier == "sweep" {
        // measurement mode (not a registered check): prints every dirty element of the universe
        let res = judge(&all, Duration::from_secs(30));
        for (c, (v, _, _)) in all.iter().zip(res.iter()) {
            match v {
                Verdict::NotIdempotent | Verdict::SecondPassFailed(_) => println!("{}", c.id),
                _ => {}
            }
        }
        return 0;
    }
    let mut rng = Rng::new(seed ^ 0xc02);
    let clean: Vec<&Case> = all.iter().filter(|c| !dirty.contains(&c.id)).collect();
    let chosen: Vec<Case> = if tier == "thorough" {
        clean.iter().map(|c| (*c).clone()).collect()
    } else {
        // all base cases + a seeded sample of the rest
        let n = 80000usize;
        let mut v: Vec<Case> = clean.iter().filter(|c| c.id.ends_with("|base")).map(|c| (*c).clone()).collect();
        let rest: Vec<&&Case> = clean.iter().filter(|c| !c.id.ends_with("|base")).collect();
        for _ in 0..n.min(rest.len()) {
            v.push((**rng.pick(&rest)).clone());
        }
        v
    };
    let res = judge(&chosen, timeout);
    let mut distinct = HashSet::new();
    for (c, (v, o1, o2)) in chosen.iter().zip(res.iter()) {
        let fam = family_of(&c.id);
        o.count(&format!("{}:{}", fam, match v { Verdict::Idempotent => "idempotent", Verdict::NotIdempotent => "NOT-IDEMPOTENT", Verdict::FirstPassNotClean => "first-pass-reported-something", Verdict::Timeout => "timeout", Verdict::SecondPassFailed(_) => "SECOND-PASS-FAILED" }));
        match v {
            Verdict::Idempotent => {
                o.direct_evals += 1;
                if distinct.insert(c.id.clone()) && o1 != &c.src {
                    o.direct_distinct += 1; // non-trivial: the first pass changed the text
                }
            }
            Verdict::NotIdempotent => {
                o.direct_evals += 1;
                o.direct_failures.push(json!({"sig": format!("c02:not-idempotent:{}", c.id), "what": format!("fmt(fmt(x)) != fmt(x): {}", first_diff_line(o1, o2)), "case": c.id, "config": cfg_text(&c.cfg), "src": c.src, "first": o1, "second": o2}));
            }
            Verdict::SecondPassFailed(m) => {
                o.direct_evals += 1;
                o.direct_failures.push(json!({"sig": format!("c02:second-pass-failed:{}", c.id), "what": format!("the second pass failed on the first pass' output: {}", m), "case": c.id, "config": cfg_text(&c.cfg), "src": c.src, "first": o1}));
            }
            _ => {}
        }
    }
    // boundary-width family: items of the fixtures at the widths where one of their lines is exactly as wide as the page
    let its = crate::boundary::items(&progs);
    let plan = crate::boundary::plan(&its, timeout);
    let bdirty = crate::boundary::load_list("c02_boundary_dirty.txt");
    let mut planned: Vec<Case> = vec![];
    let mut bdirty_cases: Vec<Case> = vec![];
    for (it, ws) in its.iter().zip(plan.iter()) {
        for w in ws {
            let c = Case { id: crate::boundary::elem_id(it, *w), src: it.src.clone(), cfg: merge_cfg(&it.cfg, &[("max_width".into(), w.to_string())]) };
            if bdirty.contains(&format!("{}|*", it.id)) {
                continue;
            }
            if bdirty.contains(&c.id) {
                bdirty_cases.push(c);
            } else {
                planned.push(c);
            }
        }
    }
    o.count_n("boundary:items", its.len() as u64);
    o.count_n("boundary:planned (item, width) pairs", planned.len() as u64);
    o.count_n("boundary:listed dirty or slow", bdirty.len() as u64);
    let bchosen: Vec<Case> = if tier == "thorough" {
        // the whole universe: every usable item at every width
        let mut v = vec![];
        for (it, ws) in its.iter().zip(plan.iter()) {
            if ws.is_empty() || bdirty.contains(&format!("{}|*", it.id)) {
                continue;
            }
            for w in 20..=200usize {
                let c = Case { id: crate::boundary::elem_id(it, w), src: it.src.clone(), cfg: merge_cfg(&it.cfg, &[("max_width".into(), w.to_string())]) };
                if !bdirty.contains(&c.id) {
                    v.push(c);
                }
            }
        }
        v
    } else {
        // every planned pair, plus a seeded sample of the rest of the universe
        let mut v = planned.clone();
        let mut r = Rng::new(seed ^ 0xb02);
        let usable: Vec<&crate::boundary::Item> = its.iter().zip(plan.iter()).filter(|(it, ws)| !ws.is_empty() && !bdirty.contains(&format!("{}|*", it.id))).map(|(it, _)| it).collect();
        for _ in 0..10000usize {
            if usable.is_empty() {
                break;
            }
            let it = *r.pick(&usable);
            let w = r.range(20, 200);
            let c = Case { id: crate::boundary::elem_id(it, w), src: it.src.clone(), cfg: merge_cfg(&it.cfg, &[("max_width".into(), w.to_string())]) };
            if !bdirty.contains(&c.id) {
                v.push(c);
            }
        }
        v
    };
    let bres = judge(&bchosen, Duration::from_secs(5));
    for (c, (v, o1, o2)) in bchosen.iter().zip(bres.iter()) {
        o.count(&format!("boundary:{}", match v { Verdict::Idempotent => "idempotent", Verdict::NotIdempotent => "NOT-IDEMPOTENT", Verdict::FirstPassNotClean => "first-pass-reported-something", Verdict::Timeout => "timeout", Verdict::SecondPassFailed(_) => "SECOND-PASS-FAILED" }));
        match v {
            Verdict::Idempotent => {
                o.direct_evals += 1;
                if distinct.insert(c.id.clone()) && o1 != &c.src {
                    o.direct_distinct += 1;
                }
            }
            Verdict::NotIdempotent => {
                o.direct_evals += 1;
                o.direct_failures.push(json!({"sig": format!("c02:not-idempotent:{}", c.id), "what": format!("fmt(fmt(x)) != fmt(x) at a boundary width: {}", first_diff_line(o1, o2)), "case": c.id, "config": cfg_text(&c.cfg), "src": c.src, "first": o1, "second": o2}));
            }
            Verdict::SecondPassFailed(m) => {
                o.direct_evals += 1;
                o.direct_failures.push(json!({"sig": format!("c02:second-pass-failed:{}", c.id), "what": format!("the second pass failed on the first pass' output: {}", m), "case": c.id, "config": cfg_text(&c.cfg), "src": c.src, "first": o1}));
            }
            _ => {}
        }
    }
    {
        // listed dirty boundary elements that the plan reaches: one enumerated probe
        let dres = judge(&bdirty_cases, Duration::from_secs(5));
        let mut bad = 0;
        let mut ex = String::new();
        for (c, (v, o1, o2)) in bdirty_cases.iter().zip(dres.iter()) {
            if matches!(v, Verdict::NotIdempotent | Verdict::SecondPassFailed(_)) {
                bad += 1;
                if ex.is_empty() {
                    ex = format!("{}: {}", c.id, if let Verdict::SecondPassFailed(m) = v { m.clone() } else { first_diff_line(o1, o2) });
                }
            }
        }
        o.probes.push(json!({"id": "c02-dirty:boundary", "fails": bad > 0, "what": format!("{} of the {} listed boundary-width elements reached by the plan are not idempotent, e.g. {}", bad, bdirty_cases.len(), ex)}));
    }
    // the listed dirty elements, as enumerated probes grouped by fixture
    let dirty_cases: Vec<Case> = all.iter().filter(|c| dirty.contains(&c.id)).cloned().collect();
    let dres = judge(&dirty_cases, timeout);
    let mut by_family: std::collections::BTreeMap<String, (usize, usize, String)> = Default::default();
    for (c, (v, o1, o2)) in dirty_cases.iter().zip(dres.iter()) {
        let fam = family_of(&c.id);
        let e = by_family.entry(fam).or_insert((0, 0, String::new()));
        e.0 += 1;
        if matches!(v, Verdict::NotIdempotent | Verdict::SecondPassFailed(_)) {
            e.1 += 1;
            if e.2.is_empty() {
                e.2 = format!("{}: {}", c.id, if let Verdict::SecondPassFailed(m) = v { m.clone() } else { first_diff_line(o1, o2) });
            }
        }
    }
    for (fam, (n, bad, ex)) in by_family {
        o.probes.push(json!({"id": format!("c02-dirty:{}", fam), "fails": bad > 0, "what": format!("{} of the {} listed elements of family `{}` are not idempotent, e.g. {}", bad, n, fam, ex)}));
    }
    if let Some(c) = chosen.get(0) {
        o.sample(json!({"case": c.id, "config": cfg_text(&c.cfg), "src_bytes": c.src.len()}));
    }
    if let Some(c) = chosen.last() {
        o.sample(json!({"case": c.id, "config": cfg_text(&c.cfg), "src_bytes": c.src.len()}));
    }
    o.exhaustive = tier == "thorough";
    o.notes.push("universe = fixtures x {base, 7 widths, every option single, 3 name-seeded re-layouts}; thorough runs every element not listed dirty, quick runs every base element and a seeded sample of 80000 others (with repetition: about 40% of the universe); listed dirty elements run as probes. Boundary family: universe B = top-level items of the fixtures x every max_width 20..200 (measured in full on the pinned tree, dirty/slow elements in corpus/c02_boundary_dirty.txt); a run takes, per item, the widths within one column of the length of a line of the item's output at max_width 200 (quick: every such pair, about 20000, plus a seeded sample of 10000 other elements of B; thorough: the whole universe B, 540000 elements)".into());
    // re-breaking of strings and comments is the identity on its own output (StringFmt model and oracles)
    {
        let mut r = Rng::new(seed ^ 0x1157);
        crate::strings_corr::cases_c02(&mut o, &mut r, tier == "thorough");
        crate::missed_corr::cases_c02(&mut o, &mut r, tier == "thorough");
        crate::vertical_corr::cases(&mut o, &mut r, tier == "thorough");
        crate::budgets_corr::cases_c02(&mut o, &mut r, tier == "thorough");
        crate::braces_corr::cases(&mut o, &mut r, tier == "thorough");
        crate::braces_corr::probes(&mut o);
    }
    o.finish(out, jobs_n())
}

fn jobs_n() -> usize {
    jobs()
}
