import RF.Model.Imports
import RF.Lemmas.Sort
/-!
Lemmas for C10 (import algebra).  Set equality of leaf lists is mutual membership:
`SetEq a b := ∀ x, x ∈ a ↔ x ∈ b`.
-/
namespace RF.Lemmas.Imports
open RF.Imports
open RF.Lemmas.Sort (stableSort_perm)

theorem mem_stableSort {α} (cmp : α → α → Ordering) (l : List α) (x : α) :
    x ∈ RF.Sort.stableSort cmp l ↔ x ∈ l := (stableSort_perm cmp l).mem_iff

/-- Set equality of two lists: mutual membership. -/
def SetEq {α} (a b : List α) : Prop := ∀ x, x ∈ a ↔ x ∈ b

theorem SetEq.refl {α} (a : List α) : SetEq a a := fun _ => Iff.rfl
theorem SetEq.symm {α} {a b : List α} (h : SetEq a b) : SetEq b a := fun x => (h x).symm
theorem SetEq.trans {α} {a b c : List α} (h : SetEq a b) (h' : SetEq b c) : SetEq a c :=
  fun x => (h x).trans (h' x)
theorem SetEq.of_perm {α} {a b : List α} (h : a.Perm b) : SetEq a b := fun _ => h.mem_iff
theorem SetEq.of_eq {α} {a b : List α} (h : a = b) : SetEq a b := h ▸ SetEq.refl a
theorem SetEq.append {α} {a b c d : List α} (h : SetEq a b) (h' : SetEq c d) :
    SetEq (a ++ c) (b ++ d) := by
  intro x; simp only [List.mem_append]; rw [h x, h' x]
theorem SetEq.map {α β} (f : α → β) {a b : List α} (h : SetEq a b) : SetEq (a.map f) (b.map f) := by
  intro x; simp only [List.mem_map]
  constructor
  · rintro ⟨y, hy, rfl⟩; exact ⟨y, (h y).1 hy, rfl⟩
  · rintro ⟨y, hy, rfl⟩; exact ⟨y, (h y).2 hy, rfl⟩

/-! ### structural equality decides equality -/

mutual
theorem segBEq_eq : ∀ a b : Seg, segBEq a b = true → a = b
  | .ident a x, .ident b y, h => by simp [segBEq] at h; simp [h]
  | .slf x, .slf y, h => by simp [segBEq] at h; simp [h]
  | .super x, .super y, h => by simp [segBEq] at h; simp [h]
  | .crate x, .crate y, h => by simp [segBEq] at h; simp [h]
  | .glob, .glob, _ => rfl
  | .list a, .list b, h => by simp only [segBEq] at h; rw [treesBEq_eq a b h]
  | .ident .., .slf _, h | .ident .., .super _, h | .ident .., .crate _, h | .ident .., .glob, h
  | .ident .., .list _, h => by simp [segBEq] at h
  | .slf _, .ident .., h | .slf _, .super _, h | .slf _, .crate _, h | .slf _, .glob, h
  | .slf _, .list _, h => by simp [segBEq] at h
  | .super _, .ident .., h | .super _, .slf _, h | .super _, .crate _, h | .super _, .glob, h
  | .super _, .list _, h => by simp [segBEq] at h
  | .crate _, .ident .., h | .crate _, .slf _, h | .crate _, .super _, h | .crate _, .glob, h
  | .crate _, .list _, h => by simp [segBEq] at h
  | .glob, .ident .., h | .glob, .slf _, h | .glob, .super _, h | .glob, .crate _, h
  | .glob, .list _, h => by simp [segBEq] at h
  | .list _, .ident .., h | .list _, .slf _, h | .list _, .super _, h | .list _, .crate _, h
  | .list _, .glob, h => by simp [segBEq] at h
theorem treeBEq_eq : ∀ a b : Tree, treeBEq a b = true → a = b
  | .mk a, .mk b, h => by simp only [treeBEq] at h; rw [pathBEq_eq a b h]
theorem pathBEq_eq : ∀ a b : List Seg, pathBEq a b = true → a = b
  | [], [], _ => rfl
  | a :: as, b :: bs, h => by
    simp only [pathBEq, Bool.and_eq_true] at h
    rw [segBEq_eq a b h.1, pathBEq_eq as bs h.2]
  | [], _ :: _, h | _ :: _, [], h => by simp [pathBEq] at h
theorem treesBEq_eq : ∀ a b : List Tree, treesBEq a b = true → a = b
  | [], [], _ => rfl
  | a :: as, b :: bs, h => by
    simp only [treesBEq, Bool.and_eq_true] at h
    rw [treeBEq_eq a b h.1, treesBEq_eq as bs h.2]
  | [], _ :: _, h | _ :: _, [], h => by simp [treesBEq] at h
end

mutual
theorem segBEq_refl : ∀ a : Seg, segBEq a a = true
  | .ident .. | .slf _ | .super _ | .crate _ | .glob => by simp [segBEq]
  | .list a => by simp only [segBEq]; exact treesBEq_refl a
theorem treeBEq_refl : ∀ a : Tree, treeBEq a a = true
  | .mk a => by simp only [treeBEq]; exact pathBEq_refl a
theorem pathBEq_refl : ∀ a : List Seg, pathBEq a a = true
  | [] => by simp [pathBEq]
  | a :: as => by simp only [pathBEq, Bool.and_eq_true]; exact ⟨segBEq_refl a, pathBEq_refl as⟩
theorem treesBEq_refl : ∀ a : List Tree, treesBEq a a = true
  | [] => by simp [treesBEq]
  | a :: as => by simp only [treesBEq, Bool.and_eq_true]; exact ⟨treeBEq_refl a, treesBEq_refl as⟩
end

theorem segBEq_iff (a b : Seg) : segBEq a b = true ↔ a = b :=
  ⟨segBEq_eq a b, fun h => h ▸ segBEq_refl a⟩
theorem treeBEq_iff (a b : Tree) : treeBEq a b = true ↔ a = b :=
  ⟨treeBEq_eq a b, fun h => h ▸ treeBEq_refl a⟩
theorem pathBEq_iff (a b : List Seg) : pathBEq a b = true ↔ a = b :=
  ⟨pathBEq_eq a b, fun h => h ▸ pathBEq_refl a⟩
theorem treesBEq_iff (a b : List Tree) : treesBEq a b = true ↔ a = b :=
  ⟨treesBEq_eq a b, fun h => h ▸ treesBEq_refl a⟩

/-! ### leaves: unfolding lemmas -/

theorem leavesPath_nil (pre : List PSeg) : leavesPath pre [] = [] := by simp [leavesPath]
theorem leavesPath_single (pre : List PSeg) (s : Seg) : leavesPath pre [s] = leavesLast pre s := by
  simp [leavesPath]
theorem leavesPath_cons_cons (pre : List PSeg) (s t : Seg) (r : List Seg) :
    leavesPath pre (s :: t :: r) =
      match s with
      | .list _ => []
      | s => leavesPath (pre ++ [innerSeg s]) (t :: r) := by
  cases s <;> simp [leavesPath]
theorem leavesTrees_nil (pre : List PSeg) : leavesTrees pre [] = [] := by simp [leavesTrees]
theorem leavesTrees_cons (pre : List PSeg) (t : Tree) (ts : List Tree) :
    leavesTrees pre (t :: ts) = leavesTree pre t ++ leavesTrees pre ts := by simp [leavesTrees]
theorem leavesTree_mk (pre : List PSeg) (p : List Seg) : leavesTree pre (.mk p) = leavesPath pre p := by
  simp [leavesTree]
theorem leavesTree_eq (pre : List PSeg) (t : Tree) : leavesTree pre t = leavesPath pre t.path := by
  cases t; simp [leavesTree, Tree.path]
theorem leavesLast_list (pre : List PSeg) (ts : List Tree) :
    leavesLast pre (.list ts) = leavesTrees pre ts := by simp [leavesLast]

theorem leavesTrees_eq_flatMap (pre : List PSeg) (ts : List Tree) :
    leavesTrees pre ts = ts.flatMap (leavesTree pre) := by
  induction ts with
  | nil => simp [leavesTrees]
  | cons t ts ih => simp [leavesTrees_cons, ih]

theorem leavesTrees_append (pre : List PSeg) (a b : List Tree) :
    leavesTrees pre (a ++ b) = leavesTrees pre a ++ leavesTrees pre b := by
  simp [leavesTrees_eq_flatMap]

def isList : Seg → Bool
  | .list _ => true
  | _ => false

/-- A path `s :: q` with `q ≠ []`: `s` is non-terminal. -/
theorem leavesPath_cons_ne (pre : List PSeg) (s : Seg) (q : List Seg) (hq : q ≠ []) :
    leavesPath pre (s :: q) = if isList s then [] else leavesPath (pre ++ [innerSeg s]) q := by
  cases q with
  | nil => exact absurd rfl hq
  | cons t r => rw [leavesPath_cons_cons]; cases s <;> simp [isList]

/-- Walking down a list-free prefix. -/
theorem leavesPath_append (pre : List PSeg) (p q : List Seg) (hp : p.all (fun s => !isList s) = true)
    (hq : q ≠ []) : leavesPath pre (p ++ q) = leavesPath (pre ++ p.map innerSeg) q := by
  induction p generalizing pre with
  | nil => simp
  | cons s p ih =>
    simp only [List.all_cons, Bool.and_eq_true, Bool.not_eq_true'] at hp
    have : p ++ q ≠ [] := by simp [hq]
    rw [List.cons_append, leavesPath_cons_ne _ _ _ this, hp.1, ih _ hp.2]
    simp

/-- A list in non-terminal position denotes nothing. -/
theorem leavesPath_append_of_list (pre : List PSeg) (p q : List Seg)
    (hp : p.all (fun s => !isList s) = false) (hq : q ≠ []) : leavesPath pre (p ++ q) = [] := by
  induction p generalizing pre with
  | nil => simp at hp
  | cons s p ih =>
    have : p ++ q ≠ [] := by simp [hq]
    rw [List.cons_append, leavesPath_cons_ne _ _ _ this]
    split
    · rfl
    · rename_i hs
      simp only [List.all_cons, hs, Bool.not_false, Bool.true_and] at hp
      exact ih _ hp

/-! ### `flatten` -/

theorem flattenPath_cons_cons (s t : Seg) (r : List Seg) :
    flattenPath (s :: t :: r) = (flattenPath (t :: r)).map (s :: ·) := by simp [flattenPath]
theorem flattenPath_single (s : Seg) : flattenPath [s] = flattenLast s := by simp [flattenPath]

mutual
theorem flattenLast_ne : ∀ s : Seg, neSeg s = true → ∀ q ∈ flattenLast s, q ≠ []
  | .list l, h, q, hq => by
    simp only [flattenLast] at hq
    split at hq
    · simp at hq; simp [hq]
    · simp only [neSeg] at h; exact flattenTrees_ne l h q hq
  | .ident .., _, q, hq | .slf _, _, q, hq | .super _, _, q, hq | .crate _, _, q, hq
  | .glob, _, q, hq => by simp [flattenLast] at hq; simp [hq]
theorem flattenTree_ne : ∀ t : Tree, neTree t = true → ∀ q ∈ flattenTree t, q ≠ []
  | .mk p, h, q, hq => by
    simp only [neTree, Bool.and_eq_true, Bool.not_eq_true', List.isEmpty_eq_false_iff] at h
    simp only [flattenTree] at hq
    exact flattenPath_ne p h.2 h.1 q hq
theorem flattenPath_ne : ∀ p : List Seg, nePath p = true → p ≠ [] → ∀ q ∈ flattenPath p, q ≠ []
  | [], _, hp, _, _ => absurd rfl hp
  | [s], h, _, q, hq => by
    simp only [nePath, Bool.and_true] at h
    rw [flattenPath_single] at hq
    exact flattenLast_ne s h q hq
  | s :: t :: r, _, _, q, hq => by
    rw [flattenPath_cons_cons] at hq
    simp only [List.mem_map] at hq
    obtain ⟨q', _, rfl⟩ := hq
    simp
theorem flattenTrees_ne : ∀ ts : List Tree, neTrees ts = true → ∀ q ∈ flattenTrees ts, q ≠ []
  | [], _, q, hq => by simp [flattenTrees] at hq
  | t :: ts, h, q, hq => by
    simp only [neTrees, Bool.and_eq_true] at h
    simp only [flattenTrees, List.mem_append] at hq
    rcases hq with hq | hq
    · exact flattenTree_ne t h.1 q hq
    · exact flattenTrees_ne ts h.2 q hq
end

theorem flatMap_congr' {α β} {f g : α → List β} : ∀ {l : List α}, (∀ a ∈ l, f a = g a) →
    l.flatMap f = l.flatMap g
  | [], _ => rfl
  | a :: l, h => by
    simp only [List.flatMap_cons]
    rw [h a (by simp), flatMap_congr' (fun b hb => h b (by simp [hb]))]

/- Flattening keeps the leaves, as a list (order and multiplicity included). -/
mutual
theorem flattenLast_leaves : ∀ (s : Seg) (pre : List PSeg), neSeg s = true →
    (flattenLast s).flatMap (leavesPath pre) = leavesLast pre s
  | .list l, pre, h => by
    simp only [flattenLast]
    split
    · simp [leavesPath_single]
    · simp only [neSeg] at h; rw [flattenTrees_leaves l pre h, leavesLast_list]
  | .ident .., pre, _ | .slf _, pre, _ | .super _, pre, _ | .crate _, pre, _ | .glob, pre, _ => by
    simp [flattenLast, leavesPath_single]
theorem flattenTree_leaves : ∀ (t : Tree) (pre : List PSeg), neTree t = true →
    (flattenTree t).flatMap (leavesPath pre) = leavesTree pre t
  | .mk p, pre, h => by
    simp only [neTree, Bool.and_eq_true] at h
    simp only [flattenTree, leavesTree_mk]
    exact flattenPath_leaves p pre h.2
theorem flattenPath_leaves : ∀ (p : List Seg) (pre : List PSeg), nePath p = true →
    (flattenPath p).flatMap (leavesPath pre) = leavesPath pre p
  | [], pre, _ => by simp [flattenPath, leavesPath]
  | [s], pre, h => by
    simp only [nePath, Bool.and_true] at h
    rw [flattenPath_single, leavesPath_single]
    exact flattenLast_leaves s pre h
  | s :: t :: r, pre, h => by
    have h' : nePath (t :: r) = true := by
      simp only [nePath, Bool.and_eq_true] at h ⊢; exact h.2
    have hne := flattenPath_ne (t :: r) h' (by simp)
    rw [flattenPath_cons_cons, List.flatMap_map]
    have : ∀ q ∈ flattenPath (t :: r), leavesPath pre (s :: q) =
        if isList s then [] else leavesPath (pre ++ [innerSeg s]) q :=
      fun q hq => leavesPath_cons_ne pre s q (hne q hq)
    rw [flatMap_congr' this, leavesPath_cons_ne pre s (t :: r) (by simp)]
    split
    · simp
    · exact flattenPath_leaves (t :: r) _ h'
theorem flattenTrees_leaves : ∀ (ts : List Tree) (pre : List PSeg), neTrees ts = true →
    (flattenTrees ts).flatMap (leavesPath pre) = leavesTrees pre ts
  | [], pre, _ => by simp [flattenTrees, leavesTrees]
  | t :: ts, pre, h => by
    simp only [neTrees, Bool.and_eq_true] at h
    simp only [flattenTrees, List.flatMap_append, leavesTrees_cons]
    rw [flattenTree_leaves t pre h.1, flattenTrees_leaves ts pre h.2]
end

theorem eq_dropLast_append {α} {l : List α} {x : α} (h : l.getLast? = some x) :
    l = l.dropLast ++ [x] := by
  obtain ⟨ys, rfl⟩ := List.getLast?_eq_some_iff.1 h
  simp

/-- `flatten` returns `[self]` when the last segment is not a list or is `{self}`. -/
theorem flattenPath_noflat : ∀ (p : List Seg), p ≠ [] →
    (∀ l, p.getLast? = some (.list l) → isSoleSelf l = true) → flattenPath p = [p]
  | [], h, _ => absurd rfl h
  | [s], _, h => by
    rw [flattenPath_single]
    cases s with
    | list l => simp [flattenLast, h l (by simp)]
    | _ => simp [flattenLast]
  | s :: t :: r, _, h => by
    rw [flattenPath_cons_cons, flattenPath_noflat (t :: r) (by simp)]
    · simp
    · intro l hl; apply h l; simpa using hl

theorem itemLeaves_mk (p : List Seg) (v a c) :
    itemLeaves ⟨.mk p, v, a, c⟩ = (leavesPath [] p).map fun l => ⟨v.getD [], a, l⟩ := by
  simp [itemLeaves, leaves, Tree.path]

/-- `flatten`, top level: the leaves of the pieces, in order, are the leaves of the item, with
visibility `it.vis` and the attributes `flatten` gives the pieces. -/
theorem flattenItem_leaves (g : Granularity) (it : Item) (h : nePath it.tree.path = true)
    (hg : g = .item ∨ it.attrs = none) : runLeaves (flattenItem g it) = itemLeaves it := by
  obtain ⟨⟨p⟩, v, a, c⟩ := it
  simp only [Tree.path] at h hg
  simp only [flattenItem, Tree.path]
  split
  · simp [runLeaves]
  · split
    · rename_i l hl
      split
      · simp [runLeaves]
      · have ha : (if g = .item then a else none) = a := by
          rcases hg with hg | hg
          · simp [hg]
          · simp [hg]
        simp only [runLeaves, List.flatMap_map, itemLeaves_mk, ha]
        rw [← flattenPath_leaves p [] h, List.map_flatMap]
    · simp [runLeaves]

theorem flattenItem_vis (g : Granularity) (it : Item) : ∀ i ∈ flattenItem g it, i.vis = it.vis := by
  intro i hi
  simp only [flattenItem] at hi
  split at hi
  · simp at hi; simp [hi]
  · split at hi
    · split at hi
      · simp at hi; simp [hi]
      · simp only [List.mem_map] at hi
        obtain ⟨_, _, rfl⟩ := hi
        rfl
    · simp at hi; simp [hi]

/-! ### `nest_trailing_self` -/

theorem nestPath_leaves (pre : List PSeg) (p : List Seg) :
    leavesPath pre (nestPath p) = leavesPath pre p := by
  simp only [nestPath]
  split
  · rename_i a ha
    have hp := eq_dropLast_append ha
    generalize p.dropLast = init at hp
    subst hp
    by_cases hl : init.all (fun s => !isList s) = true
    · rw [leavesPath_append _ _ _ hl (by simp), leavesPath_append _ _ _ hl (by simp)]
      simp [leavesLast, leavesTrees, leavesTree, leavesPath]
    · simp only [Bool.not_eq_true] at hl
      rw [leavesPath_append_of_list _ _ _ hl (by simp), leavesPath_append_of_list _ _ _ hl (by simp)]
  · rfl

theorem nestItem_leaves (it : Item) : itemLeaves (nestItem it) = itemLeaves it := by
  simp [itemLeaves, nestItem, leaves, Tree.path, nestPath_leaves]

/-! ### well-formedness: decomposition -/

/-- All segments of a (non-terminal) prefix are `innerOK`; only the first may be `self`. -/
def innerAll (atRoot : Bool) : List Seg → Bool
  | [] => true
  | s :: r => innerOK atRoot s && innerAll false r

theorem wfPath_cons_ne (atRoot : Bool) (s : Seg) (q : List Seg) (hq : q ≠ []) :
    wfPath atRoot (s :: q) = (innerOK atRoot s && wfPath false q) := by
  cases q with
  | nil => exact absurd rfl hq
  | cons t r => simp [wfPath]

theorem wfPath_single (atRoot : Bool) (s : Seg) : wfPath atRoot [s] = wfLast atRoot s := by
  simp [wfPath]

theorem wfPath_append (atRoot : Bool) (rest q : List Seg) (hq : q ≠ []) :
    wfPath atRoot (rest ++ q) = (innerAll atRoot rest && wfPath (atRoot && rest.isEmpty) q) := by
  induction rest generalizing atRoot with
  | nil => simp [innerAll]
  | cons s r ih =>
    have : r ++ q ≠ [] := by simp [hq]
    rw [List.cons_append, wfPath_cons_ne _ _ _ this, ih false]
    simp [innerAll, Bool.and_assoc]

theorem innerOK_not_list {atRoot : Bool} {s : Seg} (h : innerOK atRoot s = true) : isList s = false := by
  cases s <;> simp_all [innerOK, isList]

theorem innerAll_noList {atRoot : Bool} {p : List Seg} (h : innerAll atRoot p = true) :
    p.all (fun s => !isList s) = true := by
  induction p generalizing atRoot with
  | nil => rfl
  | cons s r ih =>
    simp only [innerAll, Bool.and_eq_true] at h
    simp [innerOK_not_list h.1, ih h.2]

theorem innerAll_append (atRoot : Bool) (a b : List Seg) :
    innerAll atRoot (a ++ b) = (innerAll atRoot a && innerAll (atRoot && a.isEmpty) b) := by
  induction a generalizing atRoot with
  | nil => simp [innerAll]
  | cons s r ih => simp [innerAll, ih, Bool.and_assoc]

/-! ### `normalize` -/

theorem mapE_ok_nil {α β ε} (f : α → Except ε β) : mapE f [] = .ok [] := rfl

theorem mapE_flatMap_setEq {α β γ ε} (f : α → Except ε β) (F : β → List γ) (G : α → List γ) :
    ∀ (l : List α) (l' : List β), mapE f l = .ok l' →
      (∀ a ∈ l, ∀ b, f a = .ok b → SetEq (F b) (G a)) → SetEq (l'.flatMap F) (l.flatMap G)
  | [], l', h, _ => by simp [mapE] at h; subst h; exact SetEq.refl _
  | a :: l, l', h, hf => by
    simp only [mapE] at h
    split at h
    · simp at h
    · rename_i b hb
      split at h
      · simp at h
      · rename_i bs hbs
        simp only [Except.ok.injEq] at h
        subst h
        simp only [List.flatMap_cons]
        exact SetEq.append (hf a (by simp) b hb)
          (mapE_flatMap_setEq f F G l bs hbs (fun a' ha' => hf a' (by simp [ha'])))

theorem displaysSelf_of_path {t : Tree} (h : t.path = [.slf none]) : displaysSelf t = true := by
  cases t; simp only [Tree.path] at h; subst h; rfl

theorem wfTrees_mem {atRoot : Bool} {ts : List Tree} (h : wfTrees atRoot ts = true) :
    ∀ t ∈ ts, wfTree atRoot t = true := by
  induction ts with
  | nil => simp
  | cons t ts ih =>
    simp only [wfTrees, Bool.and_eq_true] at h
    intro u hu
    rcases List.mem_cons.1 hu with rfl | hu
    · exact h.1
    · exact ih h.2 u hu

theorem wfTree_path {atRoot : Bool} {t : Tree} (h : wfTree atRoot t = true) :
    t.path ≠ [] ∧ wfPath atRoot t.path = true := by
  cases t
  simpa [wfTree, Tree.path] using h

/-- leaves of `rest ++ [last]` for a well-formed prefix `rest`. -/
theorem leavesPath_snoc (pre : List PSeg) (rest : List Seg) (last : Seg) (atRoot : Bool)
    (h : innerAll atRoot rest = true) :
    leavesPath pre (rest ++ [last]) = leavesLast (pre ++ rest.map innerSeg) last := by
  rw [leavesPath_append _ _ _ (innerAll_noList h) (by simp), leavesPath_single]

theorem isEmptyListSeg_iff (s : Seg) : isEmptyListSeg s = true ↔ s = .list [] := by
  unfold isEmptyListSeg; split <;> simp_all
theorem isSlfNone_iff (s : Seg) : isSlfNone s = true ↔ s = .slf none := by
  unfold isSlfNone; split <;> simp_all

theorem innerOK_cases {r : Bool} {s : Seg} (h : innerOK r s = true) :
    (∃ n, s = .ident n none) ∨ s = .super none ∨ s = .crate none ∨ (s = .slf none ∧ r = true) := by
  unfold innerOK at h
  split at h <;> simp_all

theorem soleSplice_some {l : List Tree} {t : Tree} (h : soleSplice l = some t) :
    l = [t] ∧ displaysSelf t = false := by
  unfold soleSplice at h
  split at h
  · split at h <;> simp_all
  · simp at h

theorem except_map_ok {ε α β} {f : α → β} {x : Except ε α} {b : β} (h : x.map f = .ok b) :
    ∃ a, x = .ok a ∧ f a = b := by
  cases x with
  | error e => simp [Except.map] at h
  | ok a => simp [Except.map] at h; exact ⟨a, rfl, h⟩

theorem leavesTrees_perm (pre : List PSeg) {a b : List Tree} (h : a.Perm b) :
    (leavesTrees pre a).Perm (leavesTrees pre b) := by
  rw [leavesTrees_eq_flatMap, leavesTrees_eq_flatMap]; exact h.flatMap_right _

theorem mapE_mem {α β ε} (f : α → Except ε β) :
    ∀ (l : List α) (l' : List β), mapE f l = .ok l' → ∀ b ∈ l', ∃ a ∈ l, f a = .ok b
  | [], l', h, b, hb => by simp [mapE] at h; subst h; simp at hb
  | a :: l, l', h, b, hb => by
    simp only [mapE] at h
    split at h
    · simp at h
    · rename_i b0 hb0
      split at h
      · simp at h
      · rename_i bs hbs
        simp only [Except.ok.injEq] at h
        subst h
        rcases List.mem_cons.1 hb with rfl | hb
        · exact ⟨a, by simp, hb0⟩
        · obtain ⟨a', ha', hf⟩ := mapE_mem f l bs hbs b hb
          exact ⟨a', by simp [ha'], hf⟩

theorem mapE_length {α β ε} (f : α → Except ε β) :
    ∀ (l : List α) (l' : List β), mapE f l = .ok l' → l'.length = l.length
  | [], l', h => by simp [mapE] at h; subst h; rfl
  | a :: l, l', h => by
    simp only [mapE] at h
    split at h
    · simp at h
    · split at h
      · simp at h
      · rename_i bs hbs
        simp only [Except.ok.injEq] at h
        subst h
        simp [mapE_length f l bs hbs]

theorem wfTrees_of_forall {r : Bool} : ∀ {ts : List Tree}, (∀ t ∈ ts, wfTree r t = true) →
    wfTrees r ts = true
  | [], _ => by simp [wfTrees]
  | t :: ts, h => by
    simp only [wfTrees, Bool.and_eq_true]
    exact ⟨h t (by simp), wfTrees_of_forall (fun u hu => h u (by simp [hu]))⟩

theorem innerAll_wfPath {r : Bool} {p : List Seg} (h : innerAll r p = true) : wfPath r p = true := by
  rcases List.eq_nil_or_concat p with rfl | ⟨init, x, rfl⟩
  · simp [wfPath]
  · rw [List.concat_eq_append] at h ⊢
    rw [innerAll_append, Bool.and_eq_true] at h
    rw [wfPath_append _ _ _ (by simp), wfPath_single, h.1]
    have hx := h.2
    simp only [innerAll, Bool.and_true] at hx
    have := innerOK_not_list hx
    cases x <;> simp_all [wfLast, isList]

theorem leavesTrees_filter_ne (pre : List PSeg) : ∀ (l : List Tree),
    leavesTrees pre (l.filter (fun t => !t.path.isEmpty)) = leavesTrees pre l
  | [] => rfl
  | t :: l => by
    simp only [List.filter_cons]
    split
    · simp [leavesTrees_cons, leavesTrees_filter_ne pre l]
    · rename_i ht
      simp only [Bool.not_eq_true, Bool.not_eq_false', List.isEmpty_iff] at ht
      rw [leavesTrees_cons, leavesTrees_filter_ne pre l, leavesTree_eq, ht, leavesPath_nil]
      rfl

/-- The list a normalised list becomes: the elements with a non-empty path, sorted. -/
theorem mem_sorted_kept {cmp : Tree → Tree → Ordering} {l : List Tree} {t : Tree}
    (h : t ∈ RF.Sort.stableSort cmp (l.filter (fun t => !t.path.isEmpty))) : t ∈ l ∧ t.path ≠ [] := by
  rw [mem_stableSort, List.mem_filter] at h
  exact ⟨h.1, by simpa using h.2⟩

/-- `normalize` keeps a path well-formed. -/
theorem normPath_wf (cmp : Tree → Tree → Ordering) :
    ∀ (fuel : Nat) (hasAttrs hasVis : Bool) (path q : List Seg) (r : Bool),
      normPath cmp fuel hasAttrs hasVis path = .ok q → wfPath r path = true → wfPath r q = true := by
  intro fuel
  induction fuel with
  | zero => intro _ _ _ _ _ h; simp [normPath] at h
  | succ fuel ih =>
    intro hasAttrs hasVis path q r h hwf
    rw [normPath] at h
    split at h
    · simp at h
    · rename_i last hlast
      have hp := eq_dropLast_append hlast
      generalize path.dropLast = rest at hp h
      subst hp
      have hwf0 := hwf
      rw [wfPath_append _ _ _ (by simp), wfPath_single, Bool.and_eq_true] at hwf
      obtain ⟨hin, hwl⟩ := hwf
      simp only [] at h
      split at h
      · simp only [Except.ok.injEq] at h; subst h; simp [wfPath]
      · split at h
        · simp only [Except.ok.injEq] at h; subst h; simp [wfPath]
        · split at h
          · simp only [Except.ok.injEq] at h; subst h; exact innerAll_wfPath hin
          · split at h
            · rename_i rename n hlr _ _ _
              simp only [Except.ok.injEq] at h; subst h
              have hp := eq_dropLast_append hlr
              generalize rest.dropLast = init at hp
              subst hp
              rw [innerAll_append, Bool.and_eq_true] at hin
              rw [wfPath_append _ _ _ (by simp), wfPath_single, hin.1]
              simp [wfLast]
            · split at h
              · rename_i l
                split at h
                · rename_i t ht
                  obtain ⟨rfl, _⟩ := soleSplice_some ht
                  simp only [wfLast, wfTrees, Bool.and_true] at hwl
                  obtain ⟨htne, htwf⟩ := wfTree_path hwl
                  exact ih _ _ _ _ r h (by rw [wfPath_append _ _ _ htne, hin, htwf]; rfl)
                · split at h
                  · simp at h
                  · rename_i l2 hl2
                    have hnorm : wfPath r (rest ++ [.list (RF.Sort.stableSort cmp
                        (l2.filter (fun t => !t.path.isEmpty)))]) = true := by
                      rw [wfPath_append _ _ _ (by simp), wfPath_single, hin]
                      simp only [wfLast, Bool.true_and]
                      apply wfTrees_of_forall
                      intro t ht
                      obtain ⟨htl, htne⟩ := mem_sorted_kept ht
                      obtain ⟨t0, ht0, hf⟩ := mapE_mem _ _ _ hl2 t htl
                      obtain ⟨p2, hp2, rfl⟩ := except_map_ok hf
                      simp only [wfLast] at hwl
                      obtain ⟨_, htwf⟩ := wfTree_path (wfTrees_mem hwl t0 ht0)
                      have := ih _ _ _ _ _ hp2 htwf
                      simp only [Tree.path] at htne
                      simpa [wfTree, htne] using this
                    split at h
                    · exact ih _ _ _ _ r h hnorm
                    · simp only [Except.ok.injEq] at h; subst h; exact hnorm
              · simp only [Except.ok.injEq] at h; subst h; exact hwf0

theorem norm_list_wf (cmp : Tree → Tree → Ordering) (fuel : Nat) (r : Bool) (rest : List Seg)
    (l l2 : List Tree) (hin : innerAll r rest = true)
    (hwl : wfLast (r && rest.isEmpty) (.list l) = true)
    (hl2 : mapE (fun t => (normPath cmp fuel false false t.path).map Tree.mk) l = .ok l2) :
    wfPath r (rest ++ [.list (RF.Sort.stableSort cmp (l2.filter (fun t => !t.path.isEmpty)))]) = true := by
  rw [wfPath_append _ _ _ (by simp), wfPath_single, hin]
  simp only [wfLast, Bool.true_and]
  apply wfTrees_of_forall
  intro t ht
  obtain ⟨htl, htne⟩ := mem_sorted_kept ht
  obtain ⟨t0, ht0, hf⟩ := mapE_mem _ _ _ hl2 t htl
  obtain ⟨p2, hp2, rfl⟩ := except_map_ok hf
  simp only [wfLast] at hwl
  obtain ⟨_, htwf⟩ := wfTree_path (wfTrees_mem hwl t0 ht0)
  have := normPath_wf cmp _ _ _ _ _ _ hp2 htwf
  simp only [Tree.path] at htne
  simpa [wfTree, htne] using this

theorem normPath_leaves (cmp : Tree → Tree → Ordering) :
    ∀ (fuel : Nat) (hasAttrs hasVis : Bool) (path q : List Seg) (atRoot : Bool) (pre : List PSeg),
      normPath cmp fuel hasAttrs hasVis path = .ok q → wfPath atRoot path = true →
      (atRoot = true → pre = []) →
      ¬(hasAttrs = false ∧ hasVis = true ∧ path = [.slf none]) →
      SetEq (leavesPath pre q) (leavesPath pre path) := by
  intro fuel
  induction fuel with
  | zero => intro _ _ _ _ _ _ h; simp [normPath] at h
  | succ fuel ih =>
    intro hasAttrs hasVis path q atRoot pre h hwf hroot hbare
    rw [normPath] at h
    split at h
    · simp at h
    · rename_i last hlast
      have hp := eq_dropLast_append hlast
      generalize path.dropLast = rest at hp h
      subst hp
      rw [wfPath_append _ _ _ (by simp), wfPath_single, Bool.and_eq_true] at hwf
      obtain ⟨hin, hwl⟩ := hwf
      simp only [] at h
      split at h
      · -- foo::{} removed
        rename_i hc
        simp only [Except.ok.injEq] at h; subst h
        simp only [Bool.and_eq_true, isEmptyListSeg_iff] at hc
        rw [hc.2, leavesPath_snoc _ _ _ _ hin]
        simp [leavesLast, leavesTrees, leavesPath]
        exact SetEq.refl _
      · split at h
        · -- bare self removed: excluded
          rename_i _ hc
          exfalso; apply hbare
          simp only [Bool.and_eq_true, Bool.not_eq_true', List.isEmpty_iff, isSlfNone_iff] at hc
          obtain ⟨⟨⟨ha, hl⟩, hr⟩, hv⟩ := hc
          exact ⟨ha, hv, by simp [hl, hr]⟩
        · split at h
          · -- foo::self -> foo
            rename_i _ _ hc
            simp only [Except.ok.injEq] at h; subst h
            simp only [Bool.and_eq_true, Bool.not_eq_true', List.isEmpty_eq_false_iff, isSlfNone_iff] at hc
            obtain ⟨hl, hne⟩ := hc
            subst hl
            obtain ⟨x, hx⟩ : ∃ x, rest.getLast? = some x := by
              cases h' : rest.getLast? with
              | none => simp at h'; exact absurd h' hne
              | some x => exact ⟨x, rfl⟩
            have hp := eq_dropLast_append hx
            generalize rest.dropLast = init at hp
            subst hp
            have hin' := hin
            rw [innerAll_append, Bool.and_eq_true] at hin
            rw [leavesPath_snoc _ _ _ _ hin', leavesPath_snoc _ _ _ _ hin.1]
            have hxo := hin.2
            simp only [innerAll, Bool.and_true] at hxo
            rcases innerOK_cases hxo with ⟨n, rfl⟩ | rfl | rfl | ⟨rfl, hr⟩
            · simp [leavesLast, terminalLeaf, innerSeg]; exact SetEq.refl _
            · simp [leavesLast, terminalLeaf, innerSeg]; exact SetEq.refl _
            · simp [leavesLast, terminalLeaf, innerSeg]; exact SetEq.refl _
            · -- x = self: only at the root, as first segment
              simp only [Bool.and_eq_true, List.isEmpty_iff] at hr
              obtain ⟨hr, hi⟩ := hr
              subst hi
              rw [hroot hr]
              simp [leavesLast, terminalLeaf, innerSeg]
              exact SetEq.refl _
          · split at h
            · -- foo::self as bar -> foo as bar
              rename_i rename n hlr _ _ _
              simp only [Except.ok.injEq] at h; subst h
              have hp := eq_dropLast_append hlr
              generalize rest.dropLast = init at hp
              subst hp
              have hin' := hin
              rw [innerAll_append, Bool.and_eq_true] at hin
              rw [leavesPath_snoc _ _ _ _ hin', leavesPath_snoc _ _ _ _ hin.1]
              simp [leavesLast, terminalLeaf, innerSeg]
              exact SetEq.refl _
            · split at h
              · rename_i l _ _ _ _
                split at h
                · -- foo::{bar} -> foo::bar
                  rename_i t ht
                  obtain ⟨rfl, hds⟩ := soleSplice_some ht
                  simp only [wfLast, wfTrees, Bool.and_true] at hwl
                  obtain ⟨htne, htwf⟩ := wfTree_path hwl
                  have := ih _ _ _ _ atRoot pre h
                    (by rw [wfPath_append _ _ _ htne, hin, htwf]; rfl) hroot
                    (by
                      rintro ⟨_, _, he⟩
                      cases rest with
                      | nil =>
                        simp only [List.nil_append] at he
                        rw [displaysSelf_of_path he] at hds; simp at hds
                      | cons s r =>
                        cases r <;> simp at he
                        exact htne he.2)
                  refine this.trans (SetEq.of_eq ?_)
                  rw [leavesPath_snoc _ _ _ _ hin, leavesPath_append _ _ _ (innerAll_noList hin) htne]
                  simp [leavesLast, leavesTrees, leavesTree_eq]
                · -- normalise and sort the list
                  split at h
                  · simp at h
                  · rename_i l2 hl2
                    have hkeep : SetEq (leavesPath pre (rest ++ [.list (RF.Sort.stableSort cmp
                        (l2.filter (fun t => !t.path.isEmpty)))])) (leavesPath pre (rest ++ [.list l])) := by
                      rw [leavesPath_snoc _ _ _ _ hin, leavesPath_snoc _ _ _ _ hin]
                      simp only [leavesLast]
                      refine (SetEq.of_perm (leavesTrees_perm _ (stableSort_perm cmp _))).trans ?_
                      rw [leavesTrees_filter_ne, leavesTrees_eq_flatMap, leavesTrees_eq_flatMap]
                      apply mapE_flatMap_setEq _ _ _ _ _ hl2
                      intro t ht b hb
                      obtain ⟨p2, hp2, rfl⟩ := except_map_ok hb
                      simp only [wfLast] at hwl
                      obtain ⟨_, htwf⟩ := wfTree_path (wfTrees_mem hwl t ht)
                      rw [leavesTree_mk, leavesTree_eq]
                      apply ih _ _ _ _ _ _ hp2 htwf
                      · intro hr
                        simp only [Bool.and_eq_true, List.isEmpty_iff] at hr
                        simp [hroot hr.1, hr.2]
                      · simp
                    split at h
                    · -- an element was removed: the tree is normalised again
                      have hnorm := norm_list_wf cmp fuel atRoot rest l l2 hin hwl hl2
                      refine (ih _ _ _ _ atRoot pre h hnorm hroot ?_).trans hkeep
                      rintro ⟨_, _, he⟩
                      cases rest <;> simp at he
                    · simp only [Except.ok.injEq] at h; subst h; exact hkeep
              · simp only [Except.ok.injEq] at h; subst h
                exact SetEq.refl _


theorem pathSize_append (a b : List Seg) : pathSize (a ++ b) = pathSize a + pathSize b := by
  induction a with
  | nil => simp [pathSize]
  | cons s r ih => simp [pathSize, ih]; omega

theorem treeSize_le_of_mem {t : Tree} {l : List Tree} (h : t ∈ l) : treeSize t ≤ treesSize l := by
  induction l with
  | nil => simp at h
  | cons u l ih =>
    simp only [treesSize]
    rcases List.mem_cons.1 h with rfl | h
    · omega
    · have := ih h; omega

theorem treeSize_eq (t : Tree) : treeSize t = 1 + pathSize t.path := by
  cases t; simp [treeSize, Tree.path]

theorem mapE_ok_of_forall {α β ε} (f : α → Except ε β) :
    ∀ l : List α, (∀ a ∈ l, ∃ b, f a = .ok b) → ∃ l', mapE f l = .ok l'
  | [], _ => ⟨[], rfl⟩
  | a :: l, h => by
    obtain ⟨b, hb⟩ := h a (by simp)
    obtain ⟨bs, hbs⟩ := mapE_ok_of_forall f l (fun a' ha' => h a' (by simp [ha']))
    exact ⟨b :: bs, by simp [mapE, hb, hbs]⟩

theorem treeSize_pos (t : Tree) : 1 ≤ treeSize t := by
  cases t; simp only [treeSize]; omega

theorem treesSize_perm {a b : List Tree} (h : a.Perm b) : treesSize a = treesSize b := by
  induction h with
  | nil => rfl
  | cons x _ ih => simp [treesSize, ih]
  | swap x y l => simp only [treesSize]; omega
  | trans _ _ ih1 ih2 => omega

theorem treesSize_filter (p : Tree → Bool) : ∀ l : List Tree,
    treesSize (l.filter p) + (l.length - (l.filter p).length) ≤ treesSize l
  | [] => by simp [treesSize]
  | t :: l => by
    have ih := treesSize_filter p l
    have hle := List.length_filter_le p l
    have hpos := treeSize_pos t
    simp only [List.filter_cons]
    split
    · simp only [treesSize, List.length_cons]; omega
    · simp only [treesSize, List.length_cons]; omega

theorem mapE_treesSize {ε} (f : Tree → Except ε Tree) :
    ∀ (l l' : List Tree), mapE f l = .ok l' →
      (∀ a ∈ l, ∀ b, f a = .ok b → treeSize b ≤ treeSize a) → treesSize l' ≤ treesSize l
  | [], l', h, _ => by simp [mapE] at h; subst h; simp [treesSize]
  | a :: l, l', h, hf => by
    simp only [mapE] at h
    split at h
    · simp at h
    · rename_i b hb
      split at h
      · simp at h
      · rename_i bs hbs
        simp only [Except.ok.injEq] at h
        subst h
        have h1 := hf a (by simp) b hb
        have h2 := mapE_treesSize f l bs hbs (fun a' ha' => hf a' (by simp [ha']))
        simp only [treesSize]; omega

/-- `normalize` never makes a path larger. -/
theorem normPath_size (cmp : Tree → Tree → Ordering) :
    ∀ (fuel : Nat) (hasAttrs hasVis : Bool) (path q : List Seg),
      normPath cmp fuel hasAttrs hasVis path = .ok q → pathSize q ≤ pathSize path := by
  intro fuel
  induction fuel with
  | zero => intro _ _ _ _ h; simp [normPath] at h
  | succ fuel ih =>
    intro hasAttrs hasVis path q h
    rw [normPath] at h
    split at h
    · simp at h
    · rename_i last hlast
      have hp := eq_dropLast_append hlast
      generalize path.dropLast = rest at hp h
      subst hp
      simp only [] at h
      split at h
      · simp only [Except.ok.injEq] at h; subst h; simp [pathSize]
      · split at h
        · simp only [Except.ok.injEq] at h; subst h; simp [pathSize]
        · split at h
          · simp only [Except.ok.injEq] at h; subst h; rw [pathSize_append]; omega
          · split at h
            · rename_i rename n hlr _ _ _
              simp only [Except.ok.injEq] at h; subst h
              have hp := eq_dropLast_append hlr
              generalize rest.dropLast = init at hp
              subst hp
              simp only [pathSize_append, pathSize, segSize]; omega
            · split at h
              · rename_i l _ _ _ _
                split at h
                · rename_i t ht
                  obtain ⟨rfl, _⟩ := soleSplice_some ht
                  have := ih _ _ _ _ h
                  rw [pathSize_append] at this ⊢
                  simp only [pathSize, segSize, treesSize, treeSize_eq]; omega
                · split at h
                  · simp at h
                  · rename_i l2 hl2
                    have hsz2 : treesSize l2 ≤ treesSize l := by
                      apply mapE_treesSize _ _ _ hl2
                      intro t _ b hb
                      obtain ⟨p2, hp2, rfl⟩ := except_map_ok hb
                      have := ih _ _ _ _ hp2
                      rw [treeSize_eq t]; simp only [treeSize]; omega
                    have hk := treesSize_filter (fun t => !t.path.isEmpty) l2
                    have hs := treesSize_perm (stableSort_perm cmp (l2.filter (fun t => !t.path.isEmpty)))
                    have hnorm : pathSize (rest ++ [.list (RF.Sort.stableSort cmp
                        (l2.filter (fun t => !t.path.isEmpty)))]) ≤ pathSize (rest ++ [.list l]) := by
                      simp only [pathSize_append, pathSize, segSize]; omega
                    split at h
                    · exact Nat.le_trans (ih _ _ _ _ h) hnorm
                    · simp only [Except.ok.injEq] at h; subst h; exact hnorm
              · simp only [Except.ok.injEq] at h; subst h; exact Nat.le_refl _

/-- On a non-empty well-formed path `normalize` neither panics nor runs out of the fuel the
wrappers pass. -/
theorem normPath_ok (cmp : Tree → Tree → Ordering) :
    ∀ (fuel : Nat) (hasAttrs hasVis : Bool) (path : List Seg) (atRoot : Bool),
      pathSize path < fuel → wfPath atRoot path = true → path ≠ [] →
      ∃ q, normPath cmp fuel hasAttrs hasVis path = .ok q := by
  intro fuel
  induction fuel with
  | zero => intro _ _ _ _ h; omega
  | succ fuel ih =>
    intro hasAttrs hasVis path atRoot hsz hwf hne
    rw [normPath]
    obtain ⟨last, hlast⟩ : ∃ x, path.getLast? = some x := by
      cases h' : path.getLast? with
      | none => simp at h'; exact absurd h' hne
      | some x => exact ⟨x, rfl⟩
    rw [hlast]
    have hp := eq_dropLast_append hlast
    generalize path.dropLast = rest at hp
    subst hp
    rw [wfPath_append _ _ _ (by simp), wfPath_single, Bool.and_eq_true] at hwf
    obtain ⟨hin, hwl⟩ := hwf
    simp only []
    split
    · exact ⟨_, rfl⟩
    · split
      · exact ⟨_, rfl⟩
      · split
        · exact ⟨_, rfl⟩
        · split
          · exact ⟨_, rfl⟩
          · split
            · rename_i l _ _ _ _
              rw [pathSize_append] at hsz
              simp only [pathSize, segSize] at hsz
              split
              · rename_i t ht
                obtain ⟨rfl, _⟩ := soleSplice_some ht
                simp only [wfLast, wfTrees, Bool.and_true] at hwl
                obtain ⟨htne, htwf⟩ := wfTree_path hwl
                apply ih _ _ _ atRoot
                · rw [pathSize_append]
                  simp only [treesSize, treeSize_eq] at hsz
                  omega
                · rw [wfPath_append _ _ _ htne, hin, htwf]; rfl
                · simp [htne]
              · have : ∃ l', mapE (fun t => (normPath cmp fuel false false t.path).map Tree.mk) l = .ok l' := by
                  apply mapE_ok_of_forall
                  intro t ht
                  simp only [wfLast] at hwl
                  obtain ⟨htne, htwf⟩ := wfTree_path (wfTrees_mem hwl t ht)
                  have hsz' := treeSize_le_of_mem ht
                  rw [treeSize_eq] at hsz'
                  obtain ⟨q, hq⟩ := ih false false t.path _ (by omega) htwf htne
                  exact ⟨.mk q, by simp [hq, Except.map]⟩
                obtain ⟨l', hl'⟩ := this
                rw [hl']
                simp only []
                split
                · rename_i hlt
                  have hsz2 : treesSize l' ≤ treesSize l := by
                    apply mapE_treesSize _ _ _ hl'
                    intro t _ b hb
                    obtain ⟨p2, hp2, rfl⟩ := except_map_ok hb
                    have := normPath_size cmp _ _ _ _ _ hp2
                    rw [treeSize_eq t]; simp only [treeSize]; omega
                  have hk := treesSize_filter (fun t => !t.path.isEmpty) l'
                  have hs := treesSize_perm (stableSort_perm cmp (l'.filter (fun t => !t.path.isEmpty)))
                  have hlen := mapE_length _ _ _ hl'
                  apply ih _ _ _ atRoot
                  · simp only [pathSize_append, pathSize, segSize]; omega
                  · exact norm_list_wf cmp fuel atRoot rest l l' hin hwl hl'
                  · simp
                · exact ⟨_, rfl⟩
            · exact ⟨_, rfl⟩

/-- `normalize` on a top-level item keeps the imports (set equality of keyed leaves), the
visibility, the attributes and the comment flag. -/
theorem normalizeItem_leaves (cmp : Tree → Tree → Ordering) (it it' : Item)
    (h : normalizeItem cmp it = .ok it') (hwf : wfPath true it.tree.path = true)
    (hb : bareSelf it = false) :
    SetEq (itemLeaves it') (itemLeaves it) ∧ it'.vis = it.vis ∧ it'.attrs = it.attrs ∧
      it'.hasComment = it.hasComment := by
  unfold normalizeItem at h
  split at h
  · simp at h
  · rename_i p hp
    simp only [Except.ok.injEq] at h
    subst h
    refine ⟨?_, rfl, rfl, rfl⟩
    simp only [itemLeaves, leaves, Tree.path]
    apply SetEq.map
    apply normPath_leaves cmp _ _ _ _ _ true [] hp hwf (fun _ => rfl)
    rintro ⟨ha, hv, hpath⟩
    simp only [bareSelf, hpath, Bool.and_true] at hb
    simp_all

/-- A well-formed, non-empty top-level item is normalised without panic. -/
theorem normalizeItem_ok (cmp : Tree → Tree → Ordering) (it : Item)
    (hwf : wfPath true it.tree.path = true) (hne : it.tree.path ≠ []) :
    ∃ it', normalizeItem cmp it = .ok it' := by
  unfold normalizeItem
  obtain ⟨q, hq⟩ := normPath_ok cmp (pathSize it.tree.path + 1) it.attrs.isSome it.vis.isSome
    it.tree.path true (by omega) hwf hne
  rw [hq]
  exact ⟨_, rfl⟩

/-- The panic of `normalize`: exactly the empty path (`expect("Empty use tree?")`). -/
theorem normPath_nil (cmp : Tree → Tree → Ordering) (fuel : Nat) (a v : Bool) :
    normPath cmp (fuel + 1) a v [] = .error .panic := by simp [normPath]


/-! ### `Item` and `Preserve` granularity -/

theorem runLeaves_nil : runLeaves [] = [] := rfl
theorem runLeaves_cons (it : Item) (its : List Item) :
    runLeaves (it :: its) = itemLeaves it ++ runLeaves its := by simp [runLeaves]
theorem runLeaves_append (a b : List Item) : runLeaves (a ++ b) = runLeaves a ++ runLeaves b := by
  simp [runLeaves]

theorem mem_runLeaves {x : ItemLeaf} {its : List Item} :
    x ∈ runLeaves its ↔ ∃ it ∈ its, x ∈ itemLeaves it := by simp [runLeaves]

theorem runLeaves_flatten_nest (its : List Item) (h : neRun its = true) :
    runLeaves ((its.flatMap (flattenItem .item)).map nestItem) = runLeaves its := by
  induction its with
  | nil => rfl
  | cons it its ih =>
    simp only [neRun, List.all_cons, Bool.and_eq_true] at h
    simp only [List.flatMap_cons, List.map_append, runLeaves_append, runLeaves_cons]
    rw [ih (by simpa [neRun] using h.2)]
    congr 1
    rw [← flattenItem_leaves .item it h.1 (Or.inl rfl)]
    generalize flattenItem .item it = l
    induction l with
    | nil => rfl
    | cons x l ih' => simp [runLeaves_cons, nestItem_leaves, ih']

theorem sameVis_key {a b : Option (List Char)} (h : sameVis a b = true) : a.getD [] = b.getD [] := by
  cases a <;> cases b <;> simp_all [sameVis]

theorem isRepeatedBy_leaves {s t : Item} (h : isRepeatedBy s t = true) :
    itemLeaves s = itemLeaves t := by
  simp only [isRepeatedBy, Bool.and_eq_true, Option.isNone_iff_eq_none, Bool.not_eq_true'] at h
  obtain ⟨⟨⟨⟨⟨ht, hv⟩, hsa⟩, hta⟩, _⟩, _⟩ := h
  simp only [itemLeaves, treeBEq_eq _ _ ht, sameVis_key hv, hsa, hta]

theorem dedupItems_sub : ∀ (xs res : List Item), ∀ x ∈ dedupItems xs res, x ∈ res ∨ x ∈ xs
  | [], _, x, h => by simp only [dedupItems] at h; exact Or.inl h
  | t :: ts, res, x, h => by
    simp only [dedupItems] at h
    split at h
    · rcases dedupItems_sub ts res x h with h | h
      · exact Or.inl h
      · exact Or.inr (List.mem_cons_of_mem _ h)
    · rcases dedupItems_sub ts _ x h with h | h
      · rcases List.mem_append.1 h with h | h
        · exact Or.inl h
        · simp only [List.mem_singleton] at h; subst h; exact Or.inr (by simp)
      · exact Or.inr (List.mem_cons_of_mem _ h)

theorem dedupItems_keeps : ∀ (xs res : List Item), ∀ x ∈ res, x ∈ dedupItems xs res
  | [], _, x, h => by simpa only [dedupItems] using h
  | t :: ts, res, x, h => by
    simp only [dedupItems]
    split
    · exact dedupItems_keeps ts res x h
    · exact dedupItems_keeps ts _ x (List.mem_append_left _ h)

theorem dedupItems_cover : ∀ (xs res : List Item), ∀ x ∈ xs,
    ∃ y ∈ dedupItems xs res, itemLeaves y = itemLeaves x
  | [], _, x, h => by simp at h
  | t :: ts, res, x, h => by
    simp only [dedupItems]
    split
    · rename_i hs
      rcases List.mem_cons.1 h with rfl | h
      · simp only [List.any_eq_true] at hs
        obtain ⟨s, hs, he⟩ := hs
        exact ⟨s, dedupItems_keeps ts res s hs, isRepeatedBy_leaves he⟩
      · exact dedupItems_cover ts res x h
    · rcases List.mem_cons.1 h with rfl | h
      · exact ⟨x, dedupItems_keeps ts _ x (by simp), rfl⟩
      · exact dedupItems_cover ts _ x h

/-- `Item` granularity keeps the keyed leaf set (nested paths non-empty). -/
theorem granularity_item_leaves (its : List Item) (hne : neRun its = true) :
    SetEq (runLeaves (flattenUseTrees .item its)) (runLeaves its) := by
  unfold flattenUseTrees
  have hxs := runLeaves_flatten_nest its hne
  generalize (its.flatMap (flattenItem .item)).map nestItem = xs at hxs
  intro l
  constructor
  · intro hl
    obtain ⟨y, hy, hly⟩ := mem_runLeaves.1 hl
    rw [← hxs]
    rcases dedupItems_sub xs [] y hy with h | h
    · simp at h
    · exact mem_runLeaves.2 ⟨y, h, hly⟩
  · intro hl
    rw [← hxs] at hl
    obtain ⟨x, hx, hlx⟩ := mem_runLeaves.1 hl
    obtain ⟨y, hy, he⟩ := dedupItems_cover xs [] x hx
    exact mem_runLeaves.2 ⟨y, hy, he ▸ hlx⟩

theorem granularity_preserve (cmp : Tree → Tree → Ordering) (its : List Item) :
    withGranularity cmp .preserve its = .ok its := rfl


/-! ### `group_imports` -/

theorem filter3_perm {α} (f : α → Group) (l : List α) :
    (l.filter (f · == .std) ++ l.filter (f · == .external) ++ l.filter (f · == .localG)).Perm l := by
  induction l with
  | nil => simp
  | cons x l ih =>
    simp only [List.filter_cons]
    cases hx : f x
    · simp only [beq_self_eq_true, if_true, show (Group.std == Group.external) = false from rfl,
        show (Group.std == Group.localG) = false from rfl, Bool.false_eq_true, if_false,
        List.cons_append]
      exact List.Perm.cons x ih
    · simp only [beq_self_eq_true, if_true, show (Group.external == Group.std) = false from rfl,
        show (Group.external == Group.localG) = false from rfl, Bool.false_eq_true, if_false]
      refine List.Perm.trans ?_ (List.Perm.cons x ih)
      simp only [List.append_assoc, List.cons_append]
      exact List.perm_middle
    · simp only [beq_self_eq_true, if_true, show (Group.localG == Group.std) = false from rfl,
        show (Group.localG == Group.external) = false from rfl, Bool.false_eq_true, if_false]
      refine List.Perm.trans ?_ (List.Perm.cons x ih)
      exact List.perm_middle

/-- `group_imports`: three groups, their concatenation is a permutation of the input, every tree
is in the group of its class, each group keeps the input order. -/
theorem group_is_partition (ts : List Item) :
    (groupImports ts).length = 3 ∧ (groupImports ts).flatten.Perm ts ∧
    (∀ t ∈ (groupImports ts)[0]!, classify t.tree = .std) ∧
    (∀ t ∈ (groupImports ts)[1]!, classify t.tree = .external) ∧
    (∀ t ∈ (groupImports ts)[2]!, classify t.tree = .localG) ∧
    (∀ g ∈ groupImports ts, g.Sublist ts) := by
  refine ⟨rfl, ?_, ?_, ?_, ?_, ?_⟩
  · simp only [groupImports, List.flatten_cons, List.flatten_nil, List.append_nil]
    rw [← List.append_assoc]
    exact filter3_perm (fun t => classify t.tree) ts
  · intro t ht; simp [groupImports] at ht; exact ht.2
  · intro t ht; simp [groupImports] at ht; exact ht.2
  · intro t ht; simp [groupImports] at ht; exact ht.2
  · intro g hg
    simp only [groupImports, List.mem_cons, List.mem_nil_iff, or_false] at hg
    rcases hg with rfl | rfl | rfl <;> exact List.filter_sublist

/-! ### no merging across attributes, comments, visibility -/

/-- `share_prefix` is false for a tree with attributes or a comment, and across visibilities. -/
theorem sharePrefix_true {sp : SharedPrefix} {a b : Item} (h : sharePrefix sp a b = true) :
    a.attrs = none ∧ a.hasComment = false ∧ sameVis a.vis b.vis = true ∧
      a.tree.path ≠ [] ∧ b.tree.path ≠ [] ∧ sharePath sp a.tree.path b.tree.path = true := by
  unfold sharePrefix at h
  split at h
  · simp at h
  · rename_i hc
    simp only [Bool.or_eq_true, Bool.not_eq_true', not_or, List.isEmpty_iff,
      Option.isSome_iff_ne_none, ne_eq, Decidable.not_not, Bool.not_eq_true] at hc
    obtain ⟨⟨⟨⟨h1, h2⟩, h3⟩, h4⟩, h5⟩ := hc
    exact ⟨h3, h4, by simpa using h5, h1, h2, h⟩

theorem mergeItem_fields {cmp sp} {a b a' : Item} (h : mergeItem cmp sp a b = .ok a') :
    a'.vis = a.vis ∧ a'.attrs = a.attrs ∧ a'.hasComment = a.hasComment := by
  unfold mergeItem at h
  split at h
  · simp at h
  · simp only [Except.ok.injEq] at h; subst h; exact ⟨rfl, rfl, rfl⟩

/-- Items with attributes or comments. -/
def isProt (it : Item) : Bool := it.hasComment || it.attrs.isSome

theorem isProt_eq_not_mergeable (it : Item) : isProt it = !mergeable it := by
  cases h : it.attrs <;> simp [isProt, mergeable, h]

theorem absorb_prot (cmp sp) (f : Item) (hf : isProt f = false) :
    ∀ (res res' : List Item), absorb cmp sp f res = .ok res' →
      res'.filter isProt = res.filter isProt
  | [], res', h => by
    simp only [absorb, Except.ok.injEq] at h
    subst h
    have : isProt (nestItem f) = false := hf
    split <;> simp [hf, this]
  | t :: rest, res', h => by
    simp only [absorb] at h
    split at h
    · rename_i hs
      obtain ⟨ha, hc, _⟩ := sharePrefix_true hs
      split at h
      · simp at h
      · rename_i t' ht'
        simp only [Except.ok.injEq] at h; subst h
        obtain ⟨_, h2, h3⟩ := mergeItem_fields ht'
        have h1 : isProt t = false := by simp [isProt, ha, hc]
        have h1' : isProt t' = false := by simp [isProt, h2, h3, ha, hc]
        simp [h1, h1']
    · split at h
      · simp at h
      · rename_i rest' hr
        simp only [Except.ok.injEq] at h; subst h
        simp only [List.filter_cons]
        rw [absorb_prot cmp sp f hf rest rest' hr]

theorem absorbAll_prot (cmp sp) :
    ∀ (fs res res' : List Item), (∀ f ∈ fs, isProt f = false) → absorbAll cmp sp fs res = .ok res' →
      res'.filter isProt = res.filter isProt
  | [], res, res', _, h => by simp only [absorbAll, Except.ok.injEq] at h; subst h; rfl
  | f :: fs, res, res', hf, h => by
    simp only [absorbAll] at h
    split at h
    · simp at h
    · rename_i r1 hr1
      rw [absorbAll_prot cmp sp fs r1 res' (fun f' hf' => hf f' (by simp [hf'])) h,
        absorb_prot cmp sp f (hf f (by simp)) res r1 hr1]

theorem flattenItem_prot (g : Granularity) (it : Item) (h : isProt it = false) :
    ∀ f ∈ flattenItem g it, isProt f = false := by
  intro f hf
  simp only [flattenItem] at hf
  simp only [isProt, Bool.or_eq_false_iff] at h
  split at hf
  · simp at hf; subst hf; simp [isProt, h]
  · split at hf
    · split at hf
      · simp at hf; subst hf; simp [isProt, h]
      · simp only [List.mem_map] at hf
        obtain ⟨_, _, rfl⟩ := hf
        have : it.attrs = none := by simpa using h.2
        simp [isProt, this]
    · simp at hf; subst hf; simp [isProt, h]

/-- The merging loop returns the items with attributes or comments unchanged and in order. -/
theorem mergeLoop_prot (cmp g sp) :
    ∀ (its res res' : List Item), mergeLoop cmp g sp its res = .ok res' →
      res'.filter isProt = res.filter isProt ++ its.filter isProt
  | [], res, res', h => by simp only [mergeLoop, Except.ok.injEq] at h; subst h; simp
  | t :: ts, res, res', h => by
    simp only [mergeLoop] at h
    split at h
    · rename_i hp
      have hp' : isProt t = true := hp
      rw [mergeLoop_prot cmp g sp ts _ res' h]
      simp [hp']
    · rename_i hp
      have hp' : isProt t = false := by simpa [isProt] using hp
      split at h
      · simp at h
      · rename_i r1 hr1
        rw [mergeLoop_prot cmp g sp ts r1 res' h,
          absorbAll_prot cmp sp _ res r1 (flattenItem_prot g t hp') hr1]
        simp [hp']


/-! ### merging: the specification relation -/

/-- `Absorbs L' L U`: the list `L'` consists of the elements of `L` and `U` — either all of them,
or those of `L` only when everything in `U` is already in `L` (a dropped duplicate).  No element
occurs in `L'` more often than in `L ++ U`. -/
def Absorbs {α} (L' L U : List α) : Prop := L'.Perm (L ++ U) ∨ (L'.Perm L ∧ ∀ x ∈ U, x ∈ L)

theorem Absorbs.setEq {α} {L' L U : List α} (h : Absorbs L' L U) : SetEq L' (L ++ U) := by
  rcases h with h | ⟨h, hu⟩
  · exact SetEq.of_perm h
  · intro x
    rw [h.mem_iff, List.mem_append]
    exact ⟨Or.inl, fun hx => hx.elim id (hu x)⟩

theorem Absorbs.pairwise {α} {L' L U : List α} {R : α → α → Prop} (hs : ∀ x y, R x y → R y x)
    (h : Absorbs L' L U) (hp : (L ++ U).Pairwise R) : L'.Pairwise R := by
  rcases h with h | ⟨h, _⟩
  · exact (h.pairwise_iff (fun {x y} => hs x y)).2 hp
  · exact (h.pairwise_iff (fun {x y} => hs x y)).2 (List.pairwise_append.1 hp).1

theorem Absorbs.frame {α} {X' X U : List α} (P Q : List α) (h : Absorbs X' X U) :
    Absorbs (P ++ X' ++ Q) (P ++ X ++ Q) U := by
  rcases h with h | ⟨h, hu⟩
  · left
    have h1 : (P ++ X' ++ Q).Perm (P ++ (X ++ U) ++ Q) :=
      (List.Perm.append_left P h).append_right Q
    refine h1.trans ?_
    simp only [List.append_assoc]
    refine List.Perm.append_left P (List.Perm.append_left X ?_)
    exact List.perm_append_comm
  · right
    exact ⟨(List.Perm.append_left P h).append_right Q, fun x hx => by simp [hu x hx]⟩

theorem Absorbs.map {α β} (f : α → β) {L' L U : List α} (h : Absorbs L' L U) :
    Absorbs (L'.map f) (L.map f) (U.map f) := by
  rcases h with h | ⟨h, hu⟩
  · left; rw [← List.map_append]; exact h.map f
  · right
    refine ⟨h.map f, ?_⟩
    intro x hx
    obtain ⟨y, hy, rfl⟩ := List.mem_map.1 hx
    exact List.mem_map.2 ⟨y, hu y hy, rfl⟩

theorem Absorbs.of_perm {α} {L' L U : List α} (h : L'.Perm (L ++ U)) : Absorbs L' L U := Or.inl h

/-! ### `equal_except_alias` -/

theorem eea_refl (s : Seg) : equalExceptAlias s s = true := by
  cases s <;> simp [equalExceptAlias, treesBEq_refl]

theorem eea_of_beq {a b : Seg} (h : segBEq a b = true) : equalExceptAlias a b = true := by
  rw [segBEq_eq a b h]; exact eea_refl b

/-- Two non-terminal (alias-free) segments that are equal except for the alias are equal. -/
theorem eea_inner_eq {r r' : Bool} {x y : Seg} (h : equalExceptAlias x y = true)
    (hx : innerOK r x = true) (hy : innerOK r' y = true) : x = y := by
  rcases innerOK_cases hx with ⟨n, rfl⟩ | rfl | rfl | ⟨rfl, _⟩ <;>
  rcases innerOK_cases hy with ⟨m, rfl⟩ | rfl | rfl | ⟨rfl, _⟩ <;>
  simp_all [equalExceptAlias]

theorem eea_alias_eq {x y : Seg} (h : equalExceptAlias x y = true) (ha : getAlias x = getAlias y) :
    x = y := by
  cases x <;> cases y <;> simp_all [equalExceptAlias, getAlias]
  exact treesBEq_eq _ _ h

/-! ### the common prefix -/

/-- What `merge` knows about `len`: it is at most both lengths, the first segments are equal except
for the alias, the following ones are equal. -/
def PrefixOK (a b : List Seg) (len : Nat) : Prop :=
  len ≤ a.length ∧ len ≤ b.length ∧ (a.take len).drop 1 = (b.take len).drop 1 ∧
    (1 ≤ len → ∃ a0 b0, a.head? = some a0 ∧ b.head? = some b0 ∧ equalExceptAlias a0 b0 = true)

theorem prefixLen_tail : ∀ (n : Nat) (a b : List Seg), 0 < n →
    ∃ k, prefixLen n a b = n + k ∧ k ≤ a.length ∧ k ≤ b.length ∧ a.take k = b.take k
  | n, [], b, _ => ⟨0, by simp [prefixLen]⟩
  | n, _ :: _, [], _ => ⟨0, by simp [prefixLen]⟩
  | n, x :: as, y :: bs, hn => by
    simp only [prefixLen]
    have : (n == 0) = false := by simp; omega
    simp only [this, Bool.false_and, Bool.false_or]
    split
    · rename_i hxy
      obtain ⟨k, hk, h1, h2, h3⟩ := prefixLen_tail (n + 1) as bs (by omega)
      refine ⟨k + 1, by omega, by simp [h1], by simp [h2], ?_⟩
      simp [List.take_succ_cons, segBEq_eq x y hxy, h3]
    · exact ⟨0, by simp⟩

theorem prefixLen_ok (a b : List Seg) : PrefixOK a b (prefixLen 0 a b) := by
  cases a with
  | nil => simp [prefixLen, PrefixOK]
  | cons x as =>
    cases b with
    | nil => simp [prefixLen, PrefixOK]
    | cons y bs =>
      simp only [prefixLen]
      split
      · rename_i hxy
        obtain ⟨k, hk, h1, h2, h3⟩ := prefixLen_tail 1 as bs (by omega)
        rw [hk]
        refine ⟨by simp; omega, by simp; omega, ?_, ?_⟩
        · rw [Nat.add_comm]; simp [List.take_succ_cons, h3]
        · intro _
          refine ⟨x, y, rfl, rfl, ?_⟩
          simp only [beq_self_eq_true, Bool.true_and, Bool.or_eq_true] at hxy
          rcases hxy with h | h
          · exact h
          · exact eea_of_beq h
      · simp [PrefixOK]


/-! ### well-formed and leafy -/

def okPath (r : Bool) (p : List Seg) : Bool := wfPath r p && leafyPath p
def okTree (r : Bool) (t : Tree) : Bool := wfTree r t && leafyTree t

theorem okTree_iff (r : Bool) (t : Tree) :
    okTree r t = true ↔ t.path ≠ [] ∧ okPath r t.path = true := by
  cases t
  simp [okTree, okPath, wfTree, leafyTree, Tree.path, and_assoc]

theorem leafyPath_append (a b : List Seg) : leafyPath (a ++ b) = (leafyPath a && leafyPath b) := by
  induction a with
  | nil => simp [leafyPath]
  | cons s r ih => simp [leafyPath, ih, Bool.and_assoc]

theorem innerOK_leafy {r : Bool} {s : Seg} (h : innerOK r s = true) : leafySeg s = true := by
  rcases innerOK_cases h with ⟨n, rfl⟩ | rfl | rfl | ⟨rfl, _⟩ <;> simp [leafySeg]

theorem innerAll_leafy {r : Bool} {p : List Seg} (h : innerAll r p = true) : leafyPath p = true := by
  induction p generalizing r with
  | nil => simp [leafyPath]
  | cons s p ih =>
    simp only [innerAll, Bool.and_eq_true] at h
    simp [leafyPath, innerOK_leafy h.1, ih h.2]

theorem okPath_append (r : Bool) (rest q : List Seg) (hq : q ≠ []) :
    okPath r (rest ++ q) = true ↔ innerAll r rest = true ∧ okPath (r && rest.isEmpty) q = true := by
  simp only [okPath, wfPath_append _ _ _ hq, leafyPath_append, Bool.and_eq_true]
  constructor
  · rintro ⟨⟨h1, h2⟩, _, h4⟩; exact ⟨h1, h2, h4⟩
  · rintro ⟨h1, h2, h4⟩; exact ⟨⟨h1, h2⟩, innerAll_leafy h1, h4⟩

theorem wfTrees_iff (r : Bool) (l : List Tree) : wfTrees r l = true ↔ ∀ t ∈ l, wfTree r t = true := by
  induction l with
  | nil => simp [wfTrees]
  | cons t l ih => simp [wfTrees, ih]

theorem leafyTrees_iff (l : List Tree) : leafyTrees l = true ↔ ∀ t ∈ l, leafyTree t = true := by
  induction l with
  | nil => simp [leafyTrees]
  | cons t l ih => simp [leafyTrees, ih]

theorem okPath_list (r : Bool) (l : List Tree) :
    okPath r [.list l] = true ↔ l ≠ [] ∧ ∀ t ∈ l, okTree r t = true := by
  simp only [okPath, wfPath_single, wfLast, leafyPath, leafySeg, Bool.and_true, Bool.and_eq_true,
    wfTrees_iff, leafyTrees_iff, okTree, Bool.not_eq_true', List.isEmpty_eq_false_iff]
  constructor
  · rintro ⟨h1, h2, h3⟩; exact ⟨h2, fun t ht => ⟨h1 t ht, h3 t ht⟩⟩
  · rintro ⟨h2, h⟩; exact ⟨fun t ht => (h t ht).1, h2, fun t ht => (h t ht).2⟩

theorem okPath_single_nonlist (r : Bool) (s : Seg) (h : isList s = false) : okPath r [s] = true := by
  cases s <;> simp_all [okPath, wfPath, wfLast, leafyPath, leafySeg, isList]

/-! ### every leaf extends the prefix; well-formed leafy trees have leaves -/

theorem terminalLeaf_prefix (pre : List PSeg) (s : Seg) :
    ∀ x ∈ terminalLeaf pre s, pre <+: x.path := by
  intro x hx
  cases s <;> simp only [terminalLeaf, List.mem_singleton, List.not_mem_nil] at hx
  case slf a =>
    split at hx
    · rename_i he
      simp only [List.isEmpty_iff] at he
      subst he
      exact List.nil_prefix
    · simp only [List.mem_singleton] at hx; subst hx; exact List.prefix_refl _
  all_goals (subst hx; exact List.prefix_append _ _)

mutual
theorem leavesLast_prefix : ∀ (s : Seg) (pre : List PSeg), ∀ x ∈ leavesLast pre s, pre <+: x.path
  | .list l, pre, x, hx => by rw [leavesLast_list] at hx; exact leavesTrees_prefix l pre x hx
  | .ident n a, pre, x, hx => terminalLeaf_prefix pre (.ident n a) x (by simpa [leavesLast] using hx)
  | .slf a, pre, x, hx => terminalLeaf_prefix pre (.slf a) x (by simpa [leavesLast] using hx)
  | .super a, pre, x, hx => terminalLeaf_prefix pre (.super a) x (by simpa [leavesLast] using hx)
  | .crate a, pre, x, hx => terminalLeaf_prefix pre (.crate a) x (by simpa [leavesLast] using hx)
  | .glob, pre, x, hx => terminalLeaf_prefix pre .glob x (by simpa [leavesLast] using hx)
theorem leavesTree_prefix : ∀ (t : Tree) (pre : List PSeg), ∀ x ∈ leavesTree pre t, pre <+: x.path
  | .mk p, pre, x, hx => by rw [leavesTree_mk] at hx; exact leavesPath_prefix p pre x hx
theorem leavesPath_prefix : ∀ (p : List Seg) (pre : List PSeg), ∀ x ∈ leavesPath pre p, pre <+: x.path
  | [], pre, x, hx => by simp [leavesPath] at hx
  | [s], pre, x, hx => by rw [leavesPath_single] at hx; exact leavesLast_prefix s pre x hx
  | s :: t :: r, pre, x, hx => by
    rw [leavesPath_cons_ne _ _ _ (by simp)] at hx
    split at hx
    · simp at hx
    · exact (List.prefix_append pre _).trans (leavesPath_prefix (t :: r) _ x hx)
theorem leavesTrees_prefix : ∀ (l : List Tree) (pre : List PSeg), ∀ x ∈ leavesTrees pre l, pre <+: x.path
  | [], pre, x, hx => by simp [leavesTrees] at hx
  | t :: l, pre, x, hx => by
    rw [leavesTrees_cons, List.mem_append] at hx
    rcases hx with hx | hx
    · exact leavesTree_prefix t pre x hx
    · exact leavesTrees_prefix l pre x hx
end

mutual
theorem leavesLast_ne : ∀ (s : Seg) (r : Bool) (pre : List PSeg), okPath r [s] = true →
    leavesLast pre s ≠ []
  | .list l, r, pre, h => by
    rw [leavesLast_list]
    exact leavesTrees_ne l r pre ((okPath_list r l).1 h).1 ((okPath_list r l).1 h).2
  | .ident .., _, pre, _ | .super _, _, pre, _ | .crate _, _, pre, _ | .glob, _, pre, _ => by
    simp [leavesLast, terminalLeaf]
  | .slf _, _, pre, _ => by
    simp only [leavesLast, terminalLeaf]; split <;> simp
theorem leavesTree_ne : ∀ (t : Tree) (r : Bool) (pre : List PSeg), okTree r t = true →
    leavesTree pre t ≠ []
  | .mk p, r, pre, h => by
    rw [leavesTree_mk]
    have := (okTree_iff r (.mk p)).1 h
    exact leavesPath_ne p r pre this.1 this.2
theorem leavesPath_ne : ∀ (p : List Seg) (r : Bool) (pre : List PSeg), p ≠ [] → okPath r p = true →
    leavesPath pre p ≠ []
  | [], _, _, h, _ => absurd rfl h
  | [s], r, pre, _, h => by rw [leavesPath_single]; exact leavesLast_ne s r pre h
  | s :: t :: q, r, pre, _, h => by
    have := (okPath_append r [s] (t :: q) (by simp)).1 h
    simp only [innerAll, Bool.and_true] at this
    rw [leavesPath_cons_ne _ _ _ (by simp), innerOK_not_list this.1]
    exact leavesPath_ne (t :: q) _ _ (by simp) this.2
theorem leavesTrees_ne : ∀ (l : List Tree) (r : Bool) (pre : List PSeg), l ≠ [] →
    (∀ t ∈ l, okTree r t = true) → leavesTrees pre l ≠ []
  | [], _, _, h, _ => absurd rfl h
  | t :: l, r, pre, _, h => by
    rw [leavesTrees_cons]
    have := leavesTree_ne t r pre (h t (by simp))
    simp [this]
end

/-! ### the common prefix of two well-formed paths is literally equal -/

theorem take_eq_of_prefixOK {a b : List Seg} {len n : Nat} {r r' : Bool} (h : PrefixOK a b len)
    (hn : n ≤ len) (ha : n < a.length) (hb : n < b.length) (hwa : wfPath r a = true)
    (hwb : wfPath r' b = true) : a.take n = b.take n := by
  obtain ⟨_, _, h3, h4⟩ := h
  cases n with
  | zero => simp
  | succ n =>
    cases a with
    | nil => simp at ha
    | cons a0 a' =>
      cases b with
      | nil => simp at hb
      | cons b0 b' =>
        obtain ⟨x, y, hx, hy, he⟩ := h4 (by omega)
        simp only [List.head?_cons, Option.some.injEq] at hx hy
        subst hx hy
        have ha' : a' ≠ [] := by intro h; subst h; simp at ha; 
        have hb' : b' ≠ [] := by intro h; subst h; simp at hb
        rw [wfPath_cons_ne _ _ _ ha', Bool.and_eq_true] at hwa
        rw [wfPath_cons_ne _ _ _ hb', Bool.and_eq_true] at hwb
        have h0 := eea_inner_eq he hwa.1 hwb.1
        subst h0
        obtain ⟨m, rfl⟩ : ∃ m, len = m + 1 := ⟨len - 1, by omega⟩
        simp only [List.take_succ_cons, List.drop_one, List.tail_cons] at h3
        have : a'.take n = b'.take n := by
          have := congrArg (List.take n) h3
          simpa [List.take_take, Nat.min_eq_left (show n ≤ m by omega)] using this
        simp [List.take_succ_cons, this]


/-! ### specifications of `merge_rest` and `merge_use_trees_inner` -/

/-- The nested-level hypothesis: for `One`, no aliased leaf is a stem of another occurrence. -/
def HypN (sp : SharedPrefix) (L : List Leaf) : Prop :=
  sp = .one → L.Pairwise (fun x y => aliasStem x y = false ∧ aliasStem y x = false)

/-- What must hold of the first segments for `merge` to be safe (F6 and the alias-stem defect). -/
def RootOK (a b : List Seg) : Prop :=
  ∀ a0 b0, a.head? = some a0 → b.head? = some b0 → equalExceptAlias a0 b0 = true →
    (a.length = 1 → b.length = 1 → getAlias a0 = getAlias b0) ∧
    (b.length = 1 → 1 < a.length → getAlias b0 = none)

def RestSpec (cmp : Tree → Tree → Ordering) (sp : SharedPrefix) (fuel : Nat) : Prop :=
  ∀ (a b : List Seg) (len : Nat) (res : Option (List Seg)) (r : Bool) (pre : List PSeg),
    mergeRest cmp sp fuel a b len = .ok res → PrefixOK a b len → a ≠ [] → b ≠ [] →
    okPath r a = true → okPath r b = true → (r = true → pre = []) → RootOK a b →
    HypN sp (leavesPath pre a ++ leavesPath pre b) →
    match res with
    | some p => p ≠ [] ∧ okPath r p = true ∧
        Absorbs (leavesPath pre p) (leavesPath pre a) (leavesPath pre b)
    | none => ∀ x ∈ leavesPath pre b, x ∈ leavesPath pre a

def InnerSpec (cmp : Tree → Tree → Ordering) (sp : SharedPrefix) (fuel : Nat) : Prop :=
  ∀ (trees : List Tree) (u : Tree) (trees' : List Tree) (r : Bool) (pre : List PSeg),
    mergeInner cmp sp fuel trees u = .ok trees' → (∀ t ∈ trees, okTree r t = true) →
    okTree r u = true → (r = true → pre = []) →
    HypN sp (leavesTrees pre trees ++ leavesTree pre u) →
    (∀ t ∈ trees', okTree r t = true) ∧ trees' ≠ [] ∧
      Absorbs (leavesTrees pre trees') (leavesTrees pre trees) (leavesTree pre u)

/-- Splitting a well-formed path at a non-terminal position. -/
theorem split_at {r : Bool} {a : List Seg} {n : Nat} (hn : n < a.length) (h : okPath r a = true)
    (pre : List PSeg) :
    a.drop n ≠ [] ∧ innerAll r (a.take n) = true ∧
      okPath (r && (a.take n).isEmpty) (a.drop n) = true ∧
      leavesPath pre a = leavesPath (pre ++ (a.take n).map innerSeg) (a.drop n) := by
  have hd : a.drop n ≠ [] := by simp; omega
  have := (okPath_append r (a.take n) (a.drop n) hd).1 (by rw [List.take_append_drop]; exact h)
  refine ⟨hd, this.1, this.2, ?_⟩
  conv => lhs; rw [← List.take_append_drop n a]
  exact leavesPath_append _ _ _ (innerAll_noList this.1) hd

theorem root_pre {r : Bool} {pre : List PSeg} {pfx : List Seg} (hroot : r = true → pre = []) :
    (r && pfx.isEmpty) = true → pre ++ pfx.map innerSeg = [] := by
  intro h
  simp only [Bool.and_eq_true, List.isEmpty_iff] at h
  simp [hroot h.1, h.2]

/-- The shape built by the last lines of `merge_rest`: `prefix::{a_rest, b_rest}` (sorted). -/
theorem pairList_spec (cmp : Tree → Tree → Ordering) {r : Bool} {a b : List Seg} {n : Nat}
    (pre : List PSeg) (ha : n < a.length) (hb : n < b.length) (hoa : okPath r a = true)
    (hob : okPath r b = true) (ht : a.take n = b.take n) :
    let p := b.take n ++ [.list (RF.Sort.stableSort cmp [.mk (a.drop n), .mk (b.drop n)])]
    p ≠ [] ∧ okPath r p = true ∧
      Absorbs (leavesPath pre p) (leavesPath pre a) (leavesPath pre b) := by
  intro p
  obtain ⟨had, hai, hao, hal⟩ := split_at ha hoa pre
  obtain ⟨hbd, hbi, hbo, hbl⟩ := split_at hb hob pre
  rw [ht] at hao hal
  have hperm := stableSort_perm cmp [Tree.mk (a.drop n), Tree.mk (b.drop n)]
  refine ⟨by simp [p], ?_, ?_⟩
  · rw [okPath_append _ _ _ (by simp)]
    refine ⟨hbi, (okPath_list _ _).2 ⟨?_, ?_⟩⟩
    · intro h; have := hperm.length_eq; rw [h] at this; simp at this
    · intro t ht'
      rw [mem_stableSort] at ht'
      simp only [List.mem_cons, List.mem_nil_iff, or_false] at ht'
      rcases ht' with rfl | rfl
      · exact (okTree_iff _ _).2 ⟨had, hao⟩
      · exact (okTree_iff _ _).2 ⟨hbd, hbo⟩
  · apply Absorbs.of_perm
    rw [leavesPath_snoc _ _ _ _ hbi, leavesLast_list, hal, hbl]
    refine (leavesTrees_perm _ hperm).trans ?_
    simp [leavesTrees_cons, leavesTrees_nil, leavesTree_mk]


theorem okPath_wf {r : Bool} {p : List Seg} (h : okPath r p = true) : wfPath r p = true := by
  simp only [okPath, Bool.and_eq_true] at h; exact h.1

/-- A list segment of a well-formed path is its last segment. -/
theorem list_is_last {r : Bool} {l : List Tree} {tail : List Seg}
    (h : okPath r (.list l :: tail) = true) : tail = [] := by
  cases tail with
  | nil => rfl
  | cons t q =>
    have := okPath_wf h
    rw [wfPath_cons_ne _ _ _ (by simp)] at this
    simp [innerOK] at this

/-- Both paths exhausted by the common prefix: they are equal (given `RootOK`). -/
theorem eq_of_exhausted {a b : List Seg} {len : Nat} {r : Bool} (hpo : PrefixOK a b len)
    (ha : a.length = len) (hb : b.length = len) (hane : a ≠ []) (hwa : wfPath r a = true)
    (hwb : wfPath r b = true) (hro : RootOK a b) : a = b := by
  obtain ⟨_, _, h3, h4⟩ := hpo
  cases a with
  | nil => exact absurd rfl hane
  | cons a0 a' =>
    cases b with
    | nil => simp at ha hb; omega
    | cons b0 b' =>
      obtain ⟨x, y, hx, hy, he⟩ := h4 (by simp at ha; omega)
      simp only [List.head?_cons, Option.some.injEq] at hx hy
      subst hx hy
      have hab : a' = b' := by
        rw [← ha] at h3
        have hb' : (b0 :: b').length = (a0 :: a').length := by omega
        rw [List.take_length] at h3
        rw [← hb', List.take_length] at h3
        simpa using h3
      subst hab
      cases a' with
      | nil =>
        have := (hro a0 b0 rfl rfl he).1 rfl rfl
        rw [eea_alias_eq he this]
      | cons t q =>
        rw [wfPath_cons_ne _ _ _ (by simp), Bool.and_eq_true] at hwa hwb
        rw [eea_inner_eq he hwa.1 hwb.1]

/-- A terminal segment equal-except-alias to a non-terminal one denotes that prefix, with its alias. -/
theorem terminal_as_self {r : Bool} {pre : List PSeg} {x y : Seg} (he : equalExceptAlias x y = true)
    (hy : innerOK r y = true) (hroot : r = true → pre = []) :
    leavesPath pre [x] = [⟨pre ++ [innerSeg y], getAlias x⟩] := by
  rw [leavesPath_single]
  rcases innerOK_cases hy with ⟨n, rfl⟩ | rfl | rfl | ⟨rfl, hr⟩
  · cases x <;> simp_all [equalExceptAlias, leavesLast, terminalLeaf, innerSeg, getAlias]
  · cases x <;> simp_all [equalExceptAlias, leavesLast, terminalLeaf, innerSeg, getAlias]
  · cases x <;> simp_all [equalExceptAlias, leavesLast, terminalLeaf, innerSeg, getAlias]
  · rw [hroot hr]
    cases x <;> simp_all [equalExceptAlias, leavesLast, terminalLeaf, innerSeg, getAlias]

theorem restTrees_spec {rest : List Seg} (hne : rest ≠ []) (h : okPath false rest = true)
    (pre : List PSeg) :
    (∀ t ∈ restTrees rest, okTree false t = true) ∧
      leavesTrees pre (restTrees rest) = leavesPath pre rest := by
  unfold restTrees
  split
  · rename_i rl
    exact ⟨((okPath_list _ _).1 h).2, by rw [leavesPath_single, leavesLast_list]⟩
  · refine ⟨?_, by simp [leavesTrees_cons, leavesTrees_nil, leavesTree_mk]⟩
    intro t ht
    simp only [List.mem_singleton] at ht
    subst ht
    exact (okTree_iff _ _).2 ⟨hne, h⟩

/-- The shape built at imports.rs:786-816: `b0::{self as alias(common), rest…}`. -/
theorem selfList_spec {r : Bool} {pre : List PSeg} {x y : Seg} {rest : List Seg}
    (he : equalExceptAlias x y = true) (hrest : rest ≠ []) (hoy : okPath r (y :: rest) = true)
    (hroot : r = true → pre = []) :
    let p := [y, .list (.mk [.slf (getAlias x)] :: restTrees rest)]
    okPath r p = true ∧
      leavesPath pre p = leavesPath pre [x] ++ leavesPath pre (y :: rest) := by
  intro p
  have hs := (okPath_append r [y] rest hrest).1 hoy
  simp only [innerAll, Bool.and_true, List.isEmpty_cons, Bool.and_false] at hs
  obtain ⟨hyi, hor⟩ := hs
  obtain ⟨hrt, hrl⟩ := restTrees_spec hrest hor (pre ++ [innerSeg y])
  constructor
  · have : p = [y] ++ [.list (.mk [.slf (getAlias x)] :: restTrees rest)] := rfl
    rw [this, okPath_append _ _ _ (by simp)]
    simp only [innerAll, Bool.and_true, List.isEmpty_cons, Bool.and_false]
    refine ⟨hyi, (okPath_list _ _).2 ⟨by simp, ?_⟩⟩
    intro t ht
    rcases List.mem_cons.1 ht with rfl | ht
    · exact (okTree_iff _ _).2 ⟨by simp [Tree.path], okPath_single_nonlist _ _ rfl⟩
    · exact hrt t ht
  · rw [terminal_as_self he hyi hroot, leavesPath_cons_ne _ _ _ hrest, innerOK_not_list hyi]
    simp only [p]
    rw [leavesPath_cons_ne _ _ _ (by simp), innerOK_not_list hyi]
    simp only [Bool.false_eq_true, if_false, leavesPath_single, leavesTrees_cons,
      leavesTree_mk, leavesLast, terminalLeaf, hrl]
    simp


theorem restSpec_succ (cmp : Tree → Tree → Ordering) (sp : SharedPrefix) (fuel : Nat)
    (hI : InnerSpec cmp sp fuel) : RestSpec cmp sp (fuel + 1) := by
  intro a b len res r pre h hpo hane hbne hoa hob hroot hro hyp
  unfold mergeRest at h
  have hla := hpo.1
  have hlb := hpo.2.1
  split at h
  · -- both exhausted: `None`
    rename_i hc
    simp only [Bool.and_eq_true, beq_iff_eq] at hc
    simp only [Except.ok.injEq] at h; subst h
    rw [eq_of_exhausted hpo hc.1 hc.2 hane (okPath_wf hoa) (okPath_wf hob) hro]
    exact fun x hx => hx
  · split at h
    · -- both longer than the prefix
      rename_i _ hc
      simp only [Bool.and_eq_true, bne_iff_ne, ne_eq] at hc
      have ha : len < a.length := by omega
      have hb : len < b.length := by omega
      have ht := take_eq_of_prefixOK hpo (Nat.le_refl _) ha hb (okPath_wf hoa) (okPath_wf hob)
      split at h
      · rename_i hn; simp at hn; omega
      · -- `a[len]` is a list: merge `b[len..]` into it
        rename_i list hal
        obtain ⟨had, hai, hao, hal'⟩ := split_at ha hoa pre
        obtain ⟨hbd, hbi, hbo, hbl⟩ := split_at hb hob pre
        have hdrop : a.drop len = [.list list] := by
          have : a.drop len = .list list :: a.drop (len + 1) := by
            rw [List.drop_eq_getElem_cons ha]
            congr 1
            rw [List.getElem?_eq_getElem ha] at hal
            exact Option.some.inj hal
          rw [this] at hao ⊢
          rw [list_is_last hao]
        rw [hdrop] at hao hal'
        rw [ht] at hao hal'
        split at h
        · simp at h
        · rename_i list' hl'
          simp only [Except.ok.injEq] at h; subst h
          have hsp := hI list (.mk (b.drop len)) list' (r && (b.take len).isEmpty)
            (pre ++ (b.take len).map innerSeg) hl' ((okPath_list _ _).1 hao).2
            ((okTree_iff _ _).2 ⟨hbd, hbo⟩) (root_pre hroot)
            (by rw [leavesTree_mk, ← hbl]; rw [leavesPath_single, leavesLast_list] at hal'
                rw [← hal']; exact hyp)
          obtain ⟨h1, h2, h3⟩ := hsp
          refine ⟨by simp, ?_, ?_⟩
          · rw [okPath_append _ _ _ (by simp)]
            exact ⟨hbi, (okPath_list _ _).2 ⟨h2, h1⟩⟩
          · rw [leavesPath_snoc _ _ _ _ hbi, leavesLast_list, hal', hbl, leavesPath_single,
              leavesLast_list]
            rw [leavesTree_mk] at h3
            exact h3
      · -- `a[len]` is not a list
        simp only [Except.ok.injEq] at h; subst h
        exact pairList_spec cmp pre ha hb hoa hob ht
    · rename_i hc1 hc2
      simp only [Bool.and_eq_true, beq_iff_eq, not_and] at hc1
      simp only [Bool.and_eq_true, bne_iff_ne, ne_eq, not_and, Decidable.not_not] at hc2
      split at h
      · -- `len == 1`: one path is the common prefix itself
        rename_i hl1
        simp only [beq_iff_eq] at hl1
        subst hl1
        split at h
        · rename_i a0 b0 ha0 hb0
          simp only [Except.ok.injEq] at h; subst h
          obtain ⟨x, y, hx, hy, he⟩ := hpo.2.2.2 (Nat.le_refl _)
          rw [ha0] at hx; rw [hb0] at hy
          simp only [Option.some.injEq] at hx hy
          subst hx hy
          by_cases hal : a.length = 1
          · -- `a` is exhausted
            have hbl : b.length ≠ 1 := hc1 hal
            simp only [hal, beq_self_eq_true, if_true]
            obtain ⟨a', rfl⟩ : ∃ a', a = a0 :: a' := by
              cases a with
              | nil => simp at hal
              | cons z a' => simp at ha0; subst ha0; exact ⟨a', rfl⟩
            obtain ⟨b', rfl⟩ : ∃ b', b = b0 :: b' := by
              cases b with
              | nil => simp at hb0
              | cons z b' => simp at hb0; subst hb0; exact ⟨b', rfl⟩
            have : a' = [] := by simpa using hal
            subst this
            have hb' : b' ≠ [] := by intro h; subst h; simp at hbl
            simp only [List.drop_one, List.tail_cons]
            obtain ⟨h1, h2⟩ := selfList_spec (pre := pre) he hb' hob hroot
            exact ⟨by simp, h1, Absorbs.of_perm (by rw [h2])⟩
          · -- `b` is exhausted
            have hbl : b.length = 1 := hc2 hal
            have hal' : (a.length == 1) = false := by simpa using hal
            simp only [hal', Bool.false_eq_true, if_false]
            obtain ⟨a', rfl⟩ : ∃ a', a = a0 :: a' := by
              cases a with
              | nil => simp at ha0
              | cons z a' => simp at ha0; subst ha0; exact ⟨a', rfl⟩
            obtain ⟨b', rfl⟩ : ∃ b', b = b0 :: b' := by
              cases b with
              | nil => simp at hb0
              | cons z b' => simp at hb0; subst hb0; exact ⟨b', rfl⟩
            have : b' = [] := by simpa using hbl
            subst this
            have ha' : a' ≠ [] := by intro h; subst h; simp at hal
            have hgb : getAlias b0 = none :=
              (hro a0 b0 rfl rfl he).2 rfl (by simp; cases a' <;> simp_all)
            have hai : innerOK r a0 = true := by
              have := okPath_wf hoa
              rw [wfPath_cons_ne _ _ _ ha', Bool.and_eq_true] at this
              exact this.1
            have hga : getAlias a0 = none := by
              rcases innerOK_cases hai with ⟨n, rfl⟩ | rfl | rfl | ⟨rfl, _⟩ <;> rfl
            have hab : a0 = b0 := eea_alias_eq he (by rw [hga, hgb])
            subst hab
            simp only [List.drop_one, List.tail_cons]
            obtain ⟨h1, h2⟩ := selfList_spec (pre := pre) (eea_refl a0) ha' hoa hroot
            refine ⟨by simp, h1, Absorbs.of_perm ?_⟩
            rw [h2]
            exact List.perm_append_comm
        · simp at h
      · -- `len != 1`: step back one segment
        split at h
        · simp at h
        · rename_i len' _
          simp only [Except.ok.injEq] at h; subst h
          have ha : len' < a.length := by omega
          have hb : len' < b.length := by omega
          have ht := take_eq_of_prefixOK hpo (Nat.le_succ _) ha hb (okPath_wf hoa) (okPath_wf hob)
          exact pairList_spec cmp pre ha hb hoa hob ht


/-! ### `merge_use_trees_inner` -/

theorem mem_leavesTrees {pre : List PSeg} {l : List Tree} {x : Leaf} :
    x ∈ leavesTrees pre l ↔ ∃ t ∈ l, x ∈ leavesTree pre t := by
  simp [leavesTrees_eq_flatMap]

theorem pushSort_spec (cmp : Tree → Tree → Ordering) {r : Bool} {trees : List Tree} {u : Tree}
    (pre : List PSeg) (ht : ∀ t ∈ trees, okTree r t = true) (hu : okTree r u = true) :
    (∀ t ∈ RF.Sort.stableSort cmp (trees ++ [u]), okTree r t = true) ∧
      RF.Sort.stableSort cmp (trees ++ [u]) ≠ [] ∧
      Absorbs (leavesTrees pre (RF.Sort.stableSort cmp (trees ++ [u]))) (leavesTrees pre trees)
        (leavesTree pre u) := by
  have hperm := stableSort_perm cmp (trees ++ [u])
  refine ⟨?_, ?_, ?_⟩
  · intro t h
    rw [mem_stableSort, List.mem_append, List.mem_singleton] at h
    rcases h with h | rfl
    · exact ht t h
    · exact hu
  · intro h; have := hperm.length_eq; rw [h] at this; simp at this
  · apply Absorbs.of_perm
    refine (leavesTrees_perm pre hperm).trans ?_
    simp [leavesTrees_append, leavesTrees_cons, leavesTrees_nil]

theorem getElem?_split {α} : ∀ {l : List α} {i : Nat} {t : α}, l[i]? = some t →
    ∃ A B, l = A ++ t :: B ∧ ∀ x, l.set i x = A ++ x :: B
  | [], i, t, h => by simp at h
  | y :: l, 0, t, h => by
    simp at h; subst h; exact ⟨[], l, rfl, fun x => rfl⟩
  | y :: l, i + 1, t, h => by
    simp only [List.getElem?_cons_succ] at h
    obtain ⟨A, B, h1, h2⟩ := getElem?_split h
    exact ⟨y :: A, B, by simp [h1], fun x => by simp [List.set_cons_succ, h2]⟩

theorem hypN_sub {sp : SharedPrefix} {L L' : List Leaf} (h : HypN sp L) (hs : L'.Sublist L) :
    HypN sp L' := fun h1 => (h h1).sublist hs

theorem mergeAt_spec (cmp : Tree → Tree → Ordering) (sp : SharedPrefix) (fuel : Nat)
    (hR : RestSpec cmp sp fuel) {trees trees' : List Tree} {u : Tree} {i : Nat} {r : Bool}
    {pre : List PSeg}
    (h : (match trees[i]? with
      | none => Except.error Err.panic
      | some t =>
        match mergeRest cmp sp fuel t.path u.path (prefixLen 0 t.path u.path) with
        | Except.error e => Except.error e
        | Except.ok none => Except.ok trees
        | Except.ok (some p) => Except.ok (trees.set i (Tree.mk p))) = Except.ok trees')
    (ht : ∀ t ∈ trees, okTree r t = true) (hu : okTree r u = true) (hroot : r = true → pre = [])
    (hyp : HypN sp (leavesTrees pre trees ++ leavesTree pre u))
    (hro : ∀ t, trees[i]? = some t → RootOK t.path u.path) :
    (∀ t ∈ trees', okTree r t = true) ∧ trees' ≠ [] ∧
      Absorbs (leavesTrees pre trees') (leavesTrees pre trees) (leavesTree pre u) := by
  split at h
  · simp at h
  · rename_i t hti
    obtain ⟨A, B, hAB, hset⟩ := getElem?_split hti
    have htm : t ∈ trees := by rw [hAB]; simp
    obtain ⟨htne, htok⟩ := (okTree_iff _ _).1 (ht t htm)
    obtain ⟨hune, huok⟩ := (okTree_iff _ _).1 hu
    have hLt : leavesTrees pre trees = leavesTrees pre A ++ leavesTree pre t ++ leavesTrees pre B := by
      rw [hAB, leavesTrees_append, leavesTrees_cons, List.append_assoc]
    have hyp' : HypN sp (leavesPath pre t.path ++ leavesPath pre u.path) := by
      rw [← leavesTree_eq, ← leavesTree_eq]
      apply hypN_sub hyp
      rw [hLt]
      apply List.Sublist.append _ (List.Sublist.refl _)
      exact (List.sublist_append_right _ _).trans (List.sublist_append_left _ _)
    split at h
    · simp at h
    · rename_i hm
      simp only [Except.ok.injEq] at h; subst h
      have := hR _ _ _ _ r pre hm (prefixLen_ok _ _) htne hune htok huok hroot (hro t hti) hyp'
      simp only at this
      refine ⟨ht, by intro h; subst h; simp at htm, Or.inr ⟨List.Perm.refl _, ?_⟩⟩
      intro x hx
      rw [leavesTree_eq] at hx
      exact mem_leavesTrees.2 ⟨t, htm, by rw [leavesTree_eq]; exact this x hx⟩
    · rename_i p hm
      simp only [Except.ok.injEq] at h; subst h
      have := hR _ _ _ _ r pre hm (prefixLen_ok _ _) htne hune htok huok hroot (hro t hti) hyp'
      simp only at this
      obtain ⟨hpne, hpok, hab⟩ := this
      rw [hset]
      refine ⟨?_, by simp, ?_⟩
      · intro t' ht'
        rw [List.mem_append, List.mem_cons] at ht'
        rcases ht' with h' | rfl | h'
        · exact ht t' (by rw [hAB]; simp [h'])
        · exact (okTree_iff _ _).2 ⟨hpne, hpok⟩
        · exact ht t' (by rw [hAB]; simp [h'])
      · rw [hLt, leavesTrees_append, leavesTrees_cons, ← List.append_assoc, leavesTree_mk]
        rw [leavesTree_eq pre t, leavesTree_eq pre u]
        exact Absorbs.frame _ _ hab

theorem lastMaxIdx_spec {α} (p : α → Bool) (key : α → Nat) :
    ∀ (l : List α) (start : Nat) (best : Option (Nat × Nat)) (i k : Nat),
      lastMaxIdx p key l start best = some (i, k) →
      best = some (i, k) ∨ ∃ t, l[i - start]? = some t ∧ start ≤ i ∧ p t = true ∧ key t = k
  | [], _, best, i, k, h => by simp only [lastMaxIdx] at h; exact Or.inl h
  | x :: xs, start, best, i, k, h => by
    simp only [lastMaxIdx] at h
    have step : ∀ best', lastMaxIdx p key xs (start + 1) best' = some (i, k) →
        (best' = best ∨ (best' = some (start, key x) ∧ p x = true)) →
        best = some (i, k) ∨ ∃ t, (x :: xs)[i - start]? = some t ∧ start ≤ i ∧ p t = true ∧ key t = k := by
      intro best' h' hb
      rcases lastMaxIdx_spec p key xs (start + 1) best' i k h' with h1 | ⟨t, h1, h2, h3, h4⟩
      · rcases hb with hb | ⟨hb, hpx⟩
        · left; rw [← hb, h1]
        · right
          rw [hb] at h1
          simp only [Option.some.injEq, Prod.mk.injEq] at h1
          obtain ⟨rfl, rfl⟩ := h1
          exact ⟨x, by simp, Nat.le_refl _, hpx, rfl⟩
      · right
        refine ⟨t, ?_, by omega, h3, h4⟩
        have : i - start = (i - (start + 1)) + 1 := by omega
        rw [this, List.getElem?_cons_succ]; exact h1
    split at h
    · rename_i hpx
      split at h
      · split at h
        · exact step _ h (Or.inr ⟨rfl, hpx⟩)
        · exact step _ h (Or.inl rfl)
      · exact step _ h (Or.inr ⟨rfl, hpx⟩)
    · exact step _ h (Or.inl rfl)

theorem lastMaxIdx_found {α} {p : α → Bool} {key : α → Nat} {l : List α} {i k : Nat}
    (h : lastMaxIdx p key l 0 none = some (i, k)) :
    ∃ t, l[i]? = some t ∧ p t = true ∧ key t = k := by
  rcases lastMaxIdx_spec p key l 0 none i k h with h | ⟨t, h1, _, h3, h4⟩
  · simp at h
  · exact ⟨t, by simpa using h1, h3, h4⟩


/-! ### `RootOK` per mode -/

theorem eea_symm {x y : Seg} (h : equalExceptAlias x y = true) : equalExceptAlias y x = true := by
  cases x <;> cases y <;> simp_all [equalExceptAlias]
  rw [treesBEq_eq _ _ h]; exact treesBEq_refl _

theorem innerOK_alias {r : Bool} {s : Seg} (h : innerOK r s = true) : getAlias s = none := by
  rcases innerOK_cases h with ⟨n, rfl⟩ | rfl | rfl | ⟨rfl, _⟩ <;> rfl

/-- `Crate`: the first segments are equal. -/
theorem rootOK_of_beq {r : Bool} {a b : List Seg} (hwa : wfPath r a = true)
    (h : ∀ a0 b0, a.head? = some a0 → b.head? = some b0 → a0 = b0) : RootOK a b := by
  intro a0 b0 ha hb _
  have := h a0 b0 ha hb
  subst this
  refine ⟨fun _ _ => rfl, fun _ hl => ?_⟩
  cases a with
  | nil => simp at ha
  | cons z a' =>
    simp at ha; subst ha
    have : a' ≠ [] := by intro h; subst h; simp at hl
    rw [wfPath_cons_ne _ _ _ this, Bool.and_eq_true] at hwa
    exact innerOK_alias hwa.1

/-- `Module` (nested): equal lengths above one. -/
theorem rootOK_of_len {a b : List Seg} (h : a.length = b.length) (h1 : 1 < a.length) :
    RootOK a b := by
  intro a0 b0 _ _ _
  exact ⟨fun h' => by omega, fun h' => by omega⟩

/-- The path of the leaf of a terminal non-list segment. -/
def termPath (pre : List PSeg) : Seg → List PSeg
  | .ident n _ => pre ++ [.name n none]
  | .slf _ => if pre.isEmpty then [.slf none] else pre
  | .super _ => pre ++ [.super none]
  | .crate _ => pre ++ [.crate none]
  | .glob => pre ++ [.glob]
  | .list _ => pre

theorem leavesPath_terminal (pre : List PSeg) (x : Seg) (h : isList x = false) :
    leavesPath pre [x] = [⟨termPath pre x, getAlias x⟩] := by
  rw [leavesPath_single]
  cases x <;> simp_all [leavesLast, terminalLeaf, termPath, getAlias, isList]
  split <;> rfl

theorem termPath_eea (pre : List PSeg) {x y : Seg} (h : equalExceptAlias x y = true) :
    termPath pre x = termPath pre y := by
  cases x <;> cases y <;> simp_all [equalExceptAlias, termPath]

theorem eea_isList {x y : Seg} (h : equalExceptAlias x y = true) : isList x = isList y := by
  cases x <;> cases y <;> simp_all [equalExceptAlias, isList]

theorem aliasStem_false_of_prefix {x y : Leaf} (h : aliasStem x y = false) (hp : x.path <+: y.path) :
    x.alias = none := by
  simp only [aliasStem, Bool.and_eq_false_iff] at h
  rcases h with h | h
  · simpa using h
  · rw [← Bool.not_eq_true, List.isPrefixOf_iff_prefix] at h; exact absurd hp h

/-- `One`: from the alias-stem hypothesis on the leaves. -/
theorem rootOK_one {r : Bool} {pre : List PSeg} {a b : List Seg} (hoa : okPath r a = true)
    (hob : okPath r b = true) (hroot : r = true → pre = [])
    (hyp : (leavesPath pre a ++ leavesPath pre b).Pairwise
      (fun x y => aliasStem x y = false ∧ aliasStem y x = false)) : RootOK a b := by
  intro a0 b0 ha hb he
  obtain ⟨a', rfl⟩ : ∃ a', a = a0 :: a' := by
    cases a with
    | nil => simp at ha
    | cons z a' => simp at ha; subst ha; exact ⟨a', rfl⟩
  obtain ⟨b', rfl⟩ : ∃ b', b = b0 :: b' := by
    cases b with
    | nil => simp at hb
    | cons z b' => simp at hb; subst hb; exact ⟨b', rfl⟩
  have hcross := (List.pairwise_append.1 hyp).2.2
  constructor
  · intro hla hlb
    have : a' = [] := by simpa using hla
    subst this
    have : b' = [] := by simpa using hlb
    subst this
    by_cases hl : isList a0 = true
    · have hl' := eea_isList he ▸ hl
      cases a0 <;> cases b0 <;> simp_all [isList, getAlias]
    · simp only [Bool.not_eq_true] at hl
      have hl' : isList b0 = false := eea_isList he ▸ hl
      rw [leavesPath_terminal pre a0 hl, leavesPath_terminal pre b0 hl'] at hcross
      have := hcross _ (List.mem_singleton.2 rfl) _ (List.mem_singleton.2 rfl)
      have h1 := aliasStem_false_of_prefix this.1 (by simp [termPath_eea pre he])
      have h2 := aliasStem_false_of_prefix this.2 (by simp [termPath_eea pre he])
      simp only at h1 h2
      rw [h1, h2]
  · intro hlb hla
    have : b' = [] := by simpa using hlb
    subst this
    have ha' : a' ≠ [] := by intro h; subst h; simp at hla
    have hai : innerOK r a0 = true := by
      have := okPath_wf hoa
      rw [wfPath_cons_ne _ _ _ ha', Bool.and_eq_true] at this
      exact this.1
    rw [terminal_as_self (eea_symm he) hai hroot] at hcross
    -- `a` has a leaf, and it extends `pre ++ [a0]`
    have hs := (okPath_append r [a0] a' ha').1 hoa
    have hla' : leavesPath pre (a0 :: a') = leavesPath (pre ++ [innerSeg a0]) a' := by
      rw [leavesPath_cons_ne _ _ _ ha', innerOK_not_list hai]; rfl
    have hne := leavesPath_ne a' _ (pre ++ [innerSeg a0]) ha' hs.2
    obtain ⟨z, hz⟩ := List.exists_mem_of_ne_nil _ hne
    have hzp := leavesPath_prefix a' _ z hz
    have := hcross z (by rw [hla']; exact hz) _ (List.mem_singleton.2 rfl)
    exact aliasStem_false_of_prefix this.2 hzp


theorem sharePrefixT_true {sp : SharedPrefix} {t u : Tree} (h : sharePrefixT sp t u = true) :
    t.path ≠ [] ∧ u.path ≠ [] ∧ sharePath sp t.path u.path = true := by
  unfold sharePrefixT at h
  split at h
  · simp at h
  · rename_i hc
    simp only [Bool.or_eq_true, List.isEmpty_iff, not_or] at hc
    exact ⟨hc.1, hc.2, h⟩

theorem sharePath_crate {a b : List Seg} (h : sharePath .crate a b = true) :
    ∀ a0 b0, a.head? = some a0 → b.head? = some b0 → a0 = b0 := by
  intro a0 b0 ha hb
  cases a <;> cases b <;> simp_all [sharePath]
  exact segBEq_eq _ _ h

theorem sharePath_module {a b : List Seg} (h : sharePath .module a b = true) (ha : a ≠ [])
    (hb : b ≠ []) : a.length = b.length := by
  simp only [sharePath] at h
  have := congrArg List.length (pathBEq_eq _ _ h)
  simp only [List.length_dropLast] at this
  have h1 : 0 < a.length := List.length_pos_iff.2 ha
  have h2 : 0 < b.length := List.length_pos_iff.2 hb
  omega

theorem mem_of_getElem? {α} {l : List α} {i : Nat} {t : α} (h : l[i]? = some t) : t ∈ l :=
  List.mem_of_getElem? h

theorem hyp_at {sp : SharedPrefix} {pre : List PSeg} {trees : List Tree} {u t : Tree} {i : Nat}
    (hti : trees[i]? = some t) (hyp : HypN sp (leavesTrees pre trees ++ leavesTree pre u)) :
    HypN sp (leavesPath pre t.path ++ leavesPath pre u.path) := by
  obtain ⟨A, B, hAB, _⟩ := getElem?_split hti
  rw [← leavesTree_eq, ← leavesTree_eq]
  apply hypN_sub hyp
  rw [hAB, leavesTrees_append, leavesTrees_cons]
  apply List.Sublist.append _ (List.Sublist.refl _)
  exact (List.sublist_append_left _ _).trans (List.sublist_append_right _ _)

theorem innerSpec_succ (cmp : Tree → Tree → Ordering) (sp : SharedPrefix) (fuel : Nat)
    (hR : RestSpec cmp sp fuel) : InnerSpec cmp sp (fuel + 1) := by
  intro trees u trees' r pre h ht hu hroot hyp
  unfold mergeInner at h
  simp only [] at h
  obtain ⟨hune, huok⟩ := (okTree_iff _ _).1 hu
  split at h
  · rename_i hc
    simp only [Bool.and_eq_true, beq_iff_eq] at hc
    split at h
    · -- an identical one-segment tree is already there: `use_tree` is dropped
      rename_i hany
      simp only [Except.ok.injEq] at h; subst h
      simp only [List.any_eq_true, Bool.and_eq_true, beq_iff_eq] at hany
      obtain ⟨t, htm, hs, hl⟩ := hany
      rw [hc.2] at hs
      obtain ⟨_, _, hsp⟩ := sharePrefixT_true hs
      have heq : t = u := by
        cases t with | mk p => cases u with | mk q =>
        simp only [Tree.path] at hsp hl hc
        have h0 := sharePath_crate hsp
        match p, q, hl, hc.1, h0 with
        | [x], [y], _, _, h0 => rw [h0 x y rfl rfl]
      refine ⟨ht, by intro h; subst h; simp at htm, Or.inr ⟨List.Perm.refl _, ?_⟩⟩
      intro x hx
      exact mem_leavesTrees.2 ⟨t, htm, heq ▸ hx⟩
    · simp only [Except.ok.injEq] at h; subst h
      exact pushSort_spec cmp pre ht hu
  · split at h
    · -- One
      rename_i hone
      simp only [beq_iff_eq] at hone
      split at h
      · rename_i i k hmax
        split at h
        · refine mergeAt_spec cmp sp fuel hR h ht hu hroot hyp ?_
          intro t hti
          obtain ⟨_, htok⟩ := (okTree_iff _ _).1 (ht t (mem_of_getElem? hti))
          exact rootOK_one htok huok hroot (hyp_at hti hyp hone)
        · simp only [Except.ok.injEq] at h; subst h
          exact pushSort_spec cmp pre ht hu
      · simp only [Except.ok.injEq] at h; subst h
        exact pushSort_spec cmp pre ht hu
    · -- Crate (longer `use_tree`) and Module
      rename_i hc hone
      simp only [beq_iff_eq] at hone
      split at h
      · rename_i i k hmax
        split at h
        · rename_i hk
          refine mergeAt_spec cmp sp fuel hR h ht hu hroot hyp ?_
          intro t hti
          obtain ⟨t', hti', hs, hkey⟩ := lastMaxIdx_found hmax
          rw [hti] at hti'
          simp only [Option.some.injEq] at hti'
          subst hti'
          obtain ⟨htne, htok⟩ := (okTree_iff _ _).1 (ht t (mem_of_getElem? hti))
          obtain ⟨_, _, hsp⟩ := sharePrefixT_true hs
          cases sp with
          | crate => exact rootOK_of_beq (okPath_wf htok) (sharePath_crate hsp)
          | module =>
            have := sharePath_module hsp htne hune
            exact rootOK_of_len this (by omega)
          | one => exact absurd rfl hone
        · simp only [Except.ok.injEq] at h; subst h
          exact pushSort_spec cmp pre ht hu
      · simp only [Except.ok.injEq] at h; subst h
        exact pushSort_spec cmp pre ht hu

/-- Both specifications, for every fuel. -/
theorem merge_specs (cmp : Tree → Tree → Ordering) (sp : SharedPrefix) :
    ∀ fuel, RestSpec cmp sp fuel ∧ InnerSpec cmp sp fuel := by
  intro fuel
  induction fuel with
  | zero =>
    constructor
    · intro a b len res r pre h; simp [mergeRest] at h
    · intro trees u trees' r pre h; simp [mergeInner] at h
  | succ fuel ih => exact ⟨restSpec_succ cmp sp fuel ih.2, innerSpec_succ cmp sp fuel ih.1⟩


/-! ### top level: preliminaries -/

mutual
theorem wfLast_ne : ∀ (s : Seg) (r : Bool), wfLast r s = true → neSeg s = true
  | .list l, r, h => by simp only [wfLast] at h; simp only [neSeg]; exact wfTrees_ne l r h
  | .ident .., _, _ | .slf _, _, _ | .super _, _, _ | .crate _, _, _ | .glob, _, _ => by simp [neSeg]
theorem wfTree_ne : ∀ (t : Tree) (r : Bool), wfTree r t = true → neTree t = true
  | .mk p, r, h => by
    simp only [wfTree, Bool.and_eq_true] at h
    simp only [neTree, Bool.and_eq_true]
    exact ⟨h.1, wfPath_ne p r h.2⟩
theorem wfPath_ne : ∀ (p : List Seg) (r : Bool), wfPath r p = true → nePath p = true
  | [], _, _ => by simp [nePath]
  | [s], r, h => by
    rw [wfPath_single] at h
    simp only [nePath, Bool.and_true]
    exact wfLast_ne s r h
  | s :: t :: q, r, h => by
    rw [wfPath_cons_ne _ _ _ (by simp), Bool.and_eq_true] at h
    have h1 : neSeg s = true := by
      rcases innerOK_cases h.1 with ⟨n, rfl⟩ | rfl | rfl | ⟨rfl, _⟩ <;> simp [neSeg]
    have h2 := wfPath_ne (t :: q) false h.2
    simp only [nePath, Bool.and_eq_true] at h2 ⊢
    exact ⟨h1, h2⟩
theorem wfTrees_ne : ∀ (l : List Tree) (r : Bool), wfTrees r l = true → neTrees l = true
  | [], _, _ => by simp [neTrees]
  | t :: l, r, h => by
    simp only [wfTrees, Bool.and_eq_true] at h
    simp only [neTrees, Bool.and_eq_true]
    exact ⟨wfTree_ne t r h.1, wfTrees_ne l r h.2⟩
end

/- `flatten` keeps paths well-formed and leafy. -/
mutual
theorem flattenLast_ok : ∀ (s : Seg) (r : Bool), okPath r [s] = true →
    ∀ q ∈ flattenLast s, q ≠ [] ∧ okPath r q = true
  | .list l, r, h, q, hq => by
    simp only [flattenLast] at hq
    split at hq
    · simp only [List.mem_singleton] at hq; subst hq; exact ⟨by simp, h⟩
    · exact flattenTrees_ok l r ((okPath_list r l).1 h).2 q hq
  | .ident n a, r, h, q, hq | .slf a, r, h, q, hq | .super a, r, h, q, hq | .crate a, r, h, q, hq
  | .glob, r, h, q, hq => by
    simp only [flattenLast, List.mem_singleton] at hq; subst hq; exact ⟨by simp, h⟩
theorem flattenTree_ok : ∀ (t : Tree) (r : Bool), okTree r t = true →
    ∀ q ∈ flattenTree t, q ≠ [] ∧ okPath r q = true
  | .mk p, r, h, q, hq => by
    have := (okTree_iff r (.mk p)).1 h
    simp only [flattenTree] at hq
    exact flattenPath_ok p r this.1 this.2 q hq
theorem flattenPath_ok : ∀ (p : List Seg) (r : Bool), p ≠ [] → okPath r p = true →
    ∀ q ∈ flattenPath p, q ≠ [] ∧ okPath r q = true
  | [], _, h, _, _, _ => absurd rfl h
  | [s], r, _, h, q, hq => by rw [flattenPath_single] at hq; exact flattenLast_ok s r h q hq
  | s :: t :: p, r, _, h, q, hq => by
    have hs := (okPath_append r [s] (t :: p) (by simp)).1 h
    rw [flattenPath_cons_cons, List.mem_map] at hq
    obtain ⟨q', hq', rfl⟩ := hq
    have := flattenPath_ok (t :: p) _ (by simp) hs.2 q' hq'
    exact ⟨by simp, (okPath_append r [s] q' this.1).2 ⟨hs.1, this.2⟩⟩
theorem flattenTrees_ok : ∀ (l : List Tree) (r : Bool), (∀ t ∈ l, okTree r t = true) →
    ∀ q ∈ flattenTrees l, q ≠ [] ∧ okPath r q = true
  | [], _, _, q, hq => by simp [flattenTrees] at hq
  | t :: l, r, h, q, hq => by
    simp only [flattenTrees, List.mem_append] at hq
    rcases hq with hq | hq
    · exact flattenTree_ok t r (h t (by simp)) q hq
    · exact flattenTrees_ok l r (fun t' ht' => h t' (by simp [ht'])) q hq
end

theorem nestPath_ok {r : Bool} {p : List Seg} (h : okPath r p = true) : okPath r (nestPath p) = true := by
  simp only [nestPath]
  split
  · rename_i a ha
    have hp := eq_dropLast_append ha
    generalize p.dropLast = init at hp
    subst hp
    have := (okPath_append r init [.slf a] (by simp)).1 h
    refine (okPath_append r init _ (by simp)).2 ⟨this.1, (okPath_list _ _).2 ⟨by simp, ?_⟩⟩
    intro t ht
    simp only [List.mem_singleton] at ht
    subst ht
    exact (okTree_iff _ _).2 ⟨by simp [Tree.path], okPath_single_nonlist _ _ rfl⟩
  · exact h

theorem nestPath_ne {p : List Seg} (h : p ≠ []) : nestPath p ≠ [] := by
  simp only [nestPath]
  split
  · simp
  · exact h

/-! `safePair` is symmetric; `pairwiseB` is `List.Pairwise`. -/

theorem safePair_symm (sp : SharedPrefix) (x y : ItemLeaf) (h : safePair sp x y = true) :
    safePair sp y x = true := by
  cases sp
  · rfl
  · simp only [safePair, Bool.not_eq_true', Bool.and_eq_false_iff, Bool.or_eq_false_iff] at h ⊢
    rcases h with h | h
    · left; rw [Bool.beq_comm]; exact h
    · right; exact ⟨h.2, h.1⟩
  · simp only [safePair, Bool.not_eq_true', Bool.and_eq_false_iff, Bool.or_eq_false_iff] at h ⊢
    rcases h with h | h
    · left; rw [Bool.beq_comm]; exact h
    · right; exact ⟨h.2, h.1⟩

theorem pairwiseB_iff {α} (r : α → α → Bool) (l : List α) :
    pairwiseB r l = true ↔ l.Pairwise (fun x y => r x y = true) := by
  induction l with
  | nil => simp [pairwiseB]
  | cons x l ih => simp [pairwiseB, ih, List.pairwise_cons]


/-! ### top level: one `merge` -/

/-- The safety relation as a `Prop`. -/
def SP (sp : SharedPrefix) (x y : ItemLeaf) : Prop := safePair sp x y = true

theorem SP_symm (sp : SharedPrefix) : ∀ x y, SP sp x y → SP sp y x := safePair_symm sp

/-- The leaves of the mergeable items of a list. -/
def M (res : List Item) : List ItemLeaf := runLeaves (res.filter mergeable)

theorem M_cons (t : Item) (res : List Item) :
    M (t :: res) = (if mergeable t then itemLeaves t else []) ++ M res := by
  simp only [M, List.filter_cons]
  split <;> simp [runLeaves]

def keyOf (it : Item) (l : Leaf) : ItemLeaf := ⟨it.vis.getD [], it.attrs, l⟩

theorem itemLeaves_eq (it : Item) : itemLeaves it = (leavesPath [] it.tree.path).map (keyOf it) := rfl

/-- Leaf-level hypothesis from the item-level one, for two items with the same key. -/
theorem hypN_of_SP {sp : SharedPrefix} {t f : Item} (hv : t.vis.getD [] = f.vis.getD [])
    (ha : t.attrs = f.attrs) (h : (itemLeaves t ++ itemLeaves f).Pairwise (SP sp)) :
    HypN sp (leavesPath [] t.tree.path ++ leavesPath [] f.tree.path) := by
  intro hone
  subst hone
  have hk : keyOf f = keyOf t := by funext l; simp [keyOf, hv, ha]
  rw [itemLeaves_eq, itemLeaves_eq, hk, ← List.map_append, List.pairwise_map] at h
  refine h.imp ?_
  intro x y hxy
  simp only [SP, safePair, keyOf, beq_self_eq_true, Bool.true_and, Bool.not_eq_true',
    Bool.or_eq_false_iff] at hxy
  exact hxy

theorem rootOK_top {sp : SharedPrefix} {t f : Item} (hv : t.vis.getD [] = f.vis.getD [])
    (ha : t.attrs = f.attrs) (hot : okPath true t.tree.path = true)
    (hof : okPath true f.tree.path = true) (htne : t.tree.path ≠ []) (hfne : f.tree.path ≠ [])
    (hs : sharePath sp t.tree.path f.tree.path = true)
    (h : (itemLeaves t ++ itemLeaves f).Pairwise (SP sp)) :
    RootOK t.tree.path f.tree.path := by
  cases sp with
  | crate => exact rootOK_of_beq (okPath_wf hot) (sharePath_crate hs)
  | one => exact rootOK_one hot hof (fun _ => rfl) (hypN_of_SP hv ha h rfl)
  | module =>
    have hlen := sharePath_module hs htne hfne
    by_cases h1 : 1 < t.tree.path.length
    · exact rootOK_of_len hlen h1
    · intro a0 b0 ha0 hb0 he
      refine ⟨fun hla hlb => ?_, fun _ h' => absurd h' h1⟩
      have hk : keyOf f = keyOf t := by funext l; simp [keyOf, hv, ha]
      rw [itemLeaves_eq, itemLeaves_eq, hk, ← List.map_append, List.pairwise_map] at h
      have hcross := (List.pairwise_append.1 h).2.2
      generalize t.tree.path = a at *
      generalize f.tree.path = b at *
      match a, b, hla, hlb, ha0, hb0 with
      | [x], [y], _, _, ha0, hb0 =>
        simp only [List.head?_cons, Option.some.injEq] at ha0 hb0
        subst ha0 hb0
        by_cases hl : isList x = true
        · have hl' := eea_isList he ▸ hl
          cases x <;> cases y <;> simp_all [isList, getAlias]
        · simp only [Bool.not_eq_true] at hl
          have hl' : isList y = false := eea_isList he ▸ hl
          rw [leavesPath_terminal [] x hl, leavesPath_terminal [] y hl'] at hcross
          have := hcross _ (List.mem_singleton.2 rfl) _ (List.mem_singleton.2 rfl)
          simp only [SP, safePair, keyOf, beq_self_eq_true, Bool.true_and, Bool.not_eq_true',
            Bool.or_eq_false_iff, rootTwin, termPath_eea [] he, Bool.and_eq_false_iff] at this
          have hlen1 : (termPath [] y).length = 1 := by
            cases y <;> simp_all [termPath, isList]
          simp only [hlen1, beq_self_eq_true, Bool.true_eq_false, false_or, bne_eq_false_iff_eq] at this
          exact this.1


/-- Invariant of `result`: every mergeable item has a well-formed leafy path. -/
def Inv (res : List Item) : Prop := ∀ t ∈ res, mergeable t = true → okPath true t.tree.path = true

theorem mergeItem_spec (cmp : Tree → Tree → Ordering) (sp : SharedPrefix) {t f t' : Item}
    (h : mergeItem cmp sp t f = .ok t') (hs : sharePrefix sp t f = true)
    (hot : okPath true t.tree.path = true) (hof : okPath true f.tree.path = true)
    (hfa : f.attrs = none) (hp : (itemLeaves t ++ itemLeaves f).Pairwise (SP sp)) :
    mergeable t' = true ∧ okPath true t'.tree.path = true ∧
      Absorbs (itemLeaves t') (itemLeaves t) (itemLeaves f) := by
  obtain ⟨hta, htc, hsv, htne, hfne, hsp⟩ := sharePrefix_true hs
  have hv := sameVis_key hsv
  have ha : t.attrs = f.attrs := by rw [hta, hfa]
  have hk : keyOf f = keyOf t := by funext l; simp [keyOf, hv, ha]
  unfold mergeItem mergePath at h
  generalize hm : mergeRest cmp sp (pathSize t.tree.path + 1) t.tree.path f.tree.path
    (prefixLen 0 t.tree.path f.tree.path) = res at h
  have hspec := fun o (ho : res = .ok o) => (merge_specs cmp sp _).1 _ _ _ o true [] (ho ▸ hm)
    (prefixLen_ok _ _) htne hfne hot hof (fun _ => rfl)
    (rootOK_top hv ha hot hof htne hfne hsp hp) (hypN_of_SP hv ha hp)
  cases res with
  | error e => simp at h
  | ok o =>
    have hspec := hspec o rfl
    cases o with
    | none =>
      simp only [Except.ok.injEq] at h; subst h
      simp only at hspec
      refine ⟨by simp [mergeable, hta, htc], hot, Or.inr ⟨List.Perm.refl _, ?_⟩⟩
      intro x hx
      rw [itemLeaves_eq, hk, List.mem_map] at hx
      obtain ⟨l, hl, rfl⟩ := hx
      exact List.mem_map.2 ⟨l, hspec l hl, rfl⟩
    | some p =>
      simp only [Except.ok.injEq] at h; subst h
      simp only at hspec
      obtain ⟨_, hpok, hab⟩ := hspec
      refine ⟨by simp [mergeable, hta, htc], hpok, ?_⟩
      have := hab.map (keyOf t)
      rw [itemLeaves_eq f, hk]
      exact this

/-- One step of the loop at imports.rs:234-247. -/
theorem absorb_step (cmp : Tree → Tree → Ordering) (sp : SharedPrefix) (f : Item)
    (hfm : mergeable f = true) (hof : okPath true f.tree.path = true) :
    ∀ (res res' : List Item), absorb cmp sp f res = .ok res' → Inv res →
      (M res ++ itemLeaves f).Pairwise (SP sp) →
      Inv res' ∧ Absorbs (M res') (M res) (itemLeaves f)
  | [], res', h, _, _ => by
    simp only [absorb, Except.ok.injEq] at h
    subst h
    have hm : mergeable (nestItem f) = true := hfm
    constructor
    · intro t ht _
      simp only [List.mem_singleton] at ht
      subst ht
      split
      · exact nestPath_ok hof
      · exact hof
    · apply Absorbs.of_perm
      split
      · simp [M, hm, runLeaves, nestItem_leaves]
      · simp [M, hfm, runLeaves]
  | t :: rest, res', h, hinv, hp => by
    simp only [absorb] at h
    have hfa : f.attrs = none := by
      simp only [mergeable, Bool.and_eq_true, Option.isNone_iff_eq_none] at hfm; exact hfm.2
    split at h
    · rename_i hs
      obtain ⟨hta, htc, _⟩ := sharePrefix_true hs
      have htm : mergeable t = true := by simp [mergeable, hta, htc]
      split at h
      · simp at h
      · rename_i t' ht'
        simp only [Except.ok.injEq] at h; subst h
        rw [M_cons, htm, if_pos rfl] at hp
        have hp' : (itemLeaves t ++ itemLeaves f).Pairwise (SP sp) := by
          refine hp.sublist ?_
          exact List.Sublist.append (List.sublist_append_left _ _) (List.Sublist.refl _)
        obtain ⟨h1, h2, h3⟩ := mergeItem_spec cmp sp ht' hs (hinv t (by simp) htm) hof hfa hp'
        constructor
        · intro x hx hxm
          rcases List.mem_cons.1 hx with rfl | hx
          · exact h2
          · exact hinv x (by simp [hx]) hxm
        · rw [M_cons, M_cons, htm, h1, if_pos rfl, if_pos rfl]
          have := Absorbs.frame [] (M rest) h3
          simpa using this
    · split at h
      · simp at h
      · rename_i rest' hr
        simp only [Except.ok.injEq] at h; subst h
        have hp' : (M rest ++ itemLeaves f).Pairwise (SP sp) := by
          refine hp.sublist ?_
          rw [M_cons]
          exact List.Sublist.append (List.sublist_append_right _ _) (List.Sublist.refl _)
        obtain ⟨h1, h2⟩ := absorb_step cmp sp f hfm hof rest rest' hr
          (fun x hx => hinv x (by simp [hx])) hp'
        constructor
        · intro x hx hxm
          rcases List.mem_cons.1 hx with rfl | hx
          · exact hinv x (by simp) hxm
          · exact h1 x hx hxm
        · rw [M_cons, M_cons]
          have := Absorbs.frame (if mergeable t = true then itemLeaves t else []) [] h2
          simpa using this


theorem absorbAll_step (cmp : Tree → Tree → Ordering) (sp : SharedPrefix) :
    ∀ (fs res res' : List Item) (S : List ItemLeaf), absorbAll cmp sp fs res = .ok res' → Inv res →
      (∀ f ∈ fs, mergeable f = true ∧ okPath true f.tree.path = true) →
      (M res ++ runLeaves fs ++ S).Pairwise (SP sp) →
      Inv res' ∧ SetEq (M res') (M res ++ runLeaves fs) ∧ (M res' ++ S).Pairwise (SP sp)
  | [], res, res', S, h, hinv, _, hp => by
    simp only [absorbAll, Except.ok.injEq] at h; subst h
    simp only [runLeaves_nil, List.append_nil] at hp ⊢
    exact ⟨hinv, SetEq.refl _, hp⟩
  | f :: fs, res, res', S, h, hinv, hf, hp => by
    simp only [absorbAll] at h
    split at h
    · simp at h
    · rename_i r1 hr1
      obtain ⟨hfm, hfo⟩ := hf f (by simp)
      rw [runLeaves_cons] at hp
      have hp1 : (M res ++ itemLeaves f).Pairwise (SP sp) := by
        refine hp.sublist ?_
        simp only [List.append_assoc]
        exact List.Sublist.append (List.Sublist.refl _) (List.sublist_append_left _ _)
      obtain ⟨hi1, hab⟩ := absorb_step cmp sp f hfm hfo res r1 hr1 hinv hp1
      have hp2 : (M r1 ++ runLeaves fs ++ S).Pairwise (SP sp) := by
        have hfr := Absorbs.frame [] (runLeaves fs ++ S) hab
        simp only [List.nil_append] at hfr
        rw [List.append_assoc]
        refine hfr.pairwise (SP_symm sp) ?_
        refine (List.Perm.pairwise_iff (fun {x y} => SP_symm sp x y) ?_).1 hp
        simp only [List.append_assoc]
        refine List.Perm.append_left _ ?_
        exact List.perm_append_comm.trans (by simp [List.append_assoc])
      obtain ⟨hi2, hse, hp3⟩ := absorbAll_step cmp sp fs r1 res' S h hi1
        (fun f' hf' => hf f' (by simp [hf'])) hp2
      refine ⟨hi2, ?_, hp3⟩
      refine hse.trans ?_
      rw [runLeaves_cons, ← List.append_assoc]
      exact SetEq.append hab.setEq (SetEq.refl _)

theorem flattenItem_ok (g : Granularity) (t : Item) (htm : mergeable t = true)
    (hot : okPath true t.tree.path = true) :
    (∀ f ∈ flattenItem g t, mergeable f = true ∧ okPath true f.tree.path = true) ∧
      runLeaves (flattenItem g t) = itemLeaves t := by
  have hta : t.attrs = none := by
    simp only [mergeable, Bool.and_eq_true, Option.isNone_iff_eq_none] at htm; exact htm.2
  have htc : t.hasComment = false := by
    simp only [mergeable, Bool.and_eq_true, Bool.not_eq_true'] at htm; exact htm.1
  refine ⟨?_, flattenItem_leaves g t (wfPath_ne _ _ (okPath_wf hot)) (Or.inr hta)⟩
  intro f hf
  simp only [flattenItem] at hf
  split at hf
  · simp only [List.mem_singleton] at hf; subst hf; exact ⟨htm, hot⟩
  · rename_i hc
    simp only [Bool.or_eq_true, List.isEmpty_iff, not_or] at hc
    split at hf
    · split at hf
      · simp only [List.mem_singleton] at hf; subst hf; exact ⟨htm, hot⟩
      · simp only [List.mem_map] at hf
        obtain ⟨q, hq, rfl⟩ := hf
        refine ⟨by simp [mergeable, hta], ?_⟩
        exact (flattenPath_ok _ true hc.1 hot q hq).2
    · simp only [List.mem_singleton] at hf; subst hf; exact ⟨htm, hot⟩

theorem M_append (a b : List Item) : M (a ++ b) = M a ++ M b := by
  simp [M, runLeaves_append]

theorem mergeLoop_step (cmp : Tree → Tree → Ordering) (g : Granularity) (sp : SharedPrefix) :
    ∀ (its res res' : List Item), mergeLoop cmp g sp its res = .ok res' → Inv res →
      (∀ t ∈ its, mergeable t = true → okPath true t.tree.path = true) →
      (M res ++ M its).Pairwise (SP sp) → SetEq (M res') (M res ++ M its)
  | [], res, res', h, _, _, _ => by
    simp only [mergeLoop, Except.ok.injEq] at h; subst h
    simp [M, runLeaves]; exact SetEq.refl _
  | t :: ts, res, res', h, hinv, hok, hp => by
    simp only [mergeLoop] at h
    split at h
    · rename_i hprot
      have htm : mergeable t = false := by
        have : isProt t = true := hprot
        rw [isProt_eq_not_mergeable] at this
        simpa using this
      have hM : M (res ++ [t]) = M res := by simp [htm, M, runLeaves]
      have hM' : M (t :: ts) = M ts := by simp [M_cons, htm]
      have := mergeLoop_step cmp g sp ts (res ++ [t]) res' h
        (by
          intro x hx hxm
          rcases List.mem_append.1 hx with hx | hx
          · exact hinv x hx hxm
          · simp only [List.mem_singleton] at hx; subst hx; rw [htm] at hxm; simp at hxm)
        (fun x hx => hok x (by simp [hx])) (by rw [hM]; rw [hM'] at hp; exact hp)
      rw [hM] at this; rw [hM']; exact this
    · rename_i hprot
      have htm : mergeable t = true := by
        have : isProt t = false := by simpa [isProt] using hprot
        rw [isProt_eq_not_mergeable] at this
        simpa using this
      split at h
      · simp at h
      · rename_i r1 hr1
        obtain ⟨hfo, hfl⟩ := flattenItem_ok g t htm (hok t (by simp) htm)
        rw [M_cons, htm, if_pos rfl, ← hfl, ← List.append_assoc] at hp
        obtain ⟨hi1, hse, hp1⟩ := absorbAll_step cmp sp _ res r1 (M ts) hr1 hinv hfo hp
        have := mergeLoop_step cmp g sp ts r1 res' h hi1 (fun x hx => hok x (by simp [hx])) hp1
        refine this.trans ?_
        rw [M_cons, htm, if_pos rfl, ← hfl, ← List.append_assoc]
        exact SetEq.append hse (SetEq.refl _)

/-- The leaves of a run: those of the mergeable items and those of the protected ones. -/
theorem runLeaves_partition (l : List Item) :
    SetEq (runLeaves l) (M l ++ runLeaves (l.filter isProt)) := by
  intro x
  simp only [List.mem_append, M, mem_runLeaves, List.mem_filter]
  constructor
  · rintro ⟨it, hit, hx⟩
    cases hm : mergeable it
    · right; exact ⟨it, ⟨hit, by rw [isProt_eq_not_mergeable, hm]; rfl⟩, hx⟩
    · left; exact ⟨it, ⟨hit, hm⟩, hx⟩
  · rintro (⟨it, ⟨hit, _⟩, hx⟩ | ⟨it, ⟨hit, _⟩, hx⟩) <;> exact ⟨it, hit, hx⟩

def spOf : Granularity → Option SharedPrefix
  | .crate => some .crate
  | .module => some .module
  | .one => some .one
  | _ => none

/-- `Crate`/`Module`/`One`: under `safeRun` the keyed leaf set is preserved, and the items with
attributes or comments come out unchanged and in order. -/
theorem granularity_leaves (cmp : Tree → Tree → Ordering) (g : Granularity) (sp : SharedPrefix)
    (hg : spOf g = some sp) (its res : List Item) (h : withGranularity cmp g its = .ok res)
    (hs : safeRun sp its = true) :
    SetEq (runLeaves res) (runLeaves its) ∧ res.filter isProt = its.filter isProt := by
  have hloop : mergeLoop cmp g sp its [] = .ok res := by
    cases g <;> simp [spOf] at hg <;> subst hg <;> exact h
  simp only [safeRun, Bool.and_eq_true, List.all_eq_true, pairwiseB_iff] at hs
  obtain ⟨hwf, hpw⟩ := hs
  have hprot := mergeLoop_prot cmp g sp its [] res hloop
  simp only [List.filter_nil, List.nil_append] at hprot
  refine ⟨?_, hprot⟩
  have hM := mergeLoop_step cmp g sp its [] res hloop (fun _ h => by simp at h)
    (fun t ht htm => by
      have := hwf t (List.mem_filter.2 ⟨ht, htm⟩)
      simpa [wfItem, okPath] using this)
    (by simp only [M, runLeaves_nil, List.filter_nil, List.nil_append]; exact hpw)
  refine (runLeaves_partition res).trans (SetEq.trans ?_ (runLeaves_partition its).symm)
  rw [hprot]
  refine SetEq.append ?_ (SetEq.refl _)
  simpa [M, runLeaves] using hM


/-! ### totality: the panics of `merge_rest` are unreachable, the fuel suffices -/

theorem pathSize_getElem {a : List Seg} {i : Nat} {l : List Tree} (h : a[i]? = some (.list l)) :
    1 + treesSize l ≤ pathSize a := by
  induction a generalizing i with
  | nil => simp at h
  | cons s r ih =>
    cases i with
    | zero => simp at h; subst h; simp [pathSize, segSize]
    | succ i =>
      simp only [List.getElem?_cons_succ] at h
      have := ih h
      simp only [pathSize]; omega

def RestTotal (cmp : Tree → Tree → Ordering) (sp : SharedPrefix) (fuel : Nat) : Prop :=
  ∀ (a b : List Seg) (len : Nat), pathSize a < fuel → a ≠ [] → b ≠ [] → len ≤ a.length →
    len ≤ b.length → ∃ res, mergeRest cmp sp fuel a b len = .ok res

def InnerTotal (cmp : Tree → Tree → Ordering) (sp : SharedPrefix) (fuel : Nat) : Prop :=
  ∀ (trees : List Tree) (u : Tree), treesSize trees < fuel →
    ∃ res, mergeInner cmp sp fuel trees u = .ok res

theorem restTotal_succ (cmp sp fuel) (hI : InnerTotal cmp sp fuel) : RestTotal cmp sp (fuel + 1) := by
  intro a b len hsz hane hbne hla hlb
  unfold mergeRest
  split
  · exact ⟨_, rfl⟩
  · split
    · rename_i _ hc
      simp only [Bool.and_eq_true, bne_iff_ne, ne_eq] at hc
      split
      · rename_i hn; simp at hn; omega
      · rename_i list hal
        have := pathSize_getElem hal
        obtain ⟨r, hr⟩ := hI list (.mk (b.drop len)) (by omega)
        rw [hr]; exact ⟨_, rfl⟩
      · exact ⟨_, rfl⟩
    · split
      · cases a with
        | nil => exact absurd rfl hane
        | cons a0 a' =>
          cases b with
          | nil => exact absurd rfl hbne
          | cons b0 b' => exact ⟨_, rfl⟩
      · rename_i hc1 hc2 hl1
        split
        · -- `len = 0`: one of the paths would be empty
          exfalso
          simp only [Bool.and_eq_true, beq_iff_eq, not_and] at hc1
          simp only [Bool.and_eq_true, bne_iff_ne, ne_eq, not_and, Decidable.not_not] at hc2
          have h1 : 0 < a.length := List.length_pos_iff.2 hane
          have h2 : 0 < b.length := List.length_pos_iff.2 hbne
          by_cases h : a.length = 0
          · omega
          · have := hc2 h; omega
        · exact ⟨_, rfl⟩

theorem innerTotal_succ (cmp sp fuel) (hR : RestTotal cmp sp fuel) : InnerTotal cmp sp (fuel + 1) := by
  intro trees u hsz
  have hat : ∀ (i k : Nat) (key : Tree → Nat),
      lastMaxIdx (fun t => sharePrefixT sp t u) key trees 0 none = some (i, k) →
      ∃ res, (match trees[i]? with
        | none => Except.error Err.panic
        | some t =>
          match mergeRest cmp sp fuel t.path u.path (prefixLen 0 t.path u.path) with
          | Except.error e => Except.error e
          | Except.ok none => Except.ok trees
          | Except.ok (some p) => Except.ok (trees.set i (Tree.mk p))) = Except.ok res := by
    intro i k key hmax
    obtain ⟨t, hti, hs, _⟩ := lastMaxIdx_found hmax
    obtain ⟨htne, hune, _⟩ := sharePrefixT_true hs
    rw [hti]
    have hsz' := treeSize_le_of_mem (mem_of_getElem? hti)
    rw [treeSize_eq] at hsz'
    obtain ⟨r, hr⟩ := hR t.path u.path (prefixLen 0 t.path u.path) (by omega) htne hune
      (prefixLen_ok _ _).1 (prefixLen_ok _ _).2.1
    simp only [hr]
    cases r <;> exact ⟨_, rfl⟩
  unfold mergeInner
  simp only []
  split
  · split <;> exact ⟨_, rfl⟩
  · split
    · split
      · rename_i i k hmax
        split
        · exact hat i k _ hmax
        · exact ⟨_, rfl⟩
      · exact ⟨_, rfl⟩
    · split
      · rename_i i k hmax
        split
        · exact hat i k _ hmax
        · exact ⟨_, rfl⟩
      · exact ⟨_, rfl⟩

theorem merge_total (cmp : Tree → Tree → Ordering) (sp : SharedPrefix) :
    ∀ fuel, RestTotal cmp sp fuel ∧ InnerTotal cmp sp fuel := by
  intro fuel
  induction fuel with
  | zero => exact ⟨fun a _ _ h => by omega, fun t _ h => by omega⟩
  | succ fuel ih => exact ⟨restTotal_succ cmp sp fuel ih.2, innerTotal_succ cmp sp fuel ih.1⟩

theorem mergeItem_total (cmp sp) (t f : Item) (hs : sharePrefix sp t f = true) :
    ∃ t', mergeItem cmp sp t f = .ok t' := by
  obtain ⟨_, _, _, htne, hfne, _⟩ := sharePrefix_true hs
  unfold mergeItem mergePath
  obtain ⟨r, hr⟩ := (merge_total cmp sp _).1 t.tree.path f.tree.path
    (prefixLen 0 t.tree.path f.tree.path) (Nat.lt_succ_self _) htne hfne
    (prefixLen_ok _ _).1 (prefixLen_ok _ _).2.1
  rw [hr]
  cases r <;> exact ⟨_, rfl⟩

theorem absorb_total (cmp sp) (f : Item) : ∀ res, ∃ res', absorb cmp sp f res = .ok res'
  | [] => ⟨_, rfl⟩
  | t :: rest => by
    simp only [absorb]
    split
    · rename_i hs
      obtain ⟨t', ht'⟩ := mergeItem_total cmp sp t f hs
      rw [ht']; exact ⟨_, rfl⟩
    · obtain ⟨r, hr⟩ := absorb_total cmp sp f rest
      rw [hr]; exact ⟨_, rfl⟩

theorem absorbAll_total (cmp sp) : ∀ fs res, ∃ res', absorbAll cmp sp fs res = .ok res'
  | [], res => ⟨_, rfl⟩
  | f :: fs, res => by
    simp only [absorbAll]
    obtain ⟨r, hr⟩ := absorb_total cmp sp f res
    rw [hr]
    exact absorbAll_total cmp sp fs r

theorem mergeLoop_total (cmp g sp) : ∀ its res, ∃ res', mergeLoop cmp g sp its res = .ok res'
  | [], res => ⟨_, rfl⟩
  | t :: ts, res => by
    simp only [mergeLoop]
    split
    · exact mergeLoop_total cmp g sp ts _
    · obtain ⟨r, hr⟩ := absorbAll_total cmp sp (flattenItem g t) res
      rw [hr]
      exact mergeLoop_total cmp g sp ts r

/-- `normalize_use_trees_with_granularity` never panics (the `unreachable`/underflow/index sites of
`merge_rest` are not reachable from it) and the model's fuel always suffices. -/
theorem granularity_total (cmp : Tree → Tree → Ordering) (g : Granularity) (its : List Item) :
    ∃ res, withGranularity cmp g its = .ok res := by
  cases g
  · exact ⟨_, rfl⟩
  · exact mergeLoop_total cmp _ _ its []
  · exact mergeLoop_total cmp _ _ its []
  · exact ⟨_, rfl⟩
  · exact mergeLoop_total cmp _ _ its []


/-! ### the whole `use` arm of `rewrite_reorderable_or_regroupable_items` -/

theorem flatten_filter_nonempty {α} (gs : List (List α)) :
    (gs.filter (fun g => !g.isEmpty)).flatten = gs.flatten := by
  induction gs with
  | nil => rfl
  | cons g gs ih =>
    cases g with
    | nil => simp [ih]
    | cons x g => simp [ih]

theorem flatten_map_sort_perm {α} (cmp : α → α → Ordering) (gs : List (List α)) :
    ((gs.map (RF.Sort.stableSort cmp)).flatten).Perm gs.flatten := by
  induction gs with
  | nil => exact List.Perm.refl _
  | cons g gs ih =>
    simp only [List.map_cons, List.flatten_cons]
    exact (stableSort_perm cmp g).append ih

theorem runLeaves_perm {a b : List Item} (h : a.Perm b) : (runLeaves a).Perm (runLeaves b) :=
  h.flatMap_right _

theorem granularity_safe (cmp : Tree → Tree → Ordering) (g : Granularity) (its res : List Item)
    (h : withGranularity cmp g its = .ok res) (hs : safeFor g its = true) :
    SetEq (runLeaves res) (runLeaves its) := by
  cases g with
  | preserve => simp only [withGranularity, Except.ok.injEq] at h; subst h; exact SetEq.refl _
  | item =>
    simp only [withGranularity, Except.ok.injEq] at h; subst h
    simp only [safeFor] at hs
    exact granularity_item_leaves its hs
  | crate => exact (granularity_leaves cmp .crate .crate rfl its res h hs).1
  | module => exact (granularity_leaves cmp .module .module rfl its res h hs).1
  | one => exact (granularity_leaves cmp .one .one rfl its res h hs).1

theorem run_leaves (cmp : Tree → Tree → Ordering) (g : Granularity) (gt : GroupTactic)
    (reorder : Bool) (items normalized : List Item) (groups : List (List Item))
    (hn : mapE (normalizeItem cmp) items = .ok normalized)
    (h : rewriteUseRun cmp g gt reorder items = .ok groups)
    (hwf : normalizable items = true) (hs : safeFor g normalized = true) :
    SetEq (runLeaves groups.flatten) (runLeaves items) := by
  unfold rewriteUseRun at h
  rw [hn] at h
  simp only at h
  split at h
  · simp at h
  · rename_i merged hm
    simp only [Except.ok.injEq] at h
    subst h
    rw [flatten_filter_nonempty]
    have hnorm : SetEq (runLeaves normalized) (runLeaves items) := by
      simp only [runLeaves]
      apply mapE_flatMap_setEq _ _ _ _ _ hn
      intro it hit it' hit'
      simp only [normalizable, List.all_eq_true, Bool.and_eq_true, Bool.not_eq_true'] at hwf
      exact (normalizeItem_leaves cmp it it' hit' (hwf it hit).1 (hwf it hit).2).1
    refine SetEq.trans ?_ ((granularity_safe cmp g normalized merged hm hs).trans hnorm)
    apply SetEq.of_perm
    apply runLeaves_perm
    have hg : (match gt with
        | .stdExternalCrate => groupImports merged
        | _ => [merged]).flatten.Perm merged := by
      cases gt
      · simp
      · exact (group_is_partition merged).2.1
      · simp
    split
    · exact (flatten_map_sort_perm _ _).trans hg
    · exact hg

/-! ### what `normalize` guarantees of its output (since it removes nested empty lists) -/

mutual
theorem wfLast_neSeg : ∀ (r : Bool) (s : Seg), wfLast r s = true → neSeg s = true
  | r, .list ts, h => by simp only [wfLast] at h; simp only [neSeg]; exact wfTrees_neTrees r ts h
  | _, .ident _ _, _ => rfl
  | _, .slf _, _ => rfl
  | _, .super _, _ => rfl
  | _, .crate _, _ => rfl
  | _, .glob, _ => rfl
theorem wfTree_neTree : ∀ (r : Bool) (t : Tree), wfTree r t = true → neTree t = true
  | r, .mk p, h => by
    simp only [wfTree, Bool.and_eq_true] at h
    simp only [neTree, Bool.and_eq_true]
    exact ⟨h.1, wfPath_nePath r p h.2⟩
theorem wfPath_nePath : ∀ (r : Bool) (p : List Seg), wfPath r p = true → nePath p = true
  | _, [], _ => rfl
  | r, [s], h => by
    simp only [wfPath] at h
    simp only [nePath, Bool.and_true]
    exact wfLast_neSeg r s h
  | r, s :: t :: q, h => by
    simp only [wfPath, Bool.and_eq_true] at h
    simp only [nePath, Bool.and_eq_true]
    refine ⟨?_, ?_⟩
    · have := innerOK_not_list h.1
      cases s <;> simp_all [neSeg, isList]
    · have := wfPath_nePath false (t :: q) h.2
      simpa [nePath] using this
theorem wfTrees_neTrees : ∀ (r : Bool) (ts : List Tree), wfTrees r ts = true → neTrees ts = true
  | _, [], _ => rfl
  | r, t :: ts, h => by
    simp only [wfTrees, Bool.and_eq_true] at h
    simp only [neTrees, Bool.and_eq_true]
    exact ⟨wfTree_neTree r t h.1, wfTrees_neTrees r ts h.2⟩
end

theorem leafyTrees_of_forall : ∀ {ts : List Tree}, (∀ t ∈ ts, leafyTree t = true) → leafyTrees ts = true
  | [], _ => by simp [leafyTrees]
  | t :: ts, h => by
    simp only [leafyTrees, Bool.and_eq_true]
    exact ⟨h t (by simp), leafyTrees_of_forall (fun u hu => h u (by simp [hu]))⟩

theorem leafySeg_of_not_list {s : Seg} (h : ∀ ts, s = .list ts → False) : leafySeg s = true := by
  cases s <;> simp_all [leafySeg]

/-- A declaration without attributes is normalised to a path without empty lists. -/
theorem normPath_leafy (cmp : Tree → Tree → Ordering) :
    ∀ (fuel : Nat) (hasAttrs hasVis : Bool) (path q : List Seg) (r : Bool), hasAttrs = false →
      normPath cmp fuel hasAttrs hasVis path = .ok q → wfPath r path = true → leafyPath q = true := by
  intro fuel
  induction fuel with
  | zero => intro _ _ _ _ _ _ h; simp [normPath] at h
  | succ fuel ih =>
    intro hasAttrs hasVis path q r ha h hwf
    rw [normPath] at h
    split at h
    · simp at h
    · rename_i last hlast
      have hp := eq_dropLast_append hlast
      generalize path.dropLast = rest at hp h
      subst hp
      rw [wfPath_append _ _ _ (by simp), wfPath_single, Bool.and_eq_true] at hwf
      obtain ⟨hin, hwl⟩ := hwf
      have hrest := innerAll_leafy hin
      simp only [] at h
      split at h
      · simp only [Except.ok.injEq] at h; subst h; simp [leafyPath]
      · rename_i hnotempty
        split at h
        · simp only [Except.ok.injEq] at h; subst h; simp [leafyPath]
        · split at h
          · simp only [Except.ok.injEq] at h; subst h; exact hrest
          · split at h
            · rename_i rename n hlr _ _
              simp only [Except.ok.injEq] at h; subst h
              have hp := eq_dropLast_append hlr
              generalize rest.dropLast = init at hp
              subst hp
              rw [leafyPath_append, Bool.and_eq_true] at hrest
              rw [leafyPath_append, hrest.1]
              simp [leafyPath, leafySeg]
            · split at h
              · rename_i l _ _ _
                split at h
                · rename_i t ht
                  obtain ⟨rfl, _⟩ := soleSplice_some ht
                  simp only [wfLast, wfTrees, Bool.and_true] at hwl
                  obtain ⟨htne, htwf⟩ := wfTree_path hwl
                  exact ih _ _ _ _ r ha h (by rw [wfPath_append _ _ _ htne, hin, htwf]; rfl)
                · split at h
                  · simp at h
                  · rename_i l2 hl2
                    split at h
                    · exact ih _ _ _ _ r ha h (norm_list_wf cmp fuel r rest l l2 hin hwl hl2)
                    · rename_i hnlt
                      simp only [Except.ok.injEq] at h; subst h
                      rw [leafyPath_append, hrest]
                      simp only [leafyPath, leafySeg, Bool.and_true, Bool.true_and, Bool.and_eq_true,
                        Bool.not_eq_true', List.isEmpty_eq_false_iff]
                      have hlen := mapE_length _ _ _ hl2
                      have hl_ne : l ≠ [] := by
                        intro he; subst he
                        simp [isEmptyListSeg, ha] at hnotempty
                      refine ⟨?_, ?_⟩
                      · intro he
                        have hz : (l2.filter (fun t => !t.path.isEmpty)).length = 0 := by
                          have := (stableSort_perm cmp (l2.filter (fun t => !t.path.isEmpty))).length_eq
                          rw [he] at this; simpa using this.symm
                        have : 0 < l.length := List.length_pos_iff.2 hl_ne
                        omega
                      · apply leafyTrees_of_forall
                        intro t ht
                        obtain ⟨htl, _⟩ := mem_sorted_kept ht
                        obtain ⟨t0, ht0, hf⟩ := mapE_mem _ _ _ hl2 t htl
                        obtain ⟨p2, hp2, rfl⟩ := except_map_ok hf
                        simp only [wfLast] at hwl
                        obtain ⟨_, htwf⟩ := wfTree_path (wfTrees_mem hwl t0 ht0)
                        simpa [leafyTree] using ih _ _ _ _ _ rfl hp2 htwf
              · rename_i hnl
                simp only [Except.ok.injEq] at h; subst h
                rw [leafyPath_append, hrest]
                simp [leafyPath, leafySeg_of_not_list hnl]

theorem mapE_forall {α β ε} (f : α → Except ε β) (P : β → Prop) :
    ∀ (l : List α) (l' : List β), mapE f l = .ok l' → (∀ a ∈ l, ∀ b, f a = .ok b → P b) →
      ∀ b ∈ l', P b := by
  intro l l' h hp b hb
  obtain ⟨a, ha, hf⟩ := mapE_mem f l l' h b hb
  exact hp a ha b hf

theorem pairwiseB_true {α} (r : α → α → Bool) (h : ∀ x y, r x y = true) : ∀ l : List α, pairwiseB r l = true
  | [] => rfl
  | x :: l => by simp [pairwiseB, h, pairwiseB_true r h l]

/-- Declarations as the parser builds them are normalised to declarations that satisfy the
hypothesis of the granularity step for `Preserve`, `Item` and `Crate`. -/
theorem normalized_safe (cmp : Tree → Tree → Ordering) (items normalized : List Item)
    (hn : mapE (normalizeItem cmp) items = .ok normalized) (hwf : normalizable items = true) :
    safeFor .preserve normalized = true ∧ safeFor .item normalized = true ∧
      safeFor .crate normalized = true := by
  have hall := mapE_forall (normalizeItem cmp)
    (fun it' : Item => wfPath true it'.tree.path = true ∧
      (it'.attrs = none → leafyPath it'.tree.path = true)) items normalized hn (by
    intro it hit it' h
    simp only [normalizable, List.all_eq_true, Bool.and_eq_true] at hwf
    have hw := (hwf it hit).1
    unfold normalizeItem at h
    split at h
    · simp at h
    · rename_i p hp
      simp only [Except.ok.injEq] at h; subst h
      refine ⟨normPath_wf cmp _ _ _ _ _ true hp hw, ?_⟩
      intro ha
      simp only [] at ha
      exact normPath_leafy cmp _ _ _ _ _ true (by simp [ha]) hp hw)
  refine ⟨rfl, ?_, ?_⟩
  · simp only [safeFor, neRun, List.all_eq_true]
    intro it' hit'
    exact wfPath_nePath true _ (hall it' hit').1
  · simp only [safeFor, safeRun, Bool.and_eq_true, List.all_eq_true]
    refine ⟨?_, pairwiseB_true _ (fun _ _ => rfl) _⟩
    intro it' hit'
    rw [List.mem_filter] at hit'
    simp only [mergeable, Bool.and_eq_true, Bool.not_eq_true', Option.isNone_iff_eq_none] at hit'
    simp only [wfItem, Bool.and_eq_true]
    exact ⟨(hall it' hit'.1).1, (hall it' hit'.1).2 hit'.2.2⟩

/-- The groups the arm renders are, flattened, a permutation of what the granularity step returned. -/
theorem run_perm (cmp : Tree → Tree → Ordering) (g : Granularity) (gt : GroupTactic)
    (reorder : Bool) (items normalized : List Item) (groups : List (List Item))
    (hn : mapE (normalizeItem cmp) items = .ok normalized)
    (h : rewriteUseRun cmp g gt reorder items = .ok groups) :
    ∃ merged, withGranularity cmp g normalized = .ok merged ∧ groups.flatten.Perm merged := by
  unfold rewriteUseRun at h
  rw [hn] at h
  simp only at h
  split at h
  · simp at h
  · rename_i merged hm
    simp only [Except.ok.injEq] at h
    subst h
    refine ⟨merged, hm, ?_⟩
    rw [flatten_filter_nonempty]
    have hg : (match gt with
        | .stdExternalCrate => groupImports merged
        | _ => [merged]).flatten.Perm merged := by
      cases gt
      · simp
      · exact (group_is_partition merged).2.1
      · simp
    split
    · exact (flatten_map_sort_perm _ _).trans hg
    · exact hg

/-- Whole arm, merging granularities: the items with attributes or comments are rendered exactly
as they were normalised (none merged, none split, none lost), up to their order. -/
theorem run_protected (cmp : Tree → Tree → Ordering) (g : Granularity) (sp : SharedPrefix)
    (hg : spOf g = some sp) (gt : GroupTactic) (reorder : Bool)
    (items normalized : List Item) (groups : List (List Item))
    (hn : mapE (normalizeItem cmp) items = .ok normalized)
    (h : rewriteUseRun cmp g gt reorder items = .ok groups) :
    (groups.flatten.filter isProt).Perm (normalized.filter isProt) := by
  obtain ⟨merged, hm, hp⟩ := run_perm cmp g gt reorder items normalized groups hn h
  have hloop : mergeLoop cmp g sp normalized [] = .ok merged := by
    cases g <;> simp [spOf] at hg <;> subst hg <;> exact hm
  have := mergeLoop_prot cmp g sp normalized [] merged hloop
  simp only [List.filter_nil, List.nil_append] at this
  rw [← this]
  exact hp.filter _

/-- The arm does not panic on well-formed, non-empty declarations (any configuration). -/
theorem run_total (cmp : Tree → Tree → Ordering) (g : Granularity) (gt : GroupTactic)
    (reorder : Bool) (items : List Item)
    (hwf : ∀ it ∈ items, wfPath true it.tree.path = true ∧ it.tree.path ≠ []) :
    ∃ groups, rewriteUseRun cmp g gt reorder items = .ok groups := by
  obtain ⟨normalized, hn⟩ := mapE_ok_of_forall (normalizeItem cmp) items
    (fun it hit => normalizeItem_ok cmp it (hwf it hit).1 (hwf it hit).2)
  obtain ⟨merged, hm⟩ := granularity_total cmp g normalized
  unfold rewriteUseRun
  rw [hn]
  simp only [hm]
  exact ⟨_, rfl⟩

/-! ### visibility -/

theorem append_colon_inj : ∀ (a b x y : List Char), a.contains ':' = false → b.contains ':' = false →
    a ++ ':' :: x = b ++ ':' :: y → a = b ∧ x = y
  | [], [], x, y, _, _, h => by simpa using h
  | [], c :: b, x, y, _, hb, h => by
    simp only [List.nil_append, List.cons_append, List.cons.injEq] at h
    simp [← h.1] at hb
  | c :: a, [], x, y, ha, _, h => by
    simp only [List.nil_append, List.cons_append, List.cons.injEq] at h
    simp [h.1] at ha
  | c :: a, d :: b, x, y, ha, hb, h => by
    simp only [List.cons_append, List.cons.injEq] at h
    simp only [List.contains_cons, Bool.or_eq_false_iff] at ha hb
    obtain ⟨h1, h2⟩ := append_colon_inj a b x y ha.2 hb.2 h.2
    exact ⟨by rw [h.1, h1], h2⟩

theorem pathToString_cons_cons (n m : List Char) (r : List (List Char)) :
    pathToString (n :: m :: r) = n ++ ':' :: ':' :: pathToString (m :: r) := rfl

theorem mem_of_eq_append_colon {n a x : List Char} (h : n = a ++ ':' :: x) : n.contains ':' = true := by
  subst h; simp

/-- `path_to_string` is injective on non-empty paths whose names contain no colon. -/
theorem pathToString_inj : ∀ (p q : List (List Char)), p ≠ [] → q ≠ [] →
    p.all (fun n => !n.contains ':') = true → q.all (fun n => !n.contains ':') = true →
    pathToString p = pathToString q → p = q
  | [], _, hp, _, _, _, _ => absurd rfl hp
  | _, [], _, hq, _, _, _ => absurd rfl hq
  | [n], [m], _, _, _, _, h => by simpa [pathToString] using h
  | [n], m :: m' :: r, _, _, hp, _, h => by
    simp only [pathToString] at h
    have := mem_of_eq_append_colon h
    simp only [List.all_cons, List.all_nil, Bool.and_true, Bool.not_eq_true'] at hp
    rw [hp] at this; exact absurd this (by simp)
  | n :: n' :: r, [m], _, _, _, hq, h => by
    simp only [pathToString] at h
    have := mem_of_eq_append_colon h.symm
    simp only [List.all_cons, List.all_nil, Bool.and_true, Bool.not_eq_true'] at hq
    rw [hq] at this; exact absurd this (by simp)
  | n :: n' :: r, m :: m' :: r', _, _, hp, hq, h => by
    rw [pathToString_cons_cons, pathToString_cons_cons] at h
    have hp' : (n' :: r).all (fun n => !n.contains ':') = true := by
      simp only [List.all_cons, Bool.and_eq_true] at hp ⊢; exact hp.2
    have hq' : (m' :: r').all (fun n => !n.contains ':') = true := by
      simp only [List.all_cons, Bool.and_eq_true] at hq ⊢; exact hq.2
    simp only [List.all_cons, Bool.and_eq_true, Bool.not_eq_true'] at hp hq
    obtain ⟨h1, h2⟩ := append_colon_inj n m _ _ hp.1 hq.1 h
    have h3 : pathToString (n' :: r) = pathToString (m' :: r') := by
      simpa using h2
    have := pathToString_inj (n' :: r) (m' :: r') (by simp) (by simp) hp' hq' h3
    rw [h1, this]

theorem visKey_nil_iff (v : Vis) : visKey v = [] ↔ v = .vinh := by
  cases v <;> simp [visKey]

/-- The literal comparison and equality of the keys `Item.vis` carries are the same thing. -/
theorem isSameVisibility_iff_key (a b : Vis) : isSameVisibility a b = true ↔ visKey a = visKey b := by
  cases a <;> cases b <;> simp [isSameVisibility, visKey]

theorem sameVisibility_eq_sameVis (a b : Option Vis) :
    sameVisibility a b = sameVis (a.map visKey) (b.map visKey) := by
  cases a with
  | none =>
    cases b with
    | none => rfl
    | some b => cases b <;> simp [sameVisibility, sameVis, visKey]
  | some a =>
    cases b with
    | none => cases a <;> simp [sameVisibility, sameVis, visKey]
    | some b =>
      have := isSameVisibility_iff_key a b
      cases h : isSameVisibility a b
      · have hne : ¬ visKey a = visKey b := by rw [← this]; simp [h]
        cases a <;> cases b <;> simp_all [sameVisibility, sameVis]
      · have he := this.1 h
        cases a <;> cases b <;> simp_all [sameVisibility, sameVis]

theorem isSameVisibility_iff_den (a b : Vis) (ha : visWF a = true) (hb : visWF b = true) :
    isSameVisibility a b = true ↔ visDen a = visDen b := by
  cases a <;> cases b <;> simp [isSameVisibility, visDen]
  rename_i p _ q _
  simp only [visWF, Bool.and_eq_true, Bool.not_eq_true', List.isEmpty_eq_false_iff] at ha hb
  constructor
  · exact pathToString_inj p q ha.1 hb.1 ha.2 hb.2
  · intro h; rw [h]

end RF.Lemmas.Imports
